(* C08 lemmas, part G: programs of several operations (plan_seq): every plan closes its transactions, a crash of a program
   is a crash of one of its operations after the completed ones; a crash anywhere in a multi-dataset put leaves a prefix of
   the datasets fully present and the rest fully absent; a crash anywhere in a transfer_from leaves the artifacts of a
   prefix of the refs under their final names and no rows. *)
From Coq Require Import NArith PeanoNat List Bool Lia.
From V Require Import Model.Crash Proofs.CrashProofsA Proofs.CrashProofsB Proofs.CrashProofsC Proofs.CrashProofsD Proofs.CrashProofsE
  Proofs.CrashProofsF.
Import ListNotations.
Open Scope N_scope.

(* ------------------------------------------------------------------ every plan closes the transactions it opens *)
Lemma plan_empty_closes : forall b ord m, ovl m = None -> ovl (run_steps m (plan_empty b ord)) = None.
Proof.
  intros b ord m O. destruct (plan_empty_cases b ord) as [[_ P]|[_ P]]; rewrite P; [exact O|].
  rewrite run_steps_app.
  destruct (deletes_run (order_by ord (inter (d_trash b) (d_recs b))) m) as (_ & B & _). cbn zeta in B.
  assert (O1 : ovl (run_steps m (map (fun d => FsDelete (Final d)) (order_by ord (inter (d_trash b) (d_recs b))))) = None)
    by (rewrite B; exact O).
  destruct (block_end [DelRecords (order_by ord (inter (d_trash b) (d_recs b))); DelTrash (order_by ord (inter (d_trash b) (d_recs b)))] _ O1)
    as (_ & B2 & _). exact B2.
Qed.

Lemma plan_closes : forall s o, ovl s = None -> ovl (run_steps s (plan s o)) = None.
Proof.
  intros s o O. destruct (insert_or_removal o) as [I|R].
  - destruct (insertion_shape s o I) as [E | (l & body & E & NM & _)]; rewrite E; [exact O|].
    destruct (txn_block_end body s NM O) as [_ B]. exact B.
  - unfold plan. destruct o; try discriminate; cbn [plan_body].
    + destruct (inter l (d_ds (cdb s))) as [|x r]; cbn [fst snd op_ord].
      * cbn [app]. apply plan_empty_closes, O.
      * rewrite run_steps_app. apply plan_empty_closes.
        destruct s as [c o f]. simpl in O. subst o. reflexivity.
    + destruct (inter (inter l (d_ds (cdb s))) (d_loc (cdb s))) as [|x r]; cbn [fst snd op_ord].
      * cbn [app]. apply plan_empty_closes, O.
      * rewrite run_steps_app. apply plan_empty_closes.
        destruct s as [c o f]. simpl in O. subst o. reflexivity.
    + destruct (inter (inter l (d_ds (cdb s))) (d_loc (cdb s))) as [|x r]; cbn [fst snd]; [exact O|].
      destruct s as [c o f]. simpl in O. subst o. reflexivity.
    + destruct (mem r (d_runs (cdb s))); cbn [fst snd op_ord]; [|exact O].
      rewrite run_steps_app. apply plan_empty_closes.
      destruct s as [c o f]. simpl in O. subst o. reflexivity.
    + cbn [fst snd op_ord app]. apply plan_empty_closes, O.
Qed.

Lemma run_op_steps : forall s o, ovl s = None -> run_op s o = run_steps s (plan s o).
Proof. intros s o O. unfold run_op. rewrite (recover_id s O). apply recover_id, plan_closes, O. Qed.

Lemma crash_zero : forall s p, ovl s = None -> crash s p 0 = s.
Proof. intros s p O. unfold crash. cbn [firstn run_steps fold_left]. apply recover_id, O. Qed.

(* a crash of a program = a crash of its first operation, or a crash of the rest after the first has completed *)
Lemma crash_seq_cons : forall s o r k, ovl s = None ->
  crash s (plan_seq s (o :: r)) k = crash s (plan s o) k
  \/ exists k', crash s (plan_seq s (o :: r)) k = crash (run_op s o) (plan_seq (run_op s o) r) k'.
Proof.
  intros s o r k O. cbn [plan_seq]. unfold crash. rewrite firstn_app.
  destruct (Nat.le_gt_cases k (length (plan s o))) as [L|L].
  - left. replace (k - length (plan s o))%nat with 0%nat by lia. cbn [firstn]. rewrite app_nil_r. reflexivity.
  - right. exists (k - length (plan s o))%nat. rewrite (firstn_all2 (plan s o)) by lia.
    rewrite run_steps_app. rewrite (run_op_steps s o O). reflexivity.
Qed.

(* ... hence of exactly one of its operations, started in the state the completed ones left *)
Lemma crash_seq_decompose : forall os s k, ovl s = None ->
  crash s (plan_seq s os) k = run s os
  \/ exists pre o post k', os = pre ++ o :: post /\ crash s (plan_seq s os) k = crash (run s pre) (plan (run s pre) o) k'.
Proof.
  induction os as [|o r IH]; intros s k O.
  - left. cbn [plan_seq run fold_left]. unfold crash. rewrite firstn_nil. cbn [run_steps fold_left]. apply recover_id, O.
  - destruct (crash_seq_cons s o r k O) as [E | (k' & E)].
    + right. exists [], o, r, k. split; [reflexivity | exact E].
    + rewrite E. destruct (IH (run_op s o) k' (ovl_run_op s o)) as [F | (pre & o' & post & k2 & F1 & F2)].
      * left. rewrite F. reflexivity.
      * right. exists (o :: pre), o', post, k2. split; [rewrite F1; reflexivity | rewrite F2; reflexivity].
Qed.

(* ------------------------------------------------------------------ a multi-dataset put *)
Lemma frames_put : forall s x v d, d <> x -> Forall (frames d) (plan s (Put x v)).
Proof.
  intros s x v d T. unfold plan. cbn [plan_body]. destruct (insert_ok (cdb s) [x]); [|constructor]. cbn [fst snd].
  assert (Q : (d =? x) = false) by (apply N.eqb_neq; exact T).
  constructor; [exact I|]. constructor; [simpl; rewrite Q; reflexivity|].
  apply frames_write_artifact; [auto|]. repeat constructor; simpl; rewrite Q; reflexivity.
Qed.

Lemma frames_plan_seq_puts : forall l s d, mem d (map fst l) = false -> Forall (frames d) (plan_seq s (map put_of l)).
Proof.
  induction l as [|[x v] r IH]; intros s d M; cbn [map plan_seq]; [constructor|].
  cbn [map fst mem] in M. destruct (N.eqb_spec d x) as [E|NE]; [discriminate|].
  apply Forall_app. split; [apply frames_put; exact NE | apply IH; exact M].
Qed.

Lemma insert_ok_cons : forall b d r, insert_ok b (d :: r) = true ->
  insert_ok b [d] = true /\ mem d r = false
  /\ insert_ok (apply_all [InsDataset [d]; InsLocation [d]; InsRecords [d]] b) r = true.
Proof.
  intros b d r H. unfold insert_ok in *. cbn [nodupb forallb] in H.
  apply andb_prop in H. destruct H as [H1 H2]. apply andb_prop in H1. destruct H1 as [N1 N2].
  apply andb_prop in H2. destruct H2 as [F1 F2]. apply negb_true_iff in N1.
  split; [cbn [nodupb forallb mem negb andb]; rewrite F1; reflexivity|]. split; [exact N1|].
  rewrite N2. cbn [andb]. rewrite forallb_forall in *. intros x Hx. specialize (F2 x Hx).
  unfold apply_all. cbn [fold_left apply_stmt d_runs d_ds]. rewrite mem_addl. cbn [mem].
  destruct (N.eqb_spec x d) as [E|NE].
  - subst x. apply mem_In in Hx. congruence.
  - cbn [orb]. exact F2.
Qed.

(* an id an insertion would accept and that is not pending has no row at all *)
Lemma absent_of_ok : forall s l d, good s -> insert_ok (cdb s) l = true -> mem d l = true ->
  mem d (d_trash (cdb s)) = false -> rows_absent s d.
Proof.
  intros s l d [O G] OK M T. pose proof (insert_ok_absent _ _ _ OK M) as A.
  destruct G as (G1 & G2 & G3 & G4 & G5). specialize (G4 d). specialize (G5 d).
  unfold rows_absent, recorded, knows. bits d. finish_bits.
Qed.

Lemma put_state_full : forall s d v, ovl s = None -> insert_ok (cdb s) [d] = true ->
  fully_present (run_op s (Put d v)) d v
  /\ cdb (run_op s (Put d v)) = apply_all [InsDataset [d]; InsLocation [d]; InsRecords [d]] (cdb s).
Proof.
  intros s d v O OK. rewrite (run_put_state s d v O OK). split; [|reflexivity].
  unfold fully_present, recorded, knows, apply_all. cbn [fold_left apply_stmt cdb fs d_ds d_loc d_recs d_trash d_runs].
  rewrite !mem_addl. cbn [mem]. rewrite N.eqb_refl. cbn [orb]. rewrite fget_fset_same. repeat split; reflexivity.
Qed.

Lemma multi_put_prefix_l : forall l s k, good s -> insert_ok (cdb s) (map fst l) = true ->
  (forall d, mem d (map fst l) = true -> mem d (d_trash (cdb s)) = false) ->
  let u := crash s (plan_seq s (map put_of l)) k in
  exists j, Forall (fun dv => fully_present u (fst dv) (snd dv)) (firstn j l)
            /\ Forall (fun dv => rows_absent u (fst dv)) (skipn j l).
Proof.
  induction l as [|[d v] r IH]; intros s k G OK NP u.
  - exists 0%nat. split; constructor.
  - pose proof G as [O Gd]. cbn [map fst] in OK, NP.
    destruct (insert_ok_cons _ _ _ OK) as (OK1 & Nd & OKr).
    assert (Fd : fresh_id s d).
    { assert (X : rows_absent s d) by (apply (absent_of_ok s (d :: map fst r)); auto; [cbn [mem]; rewrite N.eqb_refl; reflexivity | apply NP; cbn [mem]; rewrite N.eqb_refl; reflexivity]).
      destruct X as (_ & X2 & X3). split; assumption. }
    (* either the crash is inside the first put with no row yet, or the first put has completed *)
    assert (CASES : (Forall (fun dv => rows_absent u (fst dv)) ((d, v) :: r))
                    \/ exists k', u = crash (run_op s (Put d v)) (plan_seq (run_op s (Put d v)) (map put_of r)) k').
    { unfold u. cbn [map]. change (put_of (d, v)) with (Put d v).
      destruct (crash_seq_cons s (Put d v) (map put_of r) k O) as [E | (k' & E)]; [|right; exists k'; exact E].
      rewrite E.
      destruct (insertion_rows_atomic_l s (Put d v) k d O eq_refl) as [P0 | [AB | (_ & _ & _ & FIN)]];
        [cbn [is_target]; apply N.eqb_refl | exact Fd | | |].
      - exfalso. revert P0. unfold plan. cbn [plan_body]. rewrite OK1. discriminate.
      - left. constructor; [exact AB|]. apply Forall_forall. intros [x w] Hx. cbn [fst].
        assert (Mx : mem x (map fst r) = true) by (apply mem_In; apply (in_map fst) in Hx; exact Hx).
        assert (NEx : (x =? d) = false).
        { destruct (N.eqb_spec x d) as [Exd|]; [|reflexivity]. subst x. congruence. }
        assert (Tx : mem x (d_trash (cdb s)) = false) by (apply NP; cbn [mem]; rewrite NEx; exact Mx).
        destruct (bystander_intact_l s (Put d v) k x O NEx Tx) as (_ & B2 & B3 & _ & B5 & _). cbn zeta in *.
        assert (X : rows_absent s x) by (apply (absent_of_ok s (d :: map fst r)); auto; cbn [mem]; rewrite NEx; exact Mx).
        destruct X as (X1 & X2 & X3). unfold rows_absent. rewrite B2, B3, B5. auto.
      - right. exists 0%nat. rewrite FIN. rewrite crash_zero by reflexivity.
        unfold run_op. rewrite (recover_id s O). reflexivity. }
    destruct CASES as [AB | (k' & E)]; [exists 0%nat; split; [constructor | exact AB]|].
    set (s1 := run_op s (Put d v)) in *.
    destruct (put_state_full s d v O OK1) as (FP & C1). fold s1 in FP, C1.
    assert (G1 : good s1).
    { apply good_run_op_l; [exact G|]. intros _ x Tx _. cbn [is_target] in Tx. apply N.eqb_eq in Tx. subst x.
      apply NP. cbn [mem]. rewrite N.eqb_refl. reflexivity. }
    assert (OKr1 : insert_ok (cdb s1) (map fst r) = true) by (rewrite C1; exact OKr).
    assert (NP1 : forall x, mem x (map fst r) = true -> mem x (d_trash (cdb s1)) = false).
    { intros x Mx. rewrite C1. unfold apply_all. cbn [fold_left apply_stmt d_trash]. apply NP. cbn [mem]. rewrite Mx.
      destruct (x =? d); reflexivity. }
    destruct (IH s1 k' G1 OKr1 NP1) as (j & F1 & F2). cbn zeta in F1, F2. rewrite <- E in F1, F2.
    exists (S j). cbn [firstn skipn]. split; [|exact F2]. constructor; [|exact F1].
    (* the first dataset is a bystander of everything that follows *)
    cbn [fst snd].
    pose proof (frames_always d s1 (plan_seq s1 (map put_of r)) (ovl_run_op s (Put d v)) (frames_plan_seq_puts r s1 d Nd) k')
      as ((A1 & A2 & A3 & A4) & _ & Cf).
    destruct FP as (P1 & P2 & P3 & P4).
    rewrite E. unfold fully_present, recorded, knows, crash, recover in *. cbn [cdb fs].
    rewrite A1, A2, A4, Cf. auto.
Qed.

(* ------------------------------------------------------------------ files during a transfer_from: a prefix of the refs *)
Lemma write_all_prefix : forall value l t s k,
  nodupb l = true ->
  let x := run_steps s (firstn k (write_all t value l)) in
  exists j, (forall d, mem d (firstn j l) = true -> fget (Final d) (fs x) = Some (Complete (value d)))
            /\ (forall d, mem d (firstn j l) = false -> fget (Final d) (fs x) = fget (Final d) (fs s))
            /\ (forall d, fget (Ext d) (fs x) = fget (Ext d) (fs s))
            /\ cdb x = cdb s /\ ovl x = ovl s.
Proof.
  induction l as [|y r IH]; intros t s k ND x.
  - exists 0%nat. unfold x. cbn [write_all]. replace (firstn k (@nil step)) with (@nil step) by (destruct k; reflexivity).
    cbn [run_steps fold_left firstn mem]. split; [intros d H; discriminate|]. repeat split; reflexivity.
  - cbn [nodupb] in ND. apply andb_prop in ND. destruct ND as [Ny NDr]. apply negb_true_iff in Ny.
    unfold x. cbn [write_all]. rewrite firstn_app.
    destruct (Nat.le_gt_cases 3 k) as [L|L].
    + (* the first artifact is in place *)
      assert (LW : length (write_artifact t y (value y)) = 3%nat) by reflexivity.
      rewrite (firstn_all2 (write_artifact t y (value y))) by (rewrite LW; exact L).
      rewrite run_steps_app, write_artifact_run. rewrite LW.
      set (s1 := mkSt (cdb s) (ovl s) (fset (Final y) (Complete (value y)) (fdel (Tmp t) (fset (Tmp t) (Complete (value y)) (fset (Tmp t) Partial (fs s)))))).
      destruct (IH (t + 1) s1 (k - 3)%nat NDr) as (j & A & B & C & D & E). cbn zeta in *.
      assert (F1 : forall d, d <> y -> fget (Final d) (fs s1) = fget (Final d) (fs s)).
      { intros d N. unfold s1. cbn [fs]. rewrite fget_fset_other by (apply Final_neq; exact N).
        rewrite fget_fdel_other by discriminate. rewrite !fget_fset_other by discriminate. reflexivity. }
      exists (S j). cbn [firstn mem]. split; [|split; [|split; [|split]]].
      * intros d M. destruct (mem d (firstn j r)) eqn:Mr; [apply A; exact Mr|].
        destruct (N.eqb_spec d y) as [Edy|N]; [|discriminate]. subst d.
        rewrite (B y Mr). unfold s1. cbn [fs]. apply fget_fset_same.
      * intros d M. destruct (N.eqb_spec d y) as [Edy|N]; [discriminate|]. rewrite (B d M). apply F1, N.
      * intros d. rewrite C. unfold s1. cbn [fs]. rewrite fget_fset_other by discriminate.
        rewrite fget_fdel_other by discriminate. rewrite !fget_fset_other by discriminate. reflexivity.
      * rewrite D. reflexivity.
      * rewrite E. reflexivity.
    + (* still working on the first artifact: only its temporary name has been touched *)
      exists 0%nat. cbn [firstn mem].
      replace (k - length (write_artifact t y (value y)))%nat with 0%nat by (cbn [write_artifact length]; lia).
      cbn [firstn]. rewrite app_nil_r.
      assert (K : k = 0%nat \/ k = 1%nat \/ k = 2%nat) by lia.
      destruct K as [-> | [-> | ->]]; unfold write_artifact, run_steps; cbn [firstn fold_left do_step cdb ovl fs];
        (split; [intros d H; discriminate|]); (split; [intros d _|split; [intros d|split; reflexivity]]);
        rewrite ?fget_fset_other by discriminate; reflexivity.
Qed.

Lemma Forall_firstn_c08 : forall (A : Type) (P : A -> Prop) n l, Forall P l -> Forall P (firstn n l).
Proof.
  induction n as [|n IH]; intros l H; cbn [firstn]; [constructor|].
  destruct l as [|a r]; [constructor|]. inversion H; subst. constructor; auto.
Qed.

Lemma mem_firstn_sub : forall (d : N) j l, mem d (firstn j l) = true -> mem d l = true.
Proof.
  intros d j. induction j as [|j IH]; intros l H; [discriminate|].
  destruct l as [|y r]; [discriminate|]. cbn [firstn mem] in *. destruct (d =? y); [reflexivity | apply IH, H].
Qed.

(* at every crash index of a transfer_from: no row of any target, and the artifacts under final names are exactly those of
   a prefix of the refs (complete, with the source content); every other final name and every staging file is untouched *)
Lemma transfer_crash_prefix_l : forall s l k, ovl s = None -> insert_ok (cdb s) l = true ->
  let u := crash s (plan s (Transfer l)) k in
  u = run_op s (Transfer l)
  \/ (cdb u = cdb s
      /\ exists j, (forall d, mem d (firstn j l) = true -> fget (Final d) (fs u) = Some (Complete (src_value d)))
                   /\ (forall d, mem d (firstn j l) = false -> fget (Final d) (fs u) = fget (Final d) (fs s))).
Proof.
  intros s l k O OK u.
  destruct l as [|y r].
  { left. unfold u, run_op, crash. rewrite (recover_id s O). unfold plan. cbn [plan_body fst snd]. destruct k; reflexivity. }
  remember (y :: r) as l eqn:El.
  assert (ND : nodupb l = true) by (unfold insert_ok in OK; apply andb_prop in OK; apply OK).
  assert (PL : plan s (Transfer l) = [SqlBegin; SqlStmt (InsDataset l)] ++ write_all (next_tmp (fs s)) src_value l
                                     ++ [SqlStmt (InsLocation l); SqlStmt (InsRecords l); SqlCommit]).
  { subst l. unfold plan. cbn [plan_body]. rewrite OK. reflexivity. }
  set (W := write_all (next_tmp (fs s)) src_value l) in *.
  destruct (Nat.le_gt_cases (length (plan s (Transfer l))) k) as [L|L].
  { left. unfold u, crash, run_op. rewrite (recover_id s O). rewrite firstn_all2 by exact L. reflexivity. }
  right.
  (* rows: the whole plan is one transaction block *)
  assert (CD : cdb u = cdb s).
  { destruct (insertion_shape s (Transfer l) eq_refl) as [E | (l2 & body & E & NM & _)].
    - rewrite E in L. cbn [length] in L. lia.
    - unfold u, crash, recover. cbn [cdb]. rewrite E. apply txn_block_cdb_prefix; [exact NM | exact O|].
      rewrite E in L. cbn [length] in L. rewrite app_length in L. cbn [length] in L. lia. }
  split; [exact CD|].
  unfold u, crash, recover. cbn [fs]. rewrite PL.
  destruct (Nat.le_gt_cases k 2) as [L2|L2].
  - (* before any file activity *)
    exists 0%nat. cbn [firstn mem]. split; [intros d H; discriminate|]. intros d _.
    assert (K : k = 0%nat \/ k = 1%nat \/ k = 2%nat) by lia.
    destruct s as [c o f]. simpl in O. subst o.
    destruct K as [-> | [-> | ->]]; reflexivity.
  - rewrite firstn_app. cbn [length]. rewrite (firstn_all2 [SqlBegin; SqlStmt (InsDataset l)]) by (cbn [length]; lia).
    rewrite run_steps_app. set (s1 := run_steps s [SqlBegin; SqlStmt (InsDataset l)]).
    assert (FS1 : fs s1 = fs s) by (unfold s1; apply sql_steps_fs; repeat constructor).
    rewrite firstn_app, run_steps_app.
    destruct (write_all_prefix src_value l (next_tmp (fs s)) s1 (k - 2)%nat ND) as (j & A & B & _). cbn zeta in A, B. fold W in A, B.
    set (s2 := run_steps s1 (firstn (k - 2) W)) in *.
    (* what follows the writes is SQL only *)
    assert (FS2 : fs (run_steps s2 (firstn (k - 2 - length W) [SqlStmt (InsLocation l); SqlStmt (InsRecords l); SqlCommit])) = fs s2).
    { apply sql_steps_fs. apply Forall_firstn_c08. repeat constructor. }
    rewrite FS2. exists j. split; [exact A|]. intros d M. rewrite (B d M), FS1. reflexivity.
Qed.
