(* C02: the conflict error of _importDatasets, BATCH form, declaratively (any reachable state, any batch):
   with valid arguments the import succeeds iff the batch names pairwise different datasets under pairwise different
   (type, data ID) keys and every ref is compatible with what the registry holds; otherwise Conflict. *)
From Coq Require Import NArith Arith List Bool Lia.
From V Require Import Model.Registry Model.RegistryAbs Proofs.RegistryProofs Proofs.RegistryProofsX1 Proofs.RegistryProofsX2
  Proofs.RegistryProofsX3 Proofs.RegistryProofsX4.
Import ListNotations.
Open Scope N_scope.

Definition import_good (s : state) (c : N) (refs : list ref) : Prop :=
  NoDup (map f_id refs) /\ NoDup (map (fun f => (f_type f, f_data f)) refs) /\
  forall f, In f refs ->
    (* an existing dataset with that id has the ref's dataset type and lives in run c *)
    (forall x, ds_find (datasets s) (f_id f) = Some x -> d_type x = f_type f /\ d_run x = c) /\
    (* every membership of that id carries the ref's dataset type and data ID *)
    (forall y, In y (tags s) -> r_id y = f_id f -> r_type y = f_type f /\ r_data y = f_data f) /\
    (* the key (c, type, data ID) is free or held by this very dataset *)
    (forall y, In y (tags s) -> r_coll y = c -> r_type y = f_type f -> r_data y = f_data f -> r_id y = f_id f).

Lemma bad_def_false : forall s c rfs, existsb (imp_bad_def s c) rfs = false <->
  forall f, In f rfs -> forall x, ds_find (datasets s) (f_id f) = Some x -> d_type x = f_type f /\ d_run x = c.
Proof.
  intros s c rfs. rewrite existsb_false_forall. split; intros H f Hf.
  - intros x Hx. specialize (H f Hf). unfold imp_bad_def in H. rewrite Hx in H. apply orb_false_iff in H. destruct H as [H1 H2].
    apply negb_false_iff in H1. apply negb_false_iff in H2. apply N.eqb_eq in H1. apply N.eqb_eq in H2. auto.
  - unfold imp_bad_def. destruct (ds_find (datasets s) (f_id f)) as [x|] eqn:E; [|reflexivity].
    destruct (H f Hf x E) as [-> ->]. rewrite !N.eqb_refl. reflexivity.
Qed.

Lemma bad_dataid_false : forall s rfs, existsb (imp_bad_dataid s) rfs = false <->
  forall f, In f rfs -> forall y, In y (tags s) -> r_id y = f_id f -> r_type y = f_type f /\ r_data y = f_data f.
Proof.
  intros s rfs. rewrite existsb_false_forall. split; intros H f Hf.
  - intros y Hy Ey. specialize (H f Hf). unfold imp_bad_dataid in H. rewrite existsb_false_forall in H. specialize (H y Hy). simpl in H.
    rewrite Ey, N.eqb_refl in H. simpl in H. apply orb_false_iff in H. destruct H as [H1 H2].
    apply negb_false_iff in H1. apply negb_false_iff in H2. apply N.eqb_eq in H1. apply N.eqb_eq in H2. auto.
  - unfold imp_bad_dataid. apply existsb_false_forall. intros y Hy. destruct (r_id y =? f_id f) eqn:E; [|reflexivity].
    apply N.eqb_eq in E. destruct (H f Hf y Hy E) as [-> ->]. rewrite !N.eqb_refl. reflexivity.
Qed.

Lemma bad_key_false : forall s c rfs, existsb (imp_bad_key s c) rfs = false <->
  forall f, In f rfs -> forall y, In y (tags s) -> r_coll y = c -> r_type y = f_type f -> r_data y = f_data f -> r_id y = f_id f.
Proof.
  intros s c rfs. rewrite existsb_false_forall. split; intros H f Hf.
  - intros y Hy E1 E2 E3. specialize (H f Hf). unfold imp_bad_key in H. rewrite existsb_false_forall in H. specialize (H y Hy). simpl in H.
    rewrite E1, E2, E3, !N.eqb_refl in H. simpl in H. apply negb_false_iff in H. apply N.eqb_eq in H. exact H.
  - unfold imp_bad_key. apply existsb_false_forall. intros y Hy.
    destruct ((r_type y =? f_type f) && (r_coll y =? c) && (r_data y =? f_data f)) eqn:K; [|reflexivity]. simpl.
    apply andb_true_iff in K. destruct K as [K K3]. apply andb_true_iff in K. destruct K as [K1 K2].
    apply N.eqb_eq in K1. apply N.eqb_eq in K2. apply N.eqb_eq in K3. rewrite (H f Hf y Hy K2 K1 K3), N.eqb_refl. reflexivity.
Qed.

Lemma import_batch_ok_iff_p : forall h c refs,
  coll_type (run h) c = Some RUN -> forallb (fun f => valid_d (f_data f)) refs = true ->
  forallb (fun f => has_type (run h) (f_type f)) refs = true -> refs <> [] ->
  (snd (step (run h) (Import c refs)) = Ok <-> import_good (run h) c refs) /\
  (snd (step (run h) (Import c refs)) = Ok \/ snd (step (run h) (Import c refs)) = Err Conflict).
Proof.
  intros h c refs Hc Hv Ht Hne. simpl. unfold do_import. destruct refs as [|f0 refs]; [congruence|]. cbv iota.
  remember (f0 :: refs) as rfs eqn:Erfs. clear Erfs Hne. rewrite Hc, Hv, Ht. simpl.
  set (s := run h) in *.
  assert (FKr : forall y, In y (tags s) -> alive s (r_id y) = true) by (intros y Hy; apply (tags_refer_to_live_p h y Hy)).
  assert (KU : NoDup (map ukey (map (ref_row c) rfs)) <-> NoDup (map (fun f => (f_type f, f_data f)) rfs)).
  { rewrite map_map. apply (NoDup_map_comp (fun f => (f_type f, f_data f)) (fun p => (c, fst p, snd p))).
    intros [a b] [a' b'] E; simpl in E; inversion E; reflexivity. }
  assert (KP : NoDup (map pkey (map (ref_row c) rfs)) <-> NoDup (map f_id rfs)).
  { rewrite map_map. apply (NoDup_map_comp f_id (fun i => (i, c))). intros x y E; inversion E; reflexivity. }
  pose proof (tag_fold_ok_iff (map (ref_row c) rfs) []) as Q0.
  assert (Good : import_good s c rfs <->
     (fold_opt tag_insert [] (map (ref_row c) rfs) <> None /\ existsb (imp_bad_def s c) rfs = false /\
      existsb (imp_bad_dataid s) rfs = false /\ existsb (imp_bad_key s c) rfs = false)).
  { rewrite bad_def_false, bad_dataid_false, bad_key_false, Q0. unfold import_good. split.
    - intros [N1 [N2 H]]. split; [split; [apply KU; exact N2|split; [apply KP; exact N1|intros r _; split; intros []]]|].
      split; [|split]; intros f Hf; apply (H f Hf).
    - intros [[N2 [N1 _]] [H1 [H2 H3]]]. split; [apply KP; exact N1|]. split; [apply KU; exact N2|].
      intros f Hf. split; [apply H1; exact Hf|]. split; [apply H2; exact Hf|apply H3; exact Hf]. }
  set (fresh := filter (fun f => negb (alive s (f_id f))) rfs).
  assert (Fin : import_good s c rfs ->
     fold_opt ds_insert (datasets s) (map (fun f => Ds (f_id f) (f_type f) c) fresh) <> None /\
     fold_opt tag_insert (tags s) (map (ref_row c) fresh) <> None).
  { intros [N1 [N2 H]].
    assert (Fr : forall f, In f fresh -> In f rfs /\ alive s (f_id f) = false).
    { intros f Hf. unfold fresh in Hf. apply filter_In in Hf. destruct Hf as [Hf Ha]. apply negb_true_iff in Ha. auto. }
    split.
    - apply ds_fold_ok_iff. split.
      + rewrite map_map. simpl. apply NoDup_map_filter. exact N1.
      + intros x Hx. apply in_map_iff in Hx. destruct Hx as [f [<- Hf]]. simpl. destruct (Fr f Hf) as [_ Ha].
        intros F. unfold alive in Ha. destruct (ds_find (datasets s) (f_id f)) eqn:E; [discriminate|]. apply ds_find_none in E. exact (E F).
    - apply tag_fold_ok_iff. split; [|split].
      + rewrite map_map. apply (NoDup_map_filter (fun f => ukey (ref_row c f))). rewrite <- map_map. apply KU. exact N2.
      + rewrite map_map. apply (NoDup_map_filter (fun f => pkey (ref_row c f))). rewrite <- map_map. apply KP. exact N1.
      + intros r Hr. apply in_map_iff in Hr. destruct Hr as [f [<- Hf]]. destruct (Fr f Hf) as [Hin Ha].
        destruct (H f Hin) as [_ [_ H3]]. split; intros F; apply in_map_iff in F; destruct F as [y [Ey Hy]].
        * unfold ukey in Ey. simpl in Ey. injection Ey as K1 K2 K3. specialize (H3 y Hy K1 K2 K3). specialize (FKr y Hy). congruence.
        * unfold pkey in Ey. simpl in Ey. injection Ey as K1 K2. specialize (FKr y Hy). congruence. }
  destruct (fold_opt tag_insert [] (map (ref_row c) rfs)) as [tmp|] eqn:E0.
  2:{ simpl. split; [|right; reflexivity]. split; [discriminate|]. intros G. apply Good in G. destruct G as [G _]. congruence. }
  destruct (existsb (imp_bad_def s c) rfs) eqn:E1.
  { simpl. split; [|right; reflexivity]. split; [discriminate|]. intros G. apply Good in G. destruct G as [_ [G _]]. congruence. }
  destruct (existsb (imp_bad_dataid s) rfs) eqn:E2.
  { simpl. split; [|right; reflexivity]. split; [discriminate|]. intros G. apply Good in G. destruct G as [_ [_ [G _]]]. congruence. }
  destruct (existsb (imp_bad_key s c) rfs) eqn:E3.
  { simpl. split; [|right; reflexivity]. split; [discriminate|]. intros G. apply Good in G. destruct G as [_ [_ [_ G]]]. congruence. }
  assert (G : import_good s c rfs) by (apply Good; repeat split; auto; discriminate).
  destruct (Fin G) as [F1 F2]. fold fresh.
  destruct (fold_opt ds_insert (datasets s) (map (fun f => Ds (f_id f) (f_type f) c) fresh)); [|congruence].
  destruct (fold_opt tag_insert (tags s) (map (ref_row c) fresh)); [|congruence].
  simpl. split; [|left; reflexivity]. split; auto.
Qed.

Lemma import_conflict_iff_batch_p : forall h c refs,
  coll_type (run h) c = Some RUN -> forallb (fun f => valid_d (f_data f)) refs = true ->
  forallb (fun f => has_type (run h) (f_type f)) refs = true -> refs <> [] ->
  (snd (step (run h) (Import c refs)) = Err Conflict <-> ~ import_good (run h) c refs).
Proof.
  intros h c refs Hc Hv Ht Hne. destruct (import_batch_ok_iff_p h c refs Hc Hv Ht Hne) as [A [Bk|Bk]].
  - split; [rewrite Bk; discriminate|]. intros G. exfalso. apply G. apply A. exact Bk.
  - split; [|intros _; exact Bk]. intros _ G. apply A in G. rewrite G in Bk. discriminate.
Qed.
