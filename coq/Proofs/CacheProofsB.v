(* C17, part 2: the registry caches of caching_context() (Model/Cache.v, PART 2). *)
From Coq Require Import ZArith NArith List Bool Lia.
From V Require Import Model.Cache.
Import ListNotations.
Open Scope N_scope.

Lemma lookup_del_key : forall A (c c' : N) (l : list (N * A)),
  lookup c' (del_key c l) = if c =? c' then None else lookup c' l.
Proof.
  intros. unfold del_key. induction l as [|[k x] r IH]; simpl.
  - destruct (c =? c'); reflexivity.
  - destruct (k =? c) eqn:E2; simpl.
    + apply N.eqb_eq in E2. subst. rewrite IH. destruct (c =? c'); reflexivity.
    + rewrite IH. destruct (c =? c') eqn:E; auto. apply N.eqb_eq in E. subst. rewrite E2. reflexivity.
Qed.

Lemma lookup_set_key : forall A (c c' : N) (v : A) l,
  lookup c' (set_key c v l) = if c =? c' then Some v else lookup c' l.
Proof.
  intros. unfold set_key. cbn [lookup]. rewrite lookup_del_key. destruct (c =? c'); reflexivity.
Qed.

(* the answer the tables give *)
Definition true_summary (t : tables) (c : N) : list N :=
  match lookup c (chains t) with
  | Some kids => union_all (map (table_summary t) kids)
  | None => table_summary t c
  end.
Definition summary_ans (t : tables) (c : N) : list N :=
  match key_of t c with Some _ => true_summary t c | None => err_ans end.
Definition members (t : tables) (c : N) : list N :=
  match lookup c (chains t) with Some kids => kids | None => [c] end.
Fixpoint true_query (t : tables) (ty : N) (ms : list N) : list N :=
  match ms with
  | [] => []
  | m :: r => (if memN ty (summary_ans t m) then datasets_in t ty m else []) ++ true_query t ty r
  end.
Definition query_ans (t : tables) (ty c : N) : list N :=
  match key_of t c with Some _ => true_query t ty (members t c) | None => err_ans end.

(* keys are unique; chains exist, are one level deep and their children exist *)
Definition kinj (t : tables) : Prop :=
  forall c c' k, key_of t c = Some k -> key_of t c' = Some k -> c = c'.
Definition wf_tables (t : tables) : Prop :=
  kinj t /\
  forall c kids, lookup c (chains t) = Some kids ->
    key_of t c <> None /\ forall m, In m kids -> lookup m (chains t) = None /\ key_of t m <> None.

(* every cached record is the record the tables give for that name now; a `full` cache holds every collection *)
Definition rc_ok (t : tables) (rc : rcache_t) : Prop :=
  (forall c r, lookup c (rc_recs rc) = Some r -> table_rec t c = Some r)
  /\ (rc_full rc = true -> forall c, exists_b t c = true -> lookup c (rc_recs rc) <> None).
(* a cached summary is the summary of the collection that has this key NOW, and every cached key is in use *)
Definition sc_ok (t : tables) (sc : list (N * list N)) : Prop :=
  forall k s, lookup k sc = Some s -> (exists c, key_of t c = Some k) /\ forall c, key_of t c = Some k -> s = true_summary t c.
Definition Coherent (t : tables) (cs : caches) : Prop :=
  (forall rc, rcache cs = Some rc -> rc_ok t rc) /\ (forall sc, scache cs = Some sc -> sc_ok t sc).

Lemma coherent_none : forall t, Coherent t no_caches.
Proof. intros. split; simpl; intros; discriminate. Qed.

Lemma sc_ok_nil : forall t, sc_ok t [].
Proof. intros t k s L. discriminate. Qed.

Lemma sc_ok_set : forall t sc c k s, kinj t -> sc_ok t sc -> key_of t c = Some k -> s = true_summary t c -> sc_ok t (set_key k s sc).
Proof.
  intros t sc c k s Hi H Hk Hs k' s' L. rewrite lookup_set_key in L. destruct (k =? k') eqn:E.
  - apply N.eqb_eq in E. subst k'. inversion L; subst s'. split; [exists c; auto|]. intros c' Hc'.
    rewrite (Hi c' c k Hc' Hk). exact Hs.
  - now apply H.
Qed.

Lemma table_rec_some : forall t c r, table_rec t c = Some r -> exists_b t c = true /\ r = lookup c (chains t).
Proof. intros t c r. unfold table_rec. destruct (exists_b t c); intros H; inversion H; auto. Qed.

Lemma lookup_table_records_gen : forall (ch : list (N * list N)) (l : list (N * N)) c,
  lookup c (map (fun p => (fst p, lookup (fst p) ch)) l) = match lookup c l with Some _ => Some (lookup c ch) | None => None end.
Proof.
  induction l as [|[n k] r IH]; simpl; intros; auto. destruct (n =? c) eqn:E; auto. apply N.eqb_eq in E. subst. reflexivity.
Qed.
Lemma lookup_table_records : forall t c, lookup c (table_records t) = table_rec t c.
Proof. intros. unfold table_records, table_rec, exists_b, key_of. rewrite lookup_table_records_gen. destruct (lookup c (ckeys t)); reflexivity. Qed.

Lemma record_of_spec : forall t cs c, Coherent t cs ->
  fst (record_of t cs c) = table_rec t c /\ Coherent t (snd (record_of t cs c)).
Proof.
  intros t cs c Hc. assert (Hc' := Hc). destruct Hc as [Hr Hs]. unfold record_of.
  destruct (rcache cs) as [rc|] eqn:R; [|split; [reflexivity | exact Hc']].
  destruct (Hr rc eq_refl) as [H1 H2]. destruct (lookup c (rc_recs rc)) as [r|] eqn:L; cbn [fst snd].
  - split; [symmetry; now apply H1 | exact Hc'].
  - destruct (table_rec t c) as [r|] eqn:T; cbn [fst snd]; [|split; [reflexivity | exact Hc']].
    split; auto. split; cbn [rcache scache]; auto. intros rc' Hrc. inversion Hrc; subst. split; cbn [rc_recs rc_full].
    + intros c' r' L'. rewrite lookup_set_key in L'. destruct (c =? c') eqn:E.
      * apply N.eqb_eq in E. subst. inversion L'; subst. exact T.
      * now apply H1.
    + intros Hf c' Hc'0. rewrite lookup_set_key. destruct (c =? c'); [discriminate|]. now apply H2.
Qed.

Lemma fetch_all_spec : forall t cs, Coherent t cs ->
  (forall c, lookup c (fst (fetch_all t cs)) = table_rec t c) /\ Coherent t (snd (fetch_all t cs)).
Proof.
  intros t cs Hc. assert (Hc' := Hc). destruct Hc as [Hr Hs]. unfold fetch_all. destruct (rcache cs) as [rc|] eqn:R.
  - destruct (Hr rc eq_refl) as [H1 H2]. destruct (rc_full rc) eqn:F; cbn [fst snd].
    + split; [|exact Hc']. intros c. destruct (lookup c (rc_recs rc)) as [r|] eqn:L.
      * symmetry. now apply H1.
      * destruct (table_rec t c) as [r|] eqn:T; auto. apply table_rec_some in T. destruct T as [T _]. exfalso. now apply (H2 eq_refl c T).
    + split; [apply lookup_table_records|]. split; cbn [rcache scache]; auto. intros rc' Hrc. inversion Hrc; subst. split; cbn [rc_recs rc_full].
      * intros c r L. now rewrite lookup_table_records in L.
      * intros _ c Hcc. rewrite lookup_table_records. unfold table_rec. rewrite Hcc. discriminate.
  - cbn [fst snd]. split; [apply lookup_table_records | exact Hc'].
Qed.

Lemma children_of_spec : forall t cs c, wf_tables t -> Coherent t cs ->
  fst (children_of t cs c) = lookup c (chains t) /\ Coherent t (snd (children_of t cs c)).
Proof.
  intros t cs c [_ Hw] Hc. unfold children_of. destruct (record_of_spec t cs c Hc) as [R1 R2].
  destruct (record_of t cs c) as [r cs1]. simpl in *. split; auto. subst r. unfold table_rec, exists_b.
  destruct (key_of t c) eqn:K.
  - destruct (lookup c (chains t)); reflexivity.
  - destruct (lookup c (chains t)) eqn:L; auto. destruct (Hw c l L) as [H _]. congruence.
Qed.

Lemma sc_ok_fold : forall t ms sc, kinj t -> sc_ok t sc -> (forall m, In m ms -> lookup m (chains t) = None) ->
  sc_ok t (fold_left (cache_member t) ms sc).
Proof.
  induction ms; simpl; intros; auto. apply IHms; auto. unfold cache_member. destruct (key_of t a) as [ka|] eqn:K; auto.
  apply (sc_ok_set t sc a ka); auto. unfold true_summary. rewrite (H1 a); auto.
Qed.

Lemma fetch_summary_spec : forall t cs c, wf_tables t -> Coherent t cs ->
  fst (fetch_summary t cs c) = summary_ans t c /\ Coherent t (snd (fetch_summary t cs c)).
Proof.
  intros t cs c [Hi Hw] Hc. unfold fetch_summary, summary_ans. destruct (key_of t c) as [k|] eqn:K; [|split; auto].
  destruct (match scache cs with Some sc => lookup k sc | None => None end) as [s|] eqn:Hit.
  - simpl. split; auto. destruct (scache cs) as [sc|] eqn:S; [|discriminate]. destruct Hc as [_ Hs].
    destruct (Hs sc S k s Hit) as [_ H2]. now apply H2.
  - destruct (children_of_spec t cs c (conj Hi Hw) Hc) as [K1 K2]. destruct (children_of t cs c) as [kids cs1]. simpl in K1, K2. subst kids.
    destruct K2 as [Hr1 Hs1]. simpl. split.
    + unfold true_summary. destruct (lookup c (chains t)); auto.
    + split; simpl; auto. intros sc' Hsc'. destruct (scache cs1) as [sc|] eqn:S; [|discriminate]. inversion Hsc'; subst. clear Hsc'.
      specialize (Hs1 sc eq_refl). destruct (lookup c (chains t)) as [kids|] eqn:L.
      * apply (sc_ok_set t _ c k); auto; [|unfold true_summary; now rewrite L]. apply sc_ok_fold; auto.
        intros m Hm. destruct (Hw c kids L) as [_ Hk]. now apply Hk.
      * simpl. unfold cache_member. rewrite K. apply (sc_ok_set t sc c k); auto. unfold true_summary. now rewrite L.
Qed.

Lemma query_members_spec : forall t ty ms cs, wf_tables t -> Coherent t cs ->
  fst (query_members t cs ty ms) = true_query t ty ms /\ Coherent t (snd (query_members t cs ty ms)).
Proof.
  induction ms; simpl; intros; auto. destruct (fetch_summary_spec t cs a H H0) as [F1 F2].
  destruct (fetch_summary t cs a) as [s cs1]. simpl in F1, F2. destruct (IHms cs1 H F2) as [Q1 Q2].
  destruct (query_members t cs1 ty ms) as [rest cs2]. simpl in *. subst. auto.
Qed.

Lemma query_datasets_spec : forall t ty c cs, wf_tables t -> Coherent t cs ->
  fst (query_datasets t cs ty c) = query_ans t ty c /\ Coherent t (snd (query_datasets t cs ty c)).
Proof.
  intros. unfold query_datasets, query_ans. destruct (key_of t c); [|split; auto].
  destruct (children_of_spec t cs c H H0) as [K1 K2].
  destruct (children_of t cs c) as [kids cs1]. simpl in K1, K2. subst. apply query_members_spec; auto.
Qed.

(* a coherent cache never changes an answer *)
Lemma cache_transparent_p : forall t cs ty c, wf_tables t -> Coherent t cs ->
  fst (query_datasets t cs ty c) = fst (query_datasets t no_caches ty c)
  /\ fst (fetch_summary t cs c) = fst (fetch_summary t no_caches c).
Proof.
  intros. split.
  - rewrite (proj1 (query_datasets_spec t ty c cs H H0)). symmetry. apply query_datasets_spec; auto. apply coherent_none.
  - rewrite (proj1 (fetch_summary_spec t cs c H H0)). symmetry. apply fetch_summary_spec; auto. apply coherent_none.
Qed.

(* ---- key allocation ---- *)
Lemma fold_max_ge : forall l a, a <= fold_left N.max l a.
Proof. induction l; simpl; intros; [lia|]. specialize (IHl (N.max a0 a)). lia. Qed.
Lemma fold_max_in : forall l a x, In x l -> x <= fold_left N.max l a.
Proof.
  induction l; simpl; intros; [tauto|]. destruct H.
  - subst. assert (H := fold_max_ge l (N.max a0 x)). lia.
  - now apply IHl.
Qed.
Lemma lookup_in_snd : forall (l : list (N * N)) c k, lookup c l = Some k -> In k (map snd l).
Proof.
  induction l as [|[a b] r IH]; simpl; intros; [discriminate|]. destruct (a =? c); [inversion H; auto|]. right. eauto.
Qed.
Lemma key_le_max : forall t c k, key_of t c = Some k -> k <= max_key t.
Proof. intros. unfold max_key. apply fold_max_in. now apply (lookup_in_snd _ c). Qed.

Lemma exists_b_true : forall t c, exists_b t c = true <-> key_of t c <> None.
Proof. intros. unfold exists_b. destruct (key_of t c); split; intros; try congruence. Qed.
Lemma is_chain_b_false : forall t c, is_chain_b t c = false <-> lookup c (chains t) = None.
Proof. intros. unfold is_chain_b. destruct (lookup c (chains t)); split; intros; congruence. Qed.

Lemma is_kid_false : forall t c, is_kid t c = false -> forall p kids, lookup p (chains t) = Some kids -> ~ In c kids.
Proof.
  intros t c H p kids L Hin. unfold is_kid in H. rewrite <- not_true_iff_false in H. apply H. apply existsb_exists.
  exists (p, kids). split.
  - clear H Hin. induction (chains t) as [|[a b] r IH]; simpl in *; [discriminate|]. destruct (a =? p) eqn:E.
    + inversion L; subst. apply N.eqb_eq in E. subst. auto.
    + right. auto.
  - simpl. unfold memN. apply existsb_exists. exists c. split; auto. apply N.eqb_refl.
Qed.

(* ---- one step ---- *)
Arguments set_key : simpl never.
Arguments del_key : simpl never.

Lemma wf_tables_step : forall fx uc t cs o, wf_tables t -> wf_tables (fst (fst (rstep fx uc (t, cs) o))).
Proof.
  intros fx uc t cs o [Hi Hw]. destruct o; cbn [rstep fst snd]; try (split; assumption).
  - destruct uc; simpl; split; assumption.
  - (* Register *)
    destruct (exists_b t c) eqn:E; cbn [fst snd]; [split; assumption|]. remember (1 + max_key t) as nk eqn:Hnk.
    assert (Kc : key_of t c = None) by (unfold exists_b in E; destruct (key_of t c); congruence).
    assert (Cc : lookup c (chains t) = None).
    { destruct (lookup c (chains t)) eqn:L; auto. destruct (Hw c l L) as [H1 _]. congruence. }
    split.
    + intros a b k Ha Hb. unfold key_of in *. cbn [ckeys lookup] in *.
      destruct (c =? a) eqn:Ea; destruct (c =? b) eqn:Eb.
      * apply N.eqb_eq in Ea. apply N.eqb_eq in Eb. congruence.
      * injection Ha as <-. assert (Q := key_le_max t b _ Hb). lia.
      * injection Hb as <-. assert (Q := key_le_max t a _ Ha). lia.
      * now apply (Hi a b k).
    + intros a kids L. unfold key_of. cbn [ckeys chains lookup] in *.
      assert (L' : lookup a (chains t) = Some kids \/ (a = c /\ kids = [])).
      { destruct chain; auto. rewrite lookup_set_key in L. destruct (c =? a) eqn:Ea; auto.
        apply N.eqb_eq in Ea. inversion L. auto. }
      destruct L' as [L'|[-> ->]].
      * destruct (Hw a kids L') as [H1 H2]. split.
        { destruct (c =? a); [discriminate|exact H1]. }
        { intros m Hm. destruct (H2 m Hm) as [M1 M2]. split.
          - destruct chain; auto. rewrite lookup_set_key. destruct (c =? m) eqn:Em; auto. apply N.eqb_eq in Em. subst m. exfalso. apply M2. exact Kc.
          - destruct (c =? m); [discriminate|exact M2]. }
      * split; [rewrite N.eqb_refl; discriminate | intros m []].
  - (* RemoveColl *)
    destruct (negb (exists_b t c)) eqn:E0; cbn [fst snd]; [split; assumption|].
    destruct (is_kid t c) eqn:Ek; cbn [fst snd]; [split; assumption|]. split.
    + intros a b k Ha Hb. unfold key_of in *. cbn [ckeys] in *. rewrite lookup_del_key in *.
      destruct (c =? a); [discriminate|]. destruct (c =? b); [discriminate|]. now apply (Hi a b k).
    + intros a kids L. unfold key_of. cbn [ckeys chains] in *. rewrite lookup_del_key in *. destruct (c =? a) eqn:Ea; [discriminate|].
      destruct (Hw a kids L) as [H1 H2]. split; auto. intros m Hm. destruct (H2 m Hm) as [M1 M2].
      rewrite !lookup_del_key. destruct (c =? m) eqn:Em.
      * apply N.eqb_eq in Em. subst. exfalso. now apply (is_kid_false t m Ek a kids L).
      * auto.
  - (* SetChain *)
    destruct (is_chain_b t c && forallb (fun m => exists_b t m && negb (is_chain_b t m)) kids) eqn:E; cbn [fst snd]; [|split; assumption].
    apply andb_true_iff in E. destruct E as [Ec Ek]. rewrite forallb_forall in Ek.
    assert (Hc : exists k0, lookup c (chains t) = Some k0) by (unfold is_chain_b in Ec; destruct (lookup c (chains t)); [eauto|discriminate]).
    destruct Hc as [k0 Hc]. split; [exact Hi|].
    intros a ks L. unfold key_of. cbn [ckeys chains] in *. rewrite lookup_set_key in L. destruct (c =? a) eqn:Ea.
    + apply N.eqb_eq in Ea. subst a. inversion L; subst ks. split; [exact (proj1 (Hw c k0 Hc))|].
      intros m Hm. specialize (Ek m Hm). apply andb_true_iff in Ek. destruct Ek as [E1 E2].
      apply negb_true_iff in E2. apply is_chain_b_false in E2. apply exists_b_true in E1. split; auto.
      rewrite lookup_set_key. destruct (c =? m) eqn:Em; auto. apply N.eqb_eq in Em. subst. congruence.
    + destruct (Hw a ks L) as [H1 H2]. split; auto. intros m Hm. destruct (H2 m Hm) as [M1 M2]. split; auto.
      rewrite lookup_set_key. destruct (c =? m) eqn:Em; auto. apply N.eqb_eq in Em. subst. congruence.
  - (* Put *)
    destruct (exists_b t run && negb (is_chain_b t run)); cbn [fst snd]; split; assumption.
  - destruct (fetch_summary t cs c). simpl. split; assumption.
  - destruct (query_datasets t cs ty c). simpl. split; assumption.
  - destruct (fetch_all t cs). simpl. split; assumption.
  - destruct (fetch_all t cs) as [recs cs1]. destruct (query_members t cs1 ty _). simpl. split; assumption.
Qed.

(* the tables after a step do not depend on the caches, the fixes or the use of contexts *)
Lemma tables_fx : forall fx fx' uc uc' t cs cs' o, fst (fst (rstep fx uc (t, cs) o)) = fst (fst (rstep fx' uc' (t, cs') o)).
Proof.
  intros. destruct o; cbn [rstep fst snd]; auto.
  - destruct uc, uc'; auto.
  - destruct (exists_b t c); auto.
  - destruct (negb (exists_b t c)); auto. destruct (is_kid t c); auto.
  - destruct (is_chain_b t c && forallb (fun m => exists_b t m && negb (is_chain_b t m)) kids); auto.
  - destruct (exists_b t run && negb (is_chain_b t run)); auto.
  - destruct (fetch_summary t cs c), (fetch_summary t cs' c). auto.
  - destruct (query_datasets t cs ty c), (query_datasets t cs' ty c). auto.
  - destruct (fetch_all t cs), (fetch_all t cs'). auto.
  - destruct (fetch_all t cs) as [r1 c1], (fetch_all t cs') as [r2 c2]. destruct (query_members t c1 ty _), (query_members t c2 ty _). auto.
Qed.

Lemma table_summary_same : forall t t' m, summ t' = summ t -> table_summary t' m = table_summary t m.
Proof. intros. unfold table_summary. now rewrite H. Qed.

Lemma rc_ok_empty : forall t, rc_ok t (mkRC [] false).
Proof. intros. split; simpl; intros; discriminate. Qed.

Lemma table_rec_same : forall t t' c, ckeys t' = ckeys t -> chains t' = chains t -> table_rec t' c = table_rec t c.
Proof. intros. unfold table_rec, exists_b, key_of. now rewrite H, H0. Qed.

Lemma coherent_step : forall uc t cs o, wf_tables t -> Coherent t cs ->
  Coherent (fst (fst (rstep as_coded uc (t, cs) o))) (snd (fst (rstep as_coded uc (t, cs) o))).
Proof.
  intros uc t cs o Hwf Hc. assert (Hc' := Hc). destruct Hwf as [Hi Hw]. destruct Hc as [Hr Hs]. destruct o; cbn [rstep fst snd].
  - destruct uc; cbn [fst snd]; [|exact Hc']. split; cbn [rcache scache].
    + intros rc H. destruct (rcache cs) eqn:R; [apply Hr; exact H|]. inversion H; subst. apply rc_ok_empty.
    + intros sc H. destruct (scache cs) eqn:S; [apply Hs; exact H|]. inversion H; subst. apply sc_ok_nil.
  - apply coherent_none.
  - (* Register: the new key is larger than every key in use, hence not cached *)
    destruct (exists_b t c) eqn:E; cbn [fst snd]; [exact (proj2 (record_of_spec t cs c Hc'))|]. remember (1 + max_key t) as nk eqn:Hnk.
    assert (Kc : key_of t c = None) by (unfold exists_b in E; destruct (key_of t c); congruence).
    assert (Cc : lookup c (chains t) = None).
    { destruct (lookup c (chains t)) eqn:L; auto. destruct (Hw c l L) as [H1 _]. congruence. }
    split; cbn [rcache scache].
    + intros rc' H. destruct (rcache cs) as [rc|] eqn:R; [|discriminate]. inversion H; subst rc'. destruct (Hr rc eq_refl) as [H1 H2].
      split; cbn [rc_recs rc_full].
      * intros a r L. rewrite lookup_set_key in L. destruct (c =? a) eqn:Ea.
        { apply N.eqb_eq in Ea. subst a. inversion L; subst r. unfold table_rec, exists_b, key_of. cbn [ckeys chains lookup].
          rewrite N.eqb_refl. destruct chain; [rewrite lookup_set_key, N.eqb_refl; reflexivity | rewrite Cc; reflexivity]. }
        { rewrite <- (H1 a r L). unfold table_rec, exists_b, key_of. cbn [ckeys chains lookup]. rewrite Ea.
          destruct chain; [rewrite lookup_set_key, Ea|]; reflexivity. }
      * intros Hf a Ha. rewrite lookup_set_key. destruct (c =? a) eqn:Ea; [discriminate|]. apply H2; auto.
        unfold exists_b, key_of in *. cbn [ckeys lookup] in Ha. rewrite Ea in Ha. exact Ha.
    + intros sc H. specialize (Hs sc H). intros k s L. destruct (Hs k s L) as [[c0 Hc0] H2]. split.
      * exists c0. unfold key_of in *. cbn [ckeys lookup]. destruct (c =? c0) eqn:E0; auto. apply N.eqb_eq in E0. subst. congruence.
      * intros a Ha. unfold key_of in Ha. cbn [ckeys lookup] in Ha. destruct (c =? a) eqn:Ea.
        { injection Ha as <-. assert (Q := key_le_max t c0 _ Hc0). lia. }
        { rewrite (H2 a Ha). unfold true_summary. cbn [chains].
          assert (La : lookup a (if chain then set_key c [] (chains t) else chains t) = lookup a (chains t)).
          { destruct chain; auto. rewrite lookup_set_key. now rewrite Ea. }
          rewrite La. reflexivity. }
  - (* RemoveColl: database delete, then the cached record is discarded and the summary cache dropped;
       a refused removal leaves the caches as the lookup by name left them *)
    assert (C1 := proj2 (record_of_spec t cs c Hc')). remember (snd (record_of t cs c)) as cs1.
    destruct (negb (exists_b t c)) eqn:E0; cbn [fst snd]; [exact C1|].
    destruct (is_kid t c) eqn:Ek; cbn [fst snd rm_order as_coded]; [exact C1|].
    destruct C1 as [Hr1 Hs1]. split; cbn [rcache scache].
    + intros rc' H. destruct (rcache cs1) as [rc|] eqn:R; [|discriminate]. inversion H; subst rc'. destruct (Hr1 rc eq_refl) as [H1 H2].
      split; cbn [rc_recs rc_full].
      * intros a r L. rewrite lookup_del_key in L. destruct (c =? a) eqn:Ea; [discriminate|]. rewrite <- (H1 a r L).
        unfold table_rec, exists_b, key_of. cbn [ckeys chains]. rewrite !lookup_del_key, Ea. reflexivity.
      * intros Hf a Ha. rewrite lookup_del_key. unfold exists_b, key_of in Ha. cbn [ckeys] in Ha. rewrite lookup_del_key in Ha.
        destruct (c =? a) eqn:Ea; [discriminate Ha|]. apply H2; auto.
    + intros sc' H. destruct (scache cs1); [|discriminate]. cbn [rm_fix as_coded] in H. inversion H; subst. apply sc_ok_nil.
  - (* SetChain *)
    destruct (is_chain_b t c && forallb (fun m => exists_b t m && negb (is_chain_b t m)) kids) eqn:E; cbn [fst snd]; [|exact Hc'].
    apply andb_true_iff in E. destruct E as [Ec _].
    assert (Xc : exists_b t c = true).
    { unfold is_chain_b in Ec. destruct (lookup c (chains t)) eqn:L; [|discriminate]. apply exists_b_true. exact (proj1 (Hw c l L)). }
    split; cbn [rcache scache].
    + intros rc' H. destruct (rcache cs) as [rc|] eqn:R; [|discriminate]. inversion H; subst rc'. destruct (Hr rc eq_refl) as [H1 H2].
      split; cbn [rc_recs rc_full].
      * intros a r L. rewrite lookup_set_key in L. unfold table_rec, exists_b, key_of. cbn [ckeys chains]. rewrite lookup_set_key.
        destruct (c =? a) eqn:Ea.
        { apply N.eqb_eq in Ea. subst a. inversion L; subst r. unfold exists_b, key_of in Xc. rewrite Xc. reflexivity. }
        { exact (H1 a r L). }
      * intros Hf a Ha. rewrite lookup_set_key. destruct (c =? a); [discriminate|]. apply H2; auto.
    + intros sc' H. destruct (scache cs); [|discriminate]. cbn [chain_fix as_coded] in H. inversion H; subst. apply sc_ok_nil.
  - (* Put *)
    assert (C1 := proj2 (record_of_spec t cs run Hc')). remember (snd (record_of t cs run)) as cs1.
    destruct (exists_b t run && negb (is_chain_b t run)); cbn [fst snd]; [|exact C1]. destruct C1 as [Hr1 Hs1]. split; cbn [rcache scache].
    + intros rc H. destruct (Hr1 rc H) as [H1 H2]. split.
      * intros a r L. exact (H1 a r L).
      * intros Hf a Ha. apply H2; auto.
    + intros sc' H. destruct (scache cs1); [|discriminate]. inversion H; subst. apply sc_ok_nil.
  - destruct (fetch_summary_spec t cs c (conj Hi Hw) Hc') as [_ F]. destruct (fetch_summary t cs c). exact F.
  - destruct (query_datasets_spec t ty c cs (conj Hi Hw) Hc') as [_ F]. destruct (query_datasets t cs ty c). exact F.
  - destruct (fetch_all_spec t cs Hc') as [_ F]. destruct (fetch_all t cs). exact F.
  - destruct (fetch_all_spec t cs Hc') as [_ F]. destruct (fetch_all t cs) as [recs cs1]. cbn [fst snd] in F.
    match goal with |- context [query_members t cs1 ty ?ms] =>
      destruct (query_members_spec t ty ms cs1 (conj Hi Hw) F) as [_ Q]; destruct (query_members t cs1 ty ms) end. exact Q.
  - exact Hc'.
Qed.

(* the run without caching contexts never has caches *)
Lemma record_uncached : forall t c, record_of t no_caches c = (table_rec t c, no_caches).
Proof. reflexivity. Qed.
Lemma fetch_all_uncached : forall t, fetch_all t no_caches = (table_records t, no_caches).
Proof. reflexivity. Qed.
Lemma fetch_uncached : forall t c, snd (fetch_summary t no_caches c) = no_caches.
Proof.
  intros. unfold fetch_summary, children_of. rewrite record_uncached. cbn [scache no_caches rcache]. destruct (key_of t c); [|reflexivity].
  destruct (table_rec t c) as [[l|]|]; reflexivity.
Qed.
Lemma qm_uncached : forall t ty ms, snd (query_members t no_caches ty ms) = no_caches.
Proof.
  induction ms; cbn [query_members]; auto. assert (F := fetch_uncached t a). destruct (fetch_summary t no_caches a) as [s cs1].
  simpl in F. subst. destruct (query_members t no_caches ty ms). simpl in *. auto.
Qed.
Lemma qd_uncached : forall t ty c, snd (query_datasets t no_caches ty c) = no_caches.
Proof. intros. unfold query_datasets, children_of. rewrite record_uncached. destruct (key_of t c); [|reflexivity]. apply qm_uncached. Qed.

Lemma uncached_step : forall fx t o, snd (fst (rstep fx false (t, no_caches) o)) = no_caches.
Proof.
  intros. destruct o; cbn [rstep fst snd]; auto.
  - destruct (exists_b t c); reflexivity.
  - rewrite record_uncached. cbn [snd]. destruct (negb (exists_b t c)); [reflexivity|]. destruct (is_kid t c); [destruct (rm_order fx)|]; reflexivity.
  - destruct (is_chain_b t c && forallb (fun m => exists_b t m && negb (is_chain_b t m)) kids); reflexivity.
  - rewrite record_uncached. cbn [snd]. destruct (exists_b t run && negb (is_chain_b t run)); reflexivity.
  - assert (F := fetch_uncached t c). destruct (fetch_summary t no_caches c). simpl in *. exact F.
  - assert (F := qd_uncached t ty c). destruct (query_datasets t no_caches ty c). simpl in *. exact F.
  - rewrite fetch_all_uncached. match goal with |- context [query_members t no_caches ty ?ms] =>
    assert (F := qm_uncached t ty ms); destruct (query_members t no_caches ty ms) end. simpl in *. exact F.
Qed.

Lemma answers_step : forall fx t cs o, wf_tables t -> Coherent t cs ->
  snd (rstep fx true (t, cs) o) = snd (rstep fx false (t, no_caches) o).
Proof.
  intros fx t cs o Hw Hc. destruct o; cbn [rstep fst snd]; try reflexivity.
  - destruct (exists_b t c); reflexivity.
  - destruct (negb (exists_b t c)); [reflexivity|]. destruct (is_kid t c); reflexivity.
  - destruct (is_chain_b t c && forallb (fun m => exists_b t m && negb (is_chain_b t m)) kids); reflexivity.
  - destruct (exists_b t run && negb (is_chain_b t run)); reflexivity.
  - destruct (cache_transparent_p t cs 0 c Hw Hc) as [_ F]. destruct (fetch_summary t cs c), (fetch_summary t no_caches c). simpl in *. exact F.
  - destruct (cache_transparent_p t cs ty c Hw Hc) as [F _]. destruct (query_datasets t cs ty c), (query_datasets t no_caches ty c). simpl in *. exact F.
  - (* pattern lookups: a coherent cache, full or not, lists exactly the collections of the tables *)
    destruct (fetch_all_spec t cs Hc) as [F _]. rewrite fetch_all_uncached. destruct (fetch_all t cs) as [recs cs1]. cbn [fst snd] in *.
    apply filter_ext. intros c. rewrite F, lookup_table_records. reflexivity.
  - destruct (fetch_all_spec t cs Hc) as [F C]. rewrite fetch_all_uncached. destruct (fetch_all t cs) as [recs cs1]. cbn [fst snd] in *.
    assert (E : filter (fun c => match lookup c recs with Some None => true | _ => false end) among
              = filter (fun c => match lookup c (table_records t) with Some None => true | _ => false end) among).
    { apply filter_ext. intros c. rewrite F, lookup_table_records. reflexivity. }
    rewrite E. match goal with |- context [query_members t cs1 ty ?ms] =>
      assert (Q1 := proj1 (query_members_spec t ty ms cs1 Hw C));
      assert (Q2 := proj1 (query_members_spec t ty ms no_caches Hw (coherent_none t)));
      destruct (query_members t cs1 ty ms), (query_members t no_caches ty ms) end.
    cbn [fst snd] in *. congruence.
Qed.

(* every history: registrations, removals, chain edits, puts, queries, contexts in any order; no side condition on
   the operations (the registry refuses the ill-formed ones and the model does the same) *)
Lemma run_transparent_p : forall h t cs, wf_tables t -> Coherent t cs ->
  snd (rrun as_coded true (t, cs) h) = snd (rrun as_coded false (t, no_caches) h)
  /\ Coherent (fst (fst (rrun as_coded true (t, cs) h))) (snd (fst (rrun as_coded true (t, cs) h)))
  /\ wf_tables (fst (fst (rrun as_coded true (t, cs) h))).
Proof.
  induction h as [|o r IH]; intros t cs Hw Hc; [simpl; auto|]. cbn [rrun].
  assert (A := answers_step as_coded t cs o Hw Hc).
  assert (C := coherent_step true t cs o Hw Hc).
  assert (W := wf_tables_step as_coded true t cs o Hw).
  assert (U := uncached_step as_coded t o).
  assert (T := tables_fx as_coded as_coded true false t cs no_caches o).
  destruct (rstep as_coded true (t, cs) o) as [[t1 cs1] a1]. destruct (rstep as_coded false (t, no_caches) o) as [[t2 cs2] a2].
  cbn [fst snd] in *. subst.
  destruct (IH t2 cs1 W C) as [I1 [I2 I3]].
  destruct (rrun as_coded true (t2, cs1) r) as [s3 as3]. destruct (rrun as_coded false (t2, no_caches) r) as [s4 as4].
  cbn [fst snd] in *. subst. auto.
Qed.

Lemma wf_empty : wf_tables empty_tables.
Proof. split; [intros c c' k H; discriminate | intros c kids L; discriminate]. Qed.

(* a client always sees its own completed write: the dataset it just inserted is in the answer *)
Lemma datasets_in_put : forall t id ty run ck ch sm, In id (datasets_in (mkTables ck ch sm (data t ++ [(id, ty, run)])) ty run).
Proof.
  intros. unfold datasets_in. simpl. rewrite filter_app, map_app. apply in_or_app. right. simpl. rewrite !N.eqb_refl. simpl. auto.
Qed.

(* a refused request changes no table *)
Lemma refused_tables_same : forall fx uc t cs o,
  snd (rstep fx uc (t, cs) o) = err_ans -> (forall c, o <> QSummary c) -> (forall ty c, o <> QData ty c) ->
  (forall a, o <> QColls a) -> (forall ty a, o <> QDataGlob ty a) ->
  fst (fst (rstep fx uc (t, cs) o)) = t.
Proof.
  intros fx uc t cs o. destruct o; cbn [rstep fst snd]; intros H N1 N2 N3 N4; try reflexivity.
  - destruct uc; reflexivity.
  - destruct (exists_b t c); [reflexivity | discriminate H].
  - destruct (negb (exists_b t c)); [reflexivity|]. destruct (is_kid t c); [reflexivity | discriminate H].
  - destruct (is_chain_b t c && forallb (fun m => exists_b t m && negb (is_chain_b t m)) kids); [discriminate H | reflexivity].
  - destruct (exists_b t run && negb (is_chain_b t run)); [discriminate H | reflexivity].
  - exfalso. now apply (N1 c).
  - exfalso. now apply (N2 ty c).
  - exfalso. now apply (N3 among).
  - exfalso. now apply (N4 ty among).
Qed.
