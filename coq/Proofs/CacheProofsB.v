(* C17, part 2: the registry caches of caching_context() (Model/Cache.v, PART 2). *)
From Coq Require Import ZArith NArith List Bool Lia.
From V Require Import Model.Cache.
Import ListNotations.
Open Scope N_scope.
Arguments set_key : simpl never.

Lemma lookup_set_key : forall A (c c' : N) (v : A) l,
  lookup c' (set_key c v l) = if c =? c' then Some v else lookup c' l.
Proof.
  intros. unfold set_key. cbn [lookup]. destruct (c =? c') eqn:E; auto.
  induction l as [|[k x] r IH]; simpl; auto. destruct (k =? c) eqn:E2; simpl.
  - apply N.eqb_eq in E2. subst. rewrite E. exact IH.
  - destruct (k =? c'); auto.
Qed.

(* the answer the tables give *)
Definition true_summary (t : tables) (c : N) : list N :=
  match lookup c (chains t) with
  | Some kids => union_all (map (table_summary t) kids)
  | None => table_summary t c
  end.
Definition members (t : tables) (c : N) : list N :=
  match lookup c (chains t) with Some kids => kids | None => [c] end.
Fixpoint true_query (t : tables) (ty : N) (ms : list N) : list N :=
  match ms with
  | [] => []
  | m :: r => (if memN ty (true_summary t m) then datasets_in t ty m else []) ++ true_query t ty r
  end.

(* chains are one level deep *)
Definition wf_tables (t : tables) : Prop :=
  forall c kids, lookup c (chains t) = Some kids -> forall m, In m kids -> lookup m (chains t) = None.

Definition rc_ok (t : tables) (rc : list (N * list N)) : Prop :=
  forall c kids, lookup c rc = Some kids -> lookup c (chains t) = Some kids.
Definition sc_ok (t : tables) (sc : list (N * list N)) : Prop :=
  forall c s, lookup c sc = Some s -> s = true_summary t c.
Definition Coherent (t : tables) (cs : caches) : Prop :=
  (forall rc, rcache cs = Some rc -> rc_ok t rc) /\ (forall sc, scache cs = Some sc -> sc_ok t sc).

Lemma coherent_none : forall t, Coherent t no_caches.
Proof. intros. split; simpl; intros; discriminate. Qed.

Lemma sc_ok_set : forall t sc c s, sc_ok t sc -> s = true_summary t c -> sc_ok t (set_key c s sc).
Proof.
  intros t sc c s H Hs c' s' L. rewrite lookup_set_key in L. destruct (c =? c') eqn:E.
  - apply N.eqb_eq in E. subst. now inversion L.
  - now apply H.
Qed.

Lemma children_of_spec : forall t cs c, Coherent t cs ->
  fst (children_of t cs c) = lookup c (chains t) /\ Coherent t (snd (children_of t cs c)).
Proof.
  intros t cs c [Hr Hs]. unfold children_of. destruct (rcache cs) as [rc|] eqn:R; simpl.
  - destruct (lookup c rc) as [kids|] eqn:L; simpl.
    + split; [symmetry; now apply (Hr rc eq_refl)|]. split; auto. rewrite R. auto.
    + destruct (lookup c (chains t)) as [kids|] eqn:L2; simpl.
      * split; auto. split; simpl; auto. intros rc' Hrc. inversion Hrc; subst. intros c' k' L'.
        rewrite lookup_set_key in L'. destruct (c =? c') eqn:E.
        { apply N.eqb_eq in E. subst. inversion L'; subst. exact L2. }
        { now apply (Hr rc eq_refl). }
      * split; auto. split; auto. rewrite R. auto.
  - split; auto. split; auto. rewrite R. auto.
Qed.

Lemma sc_ok_fold : forall t ms sc, sc_ok t sc -> (forall m, In m ms -> lookup m (chains t) = None) ->
  sc_ok t (fold_left (fun acc m => set_key m (table_summary t m) acc) ms sc).
Proof.
  induction ms; simpl; intros; auto. apply IHms; auto. apply sc_ok_set; auto.
  unfold true_summary. rewrite (H0 a); auto.
Qed.

Lemma fetch_summary_spec : forall t cs c, wf_tables t -> Coherent t cs ->
  fst (fetch_summary t cs c) = true_summary t c /\ Coherent t (snd (fetch_summary t cs c)).
Proof.
  intros t cs c Hw Hc. unfold fetch_summary.
  destruct (match scache cs with Some sc => lookup c sc | None => None end) as [s|] eqn:Hit.
  - simpl. split; auto. destruct (scache cs) as [sc|] eqn:S; [|discriminate]. destruct Hc as [_ Hs]. now apply (Hs sc S).
  - destruct (children_of_spec t cs c Hc) as [K1 K2]. destruct (children_of t cs c) as [kids cs1]. simpl in K1, K2. subst kids.
    destruct K2 as [Hr1 Hs1]. simpl. split.
    + unfold true_summary. destruct (lookup c (chains t)); auto.
    + split; simpl; auto. intros sc' Hsc'. destruct (scache cs1) as [sc|] eqn:S; [|discriminate]. inversion Hsc'; subst. clear Hsc'.
      specialize (Hs1 sc eq_refl). destruct (lookup c (chains t)) as [kids|] eqn:L.
      * apply sc_ok_set; [|unfold true_summary; now rewrite L]. apply sc_ok_fold; auto. intros m Hm. now apply (Hw c kids L).
      * simpl. apply sc_ok_set; auto. unfold true_summary. now rewrite L.
Qed.

Lemma query_members_spec : forall t ty ms cs, wf_tables t -> Coherent t cs ->
  fst (query_members t cs ty ms) = true_query t ty ms /\ Coherent t (snd (query_members t cs ty ms)).
Proof.
  induction ms; simpl; intros; auto. destruct (fetch_summary_spec t cs a H H0) as [F1 F2].
  destruct (fetch_summary t cs a) as [s cs1]. simpl in F1, F2. destruct (IHms cs1 H F2) as [Q1 Q2].
  destruct (query_members t cs1 ty ms) as [rest cs2]. simpl in *. subst. auto.
Qed.

Lemma query_datasets_spec : forall t ty c cs, wf_tables t -> Coherent t cs ->
  fst (query_datasets t cs ty c) = true_query t ty (members t c) /\ Coherent t (snd (query_datasets t cs ty c)).
Proof.
  intros. unfold query_datasets. destruct (children_of_spec t cs c H0) as [K1 K2].
  destruct (children_of t cs c) as [kids cs1]. simpl in K1, K2. subst. apply query_members_spec; auto.
Qed.

(* a coherent cache never changes an answer *)
Lemma cache_transparent_p : forall t cs ty c, wf_tables t -> Coherent t cs ->
  fst (query_datasets t cs ty c) = fst (query_datasets t no_caches ty c)
  /\ fst (fetch_summary t cs c) = fst (fetch_summary t no_caches c).
Proof.
  intros. split.
  - rewrite (proj1 (query_datasets_spec t ty c cs H H0)). symmetry. apply query_datasets_spec; auto. apply coherent_none.
  - rewrite (proj1 (fetch_summary_spec t cs c H H0)). symmetry. apply fetch_summary_spec; auto. apply coherent_none.
Qed.

(* ---- histories ---- *)
Definition is_chain (t : tables) (c : N) : Prop := lookup c (chains t) <> None.
Definition wf_rop (t : tables) (o : rop) : Prop :=
  match o with
  | SetChain c kids => is_chain t c /\ forall m, In m kids -> lookup m (chains t) = None
  | _ => True
  end.
Definition no_setchain (o : rop) : Prop := match o with SetChain _ _ => False | _ => True end.

Lemma wf_tables_step : forall fx uc t cs o, wf_tables t -> wf_rop t o -> wf_tables (fst (fst (rstep fx uc (t, cs) o))).
Proof.
  intros fx uc t cs o Hw Ho. destruct o; cbn [rstep fst snd]; auto.
  - destruct uc; simpl; auto.
  - destruct Ho as [Hc Hk]. intros c' k' L m Hm. cbn [chains] in *. rewrite lookup_set_key in *.
    destruct (c =? c') eqn:E.
    + inversion L; subst. destruct (c =? m) eqn:E2; [|now apply Hk].
      apply N.eqb_eq in E2. subst. exfalso. apply Hc. now apply Hk.
    + destruct (c =? m) eqn:E2; [|now apply (Hw c' k' L)].
      apply N.eqb_eq in E2. subst. exfalso. apply Hc. now apply (Hw c' k' L).
  - destruct (fetch_summary t cs c). simpl. auto.
  - destruct (query_datasets t cs ty c). simpl. auto.
Qed.

Lemma tables_step_uc : forall fx t cs cs' o,
  fst (fst (rstep fx true (t, cs) o)) = fst (fst (rstep fx false (t, cs') o)).
Proof.
  intros. destruct o; simpl; auto.
  - destruct (fetch_summary t cs c), (fetch_summary t cs' c). auto.
  - destruct (query_datasets t cs ty c), (query_datasets t cs' ty c). auto.
Qed.

Lemma coherent_step : forall fx uc t cs o, wf_tables t -> Coherent t cs -> (fx = true \/ no_setchain o) ->
  Coherent (fst (fst (rstep fx uc (t, cs) o))) (snd (fst (rstep fx uc (t, cs) o))).
Proof.
  intros fx uc t cs o Hw [Hr Hs] Hf. destruct o; cbn [rstep fst snd].
  - destruct uc; simpl; [|split; auto]. split; simpl.
    + intros rc H. destruct (rcache cs) eqn:R; [now apply Hr|]. inversion H; subst. intros c k L. discriminate.
    + intros sc H. destruct (scache cs) eqn:S; [now apply Hs|]. inversion H; subst. intros c k L. discriminate.
  - apply coherent_none.
  - destruct Hf as [Hf|Hf]; [subst|destruct Hf]. split; cbn [rcache scache].
    + intros rc' H. destruct (rcache cs) as [rc|] eqn:R; [|discriminate]. inversion H; subst. intros c' k' L. cbn [chains].
      rewrite lookup_set_key in *. destruct (c =? c'); auto. now apply (Hr rc eq_refl).
    + intros sc' H. destruct (scache cs); [|discriminate]. inversion H; subst. intros c' s' L. discriminate.
  - split; simpl.
    + intros rc H. now apply Hr.
    + intros sc' H. destruct (scache cs); [|discriminate]. inversion H; subst. intros c' s' L. discriminate.
  - destruct (fetch_summary_spec t cs c Hw (conj Hr Hs)) as [_ F]. destruct (fetch_summary t cs c). exact F.
  - destruct (query_datasets_spec t ty c cs Hw (conj Hr Hs)) as [_ F]. destruct (query_datasets t cs ty c). exact F.
Qed.

(* the run without caching contexts never has caches *)
Lemma fetch_uncached : forall t c, snd (fetch_summary t no_caches c) = no_caches.
Proof. intros. unfold fetch_summary, children_of. simpl. destruct (lookup c (chains t)); reflexivity. Qed.
Lemma qm_uncached : forall t ty ms, snd (query_members t no_caches ty ms) = no_caches.
Proof.
  induction ms; cbn [query_members]; auto. assert (F := fetch_uncached t a). destruct (fetch_summary t no_caches a) as [s cs1].
  simpl in F. subst. destruct (query_members t no_caches ty ms). simpl in *. auto.
Qed.
Lemma qd_uncached : forall t ty c, snd (query_datasets t no_caches ty c) = no_caches.
Proof. intros. unfold query_datasets, children_of. simpl. apply qm_uncached. Qed.

Lemma uncached_step : forall fx t o, snd (fst (rstep fx false (t, no_caches) o)) = no_caches.
Proof.
  intros. destruct o; cbn [rstep fst snd]; auto.
  all: try (assert (F := fetch_uncached t c); destruct (fetch_summary t no_caches c); simpl in *; exact F).
  all: try (assert (F := qd_uncached t ty c); destruct (query_datasets t no_caches ty c); simpl in *; exact F).
Qed.

Lemma answers_step : forall fx t cs o, wf_tables t -> Coherent t cs ->
  snd (rstep fx true (t, cs) o) = snd (rstep fx false (t, no_caches) o).
Proof.
  intros fx t cs o Hw Hc. destruct o; cbn [rstep fst snd]; try reflexivity.
  - destruct (cache_transparent_p t cs 0 c Hw Hc) as [_ F]. destruct (fetch_summary t cs c), (fetch_summary t no_caches c). simpl in *. exact F.
  - destruct (cache_transparent_p t cs ty c Hw Hc) as [F _]. destruct (query_datasets t cs ty c), (query_datasets t no_caches ty c). simpl in *. exact F.
Qed.

Fixpoint wf_hist (t : tables) (h : list rop) : Prop :=
  match h with
  | [] => True
  | o :: r => wf_rop t o /\ wf_hist (fst (fst (rstep true false (t, no_caches) o))) r
  end.

Lemma tables_fx : forall fx fx' uc uc' t cs cs' o, fst (fst (rstep fx uc (t, cs) o)) = fst (fst (rstep fx' uc' (t, cs') o)).
Proof.
  intros. destruct o; simpl; auto.
  - destruct uc, uc'; auto.
  - destruct (fetch_summary t cs c), (fetch_summary t cs' c). auto.
  - destruct (query_datasets t cs ty c), (query_datasets t cs' ty c). auto.
Qed.

Lemma run_transparent_p : forall fx h t cs, wf_tables t -> Coherent t cs -> wf_hist t h ->
  (fx = true \/ Forall no_setchain h) ->
  snd (rrun fx true (t, cs) h) = snd (rrun fx false (t, no_caches) h)
  /\ Coherent (fst (fst (rrun fx true (t, cs) h))) (snd (fst (rrun fx true (t, cs) h))).
Proof.
  induction h as [|o r IH]; intros t cs Hw Hc Hh Hf; [simpl; split; auto|].
  cbn [wf_hist] in Hh. destruct Hh as [Ho Hr]. cbn [rrun].
  assert (Hf1 : fx = true \/ no_setchain o) by (destruct Hf as [Hf|Hf]; [left; auto | right; now inversion Hf]).
  assert (Hf2 : fx = true \/ Forall no_setchain r) by (destruct Hf as [Hf|Hf]; [left; auto | right; now inversion Hf]).
  assert (A := answers_step fx t cs o Hw Hc).
  assert (C := coherent_step fx true t cs o Hw Hc Hf1).
  assert (W := wf_tables_step fx true t cs o Hw Ho).
  assert (U := uncached_step fx t o).
  assert (T := tables_fx fx fx true false t cs no_caches o).
  rewrite <- (tables_fx fx true true false t cs no_caches o) in Hr.
  destruct (rstep fx true (t, cs) o) as [[t1 cs1] a1]. destruct (rstep fx false (t, no_caches) o) as [[t2 cs2] a2].
  cbn [fst snd] in *. subst.
  destruct (IH t2 cs1 W C Hr Hf2) as [I1 I2].
  destruct (rrun fx true (t2, cs1) r) as [s3 as3]. destruct (rrun fx false (t2, no_caches) r) as [s4 as4].
  cbn [fst snd] in *. subst. split; auto.
Qed.

(* a client always sees its own completed write: the dataset it just inserted is in the answer *)
Lemma datasets_in_put : forall t id ty run sm, In id (datasets_in (mkTables (chains t) sm (data t ++ [(id, ty, run)])) ty run).
Proof.
  intros. unfold datasets_in. simpl. rewrite filter_app, map_app. apply in_or_app. right. simpl. rewrite !N.eqb_refl. simpl. auto.
Qed.
