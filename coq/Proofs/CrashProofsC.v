(* C08 lemmas, part C: emptyTrash completes every deletion that still has records; histories; completed insertions hold
   the complete artifact. *)
From Coq Require Import NArith PeanoNat List Bool Lia.
From V Require Import Model.Crash Proofs.CrashProofsA Proofs.CrashProofsB.
Import ListNotations.
Open Scope N_scope.

Lemma ovl_run_op : forall s o, ovl (run_op s o) = None.
Proof. reflexivity. Qed.

Lemma ovl_run : forall h s, ovl s = None -> ovl (run s h) = None.
Proof. induction h as [|o r IH]; intros s O; simpl; [exact O | apply IH, ovl_run_op]. Qed.

Lemma ovl_init : ovl init = None.
Proof. reflexivity. Qed.

Lemma fget_fdel_none : forall f g m, fget f m = None -> fget f (fdel g m) = None.
Proof.
  intros f g m H. destruct (fname_eqb f g) eqn:E.
  - apply fname_eqb_eq in E. subst. apply fget_fdel_same.
  - apply fname_eqb_neq in E. rewrite fget_fdel_other by exact E. exact H.
Qed.

Lemma deletes_run : forall rows s,
  let s' := run_steps s (map (fun d => FsDelete (Final d)) rows) in
  cdb s' = cdb s /\ ovl s' = ovl s
  /\ (forall d, mem d rows = true -> fget (Final d) (fs s') = None)
  /\ (forall f, fget f (fs s) = None -> fget f (fs s') = None).
Proof.
  induction rows as [|x r IH]; intros s; cbn [map].
  - cbn zeta. split; [reflexivity|]. split; [reflexivity|]. split; [intros d H; discriminate | intros f H; exact H].
  - change (run_steps s (FsDelete (Final x) :: map (fun d => FsDelete (Final d)) r))
      with (run_steps (do_step s (FsDelete (Final x))) (map (fun d => FsDelete (Final d)) r)).
    destruct (IH (do_step s (FsDelete (Final x)))) as (A & B & C & D). cbn zeta.
    split; [rewrite A; reflexivity|]. split; [rewrite B; reflexivity|]. split.
    + intros d H. simpl in H. destruct (N.eqb_spec d x) as [Exd|N].
      * rewrite Exd. apply D. cbn [do_step fs]. apply fget_fdel_same.
      * apply C, H.
    + intros f H. apply D. cbn [do_step fs]. apply fget_fdel_none, H.
Qed.

(* emptyTrash, run to completion from any recovered state, completes every pending deletion that still has records *)
Lemma emptytrash_clears_l : forall u ord d,
  ovl u = None -> mem d (d_trash (cdb u)) = true -> mem d (d_recs (cdb u)) = true ->
  let u' := run_op u (EmptyTrash ord) in
  knows u' d = false /\ mem d (d_trash (cdb u')) = false /\ fget (Final d) (fs u') = None
  /\ mem d (d_loc (cdb u')) = mem d (d_loc (cdb u)) /\ recorded u' d = recorded u d.
Proof.
  intros u ord d O T Rc u'. unfold u', run_op. set (u0 := recover u).
  assert (EP : plan u0 (EmptyTrash ord) = plan_empty (cdb u) ord) by reflexivity.
  rewrite EP. unfold plan_empty.
  assert (MR : mem d (order_by ord (inter (d_trash (cdb u)) (d_recs (cdb u)))) = true)
    by (rewrite mem_order_by, mem_inter, T, Rc; reflexivity).
  destruct (order_by ord (inter (d_trash (cdb u)) (d_recs (cdb u)))) as [|x r] eqn:E; [discriminate|].
  rewrite run_steps_app.
  destruct (deletes_run (x :: r) u0) as (A & B & C & _). cbn zeta in *.
  set (m := run_steps u0 (map (fun d0 => FsDelete (Final d0)) (x :: r))) in *.
  assert (Em : m = mkSt (cdb u) None (fs m)).
  { destruct m as [c o f]. simpl in A, B. subst c o. reflexivity. }
  specialize (C d MR). rewrite Em in C. cbn [fs] in C. rewrite Em.
  unfold run_steps. cbn [fold_left do_step ovl cdb fs recover apply_stmt d_runs d_ds d_loc d_trash d_recs].
  unfold knows, recorded. cbn [cdb fs d_runs d_ds d_loc d_trash d_recs].
  unfold recover. cbn [cdb fs d_runs d_ds d_loc d_trash d_recs]. rewrite !mem_reml, MR. rewrite !andb_false_r. repeat split; auto.
Qed.

