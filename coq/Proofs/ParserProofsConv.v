(* C14 proofs, part 5: the conversion layer.  C05's `conv` / `ctype` (the type discipline of _ConversionVisitor and of
   the pydantic validators) accept ONLY expressions that are well typed under the documented typing `typeof`, apart
   from two documented-vs-coded differences that are C05's known findings (an integer expression containing `/` is
   still an `int` for the code; `time IN (t1, t2)` is an equality list for the code).  Composed with of_tree, the
   parser and the lexer this gives the clause "a string that is not a valid, well-typed expression is rejected". *)
From Coq Require Import ZArith List Bool String Ascii NArith Lia.
From V Require Import Base.Tri Gen.TimespanGen Model.Expr Model.SqlExpr Model.Lexer Model.ExprTree Model.Parser Model.ParserConv
                      Proofs.ParserProofs Proofs.ParserProofsCanon.
Import ListNotations.
Open Scope string_scope.

(* ------------------------------------------------------------------ the two known differences, syntactically *)
Definition is_div (o : aop) : bool := match o with ODiv => true | _ => false end.
Definition is_time (e : expr) : bool := match ctype e with Some TyTime => true | _ => false end.

(* no `/` anywhere and no IN whose member is a time *)
Fixpoint quirk_free (e : expr) : bool :=
  match e with
  | ELit _ | ENull | ECol _ _ => true
  | EBegin a | EEnd a | ENeg a | ENot a => quirk_free a
  | EArith o a b => negb (is_div o) && quirk_free a && quirk_free b
  | ECmp _ a b | EOverlaps a b | EAnd a b | EOr a b => quirk_free a && quirk_free b
  | EIn a _ _ => quirk_free a && negb (is_time a)
  end.

Lemma ctype_not_bool : forall e t, ctype e = Some t -> t <> TyBool.
Proof.
  induction e; simpl; intros rt H; try discriminate.
  - destruct v; inversion H; subst; discriminate.
  - destruct t; inversion H; subst; discriminate.
  - destruct (ctype e) as [[]|]; inversion H; subst; discriminate.
  - destruct (ctype e) as [[]|]; inversion H; subst; discriminate.
  - destruct (ctype e) as [t0|] eqn:E; [|discriminate]. destruct (numeric t0) eqn:N; inversion H; subst.
    destruct rt; try discriminate N; discriminate.
  - destruct (ctype e1) as [ta|] eqn:E1; [|discriminate]. destruct (ctype e2) as [tb|]; [|discriminate].
    destruct (ty_eqb ta tb && numeric ta && _) eqn:C; inversion H; subst.
    apply andb_true_iff in C. destruct C as [C _]. apply andb_true_iff in C. destruct C as [_ N].
    destruct rt; try discriminate N; discriminate.
Qed.

(* without `/`, the code's column type IS the documented type *)
Lemma ctype_typeof : forall e t, quirk_free e = true -> ctype e = Some t -> typeof e = Some (dty_of_ty t).
Proof.
  induction e; simpl; intros rt Q H; try discriminate.
  - destruct v; inversion H; subst; reflexivity.
  - destruct t; inversion H; subst; reflexivity.
  - destruct (ctype e) as [[]|] eqn:E; inversion H; subst. rewrite (IHe TySpan Q eq_refl). reflexivity.
  - destruct (ctype e) as [[]|] eqn:E; inversion H; subst. rewrite (IHe TySpan Q eq_refl). reflexivity.
  - destruct (ctype e) as [t0|] eqn:E; [|discriminate]. rewrite (IHe t0 Q eq_refl).
    destruct t0; simpl in H; inversion H; subst; reflexivity.
  - apply andb_true_iff in Q. destruct Q as [Q Q2]. apply andb_true_iff in Q. destruct Q as [D Q1].
    destruct (ctype e1) as [ta|] eqn:E1; [|discriminate]. destruct (ctype e2) as [tb|] eqn:E2; [|discriminate].
    rewrite (IHe1 ta Q1 eq_refl), (IHe2 tb Q2 eq_refl).
    destruct o; try discriminate D; destruct ta, tb; simpl in H; inversion H; subst; reflexivity.
Qed.

Lemma conv_item_typed : forall a ta it p,
  ta <> TyBool -> ta <> TyTime -> conv_item a ta it = Some p -> Expr.item_ok (dty_of_ty ta) it = true.
Proof.
  intros a ta it p NB NT H. destruct it; simpl in *.
  - destruct (cmp_ok CEq ta (ty_of v) && negb (ty_eqb (ty_of v) TyBool)) eqn:C; [|discriminate].
    destruct ta, (ty_of v); try discriminate C; try reflexivity; congruence.
  - destruct (cmp_ok CEq ta t && negb (ty_eqb t TyBool)) eqn:C; [|discriminate].
    destruct ta, t; try discriminate C; try reflexivity; congruence.
  - destruct (ty_eqb ta TyInt && (1 <=? stride_of st)%Z && (a0 <=? b + 1)%Z) eqn:C; [|discriminate].
    destruct ta; try discriminate C. exact C.
  - destruct (negb (ty_eqb ta TySpan) && forallb (fun v => ty_eqb (ty_of v) ta) vs) eqn:C; [|discriminate].
    apply andb_true_iff in C. destruct C as [C1 C2].
    assert (E : forall d, erase (dty_of_ty d) = d) by (destruct d; reflexivity). rewrite E, C2.
    destruct ta; try discriminate C1; try reflexivity; congruence.
  - reflexivity.
Qed.

Lemma conv_items_typed : forall a ta its acc f,
  ta <> TyBool -> ta <> TyTime -> conv_items a ta its acc = Some f -> forallb (Expr.item_ok (dty_of_ty ta)) its = true.
Proof.
  induction its as [|it its IH]; simpl; intros acc f NB NT H; auto.
  destruct (conv_item a ta it) as [p|] eqn:E; [|discriminate].
  rewrite (conv_item_typed a ta it p NB NT E). simpl. eapply IH; eauto.
Qed.

Lemma dty_bool_iff : forall t, dty_eqb (dty_of_ty t) DBool = ty_eqb t TyBool.
Proof. destruct t; reflexivity. Qed.
Lemma erase_of_ty : forall t, erase (dty_of_ty t) = t.
Proof. destruct t; reflexivity. Qed.

(* null_operand: a column expression or a bare boolean column *)
Lemma null_operand_typed : forall a o, quirk_free a = true -> null_operand a = true -> cop_is_eq o = true ->
  match typeof a with
  | Some ta => if cop_is_eq o && (negb (dty_eqb ta DBool) || is_ECol a) then Some DBool else None
  | None => None
  end = Some DBool.
Proof.
  intros a o Q N O. unfold null_operand in N. destruct (ctype a) as [t|] eqn:C.
  - rewrite (ctype_typeof a t Q C), O, dty_bool_iff.
    pose proof (ctype_not_bool a t C). destruct t; try reflexivity. congruence.
  - destruct a; try discriminate N. destruct t; try discriminate N. simpl. rewrite O. reflexivity.
Qed.

(* ------------------------------------------------------------------ conv accepts only documented-well-typed expressions *)
Theorem conv_accepts_typed_p : forall e f, quirk_free e = true -> conv e = Some f -> typeof e = Some DBool.
Proof.
  induction e; intros f Q H; simpl in H; try discriminate.
  - (* ECol *) destruct t; try discriminate. reflexivity.
  - (* ECmp *)
    simpl in Q. apply andb_true_iff in Q. destruct Q as [Q1 Q2]. simpl.
    destruct (is_ENull e2) eqn:N2.
    + destruct (null_operand e1) eqn:NO; [|discriminate].
      apply null_operand_typed; auto. destruct o; try discriminate H; reflexivity.
    + destruct (is_ENull e1) eqn:N1.
      * destruct (null_operand e2) eqn:NO; [|discriminate].
        apply null_operand_typed; auto. destruct o; try discriminate H; reflexivity.
      * destruct (ctype e1) as [ta|] eqn:C1; [|discriminate]. destruct (ctype e2) as [tb|] eqn:C2; [|discriminate].
        destruct (cmp_ok o ta tb) eqn:K; [|discriminate].
        rewrite (ctype_typeof e1 ta Q1 C1), (ctype_typeof e2 tb Q2 C2), !erase_of_ty.
        pose proof (ctype_not_bool e1 ta C1). unfold cmp_ok in K.
        destruct ta, tb; try discriminate K; try congruence; destruct o; try discriminate K; reflexivity.
  - (* EOverlaps *)
    simpl in Q. apply andb_true_iff in Q. destruct Q as [Q1 Q2]. simpl.
    destruct (ctype e1) as [ta|] eqn:C1; [|discriminate]. destruct (ctype e2) as [tb|] eqn:C2; [|destruct ta; discriminate].
    rewrite (ctype_typeof e1 ta Q1 C1), (ctype_typeof e2 tb Q2 C2).
    destruct ta, tb; try discriminate H; reflexivity.
  - (* EIn *)
    simpl in Q. apply andb_true_iff in Q. destruct Q as [Q1 QT]. simpl.
    destruct (ctype e) as [ta|] eqn:C; [|discriminate].
    destruct (conv_items e ta its (BConst false)) as [g|] eqn:CI; [|discriminate].
    pose proof (ctype_not_bool e ta C) as NB.
    assert (NT : ta <> TyTime) by (unfold is_time in QT; rewrite C in QT; destruct ta; try discriminate; discriminate QT).
    rewrite (ctype_typeof e ta Q1 C), (conv_items_typed e ta its _ g NB NT CI), dty_bool_iff.
    destruct ta; try reflexivity; congruence.
  - (* ENot *) simpl in Q. destruct (conv e) as [g|] eqn:C; [|discriminate]. simpl. rewrite (IHe g Q eq_refl). reflexivity.
  - (* EAnd *) simpl in Q. apply andb_true_iff in Q. destruct Q as [Q1 Q2].
    destruct (conv e1) as [g1|] eqn:C1; [|discriminate]. destruct (conv e2) as [g2|] eqn:C2; [|discriminate].
    simpl. rewrite (IHe1 g1 Q1 eq_refl), (IHe2 g2 Q2 eq_refl). reflexivity.
  - (* EOr *) simpl in Q. apply andb_true_iff in Q. destruct Q as [Q1 Q2].
    destruct (conv e1) as [g1|] eqn:C1; [|discriminate]. destruct (conv e2) as [g2|] eqn:C2; [|discriminate].
    simpl. rewrite (IHe1 g1 Q1 eq_refl), (IHe2 g2 Q2 eq_refl). reflexivity.
Qed.

(* the contrapositive, the way the property states it *)
Theorem rejects_ill_typed_p : forall e, quirk_free e = true -> typeof e <> Some DBool -> conv e = None.
Proof. intros e Q T. destruct (conv e) as [f|] eqn:C; auto. exfalso. apply T. eapply conv_accepts_typed_p; eauto. Qed.

(* ... and without the guard it is false: C05's findings F-C05-range-on-quotient and F-C05-time-in-is-equality *)
Theorem rejects_ill_typed_refuted_p :
  (exists e, typeof e = None /\ conv e <> None /\ quirk_free e = false) /\
  typeof (EIn (EArith ODiv (ECol 1%N TyInt) (ELit (VInt 2))) [IRange 1 2 None] false) = None /\
  conv (EIn (EArith ODiv (ECol 1%N TyInt) (ELit (VInt 2))) [IRange 1 2 None] false) <> None /\
  typeof (EIn (EBegin (ECol 2%N TySpan)) [ILit (VTime 10); ILit (VTime 20)] false) = None /\
  conv (EIn (EBegin (ECol 2%N TySpan)) [ILit (VTime 10); ILit (VTime 20)] false) <> None.
Proof.
  repeat split; try reflexivity; try (vm_compute; discriminate).
  exists (EIn (EArith ODiv (ECol 1%N TyInt) (ELit (VInt 2))) [IRange 1 2 None] false).
  repeat split; try reflexivity. vm_compute; discriminate.
Qed.

(* ------------------------------------------------------------------ numeric literal values *)
Lemma digit_not_sign : forall c, is_digit c = true -> c <> "-"%char /\ c <> "+"%char.
Proof. intros c H. split; intros E; subst; discriminate H. Qed.

Lemma span_digits_all : forall ds, forallb is_digit ds = true -> span is_digit ds = (ds, []).
Proof.
  induction ds as [|c ds IH]; simpl; intros H; auto.
  apply andb_true_iff in H. destruct H as [Hc Hr]. rewrite Hc, IH; auto.
Qed.

(* a digit string is the integer it spells; with a sign (IN lists) the signed integer *)
Theorem num_value_int_p : forall ds, ds <> [] -> forallb is_digit ds = true ->
  num_value (string_of_list_ascii ds) = VInt (digits_val ds) /\
  num_value (string_of_list_ascii ("-"%char :: ds)) = VInt (- digits_val ds) /\
  num_value (string_of_list_ascii ("+"%char :: ds)) = VInt (digits_val ds).
Proof.
  intros ds NE F. unfold num_value. rewrite !list_ascii_of_string_of_list_ascii.
  destruct ds as [|c ds]; [congruence|].
  pose proof F as F'. simpl in F'. apply andb_true_iff in F'. destruct F' as [Fc _].
  destruct (digit_not_sign c Fc) as [N1 N2].
  rewrite (span_digits_all (c :: ds) F).
  split; [|split].
  - destruct c as [[|] [|] [|] [|] [|] [|] [|] [|]]; try discriminate Fc;
      rewrite (span_digits_all _ F); f_equal; apply Z.mul_1_l.
  - f_equal; try (destruct (digits_val (c :: ds)); reflexivity).
  - f_equal; try apply Z.mul_1_l.
Qed.

(* ------------------------------------------------------------------ the composed path: lexer, parser, of_tree, conv *)
Section Path.
  Variable res : string -> option rid.
  Variable bound : string -> bool.
  Variable tns : string -> Z.
  Variable tv : string -> option string.
  Notation oft := (of_tree res bound tns).
  Notation verdict_of := (where_verdict res bound tns tv).

  (* nothing is accepted "with some other meaning": an accepted string is empty, or it parses (for every larger
     fuel, to a canonical tree), the tree converts, and the expression is one that conv accepts *)
  Theorem accept_spec_p : forall tun s, tun_inverts tv tun -> verdict_of s = Accept ->
    parse_string tv s = POk None \/
    exists t e f, parse_string tv s = POk (Some t) /\ canonical tv tun t = true /\ oft t = TConv e /\ conv e = Some f.
  Proof.
    intros tun s TI H. unfold where_verdict, parsed_verdict in H.
    destruct (parse_string tv s) as [[t|]|e|] eqn:P; try discriminate; [|left; reflexivity].
    right. unfold tree_verdict in H. destruct (oft t) as [e| |] eqn:O; try discriminate.
    destruct (conv e) as [f|] eqn:C; [|destruct (has_span_eq e); discriminate].
    exists t, e, f. repeat split; auto. eapply parse_string_canonical_p; eauto.
  Qed.

  (* ... and, outside the two known differences, that expression is a documented-well-typed boolean *)
  Theorem accept_well_typed_p : forall s t e, parse_string tv s = POk (Some t) -> oft t = TConv e -> quirk_free e = true ->
    verdict_of s = Accept -> typeof e = Some DBool.
  Proof.
    intros s t e P O Q H. unfold where_verdict, parsed_verdict, tree_verdict in H. rewrite P, O in H.
    destruct (conv e) as [f|] eqn:C; [|destruct (has_span_eq e); discriminate].
    eapply conv_accepts_typed_p; eauto.
  Qed.

  (* the clause of the property: not valid -> Reject; valid but not well typed -> Reject (or, for an equality between
     timespans only, no claim: known finding F-C14-timespan-eq) *)
  Theorem invalid_rejected_p : forall s e, parse_string tv s = PErr e -> verdict_of s = Reject.
  Proof. intros s e P. unfold where_verdict. rewrite P. reflexivity. Qed.

  Theorem ill_typed_rejected_p : forall s t e, parse_string tv s = POk (Some t) -> oft t = TConv e ->
    quirk_free e = true -> typeof e <> Some DBool -> has_span_eq e = false -> verdict_of s = Reject.
  Proof.
    intros s t e P O Q T SE. unfold where_verdict, parsed_verdict, tree_verdict. rewrite P, O.
    rewrite (rejects_ill_typed_p e Q T), SE. reflexivity.
  Qed.

  Theorem never_accepted_ill_typed_p : forall s t e, parse_string tv s = POk (Some t) -> oft t = TConv e ->
    quirk_free e = true -> typeof e <> Some DBool -> verdict_of s <> Accept.
  Proof.
    intros s t e P O Q T. unfold where_verdict, parsed_verdict, tree_verdict. rewrite P, O.
    rewrite (rejects_ill_typed_p e Q T). destruct (has_span_eq e); discriminate.
  Qed.

  (* shapes the visitor refuses whatever the types: they never convert *)
  Theorem refused_shapes_p : forall f args a b st x,
    oft (Call f args) = TRej /\ oft (Range a b st) = TRej /\
    oft (Binary x BEq (Range a b st)) <> TConv (ENull) /\
    (forall e, oft (Binary (Range a b st) BEq x) <> TConv e) /\
    (forall e, oft (Unary UNot (Range a b st)) <> TConv e) /\
    (forall e, oft (Parens (Call f args)) <> TConv e).
  Proof.
    intros. repeat split; try reflexivity; try (intros; simpl; discriminate).
    simpl. destruct (oft x); simpl; discriminate.
  Qed.

  (* parentheses never change the verdict *)
  Theorem parens_transparent_p : forall t, oft (Parens t) = oft t /\ tree_verdict res bound tns (Parens t) = tree_verdict res bound tns t.
  Proof. intros. split; reflexivity. Qed.

  (* a name that visitIdentifier refuses, or a bind name that is not bound, makes the whole expression Reject or NoClaim,
     never Accept: rejection propagates through every node *)
  Fixpoint mentions (n : string) (t : tree) : bool :=
    match t with
    | Ident s => String.eqb (lower s) n
    | Bind s => String.eqb (lower s) n
    | Unary _ x | Parens x => mentions n x
    | Binary l _ r | Tuple l r | Point l r => mentions n l || mentions n r
    | IsIn l vs _ => mentions n l || existsb (mentions n) vs
    | _ => false
    end.

  Lemma of_items_unknown : forall n vs its, res n = None -> existsb (mentions n) vs = true ->
    of_items res bound tns vs <> Some (Some its).
  Proof.
    intros n. induction vs as [|v vs IH]; simpl; intros its R M; [discriminate|].
    apply orb_true_iff in M. destruct M as [M|M].
    - destruct v; simpl in M; try discriminate M; simpl; try discriminate;
        apply String.eqb_eq in M; unfold lookup_ident, lookup_bind; rewrite M, R; try destruct (bound n); simpl; discriminate.
    - destruct (of_item res bound tns v); try discriminate.
      destruct (of_items res bound tns vs) as [[its'|]|] eqn:E; try discriminate.
      exfalso. eapply IH; eauto.
  Qed.

  Theorem unknown_name_never_converts_p : forall n t e, res n = None -> mentions n t = true -> oft t <> TConv e.
  Proof.
    intros n t. induction t using tree_ind2; intros e R M; simpl in M; try discriminate M.
    - apply String.eqb_eq in M. simpl. unfold lookup_ident. rewrite M, R. discriminate.
    - apply String.eqb_eq in M. simpl. unfold lookup_bind. rewrite M, R. destruct (bound n); discriminate.
    - simpl. destruct (oft t) as [e0| |] eqn:O; try (destruct o; discriminate).
      exfalso. eapply IHt; eauto.
    - simpl. apply orb_true_iff in M. destruct (oft t1) as [e1| |] eqn:O1; try discriminate.
      destruct M as [M|M]; [exfalso; eapply IHt1; eauto|].
      destruct (oft t2) as [e2| |] eqn:O2; try discriminate. exfalso; eapply IHt2; eauto.
    - simpl. apply orb_true_iff in M. destruct (oft t) as [e1| |] eqn:O1; try discriminate.
      destruct M as [M|M]; [exfalso; eapply IHt; eauto|]. simpl.
      destruct (of_items res bound tns vs) as [[its|]|] eqn:E; try discriminate.
      exfalso. eapply of_items_unknown; eauto.
    - simpl. eapply IHt; eauto.
    - simpl. apply orb_true_iff in M. destruct (oft t1) as [e1| |] eqn:O1; try discriminate.
      destruct M as [M|M]; [exfalso; eapply IHt1; eauto|].
      destruct (oft t2) as [e2| |] eqn:O2; try discriminate. exfalso; eapply IHt2; eauto.
    - simpl. apply orb_true_iff in M. destruct (oft t1) as [e1| |] eqn:O1; try discriminate.
      destruct M as [M|M]; [exfalso; eapply IHt1; eauto|].
      destruct (oft t2) as [e2| |] eqn:O2; try discriminate. exfalso; eapply IHt2; eauto.
  Qed.
End Path.
