(* C15 -- visiting a WHOLE predicate with a substituting SimplePredicateVisitor (Model/PredVisitCheck.v: the regenerated
   apply_logical_* helpers composed as PredicateVisitor._visit_logical_and/_or/_not composes them):
   the rebuilt predicate has exactly the value of the original under the substituted assignment, for EVERY substitution
   (replaced atoms under a NOT included, since /repo 33efa74; Proofs/PredProofsV.v apply_not_sound_p). *)
From Coq Require Import NArith List Bool Lia.
From V Require Import Base.Tri Model.Pred Model.PredCheck Gen.PredGen Gen.PredVisitGen Model.PredVisitCheck
  Proofs.PredProofs Proofs.PredProofsV.
Import ListNotations.

(* the assignment after substitution *)
Definition subst_val (v : atom -> tri) (s : list (atom * cnf)) (a : atom) : tri :=
  match sub_of s a with Some r => eval3 v r | None => v a end.

Lemma fold_left_or : forall l x, fold_left tri_or l x = tri_or x (fold_right tri_or FF l).
Proof.
  induction l as [|y l IH]; intros x; cbn [fold_left fold_right]; [now rewrite tri_or_FF_r|].
  now rewrite IH, tri_or_assoc.
Qed.
Lemma fold_left_and : forall l x, fold_left tri_and l x = tri_and x (fold_right tri_and TT l).
Proof.
  induction l as [|y l IH]; intros x; cbn [fold_left fold_right]; [now rewrite tri_and_TT_r|].
  now rewrite IH, tri_and_assoc.
Qed.

Lemma combine_map_r : forall {A B} (f : A -> B) (l : list A), combine l (map f l) = map (fun x => (x, f x)) l.
Proof. intros A B f l. induction l as [|x l IH]; cbn; [reflexivity|now rewrite IH]. Qed.

Lemma leaf_val : forall v s l, res_val v l (visit_leaf s l) = lit_eval (subst_val v s) l.
Proof.
  intros v s [a|a]; cbn [visit_leaf lit_eval]; unfold subst_val.
  - destruct (sub_of s a); reflexivity.
  - destruct (sub_of s a) as [r|] eqn:E; [|reflexivity].
    destruct (py_apply_logical_not a (Some r)) as [r'|] eqn:R.
    + cbn [res_val]. eapply apply_not_sound_p; eauto.
    + unfold py_apply_logical_not in R. discriminate.
Qed.

Lemma any3_fold : forall v g, any3 v g = fold_right tri_or FF (map (lit_eval v) g).
Proof. intros v g. unfold any3. induction g as [|l g IH]; cbn [fold_right map]; [reflexivity|now rewrite IH]. Qed.

Definition group_val (v : atom -> tri) (s : list (atom * cnf)) (g : list lit) : tri :=
  match visit_group s g with Some r => eval3 v r | None => any3 v g end.

Lemma group_sound : forall v s g, group_val v s g = any3 (subst_val v s) g.
Proof.
  intros v s g. unfold group_val, visit_group.
  assert (E : map (fun l => res_val v l (visit_leaf s l)) g = map (lit_eval (subst_val v s)) g).
  { apply map_ext. intros l. apply leaf_val. }
  destruct (py_apply_logical_or g (map (visit_leaf s) g)) as [r|] eqn:R.
  - rewrite (apply_or_sound_p v _ _ _ R). unfold or_all3. rewrite fold_left_or, tri_or_FF_l.
    rewrite combine_map_r, map_map. cbn [fst snd]. now rewrite E, any3_fold.
  - rewrite !any3_fold, <- E. f_equal. apply map_ext_in. intros l Hl.
    pose proof (proj1 (apply_or_none_p _ _) R (visit_leaf s l)) as N.
    rewrite N; [reflexivity|]. apply in_map. exact Hl.
Qed.

Lemma flags_ok_false : forall (args : list (bool * cnf)) acc, (forall x, In x args -> fst x = false) ->
  flags_ok py_impl_and acc args.
Proof.
  induction args as [|[f b] args IH]; intros acc H; cbn [flags_ok]; [exact I|]. split.
  - intros T. specialize (H (f, b) (or_introl eq_refl)). cbn in H. congruence.
  - apply IH. intros x Hx. apply H. now right.
Qed.

Lemma eval3_fold : forall v (p : cnf), eval3 v p = fold_right tri_and TT (map (any3 v) p).
Proof. intros v p. unfold eval3. induction p as [|g p IH]; cbn [fold_right map]; [reflexivity|now rewrite IH]. Qed.

Lemma visit_pred_sound_p : forall v s p,
  eval3 v (match visit_pred s p with Some r => r | None => p end) = eval3 (subst_val v s) p.
Proof.
  intros v s p. unfold visit_pred.
  set (res := map (fun g => match visit_group s g with Some r => Some (false, r) | None => None end) p).
  assert (E : map (fun ox => res_val_group v (fst ox) (snd ox)) (combine p res) = map (any3 (subst_val v s)) p).
  { unfold res. rewrite combine_map_r, map_map. cbn [fst snd]. apply map_ext_in. intros g Hg.
    rewrite <- (group_sound v s g).
    unfold group_val. destruct (visit_group s g); reflexivity. }
  destruct (py_apply_logical_and p res) as [r|] eqn:R.
  - rewrite (apply_and_sound_p v _ _ _) with (2 := R).
    + unfold and_all3. now rewrite fold_left_and, tri_and_TT_l, E, eval3_fold.
    + apply flags_ok_false. intros x Hx. unfold and_args in Hx. apply in_map_iff in Hx as ([g o] & <- & Hin).
      cbn [fst snd]. destruct o as [fr|]; [|reflexivity].
      apply in_combine_r in Hin. unfold res in Hin. apply in_map_iff in Hin as (g' & Hg' & _).
      destruct (visit_group s g'); [inversion Hg'; reflexivity|discriminate].
  - rewrite !eval3_fold, <- E. f_equal. unfold res. rewrite combine_map_r, map_map. cbn [fst snd].
    apply map_ext_in. intros g Hg.
    pose proof (proj1 (apply_and_none_p _ _) R (match visit_group s g with Some r => Some (false, r) | None => None end)) as N.
    rewrite N; [reflexivity|]. unfold res. apply in_map_iff. exists g. auto.
Qed.
