(* C06 lemmas, part X4 (extension): the shipped universe -- record queries, temporal families, order independence. *)
From Coq Require Import String List Bool ZArith NArith Lia Permutation.
From V Require Import Model.Universe Model.Group Gen.Universes Model.Join Model.JoinCheck
  Proofs.GroupProofs Proofs.GroupProofsShipped Proofs.JoinProofs Proofs.JoinProofsB Proofs.JoinProofsC Proofs.JoinProofsD
  Proofs.JoinProofsX Proofs.JoinProofsX2 Proofs.JoinProofsX3.
Import ListNotations.
Open Scope string_scope.
Open Scope list_scope.

(* every element with a table of its own: its minimal group exists and the driver's plan for it is fine *)
Definition rec_plan_okb (e : elem) : bool :=
  match closure u_current (deps e) with GOk ns => plan_okb jc_current ns | _ => false end.

Lemma records_plan_ok_current_p : forallb rec_plan_okb (filter (has_table jc_current) u_current) = true.
Proof. vm_compute. reflexivity. Qed.

Lemma has_table_view c e : has_table c e = true -> view_of c (ename e) = None.
Proof. unfold has_table. rewrite andb_true_iff. intros [_ H]. destruct (view_of c (ename e)); [discriminate|auto]. Qed.

Theorem records_query_correct_current_p (ov : N -> N -> bool) (env : N -> list N) :
  (forall x y, ov x y = true -> exists p, In p (env x) /\ In p (env y)) ->
  forall e s, In e u_current -> has_table jc_current e = true ->
  fk_closed jc_current (recs s) -> view_closed jc_current (recs s) -> ovl_sound jc_current env s -> ovl_nonnull jc_current s ->
  exists ns, closure u_current (deps e) = GOk ns /\
    qrecords jc_current ov s e
    = ROkRecs (filter (fun r => existsb (agrees (deps e) (rvals r)) (spec jc_current ov (recs s) ns)) (tget (recs s) (ename e))).
Proof.
  intros Hes e s He Ht Hfk Hv Hos Hon.
  pose proof records_plan_ok_current_p as H. rewrite forallb_forall in H.
  specialize (H e). unfold rec_plan_okb in H.
  assert (Hin : In e (filter (has_table jc_current) u_current)) by (apply filter_In; auto).
  specialize (H Hin). destruct (closure u_current (deps e)) as [ns| |] eqn:Hc; try discriminate.
  exists ns. split; auto.
  eapply records_query_correct_p; eauto using current_wf_j, uni_ok_current_p, has_table_view.
Qed.

Theorem history_records_query_correct_current_p (ov : N -> N -> bool) (env : N -> list N) :
  (forall x y, ov x y = true -> exists p, In p (env x) /\ In p (env y)) ->
  forall h e, In e u_current -> has_table jc_current e = true -> skip_free h = true ->
  let s := run_hist jc_current env h st0 in
  view_closed jc_current (recs s) ->
  exists ns, closure u_current (deps e) = GOk ns /\
    qrecords jc_current ov s e
    = ROkRecs (filter (fun r => existsb (agrees (deps e) (rvals r)) (spec jc_current ov (recs s) ns)) (tget (recs s) (ename e))).
Proof.
  intros Hes h e He Ht Hsf s Hv. apply records_query_correct_current_p with (env := env); auto; subst s.
  - apply fk_closed_hist_p. apply current_wf_j.
  - apply ovl_sound_hist_p. apply current_wf_j.
  - apply (ovl_inv_hist_p jc_current env h current_wf_j Hsf).
Qed.

(* ---- temporal families: one in the shipped universe, so no automatic temporal join between dimensions in any closed
        group, and an explicit one between two temporal elements is always rejected ---- *)
Definition closed_no_tjoinb (l : list string) : bool :=
  match closure u_current l with GOk ns => negb (tjoin_needed jc_current ns) | _ => false end.

Lemma no_temporal_join_current_p : forallb closed_no_tjoinb (all_subsets (nonskypix_dimension_names u_current)) = true.
Proof. vm_compute. reflexivity. Qed.

Definition temporal_elems (u : universe) : list elem := filter is_temporal u.

Lemma explicit_tjoin_invalid_current_p :
  temporal_elems u_current <> [] /\
  forallb (fun a => forallb (fun b => match explicit_tjoin jc_current (ename a) (ename b) with TJInvalid => true | _ => false end)
                            (temporal_elems u_current)) (temporal_elems u_current) = true.
Proof. split; [vm_compute; discriminate|vm_compute; reflexivity]. Qed.

(* ---- order independence for the shipped universe ---- *)
Theorem order_independent_current_p (ov : N -> N -> bool) (env : N -> list N) :
  (forall x y, ov x y = true -> exists p, In p (env x) /\ In p (env y)) ->
  forall h h' l ns, In l (all_subsets (nonskypix_dimension_names u_current)) -> closure u_current l = GOk ns ->
  skip_free h = true -> skip_free h' = true ->
  let s := run_hist jc_current env h st0 in let s' := run_hist jc_current env h' st0 in
  view_closed jc_current (recs s) -> view_closed jc_current (recs s') -> same_tables (recs s) (recs s') ->
  exists r r', query jc_current ov s ns = QOk r /\ query jc_current ov s' ns = QOk r' /\ Permutation r r' /\ NoDup r /\ NoDup r'
               /\ r = spec jc_current ov (recs s) ns /\ r' = spec jc_current ov (recs s') ns.
Proof.
  intros Hes h h' l ns Hl Hc Hsf Hsf' s s' Hv Hv' Hsame.
  eapply order_independent_p; eauto using current_wf_j, uni_ok_current_p, plan_total_current_forall_p.
Qed.

(* ---- non-vacuity: a history with timespans, a sync refused because only the timespan differs, a record query that
        returns the consistent visit_definition row and leaves out the inconsistent one ---- *)
Definition RT (l : list (string * Z)) (o : option N) (t : option (Z * Z)) : rec := mkRec l o t.
Definition h_recs : list op :=
  [ mkOp OInsert "instrument" (R [("instrument", 1%Z)] None);
    mkOp OInsert "day_obs" (RT [("instrument", 1%Z); ("day_obs", 5%Z)] None (Some (0, 100)%Z));
    mkOp OInsert "group" (R [("instrument", 1%Z); ("group", 1%Z)] None);
    mkOp OInsert "physical_filter" (R [("instrument", 1%Z); ("physical_filter", 1%Z); ("band", 1%Z)] None);
    mkOp OInsert "physical_filter" (R [("instrument", 1%Z); ("physical_filter", 2%Z); ("band", 2%Z)] None);
    mkOp OInsert "visit" (RT [("instrument", 1%Z); ("visit", 1%Z); ("day_obs", 5%Z); ("physical_filter", 1%Z)] None (Some (0, 10)%Z));
    mkOp OInsert "exposure" (RT [("instrument", 1%Z); ("exposure", 1%Z); ("day_obs", 5%Z); ("group", 1%Z); ("physical_filter", 1%Z)] None (Some (0, 10)%Z));
    mkOp OInsert "exposure" (RT [("instrument", 1%Z); ("exposure", 2%Z); ("day_obs", 5%Z); ("group", 1%Z); ("physical_filter", 2%Z)] None None);
    mkOp OInsert "visit_definition" (R [("instrument", 1%Z); ("exposure", 1%Z); ("visit", 1%Z)] None);
    mkOp OInsert "visit_definition" (R [("instrument", 1%Z); ("exposure", 2%Z); ("visit", 1%Z)] None);
    mkOp OSync "visit" (RT [("instrument", 1%Z); ("visit", 1%Z); ("day_obs", 5%Z); ("physical_filter", 1%Z)] None (Some (0, 11)%Z));
    mkOp OSyncUpd "visit" (RT [("instrument", 1%Z); ("visit", 1%Z); ("day_obs", 5%Z); ("physical_filter", 1%Z)] None (Some (0, 11)%Z)) ].

Definition e_visit_definition : elem :=
  match find_elem u_current "visit_definition" with Some e => e | None => mkElem "" KDimension [] [] false None None None end.

Lemma example_records_p :
  skip_free h_recs = true
  /\ run_outs jc_current env_w h_recs st0 = [ROk; ROk; ROk; ROk; ROk; ROk; ROk; ROk; ROk; ROk; RConflict; RUpdated]
  /\ qrecords jc_current ov_w (run_hist jc_current env_w h_recs st0) e_visit_definition
     = ROkRecs [R [("instrument", 1%Z); ("exposure", 1%Z); ("visit", 1%Z)] None]
  /\ length (tget (recs (run_hist jc_current env_w h_recs st0)) "visit_definition") = 2%nat.
Proof. vm_compute. repeat split; reflexivity. Qed.

Lemma example_records_view_closed_p : view_closed jc_current (recs (run_hist jc_current env_w h_recs st0)).
Proof. apply view_closedb_sound. vm_compute. reflexivity. Qed.
