(* C14 proofs: the converse of the round trip.  Every tree the parser returns is canonical
   (ParserProofs.canonical), for token lists whose NUMERIC tokens carry no sign and whose SIMPLE_IDENTIFIER
   tokens carry no dot -- which is what the character-level lexer produces (lex_wf_p).
   One induction on the fuel over a conjunction with one clause per parser function. *)
From Coq Require Import ZArith List Bool String Ascii Arith Lia.
From V Require Import Model.ExprTree Model.Lexer Model.Parser Gen.GrammarGen Proofs.ParserProofs.
Import ListNotations. Open Scope string_scope. Open Scope list_scope.

#[local] Arguments lvl : simpl never.
#[local] Arguments rmin : simpl never.
#[local] Arguments not_lvl : simpl never.
#[local] Arguments Nat.leb : simpl never.
#[local] Arguments Nat.eqb : simpl never.
#[local] Arguments mk_call : simpl never.
#[local] Arguments upper : simpl never.

Definition tok_wf (t : token) : bool :=
  match t with TNum s => unsigned s | TId s => negb (has_dot s) | _ => true end.
Definition toks_wf (ts : list token) : bool := forallb tok_wf ts.
(* tun is a right inverse of tv on tv's image: the text a repaired printer writes for a time value parses back to it *)
Definition tun_inverts (tv : string -> option string) (tun : string -> string) : Prop :=
  forall s v, tv s = Some v -> tv (tun v) = Some v.

Lemma cmp_op_spec : forall t o, cmp_op t = Some o -> t = bop_token o /\ is_cmp o = true.
Proof. destruct t; simpl; intros o H; inversion H; subst; auto. Qed.
Lemma logic_op_spec : forall t o, logic_op t = Some o -> t = bop_token o /\ is_logic o = true.
Proof. destruct t; simpl; intros o H; inversion H; subst; auto. Qed.

(* what follows: the next arithmetic (boolean) operator, if any, has level < m *)
Definition nb (m : nat) (ts : list token) : Prop :=
  match ts with
  | t :: _ => match arith_op t with Some o => lvl o < m | None => True end
  | [] => True
  end.
Definition nl (m : nat) (ts : list token) : Prop :=
  match ts with
  | t :: _ => match logic_op t with Some o => lvl o < m | None => True end
  | [] => True
  end.

Ltac bsplit :=
  repeat match goal with
         | H : _ && _ = true |- _ => apply andb_true_iff in H; destruct H
         end.
Ltac bgoal := repeat (apply andb_true_iff; split).

Lemma wf_cons t r : toks_wf (t :: r) = true -> tok_wf t = true /\ toks_wf r = true.
Proof. unfold toks_wf. simpl. intros H. apply andb_true_iff in H. exact H. Qed.
Lemma wf_tail t r : toks_wf (t :: r) = true -> toks_wf r = true.
Proof. intros H. apply wf_cons in H. tauto. Qed.
Lemma wf_tail2 t u r : toks_wf (t :: u :: r) = true -> toks_wf r = true.
Proof. intros H. apply wf_tail in H. apply wf_tail in H. exact H. Qed.
Lemma wf_tail3 t u v r : toks_wf (t :: u :: v :: r) = true -> toks_wf r = true.
Proof. intros H. apply wf_tail2 in H. apply wf_tail in H. exact H. Qed.

Section Canonical.
  Variable tv : string -> option string.
  Variable tun : string -> string.
  Hypothesis Hinv : tun_inverts tv tun.
  Notation can := (canon tv tun).
  Notation wf := toks_wf.

  (* ---- canon facts *)
  Lemma canon_lift t : forall lev m lev' m',
    can lev m t = true -> (lev < lev' \/ (lev = lev' /\ m' <= m)) -> lev' <= 4 -> can lev' m' t = true.
  Proof.
    destruct t; intros lev m lev' m' C L B; simpl in *; auto.
    - destruct op; auto. bsplit. bgoal; auto.
      match goal with H : Nat.eqb lev 4 = true |- _ => apply Nat.eqb_eq in H end.
      apply Nat.eqb_eq. lia.
    - destruct (is_logic op).
      + bsplit. bgoal; auto.
        * match goal with H : Nat.eqb lev 4 = true |- _ => apply Nat.eqb_eq in H end.
          apply Nat.eqb_eq. lia.
        * match goal with H : Nat.eqb lev 4 = true |- _ => apply Nat.eqb_eq in H end.
          match goal with H : Nat.leb m _ = true |- _ => apply Nat.leb_le in H end.
          apply Nat.leb_le. lia.
      + destruct (is_cmp op).
        * bsplit. bgoal; auto.
          match goal with H : Nat.leb 3 lev = true |- _ => apply Nat.leb_le in H end.
          apply Nat.leb_le. lia.
        * bsplit. bgoal; auto.
          -- match goal with H : Nat.leb 1 lev = true |- _ => apply Nat.leb_le in H end.
             apply Nat.leb_le. lia.
          -- match goal with H : Nat.leb 1 lev = true |- _ => apply Nat.leb_le in H end.
             match goal with H : Nat.leb (if _ then _ else _) _ = true |- _ => apply Nat.leb_le in H; revert H end.
             intros H'. apply Nat.leb_le.
             destruct (Nat.eqb_spec lev 1); destruct (Nat.eqb_spec lev' 1); lia.
    - bsplit. bgoal; auto.
      match goal with H : Nat.leb 2 lev = true |- _ => apply Nat.leb_le in H end.
      apply Nat.leb_le. lia.
  Qed.

  Lemma can_up t lev m lev' m' : can lev m t = true -> lev < lev' -> lev' <= 4 -> can lev' m' t = true.
  Proof. intros C L B. apply (canon_lift t lev m lev' m'); auto. Qed.
  Lemma can_down t lev m m' : can lev m t = true -> m' <= m -> lev <= 4 -> can lev m' t = true.
  Proof. intros C L B. apply (canon_lift t lev m lev m'); auto. Qed.

  Lemma can_arith l o x m : is_arith o = true ->
    can 1 m (Binary l o x) = Nat.leb m (lvl o) && can 1 (lvl o) l && can 1 (S (lvl o)) x.
  Proof. destruct o; intros H; try discriminate H; reflexivity. Qed.
  Lemma can_cmp l o x : is_cmp o = true -> can 3 0 (Binary l o x) = can 3 0 l && can 2 0 x.
  Proof. destruct o; intros H; try discriminate H; reflexivity. Qed.
  Lemma can_logic l o x m : is_logic o = true ->
    can 4 m (Binary l o x) = Nat.leb m (lvl o) && can 4 (lvl o) l && can 4 (S (lvl o)) x.
  Proof. destruct o; intros H; try discriminate H; reflexivity. Qed.

  Lemma time_ok_p s v : tv s = Some v -> time_ok tv tun v = true.
  Proof. intros H. unfold time_ok. rewrite (Hinv _ _ H). apply String.eqb_refl. Qed.

  (* ---- unfolding equations (all by conversion) *)
  Lemma p_inlist_eq k ts :
    p_inlist tv (S k) ts = bind (p_item tv ts) (fun '(x, r) =>
          match r with
          | TRP :: r' => POk ([x], r')
          | TCOMMA :: r' => bind (p_inlist tv k r') (fun '(xs, r'') => POk (x :: xs, r''))
          | _ => PErr ESyntax
          end).
  Proof. reflexivity. Qed.
  Lemma p_simple_eq k ts :
    p_simple tv (S k) ts =
        match ts with
        | TNum s :: r => POk (Num s, r)
        | TStr s :: r => POk (Str s, r)
        | TTime s :: r => match tv s with Some v => POk (Time v, r) | None => PErr ESyntax end
        | TRange a b st :: r => POk (Range a b st, r)
        | TQId s :: r => POk (Ident s, r)
        | TBind s :: r => POk (Bind s, r)
        | TId s :: TLP :: r =>
            bind (p_args tv k r) (fun '(args, r') => bind (mk_call s args r') (fun t => POk (t, r')))
        | TId s :: r => POk (Ident s, r)
        | TADD :: r => bind (p_simple tv k r) (fun '(x, r') => POk (Unary UPlus x, r'))
        | TSUB :: r => bind (p_simple tv k r) (fun '(x, r') => POk (Unary UMinus x, r'))
        | TLP :: r =>
            bind (p_expr tv k 0 r) (fun '(e, r') =>
              match r' with
              | TRP :: r'' => POk (Parens e, r'')
              | TCOMMA :: r'' =>
                  bind (p_expr tv k 0 r'') (fun '(e2, r3) =>
                    match r3 with TRP :: r4 => POk (Tuple e e2, r4) | _ => PErr ESyntax end)
              | _ => PErr ESyntax
              end)
        | _ => PErr ESyntax
        end.
  Proof. reflexivity. Qed.
  Lemma p_args_eq k ts :
    p_args tv (S k) ts =
      match ts with
      | TRP :: r => POk ([], r)
      | TCOMMA :: _ => p_args_tail tv k ts
      | _ => bind (p_expr tv k 0 ts) (fun '(e, r) => bind (p_args_tail tv k r) (fun '(es, r') => POk (e :: es, r')))
      end.
  Proof. reflexivity. Qed.
  Lemma p_args_tail_eq k ts :
    p_args_tail tv (S k) ts =
      match ts with
      | TRP :: r => POk ([], r)
      | TCOMMA :: r => bind (p_expr tv k 0 r) (fun '(e, r') => bind (p_args_tail tv k r') (fun '(es, r'') => POk (e :: es, r'')))
      | _ => PErr ESyntax
      end.
  Proof. reflexivity. Qed.
  Lemma p_bit_eq k minp ts :
    p_bit tv (S k) minp ts = bind (p_simple tv k ts) (fun '(l, r) => p_bit_loop tv k minp l r).
  Proof. reflexivity. Qed.
  Lemma p_bit_loop_eq k minp l ts :
    p_bit_loop tv (S k) minp l ts =
        match ts with
        | t :: r =>
            match arith_op t with
            | Some o =>
                if Nat.leb minp (lvl o)
                then bind (p_bit tv k (rmin o) r) (fun '(x, r') => p_bit_loop tv k minp (Binary l o x) r')
                else POk (l, ts)
            | None => POk (l, ts)
            end
        | [] => POk (l, ts)
        end.
  Proof. reflexivity. Qed.
  Lemma p_pred_eq k ts :
    p_pred tv (S k) ts = bind (p_bit tv k 0 ts) (fun '(l, r) =>
          match r with
          | TIN :: TLP :: r' => bind (p_inlist tv k r') (fun '(vs, r'') => POk (IsIn l vs false, r''))
          | TIN :: _ => PErr ESyntax
          | TNOT :: TIN :: TLP :: r' => bind (p_inlist tv k r') (fun '(vs, r'') => POk (IsIn l vs true, r''))
          | TNOT :: _ => PErr ESyntax
          | _ => POk (l, r)
          end).
  Proof. reflexivity. Qed.
  Lemma p_bprim_eq k ts :
    p_bprim tv (S k) ts = bind (p_pred tv k ts) (fun '(l, r) => p_bprim_loop tv k l r).
  Proof. reflexivity. Qed.
  Lemma p_bprim_loop_eq k l ts :
    p_bprim_loop tv (S k) l ts =
        match ts with
        | t :: r =>
            match cmp_op t with
            | Some o => bind (p_pred tv k r) (fun '(x, r') => p_bprim_loop tv k (Binary l o x) r')
            | None => POk (l, ts)
            end
        | [] => POk (l, ts)
        end.
  Proof. reflexivity. Qed.
  Lemma p_expr_eq k minp ts :
    p_expr tv (S k) minp ts =
        match ts with
        | TNOT :: r => bind (p_expr tv k not_lvl r) (fun '(x, r') => p_expr_loop tv k minp (Unary UNot x) r')
        | _ => bind (p_bprim tv k ts) (fun '(l, r) => p_expr_loop tv k minp l r)
        end.
  Proof. reflexivity. Qed.
  Lemma p_expr_loop_eq k minp l ts :
    p_expr_loop tv (S k) minp l ts =
        match ts with
        | t :: r =>
            match logic_op t with
            | Some o =>
                if Nat.leb minp (lvl o)
                then bind (p_expr tv k (rmin o) r) (fun '(x, r') => p_expr_loop tv k minp (Binary l o x) r')
                else POk (l, ts)
            | None => POk (l, ts)
            end
        | [] => POk (l, ts)
        end.
  Proof. reflexivity. Qed.

  (* ---- IN lists *)
  Lemma p_item_ok ts x r : wf ts = true -> p_item tv ts = POk (x, r) -> item_ok tv tun x = true /\ wf r = true.
  Proof.
    intros W H. unfold p_item in H.
    destruct ts as [|tok r0]; [discriminate|].
    destruct tok; try discriminate H.
    - inversion H; subst. split; [reflexivity | eapply wf_tail; eauto].
    - destruct (tv s) eqn:E; inversion H; subst. split; [simpl; eapply time_ok_p; eauto | eapply wf_tail; eauto].
    - inversion H; subst. split; [reflexivity | eapply wf_tail; eauto].
    - inversion H; subst. split; [reflexivity | eapply wf_tail; eauto].
    - inversion H; subst. split; [reflexivity | eapply wf_tail; eauto].
    - inversion H; subst. split; [reflexivity | eapply wf_tail; eauto].
    - inversion H; subst. split; [reflexivity | eapply wf_tail; eauto].
    - destruct r0 as [|tok r1]; [discriminate|]. destruct tok; try discriminate H.
      inversion H; subst. split; [reflexivity | eapply wf_tail2; eauto].
    - destruct r0 as [|tok r1]; [discriminate|]. destruct tok; try discriminate H.
      inversion H; subst. split; [reflexivity | eapply wf_tail2; eauto].
  Qed.

  Lemma p_inlist_ok : forall f ts vs r, wf ts = true -> p_inlist tv f ts = POk (vs, r) ->
    vs <> [] /\ forallb (item_ok tv tun) vs = true /\ wf r = true.
  Proof.
    induction f as [|f IH]; intros ts vs r W H; [discriminate|].
    rewrite p_inlist_eq in H.
    destruct (p_item tv ts) as [[x r0]|e|] eqn:E; simpl in H; try discriminate.
    destruct (p_item_ok _ _ _ W E) as [Ix W0].
    destruct r0 as [|tok r1]; [discriminate|].
    destruct tok; try discriminate H.
    - inversion H; subst. split; [discriminate|]. split; [simpl; rewrite Ix; reflexivity | eapply wf_tail; eauto].
    - destruct (p_inlist tv f r1) as [[xs r2]|e|] eqn:E2; simpl in H; try discriminate.
      inversion H; subst.
      destruct (IH _ _ _ (wf_tail _ _ W0) E2) as (_ & F & W2).
      split; [discriminate|]. split; [simpl; rewrite Ix, F; reflexivity | exact W2].
  Qed.

  (* ---- the clauses, one per parser function *)
  Definition S_simple f := forall ts t r, wf ts = true -> p_simple tv f ts = POk (t, r) ->
    can 0 0 t = true /\ wf r = true.
  Definition S_args f := forall ts xs r, wf ts = true -> p_args tv f ts = POk (xs, r) ->
    forallb (can 4 0) xs = true /\ wf r = true.
  Definition S_args_tail f := forall ts xs r, wf ts = true -> p_args_tail tv f ts = POk (xs, r) ->
    forallb (can 4 0) xs = true /\ wf r = true.
  Definition S_bit f := forall minp ts t r, wf ts = true -> p_bit tv f minp ts = POk (t, r) ->
    can 1 minp t = true /\ wf r = true /\ nb minp r.
  Definition pre_bit minp l ts :=
    can 1 minp l = true /\
    forall tok r0 o, ts = tok :: r0 -> arith_op tok = Some o -> minp <= lvl o -> can 1 (lvl o) l = true.
  Definition S_bit_loop f := forall minp l ts t r, wf ts = true -> pre_bit minp l ts ->
    p_bit_loop tv f minp l ts = POk (t, r) -> can 1 minp t = true /\ wf r = true /\ nb minp r.
  Definition S_pred f := forall ts t r, wf ts = true -> p_pred tv f ts = POk (t, r) ->
    can 2 0 t = true /\ wf r = true.
  Definition S_bprim f := forall ts t r, wf ts = true -> p_bprim tv f ts = POk (t, r) ->
    can 3 0 t = true /\ wf r = true.
  Definition S_bprim_loop f := forall l ts t r, wf ts = true -> can 3 0 l = true ->
    p_bprim_loop tv f l ts = POk (t, r) -> can 3 0 t = true /\ wf r = true.
  Definition S_expr f := forall minp ts t r, wf ts = true -> p_expr tv f minp ts = POk (t, r) ->
    can 4 minp t = true /\ wf r = true /\ nl minp r.
  Definition pre_expr minp l ts :=
    can 4 minp l = true /\
    forall tok r0 o, ts = tok :: r0 -> logic_op tok = Some o -> minp <= lvl o -> can 4 (lvl o) l = true.
  Definition S_expr_loop f := forall minp l ts t r, wf ts = true -> pre_expr minp l ts ->
    p_expr_loop tv f minp l ts = POk (t, r) -> can 4 minp t = true /\ wf r = true /\ nl minp r.

  Definition All f :=
    S_simple f /\ S_args f /\ S_args_tail f /\ S_bit f /\ S_bit_loop f /\ S_pred f /\ S_bprim f /\
    S_bprim_loop f /\ S_expr f /\ S_expr_loop f.

  Lemma step_simple f : S_simple f -> S_args f -> S_expr f -> S_simple (S f).
  Proof.
    intros HS HA HE ts t r W H. rewrite p_simple_eq in H.
    destruct ts as [|tok r0]; [discriminate|].
    destruct tok; try discriminate H.
    - (* TNum *) inversion H; subst. apply wf_cons in W. destruct W as [W1 W2]. split; auto.
    - (* TTime *) destruct (tv s) eqn:E; inversion H; subst.
      split; [simpl; eapply time_ok_p; eauto | eapply wf_tail; eauto].
    - inversion H; subst. split; [reflexivity | eapply wf_tail; eauto].
    - inversion H; subst. split; [reflexivity | eapply wf_tail; eauto].
    - inversion H; subst. split; [reflexivity | eapply wf_tail; eauto].
    - (* TId *)
      assert (Hid : forall r1, POk (Ident s, r1) = POk (t, r) -> r1 = r0 -> can 0 0 t = true /\ wf r = true).
      { intros r1 H1 E1. inversion H1; subst. split; [reflexivity | eapply wf_tail; eauto]. }
      destruct r0 as [|tok r1]; [eapply Hid; eauto|].
      destruct tok; try solve [eapply Hid; eauto].
      clear Hid.
      destruct (p_args tv f r1) as [[args r2]|e|] eqn:E; simpl in H; try discriminate.
      destruct (HA _ _ _ (wf_tail2 _ _ _ W) E) as [CA W2].
      apply wf_cons in W. destruct W as [Wid _]. simpl in Wid.
      unfold mk_call in H.
      destruct (String.eqb (upper s) "POINT") eqn:EP.
      + destruct args as [|a [|b [|c args]]]; try (destruct (follows_simple r2); discriminate H).
        simpl in H. inversion H; subst. split; auto.
        simpl in CA. simpl. bsplit. bgoal; auto.
      + simpl in H. inversion H; subst. split; auto.
        simpl. rewrite Wid, EP, CA. reflexivity.
    - inversion H; subst. split; [reflexivity | eapply wf_tail; eauto].
    - (* TLP *)
      destruct (p_expr tv f 0 r0) as [[e r1]|e|] eqn:E; simpl in H; try discriminate.
      destruct (HE _ _ _ _ (wf_tail _ _ W) E) as (Ce & W1 & _).
      destruct r1 as [|tok r2]; [discriminate|].
      destruct tok; try discriminate H.
      + inversion H; subst. split; [exact Ce | eapply wf_tail; eauto].
      + destruct (p_expr tv f 0 r2) as [[e2 r3]|e'|] eqn:E2; simpl in H; try discriminate.
        destruct (HE _ _ _ _ (wf_tail _ _ W1) E2) as (Ce2 & W3 & _).
        destruct r3 as [|tok r4]; [discriminate|].
        destruct tok; try discriminate H.
        inversion H; subst. split; [simpl; rewrite Ce, Ce2; reflexivity | eapply wf_tail; eauto].
    - (* TADD *)
      destruct (p_simple tv f r0) as [[x r1]|e|] eqn:E; simpl in H; try discriminate.
      destruct (HS _ _ _ (wf_tail _ _ W) E) as [Cx W1]. inversion H; subst. split; auto.
    - (* TSUB *)
      destruct (p_simple tv f r0) as [[x r1]|e|] eqn:E; simpl in H; try discriminate.
      destruct (HS _ _ _ (wf_tail _ _ W) E) as [Cx W1]. inversion H; subst. split; auto.
  Qed.

  Lemma args_tail_body f ts xs r : S_expr f -> S_args_tail f -> wf ts = true ->
    bind (p_expr tv f 0 ts) (fun '(e, r') => bind (p_args_tail tv f r') (fun '(es, r'') => POk (e :: es, r''))) = POk (xs, r) ->
    forallb (can 4 0) xs = true /\ wf r = true.
  Proof.
    intros HE HT W H.
    destruct (p_expr tv f 0 ts) as [[e r1]|e|] eqn:E; simpl in H; try discriminate.
    destruct (HE _ _ _ _ W E) as (Ce & W1 & _).
    destruct (p_args_tail tv f r1) as [[es r2]|e'|] eqn:E2; simpl in H; try discriminate.
    destruct (HT _ _ _ W1 E2) as [Ces W2].
    inversion H; subst. split; auto. simpl. rewrite Ce, Ces. reflexivity.
  Qed.

  Lemma step_args_tail f : S_expr f -> S_args_tail f -> S_args_tail (S f).
  Proof.
    intros HE HT ts xs r W H. rewrite p_args_tail_eq in H.
    destruct ts as [|tok r0]; [discriminate|].
    destruct tok; try discriminate H.
    - inversion H; subst. split; [reflexivity | eapply wf_tail; eauto].
    - exact (args_tail_body f r0 xs r HE HT (wf_tail _ _ W) H).
  Qed.

  Lemma step_args f : S_expr f -> S_args_tail f -> S_args (S f).
  Proof.
    intros HE HT ts xs r W H. rewrite p_args_eq in H.
    destruct ts as [|tok r0]; [exact (args_tail_body f _ xs r HE HT W H)|].
    destruct tok; try solve [exact (args_tail_body f _ xs r HE HT W H)].
    - inversion H; subst. split; [reflexivity | eapply wf_tail; eauto].
    - eapply HT; eauto.
  Qed.

  Lemma step_bit f : S_simple f -> S_bit_loop f -> S_bit (S f).
  Proof.
    intros HS HL minp ts t r W H. rewrite p_bit_eq in H.
    destruct (p_simple tv f ts) as [[l r1]|e|] eqn:E; simpl in H; try discriminate.
    destruct (HS _ _ _ W E) as [C W1].
    apply (HL minp l r1 t r W1); auto.
    split; [|intros]; eapply can_up; eauto.
  Qed.

  Lemma step_bit_loop f : S_bit f -> S_bit_loop f -> S_bit_loop (S f).
  Proof.
    intros HB HL minp l ts t r W [P1 P2] H. rewrite p_bit_loop_eq in H.
    destruct ts as [|tok r0].
    { inversion H; subst. split; auto. split; auto. exact I. }
    destruct (arith_op tok) as [o|] eqn:EO.
    2:{ inversion H; subst. split; auto. split; auto. unfold nb. rewrite EO. exact I. }
    destruct (Nat.leb minp (lvl o)) eqn:EL.
    2:{ inversion H; subst. split; auto. split; auto. unfold nb. rewrite EO.
        apply Nat.leb_gt in EL. exact EL. }
    apply Nat.leb_le in EL.
    destruct (arith_op_spec _ _ EO) as [_ Ao].
    rewrite (rmin_arith o Ao) in H.
    destruct (p_bit tv f (S (lvl o)) r0) as [[x r1]|e|] eqn:EB; simpl in H; try discriminate.
    destruct (HB _ _ _ _ (wf_tail _ _ W) EB) as (Cx & W1 & N1).
    apply (HL minp (Binary l o x) r1 t r W1); [|exact H].
    pose proof (P2 tok r0 o eq_refl EO EL) as Cl.
    split.
    - rewrite can_arith by assumption. rewrite Cl, Cx.
      apply Nat.leb_le in EL. rewrite EL. reflexivity.
    - intros tok' r' o' -> EO' L'. unfold nb in N1. rewrite EO' in N1.
      rewrite can_arith by assumption. rewrite Cl, Cx.
      assert (L2 : Nat.leb (lvl o') (lvl o) = true) by (apply Nat.leb_le; lia).
      rewrite L2. reflexivity.
  Qed.

  Lemma step_pred f : S_bit f -> S_pred (S f).
  Proof.
    intros HB ts t r W H. rewrite p_pred_eq in H.
    destruct (p_bit tv f 0 ts) as [[l r1]|e|] eqn:E; simpl in H; try discriminate.
    destruct (HB _ _ _ _ W E) as (Cl & W1 & _).
    assert (Hplain : forall r2, POk (l, r2) = POk (t, r) -> r2 = r1 -> can 2 0 t = true /\ wf r = true).
    { intros r2 H1 E1. inversion H1; subst. split; auto. eapply can_up; eauto. }
    assert (Hin : forall r2 neg, wf r2 = true ->
               bind (p_inlist tv f r2) (fun '(vs, r'') => POk (IsIn l vs neg, r'')) = POk (t, r) ->
               can 2 0 t = true /\ wf r = true).
    { intros r2 neg W2 H1.
      destruct (p_inlist tv f r2) as [[vs r3]|e|] eqn:E2; simpl in H1; try discriminate.
      destruct (p_inlist_ok _ _ _ _ W2 E2) as (NE & F & W3).
      inversion H1; subst. split; auto.
      simpl. rewrite Cl, F. destruct vs; [congruence | reflexivity]. }
    destruct r1 as [|tok r2]; [eapply Hplain; eauto|].
    destruct tok; try solve [eapply Hplain; eauto].
    - (* TIN *)
      destruct r2 as [|tok r3]; [discriminate|].
      destruct tok; try discriminate H.
      exact (Hin r3 false (wf_tail2 _ _ _ W1) H).
    - (* TNOT *)
      destruct r2 as [|tok r3]; [discriminate|].
      destruct tok; try discriminate H.
      destruct r3 as [|tok r4]; [discriminate|].
      destruct tok; try discriminate H.
      exact (Hin r4 true (wf_tail3 _ _ _ _ W1) H).
  Qed.

  Lemma step_bprim f : S_pred f -> S_bprim_loop f -> S_bprim (S f).
  Proof.
    intros HP HL ts t r W H. rewrite p_bprim_eq in H.
    destruct (p_pred tv f ts) as [[l r1]|e|] eqn:E; simpl in H; try discriminate.
    destruct (HP _ _ _ W E) as [C W1].
    apply (HL l r1 t r W1); auto. eapply can_up; eauto.
  Qed.

  Lemma step_bprim_loop f : S_pred f -> S_bprim_loop f -> S_bprim_loop (S f).
  Proof.
    intros HP HL l ts t r W Cl H. rewrite p_bprim_loop_eq in H.
    destruct ts as [|tok r0].
    { inversion H; subst. split; auto. }
    destruct (cmp_op tok) as [o|] eqn:EO.
    2:{ inversion H; subst. split; auto. }
    destruct (cmp_op_spec _ _ EO) as [_ Co].
    destruct (p_pred tv f r0) as [[x r1]|e|] eqn:EB; simpl in H; try discriminate.
    destruct (HP _ _ _ (wf_tail _ _ W) EB) as (Cx & W1).
    apply (HL (Binary l o x) r1 t r W1); [|exact H].
    rewrite can_cmp by assumption. rewrite Cl, Cx. reflexivity.
  Qed.

  Lemma step_expr f : S_expr f -> S_bprim f -> S_expr_loop f -> S_expr (S f).
  Proof.
    intros HE HP HL minp ts t r W H. rewrite p_expr_eq in H.
    assert (Hb : bind (p_bprim tv f ts) (fun '(l, r) => p_expr_loop tv f minp l r) = POk (t, r) ->
                 can 4 minp t = true /\ wf r = true /\ nl minp r).
    { intros H1.
      destruct (p_bprim tv f ts) as [[l r1]|e|] eqn:E; simpl in H1; try discriminate.
      destruct (HP _ _ _ W E) as [C W1].
      apply (HL minp l r1 t r W1); auto.
      split; [|intros]; eapply can_up; eauto. }
    destruct ts as [|tok r0]; [exact (Hb H)|].
    destruct tok; try solve [exact (Hb H)].
    clear Hb.
    destruct (p_expr tv f not_lvl r0) as [[x r1]|e|] eqn:E; simpl in H; try discriminate.
    destruct (HE _ _ _ _ (wf_tail _ _ W) E) as (Cx & W1 & _).
    apply (HL minp (Unary UNot x) r1 t r W1); auto.
    split; [|intros]; simpl; rewrite Cx; reflexivity.
  Qed.

  Lemma step_expr_loop f : S_expr f -> S_expr_loop f -> S_expr_loop (S f).
  Proof.
    intros HB HL minp l ts t r W [P1 P2] H. rewrite p_expr_loop_eq in H.
    destruct ts as [|tok r0].
    { inversion H; subst. split; auto. split; auto. exact I. }
    destruct (logic_op tok) as [o|] eqn:EO.
    2:{ inversion H; subst. split; auto. split; auto. unfold nl. rewrite EO. exact I. }
    destruct (Nat.leb minp (lvl o)) eqn:EL.
    2:{ inversion H; subst. split; auto. split; auto. unfold nl. rewrite EO.
        apply Nat.leb_gt in EL. exact EL. }
    apply Nat.leb_le in EL.
    destruct (logic_op_spec _ _ EO) as [_ Ao].
    rewrite (rmin_logic o Ao) in H.
    destruct (p_expr tv f (S (lvl o)) r0) as [[x r1]|e|] eqn:EB; simpl in H; try discriminate.
    destruct (HB _ _ _ _ (wf_tail _ _ W) EB) as (Cx & W1 & N1).
    apply (HL minp (Binary l o x) r1 t r W1); [|exact H].
    pose proof (P2 tok r0 o eq_refl EO EL) as Cl.
    split.
    - rewrite can_logic by assumption. rewrite Cl, Cx.
      apply Nat.leb_le in EL. rewrite EL. reflexivity.
    - intros tok' r' o' -> EO' L'. unfold nl in N1. rewrite EO' in N1.
      rewrite can_logic by assumption. rewrite Cl, Cx.
      assert (L2 : Nat.leb (lvl o') (lvl o) = true) by (apply Nat.leb_le; lia).
      rewrite L2. reflexivity.
  Qed.

  Lemma all_fuel : forall f, All f.
  Proof.
    induction f as [|f IH].
    - unfold All, S_simple, S_args, S_args_tail, S_bit, S_bit_loop, S_pred, S_bprim, S_bprim_loop, S_expr, S_expr_loop.
      repeat split; intros; discriminate.
    - destruct IH as (H1 & H2 & H3 & H4 & H5 & H6 & H7 & H8 & H9 & H10).
      unfold All. repeat apply conj.
      + apply step_simple; auto.
      + apply step_args; auto.
      + apply step_args_tail; auto.
      + apply step_bit; auto.
      + apply step_bit_loop; auto.
      + apply step_pred; auto.
      + apply step_bprim; auto.
      + apply step_bprim_loop; auto.
      + apply step_expr; auto.
      + apply step_expr_loop; auto.
  Qed.

  (* ---- exported per-level statements *)
  Theorem p_expr_canon_p : forall f minp ts t r, wf ts = true -> p_expr tv f minp ts = POk (t, r) ->
    can 4 minp t = true /\ wf r = true /\ nl minp r.
  Proof. intros f. destruct (all_fuel f) as (_ & _ & _ & _ & _ & _ & _ & _ & H & _). exact H. Qed.
  Theorem p_bit_canon_p : forall f minp ts t r, wf ts = true -> p_bit tv f minp ts = POk (t, r) ->
    can 1 minp t = true /\ wf r = true /\ nb minp r.
  Proof. intros f. destruct (all_fuel f) as (_ & _ & _ & H & _). exact H. Qed.
  Theorem p_simple_canon_p : forall f ts t r, wf ts = true -> p_simple tv f ts = POk (t, r) ->
    can 0 0 t = true /\ wf r = true.
  Proof. intros f. destruct (all_fuel f) as (H & _). exact H. Qed.
  Theorem p_pred_canon_p : forall f ts t r, wf ts = true -> p_pred tv f ts = POk (t, r) ->
    can 2 0 t = true /\ wf r = true.
  Proof. intros f. destruct (all_fuel f) as (_ & _ & _ & _ & _ & H & _). exact H. Qed.
  Theorem p_bprim_canon_p : forall f ts t r, wf ts = true -> p_bprim tv f ts = POk (t, r) ->
    can 3 0 t = true /\ wf r = true.
  Proof. intros f. destruct (all_fuel f) as (_ & _ & _ & _ & _ & _ & H & _). exact H. Qed.

  Theorem parse_canonical_sec : forall fuel ts t, wf ts = true -> parse tv fuel ts = POk (Some t) ->
    canonical tv tun t = true.
  Proof.
    intros fuel ts t W H. unfold parse in H.
    destruct ts as [|tok r0]; [discriminate|].
    destruct (p_expr tv fuel 0 (tok :: r0)) as [[e r1]|e|] eqn:E; simpl in H; try discriminate.
    destruct (p_expr_canon_p _ _ _ _ _ W E) as (C & _ & _).
    destruct r1; [|discriminate]. inversion H; subst. exact C.
  Qed.
End Canonical.

Theorem parse_canonical_p : forall tv tun, tun_inverts tv tun ->
  forall fuel ts t, toks_wf ts = true -> parse tv fuel ts = POk (Some t) -> canonical tv tun t = true.
Proof. intros tv tun Hinv. apply parse_canonical_sec. exact Hinv. Qed.

(* ------------------------------------------------------------------ the lexer only produces well-formed tokens *)
Open Scope char_scope.

Lemma has_dot_list l : has_dot (string_of_list_ascii l) = existsb (fun c => Ascii.eqb c ".") l.
Proof. induction l as [|c l IH]; simpl; [reflexivity | rewrite IH; reflexivity]. Qed.

Lemma span_forall p : forall l a b, span p l = (a, b) -> forallb p a = true.
Proof.
  induction l as [|c l IH]; intros a b H; simpl in H.
  - inversion H; reflexivity.
  - destruct (p c) eqn:E.
    + destruct (span p l) as [a0 b0]. inversion H; subst. simpl. rewrite E. eapply IH; eauto.
    + inversion H; reflexivity.
Qed.

Lemma alnum_not_dot c : is_alnum_ c = true -> Ascii.eqb c "." = false.
Proof.
  intros H. destruct (Ascii.eqb_spec c "."); [|reflexivity]. subst. vm_compute in H. discriminate H.
Qed.

Lemma alnum_no_dot l : forallb is_alnum_ l = true -> existsb (fun c => Ascii.eqb c ".") l = false.
Proof.
  induction l as [|c l IH]; simpl; intros H; [reflexivity|].
  apply andb_true_iff in H. destruct H as [H1 H2]. rewrite (alnum_not_dot _ H1), (IH H2). reflexivity.
Qed.

Lemma m_ident_no_dot l i r : m_ident l = Some (i, r) -> has_dot (string_of_list_ascii i) = false.
Proof.
  unfold m_ident. intros H. destruct l as [|c l]; [discriminate|].
  destruct (is_alpha_ c) eqn:E; [|discriminate].
  destruct (span is_alnum_ l) as [cs r'] eqn:Es. inversion H; subst.
  rewrite has_dot_list. apply alnum_no_dot. simpl.
  unfold is_alnum_ at 1. rewrite E. simpl. eapply span_forall; eauto.
Qed.

Lemma classify_wf s : has_dot s = false -> tok_wf (classify s) = true.
Proof.
  intros H. unfold classify. destruct (assoc_str (upper s) reserved) as [ty|].
  - unfold kw_token. repeat (match goal with |- context [String.eqb ty ?k] => destruct (String.eqb ty k) end); reflexivity.
  - simpl. rewrite H. reflexivity.
Qed.

Lemma digit_unsigned c s : is_digit c = true -> unsigned (String c s) = true.
Proof.
  intros H. destruct (Ascii.eqb_spec c "+") as [->|N1]; [vm_compute in H; discriminate H|].
  destruct (Ascii.eqb_spec c "-") as [->|N2]; [vm_compute in H; discriminate H|].
  destruct c as [[|] [|] [|] [|] [|] [|] [|] [|]]; try reflexivity; congruence.
Qed.

Lemma span_head p : forall l c a b, span p l = (c :: a, b) -> p c = true.
Proof.
  intros l c a b H. pose proof (span_forall p l _ _ H) as F. simpl in F.
  apply andb_true_iff in F. tauto.
Qed.

(* destruct the scrutinees of the matches of H, one after the other; impossible branches go away *)
Ltac crack H :=
  repeat match type of H with
         | context [match ?x with _ => _ end] => destruct x eqn:?; try discriminate H
         end.

Lemma m_number_wf l t r : m_number l = Some (t, r) -> tok_wf t = true.
Proof.
  unfold m_number. intros H.
  destruct (span is_digit l) as [[|c ds] r0] eqn:E.
  - crack H. inversion H; subst. reflexivity.
  - pose proof (span_head _ _ _ _ _ E) as D.
    destruct (match r0 with
              | "." :: r' => let '(fs, r'') := span is_digit r' in ("." :: fs, r'')
              | _ => ([], r0)
              end) as [frac r1].
    destruct (m_exp r1) as [ex r2]. inversion H; subst.
    change (unsigned (String c (string_of_list_ascii (ds ++ frac ++ ex))) = true).
    apply digit_unsigned. exact D.
Qed.

Lemma m_time_wf l t r : m_time l = Some (t, r) -> tok_wf t = true.
Proof. unfold m_time. intros H. crack H. inversion H; subst. reflexivity. Qed.
Lemma m_string_wf l t r : m_string l = Some (t, r) -> tok_wf t = true.
Proof. unfold m_string. intros H. crack H. inversion H; subst. reflexivity. Qed.
Lemma m_range_wf l t r : m_range l = Some (t, r) -> tok_wf t = true.
Proof. unfold m_range. intros H. crack H. inversion H; subst. reflexivity. Qed.
Lemma m_qualified_wf l t r : m_qualified l = Some (t, r) -> tok_wf t = true.
Proof. unfold m_qualified. intros H. crack H; inversion H; subst; reflexivity. Qed.
Lemma m_bind_wf l t r : m_bind l = Some (t, r) -> tok_wf t = true.
Proof. unfold m_bind. intros H. crack H. inversion H; subst. reflexivity. Qed.
Lemma m_op_wf l t r : m_op l = Some (t, r) -> tok_wf t = true.
Proof. unfold m_op. intros H. crack H; inversion H; subst; reflexivity. Qed.
Lemma m_simple_wf l t r : m_simple l = Some (t, r) -> tok_wf t = true.
Proof.
  unfold m_simple. intros H. destruct (m_ident l) as [[i r0]|] eqn:E; [|discriminate].
  inversion H; subst. apply classify_wf. eapply m_ident_no_dot; eauto.
Qed.

Lemma m_token_wf l t r : m_token l = Some (t, r) -> tok_wf t = true.
Proof.
  unfold m_token, orelse. intros H.
  destruct (m_time l) as [[t0 r0]|] eqn:E1. { inversion H; subst. eapply m_time_wf; eauto. }
  destruct (m_string l) as [[t0 r0]|] eqn:E2. { inversion H; subst. eapply m_string_wf; eauto. }
  destruct (m_range l) as [[t0 r0]|] eqn:E3. { inversion H; subst. eapply m_range_wf; eauto. }
  destruct (m_number l) as [[t0 r0]|] eqn:E4. { inversion H; subst. eapply m_number_wf; eauto. }
  destruct (m_qualified l) as [[t0 r0]|] eqn:E5. { inversion H; subst. eapply m_qualified_wf; eauto. }
  destruct (m_simple l) as [[t0 r0]|] eqn:E6. { inversion H; subst. eapply m_simple_wf; eauto. }
  destruct (m_bind l) as [[t0 r0]|] eqn:E7. { inversion H; subst. eapply m_bind_wf; eauto. }
  eapply m_op_wf; eauto.
Qed.

Lemma lex_chars_S f l :
  lex_chars (S f) l =
    match l with
    | [] => []
    | c :: r =>
        if is_ignore c || is_nl c then lex_chars f r
        else match m_token l with
             | Some (t, r') => t :: lex_chars f r'
             | None => [TBad]
             end
    end.
Proof. reflexivity. Qed.

Theorem lex_chars_wf_p : forall fuel l, toks_wf (lex_chars fuel l) = true.
Proof.
  induction fuel as [|f IH]; intros l; [reflexivity|].
  rewrite lex_chars_S. destruct l as [|c r]; [reflexivity|].
  destruct (is_ignore c || is_nl c); [apply IH|].
  destruct (m_token (c :: r)) as [[t r']|] eqn:E; [|reflexivity].
  unfold toks_wf. simpl. rewrite (m_token_wf _ _ _ E). apply IH.
Qed.

Theorem lex_wf_p : forall s, toks_wf (lex s) = true.
Proof. intros s. unfold lex. apply lex_chars_wf_p. Qed.
Theorem lexN_wf_p : forall codes, toks_wf (lexN codes) = true.
Proof. intros codes. unfold lexN. apply lex_chars_wf_p. Qed.

(* ------------------------------------------------------------------ string level *)
Theorem parse_string_canonical_p : forall tv tun, tun_inverts tv tun ->
  forall s t, parse_string tv s = POk (Some t) -> canonical tv tun t = true.
Proof.
  intros tv tun Hinv s t H. unfold parse_string, parse_tokens in H.
  eapply parse_canonical_p; eauto. apply lex_wf_p.
Qed.
Theorem parse_codes_canonical_p : forall tv tun, tun_inverts tv tun ->
  forall codes t, parse_codes tv codes = POk (Some t) -> canonical tv tun t = true.
Proof.
  intros tv tun Hinv codes t H. unfold parse_codes, parse_tokens in H.
  eapply parse_canonical_p; eauto. apply lexN_wf_p.
Qed.
