(* C05 proofs, part A: strided ranges, scalar column expressions, value typing. *)
From Coq Require Import ZArith List Bool String Lia.
From V Require Import Base.Tri Gen.TimespanGen Model.Pred Gen.PredGen Model.Expr Model.SqlExpr.
Import ListNotations.
Open Scope Z_scope.

Ltac dsc := try (cbn iota in * ); discriminate.

Lemma tri_nv_id : forall t, tri_of_nv (nv_of_tri t) = t.
Proof. destruct t; reflexivity. Qed.

(* ------------------------------------------------------------------ integer comparisons *)
Lemma cmp3_int : forall o x y,
  cmp3 o (Some (VInt x)) (Some (VInt y)) = tri_of_bool (cop_holds o (Z.compare x y)).
Proof. intros. unfold cmp3, vcmp; simpl. now rewrite !Z.mul_1_r. Qed.

Lemma cmp3_eq_int : forall x y, cmp3 CEq (Some (VInt x)) (Some (VInt y)) = tri_of_bool (x =? y).
Proof.
  intros. rewrite cmp3_int. destruct (Z.compare_spec x y) as [H|H|H]; simpl.
  - subst. now rewrite Z.eqb_refl.
  - now rewrite (proj2 (Z.eqb_neq x y)) by lia.
  - now rewrite (proj2 (Z.eqb_neq x y)) by lia.
Qed.
Lemma cmp3_ge_int : forall x y, cmp3 CGe (Some (VInt x)) (Some (VInt y)) = tri_of_bool (y <=? x).
Proof.
  intros. rewrite cmp3_int. rewrite Z.leb_compare, (Z.compare_antisym x y). destruct (x ?= y); reflexivity.
Qed.
Lemma cmp3_le_int : forall x y, cmp3 CLe (Some (VInt x)) (Some (VInt y)) = tri_of_bool (x <=? y).
Proof. intros. rewrite cmp3_int. rewrite Z.leb_compare. destruct (x ?= y); reflexivity. Qed.

Lemma cmp3_null_l : forall o y, cmp3 o None y = UU. Proof. reflexivity. Qed.
Lemma cmp3_null_r : forall o x, cmp3 o x None = UU. Proof. destruct x; reflexivity. Qed.

(* ------------------------------------------------------------------ the strided range test *)
Definition range_meaning (x : nv) (a b s : Z) : tri :=
  match x with
  | None => UU
  | Some v => match whole v with Some z => tri_of_bool (in_seqb z a b s) | None => FF end
  end.

Lemma in_range_int : forall rho m x a b s, 1 <= s -> seval rho m = Some (VInt x) ->
  tri_of_nv (seval rho (range_sql m a b s)) = tri_of_bool (in_seqb x a b s).
Proof.
  intros rho m x a b s Hs Hm. unfold range_sql, in_seqb.
  destruct (a =? b) eqn:Eab.
  - apply Z.eqb_eq in Eab; subst b. simpl. rewrite Hm, tri_nv_id, cmp3_eq_int.
    destruct (x =? a) eqn:E.
    + apply Z.eqb_eq in E; subst x. rewrite Z.leb_refl, Z.sub_diag, Z.mod_0_l by lia. reflexivity.
    + apply Z.eqb_neq in E. destruct (a <=? x) eqn:E1, (x <=? a) eqn:E2; simpl; try reflexivity. lia.
  - destruct (s =? 1) eqn:Es.
    + apply Z.eqb_eq in Es; subst s. simpl. rewrite Hm, tri_nv_id, cmp3_ge_int, cmp3_le_int, Z.mod_1_r.
      destruct (a <=? x), (x <=? b); reflexivity.
    + cbn [seval fold_right zlit]. rewrite Hm, !tri_nv_id, cmp3_ge_int, cmp3_le_int. cbn [arith num is_int andb fst snd trunc].
      unfold trunc; cbn [fst snd]. rewrite !Z.quot_1_r.
      destruct (s =? 0) eqn:Es0; [apply Z.eqb_eq in Es0; lia|].
      rewrite cmp3_eq_int.
      destruct (a <=? x) eqn:E1; simpl; [|reflexivity].
      apply Z.leb_le in E1. rewrite Z.rem_mod_nonneg by lia.
      destruct (x <=? b), ((x - a) mod s =? 0); reflexivity.
Qed.

Lemma in_range_null : forall rho m a b s, seval rho m = None ->
  tri_of_nv (seval rho (range_sql m a b s)) = UU.
Proof.
  intros rho m a b s Hm. unfold range_sql.
  destruct (a =? b); [simpl; now rewrite Hm|].
  destruct (s =? 1); simpl; rewrite Hm; reflexivity.
Qed.

(* for EVERY integer member (negative ones included) and for NULL *)
Lemma in_range_correct_p : forall rho m a b s, 1 <= s ->
  (seval rho m = None \/ exists x, seval rho m = Some (VInt x)) ->
  tri_of_nv (seval rho (range_sql m a b s)) = range_meaning (seval rho m) a b s.
Proof.
  intros rho m a b s Hs [H|[x H]].
  - rewrite in_range_null by assumption. now rewrite H.
  - rewrite (in_range_int rho m x) by assumption. now rewrite H.
Qed.

(* what in_seqb means: x is one of a, a+s, a+2s, ... not exceeding b *)
Lemma in_seqb_spec_p : forall x a b s, 0 < s ->
  (in_seqb x a b s = true <-> exists k, 0 <= k /\ x = a + k * s /\ x <= b).
Proof.
  intros x a b s Hs. unfold in_seqb. rewrite !andb_true_iff, !Z.leb_le, Z.eqb_eq. split.
  - intros [[H1 H2] H3]. exists ((x - a) / s). split; [apply Z.div_pos; lia|]. split; [|lia].
    pose proof (Z.div_mod (x - a) s ltac:(lia)). lia.
  - intros [k [Hk [Hx Hb]]]. subst x. repeat split; try nia.
    replace (a + k * s - a) with (k * s) by lia. apply Z.mod_mul. lia.
Qed.

Lemma seq_from_in : forall n a s x, 0 < s ->
  (In x (seq_from a s n) <-> exists k, 0 <= k < Z.of_nat n /\ x = a + k * s).
Proof.
  induction n as [|n IH]; intros a s x Hs; simpl.
  - split; [tauto|]. intros [k [H _]]. lia.
  - rewrite IH by assumption. split.
    + intros [H|[k [Hk Hx]]]; [exists 0; lia|]. exists (k + 1). lia.
    + intros [k [Hk Hx]]. destruct (Z.eq_dec k 0); [left; subst; lia|]. right. exists (k - 1). lia.
Qed.

(* ... and the same as membership in the written-out sequence  a, a+s, ..., <= b  of queries.rst *)
Lemma in_seqb_range_seq_p : forall x a b s, 0 < s -> (In x (range_seq a b s) <-> in_seqb x a b s = true).
Proof.
  intros x a b s Hs. rewrite in_seqb_spec_p by assumption. unfold range_seq.
  destruct (b <? a) eqn:E.
  - apply Z.ltb_lt in E. split; [simpl; tauto|]. intros [k [Hk [Hx Hb]]]. nia.
  - apply Z.ltb_ge in E. rewrite seq_from_in by assumption.
    assert (Hn : Z.of_nat (Z.to_nat ((b - a) / s + 1)) = (b - a) / s + 1).
    { apply Z2Nat.id. pose proof (Z.div_pos (b - a) s ltac:(lia) Hs). lia. }
    rewrite Hn. split.
    + intros [k [Hk Hx]]. exists k. split; [lia|]. split; [assumption|].
      assert (k * s <= b - a); [|lia].
      assert (k <= (b - a) / s) by lia.
      pose proof (Z.mul_div_le (b - a) s Hs). nia.
    + intros [k [Hk [Hx Hb]]]. exists k. split; [|assumption]. split; [lia|].
      assert (k <= (b - a) / s); [|lia]. apply Z.div_le_lower_bound; [lia|nia].
Qed.

(* the test as it was before d6d8862 is wrong: member -3 of -3..3:2 is missed *)
Lemma range_old_refuted_p : exists x a b s, 1 <= s /\
  tri_of_nv (seval (fun _ => None) (range_sql_old (SVal (Some (VInt x))) a b s)) <> tri_of_bool (in_seqb x a b s).
Proof. exists (-3), (-3), 3, 2. split; [lia|]. vm_compute. discriminate. Qed.

(* ------------------------------------------------------------------ scalar column expressions *)
Fixpoint scalar (e : expr) : bool :=
  match e with
  | ELit _ | ECol _ _ => true
  | EBegin a | EEnd a | ENeg a => scalar a
  | EArith _ a b => scalar a && scalar b
  | _ => false
  end.

Lemma sc_correct : forall rho e, scalar e = true -> bounds_ok rho e = true -> seval rho (sc e) = dval rho e.
Proof.
  intros rho. induction e; simpl; intros Hs Hb; try discriminate; try reflexivity.
  - apply andb_true_iff in Hb as [Hn Hb]. rewrite IHe by assumption.
    destruct (dval rho e) as [[]|]; try reflexivity. discriminate.
  - apply andb_true_iff in Hb as [Hn Hb]. rewrite IHe by assumption.
    destruct (dval rho e) as [[]|]; try reflexivity. discriminate.
  - now rewrite IHe.
  - apply andb_true_iff in Hs as [? ?]. apply andb_true_iff in Hb as [? ?]. now rewrite IHe1, IHe2.
Qed.

(* ------------------------------------------------------------------ typing *)
Definition vty_ok (t : dty) (v : value) : Prop :=
  match t, v with
  | DInt, VInt _ | DQuot, VInt _ | DQuot, VReal _ _ | DReal, VReal _ _ | DStr, VStr _ | DTime, VTime _
  | DSpan, VSpan _ _ | DBool, VBool _ => True
  | _, _ => False
  end.

Lemma ty_eqb_eq : forall a b, ty_eqb a b = true -> a = b.
Proof. destruct a, b; simpl; congruence. Qed.
Lemma dty_eqb_eq : forall a b, dty_eqb a b = true -> a = b.
Proof. destruct a, b; simpl; congruence. Qed.

Lemma vty_ok_of_ty : forall v, vty_ok (dty_of_ty (ty_of v)) v.
Proof. destruct v; exact I. Qed.

Lemma nv_of_tri_bool : forall t v, nv_of_tri t = Some v -> vty_ok DBool v.
Proof. destruct t; simpl; intros v H; inversion H; exact I. Qed.

Lemma arith_num : forall o x y v, arith o (Some x) (Some y) = Some v ->
  (exists z, v = VInt z) \/ (exists n d, v = VReal n d).
Proof.
  intros o x y v. unfold arith. destruct (num x) as [[n1 d1]|]; [|dsc].
  destruct (num y) as [[n2 d2]|]; [|dsc].
  destruct o; try solve [destruct (is_int x && is_int y); intros Hq; inversion Hq; eauto].
  - destruct n2; intros Hq; inversion Hq; eauto.
  - destruct (trunc (n2, d2) =? 0); [dsc|]. destruct (is_int x && is_int y); intros Hq; inversion Hq; eauto.
Qed.

Lemma arith_int : forall o x y v, arith o (Some (VInt x)) (Some (VInt y)) = Some v -> o <> ODiv -> exists z, v = VInt z.
Proof.
  intros o x y v. unfold arith; simpl. destruct o; try solve [intros Hq Ho; inversion Hq; eauto].
  - intros _ Ho; congruence.
  - destruct (_ =? 0); [dsc|]. intros Hq Ho; inversion Hq; eauto.
Qed.

Lemma arith_real : forall o n1 d1 n2 d2 v, arith o (Some (VReal n1 d1)) (Some (VReal n2 d2)) = Some v ->
  exists n d, v = VReal n d.
Proof.
  intros o n1 d1 n2 d2 v. unfold arith; simpl. destruct o; try solve [intros Hq; inversion Hq; eauto].
  - destruct n2; intros Hq; inversion Hq; eauto.
  - destruct (_ =? 0); [dsc|]. intros Hq; inversion Hq; eauto.
Qed.

Lemma arith_some : forall o x y v, arith o x y = Some v -> exists a b, x = Some a /\ y = Some b.
Proof. intros o [a|] [b|] v H; try discriminate; eauto. Qed.

Lemma preservation : forall rho e t v,
  typeof e = Some t -> env_ok rho e = true -> dval rho e = Some v -> vty_ok t v.
Proof.
  intros rho. induction e; simpl; intros dt w Ht He Hv.
  - inversion Hv; subst. destruct w; inversion Ht; exact I.
  - discriminate.
  - inversion Ht; subst. unfold col_ok in He. rewrite Hv in He. apply ty_eqb_eq in He. rewrite <- He. apply vty_ok_of_ty.
  - destruct (typeof e) as [[]|]; try discriminate. inversion Ht; subst.
    destruct (dval rho e) as [[]|]; try discriminate. inversion Hv; exact I.
  - destruct (typeof e) as [[]|]; try discriminate. inversion Ht; subst.
    destruct (dval rho e) as [[]|]; try discriminate. inversion Hv; exact I.
  - destruct (typeof e) as [te|] eqn:Te; [|dsc].
    destruct (dval rho e) as [u|] eqn:De; [|dsc].
    specialize (IHe te u eq_refl He eq_refl).
    destruct te; try discriminate; inversion Ht; subst; destruct u; try contradiction; simpl in Hv; inversion Hv; exact I.
  - apply andb_true_iff in He as [He1 He2].
    destruct (typeof e1) as [ta|] eqn:T1; [|dsc]. destruct (typeof e2) as [tb|] eqn:T2; [|dsc].
    destruct (arith_some _ _ _ _ Hv) as [x [y [Dx Dy]]]. rewrite Dx, Dy in Hv.
    specialize (IHe1 ta x eq_refl He1 Dx). specialize (IHe2 tb y eq_refl He2 Dy).
    destruct (intlike ta && intlike tb) eqn:Eint.
    + destruct (arith_num _ _ _ _ Hv) as [[z Hz]|[n [d Hz]]]; subst w.
      * destruct o; try (inversion Ht; subst; exact I);
          try (destruct (dty_eqb ta DInt && dty_eqb tb DInt); inversion Ht; subst; exact I).
      * destruct o.
        1-3: destruct (dty_eqb ta DInt && dty_eqb tb DInt) eqn:Eb; inversion Ht; subst; try exact I;
             apply andb_true_iff in Eb as [Ea Eb]; apply dty_eqb_eq in Ea, Eb; subst;
             destruct x, y; try contradiction; destruct (arith_int _ _ _ _ Hv) as [zz Hzz]; [discriminate|discriminate Hzz].
        { inversion Ht; subst; exact I. }
        { destruct (dty_eqb ta DInt && dty_eqb tb DInt) eqn:Eb; [|dsc]. inversion Ht; subst.
          apply andb_true_iff in Eb as [Ea Eb]; apply dty_eqb_eq in Ea, Eb; subst.
          destruct x, y; try contradiction. destruct (arith_int _ _ _ _ Hv) as [zz Hzz]; [discriminate|discriminate Hzz]. }
    + destruct (dty_eqb ta DReal && dty_eqb tb DReal) eqn:Er; [|dsc].
      apply andb_true_iff in Er as [Ea Eb]; apply dty_eqb_eq in Ea, Eb; subst.
      destruct x, y; try contradiction. destruct (arith_real _ _ _ _ _ _ Hv) as [nn [dd Hz]]; subst w.
      destruct o; inversion Ht; subst; exact I.
  - destruct (is_ENull e2).
    + destruct (typeof e1) as [ta|]; [|dsc].
      destruct (cop_is_eq o && _); [|dsc]. inversion Ht; subst.
      destruct o; inversion Hv; exact I.
    + destruct (is_ENull e1).
      * destruct (typeof e2) as [tb|]; [|dsc].
        destruct (cop_is_eq o && _); [|dsc]. inversion Ht; subst.
        destruct o; inversion Hv; exact I.
      * destruct (typeof e1), (typeof e2); try discriminate.
        destruct (_ && _); [|dsc]. inversion Ht; subst. eapply nv_of_tri_bool; eassumption.
  - destruct (typeof e1) as [[]|], (typeof e2) as [[]|]; try discriminate; inversion Ht; subst;
      eapply nv_of_tri_bool; eassumption.
  - destruct (typeof e) as [ta|]; [|dsc]. destruct (_ && _); [|dsc].
    inversion Ht; subst. eapply nv_of_tri_bool; eassumption.
  - destruct (typeof e) as [[]|]; try discriminate. inversion Ht; subst. eapply nv_of_tri_bool; eassumption.
  - destruct (typeof e1) as [[]|], (typeof e2) as [[]|]; try discriminate. inversion Ht; subst. eapply nv_of_tri_bool; eassumption.
  - destruct (typeof e1) as [[]|], (typeof e2) as [[]|]; try discriminate. inversion Ht; subst. eapply nv_of_tri_bool; eassumption.
Qed.

(* the implementation's column type of a well-typed non-boolean expression *)
Lemma typeof_scalar : forall e t, typeof e = Some t -> t <> DBool -> scalar e = true /\ ctype e = Some (erase t).
Proof.
  induction e; simpl; intros dt Ht Hb; try discriminate.
  - destruct v; inversion Ht; subst; auto.
  - inversion Ht; subst. split; [reflexivity|]. destruct t; simpl; try reflexivity. contradiction Hb; reflexivity.
  - destruct (typeof e) as [[]|] eqn:T; try discriminate. inversion Ht; subst.
    destruct (IHe DSpan eq_refl ltac:(discriminate)) as [S C]. now rewrite C.
  - destruct (typeof e) as [[]|] eqn:T; try discriminate. inversion Ht; subst.
    destruct (IHe DSpan eq_refl ltac:(discriminate)) as [S C]. now rewrite C.
  - destruct (typeof e) as [te|] eqn:T; [|dsc].
    destruct te; try discriminate; inversion Ht; subst;
      (destruct (IHe _ eq_refl ltac:(discriminate)) as [S C]; rewrite C; auto).
  - destruct (typeof e1) as [ta|] eqn:T1; [|dsc]. destruct (typeof e2) as [tb|] eqn:T2; [|dsc].
    destruct (intlike ta && intlike tb) eqn:Ei.
    + apply andb_true_iff in Ei as [Ia Ib].
      assert (ta <> DBool) by (destruct ta; discriminate). assert (tb <> DBool) by (destruct tb; discriminate).
      destruct (IHe1 _ eq_refl H) as [S1 C1]. destruct (IHe2 _ eq_refl H0) as [S2 C2]. rewrite S1, S2, C1, C2.
      assert (erase ta = TyInt) by (destruct ta; try discriminate; reflexivity).
      assert (erase tb = TyInt) by (destruct tb; try discriminate; reflexivity). rewrite H1, H2. simpl.
      destruct o; try (destruct (dty_eqb ta DInt && dty_eqb tb DInt)); inversion Ht; subst; auto.
    + destruct (dty_eqb ta DReal && dty_eqb tb DReal) eqn:Er; [|dsc].
      apply andb_true_iff in Er as [Ea Eb]; apply dty_eqb_eq in Ea, Eb; subst.
      destruct (IHe1 _ eq_refl ltac:(discriminate)) as [S1 C1]. destruct (IHe2 _ eq_refl ltac:(discriminate)) as [S2 C2].
      rewrite S1, S2, C1, C2. destruct o; inversion Ht; subst; auto.
  - destruct (is_ENull e2).
    + destruct (typeof e1); [|dsc]. destruct (_ && _); inversion Ht; subst; contradiction.
    + destruct (is_ENull e1).
      * destruct (typeof e2); [|dsc]. destruct (_ && _); inversion Ht; subst; contradiction.
      * destruct (typeof e1), (typeof e2); try discriminate. destruct (_ && _); inversion Ht; subst; contradiction.
  - destruct (typeof e1) as [[]|], (typeof e2) as [[]|]; try discriminate; inversion Ht; subst; contradiction.
  - destruct (typeof e); [|dsc]. destruct (_ && _); inversion Ht; subst; contradiction.
  - destruct (typeof e) as [[]|]; try discriminate; inversion Ht; subst; contradiction.
  - destruct (typeof e1) as [[]|], (typeof e2) as [[]|]; try discriminate; inversion Ht; subst; contradiction.
  - destruct (typeof e1) as [[]|], (typeof e2) as [[]|]; try discriminate; inversion Ht; subst; contradiction.
Qed.
