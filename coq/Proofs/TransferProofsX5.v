(* C19, part X5 (after /repo 2da36a1): a refused import_ leaves the transactional state untouched in EVERY mode;
   import_idempotent_or_refused at full strength. *)
From Coq Require Import NArith List Bool Lia.
From V Require Import Model.Transfer Proofs.TransferProofs Proofs.TransferProofs2 Proofs.TransferProofsX1 Proofs.TransferProofsX4.
Import ListNotations.
Open Scope N_scope.

Lemma has_key_cons_false {A} n k (v : A) l : has_key n ((k, v) :: l) = false -> n <> k /\ has_key n l = false.
Proof.
  unfold has_key. simpl. destruct (n =? k) eqn:E; [discriminate|]. apply N.eqb_neq in E. auto.
Qed.
Lemma lose_id ids st : (forall n, memN n ids = true -> has_key n st = false) -> lose ids st = st.
Proof.
  induction st as [|[k i] st IH]; intros H; [reflexivity|]. unfold lose in *. simpl. rewrite IH.
  - destruct i as [[v|] [|]]; try reflexivity. destruct (memN k ids) eqn:Em; [|reflexivity].
    specialize (H k Em). unfold has_key in H. simpl in H. rewrite N.eqb_refl in H. discriminate.
  - intros n Hn. apply (has_key_cons_false n k i st). apply H. exact Hn.
Qed.

(* with the repair, files are only ever copied when none of the file's datasets has a datastore record *)
Lemma load_fixed_copied m b t0 e : load_v true m b t0 = (RErr e, true) ->
  forall n, In n (bundle_ids b) -> is_stored n t0 = false.
Proof.
  unfold load_v. pose proof (add_dims_ds (b_dims b) t0) as [_ Ha].
  destruct (foldr import_one (map fst (b_dsets b)) (add_dims (b_dims b) t0)) as [t2|] eqn:Ef; [|intros H; inversion H].
  apply foldr_import_dsets in Ef. destruct Ef as [Es _].
  destruct (existsb (fun n => is_stored n t2) (bundle_ids b)) eqn:Ex; [intros H; inversion H|].
  intros _ n Hn. destruct (is_stored n t0) eqn:Ei; [|reflexivity].
  assert (existsb (fun n => is_stored n t2) (bundle_ids b) = true); [|congruence].
  apply existsb_exists. exists n. split; [exact Hn|]. unfold is_stored in *. rewrite Es, Ha. exact Ei.
Qed.

(* refused import_, any mode, any file, any target: dimension records, dataset rows, datastore records (hence every
   stored content), TAGGED memberships and validity ranges are exactly as before *)
Lemma import_refused_same : forall m b t t' e, import_ m b t = (t', Err e) -> same_data t t'.
Proof.
  intros m b t t' e H. destruct (import_refused_registry _ _ _ _ _ H) as (A & B & C & D').
  repeat split; try assumption.
  revert H. unfold import_, import_v. destruct (register b t) as [t0 oe] eqn:Er.
  apply register_same in Er. destruct Er as (_ & _ & Hst & _ & _).
  destruct oe; [intros H; inversion H; subst; exact Hst|].
  destruct (load_v true m b t0) as [[t2|e2] copied] eqn:El; [intros H; inversion H|].
  intros H; inversion H; subst; clear H. destruct m, copied; simpl; try exact Hst.
  rewrite lose_id; [exact Hst|]. intros n Hn. apply memN_In in Hn. apply (load_fixed_copied _ _ _ _ El n Hn).
Qed.

(* import_idempotent_or_refused: a file with at least one dataset that was accepted once is refused when imported again,
   in whatever mode, and that refusal neither duplicates nor alters anything *)
Lemma import_idem_or_refused : forall m m' b t t', import_ m b t = (t', Ok) -> b_dsets b <> [] ->
  exists t'' e, import_ m' b t' = (t'', Err e) /\ same_data t' t''.
Proof.
  intros m m' b t t' H Hne. pose proof (import_twice_refused m m' b t t' H Hne) as Hr.
  destruct (import_ m' b t') as [t'' [|e]] eqn:E; [contradiction Hr; reflexivity|].
  exists t'', e. split; [reflexivity|]. eapply import_refused_same. exact E.
Qed.
Lemma exim_refused_same : forall m ids cs src t t' e, exim m ids cs src t = (t', Err e) -> same_data t t'.
Proof.
  intros m ids cs src t t' e. unfold exim, exim_v. destruct (export ids cs src) as [b|e0]; [apply import_refused_same|].
  intros H; inversion H; subst. apply same_data_refl.
Qed.
