(* C04 extension, part 1: the one-pass best-rank / tie scan of SqlRegistry.findDataset equals "the first collection
   of the search path that has an overlapping row decides" -- for EVERY row list, path, key and probe. *)
From Coq Require Import ZArith NArith List Bool Lia Permutation.
From V Require Import Base.Tri Gen.TimespanGen Model.Timespan Proofs.TimespanProofs Model.Calib Proofs.CalibProofs Model.CalibPath.
Import ListNotations.
Open Scope N_scope.

(* ---------- the scan, generically ---------- *)
Section Scan.
  Context {A : Type}.
  Definition at_rank (m : N) (l : list (N * A)) : list (N * A) := filter (fun y => fst y =? m) l.
  Definition span_ofA (f : A -> N) (l : list (N * A)) : lookup_result :=
    match l with [] => NotFound | [x] => Unique (f (snd x)) | _ => Ambiguous end.

  Definition scan_inv (p : list (N * A)) (acc : N * A * bool) : Prop :=
    (forall y, In y p -> fst (fst acc) <= fst y) /\
    exists rest, at_rank (fst (fst acc)) p = (fst (fst acc), snd (fst acc)) :: rest /\
                 snd acc = match rest with [] => false | _ => true end.

  Lemma at_rank_app m l1 l2 : at_rank m (l1 ++ l2) = at_rank m l1 ++ at_rank m l2.
  Proof. apply filter_app. Qed.

  Lemma at_rank_none m l : (forall y, In y l -> m < fst y) -> at_rank m l = [].
  Proof.
    intros H. apply filter_nil_all. intros y Hy. apply N.eqb_neq. specialize (H y Hy). lia.
  Qed.

  Lemma scan_step p acc y : scan_inv p acc -> scan_inv (p ++ [y]) (best_stepA acc y).
  Proof.
    destruct acc as [[m row] tie]. intros [Hlow (rest & Hr & Ht)]. cbn [fst snd] in *.
    unfold best_stepA. destruct (fst y <? m) eqn:E1; [|destruct (fst y =? m) eqn:E2].
    - apply N.ltb_lt in E1. split; cbn [fst snd].
      + intros z Hz. apply in_app_or in Hz as [Hz|[<-|[]]]; [specialize (Hlow z Hz); lia|lia].
      + exists []. split; [|reflexivity]. rewrite at_rank_app.
        rewrite (at_rank_none (fst y) p) by (intros z Hz; specialize (Hlow z Hz); lia).
        cbn. rewrite N.eqb_refl. destruct y; reflexivity.
    - apply N.eqb_eq in E2. split; cbn [fst snd].
      + intros z Hz. apply in_app_or in Hz as [Hz|[<-|[]]]; [exact (Hlow z Hz)|lia].
      + exists (rest ++ [y]). split.
        * rewrite at_rank_app, Hr. cbn. rewrite (proj2 (N.eqb_eq _ _) E2). reflexivity.
        * destruct rest; reflexivity.
    - apply N.ltb_ge in E1. apply N.eqb_neq in E2. split; cbn [fst snd].
      + intros z Hz. apply in_app_or in Hz as [Hz|[<-|[]]]; [exact (Hlow z Hz)|lia].
      + exists rest. split; [|exact Ht]. rewrite at_rank_app, Hr. cbn.
        rewrite (proj2 (N.eqb_neq _ _) E2). rewrite app_nil_r. reflexivity.
  Qed.

  Lemma scan_fold l : forall p acc, scan_inv p acc -> scan_inv (p ++ l) (fold_left best_stepA l acc).
  Proof.
    induction l as [|y l IH]; intros p acc H; cbn [fold_left]; [rewrite app_nil_r; exact H|].
    replace (p ++ y :: l) with ((p ++ [y]) ++ l) by (rewrite <- app_assoc; reflexivity).
    apply IH, scan_step, H.
  Qed.

  Lemma scan_inv_init x : scan_inv [x] (fst x, snd x, false).
  Proof.
    split; cbn [fst snd].
    - intros y [<-|[]]. lia.
    - exists []. split; [|reflexivity]. cbn. rewrite N.eqb_refl. destruct x; reflexivity.
  Qed.

  (* the scan returns what the rows of minimal rank say: one row -> that one, two or more -> ambiguity *)
  Lemma scan_char f l m : (forall y, In y l -> m <= fst y) -> at_rank m l <> [] -> scan f l = span_ofA f (at_rank m l).
  Proof.
    intros Hlow Hne. destruct l as [|x rest]; [contradiction Hne; reflexivity|].
    pose proof (scan_fold rest [x] _ (scan_inv_init x)) as H. cbn [app] in H.
    unfold scan. destruct (fold_left best_stepA rest (fst x, snd x, false)) as [[m' row] tie].
    destruct H as [Hlow' (others & Hr & Ht)]. cbn [fst snd] in *.
    assert (m' = m) as ->.
    { assert (Hin' : In (m', row) (x :: rest)).
      { assert (In (m', row) (at_rank m' (x :: rest))) as Hi by (rewrite Hr; left; reflexivity).
        apply filter_In in Hi. apply Hi. }
      destruct (at_rank m (x :: rest)) as [|z zs] eqn:Ez; [contradiction Hne; reflexivity|].
      assert (In z (at_rank m (x :: rest))) as Hz by (rewrite Ez; left; reflexivity).
      apply filter_In in Hz as [Hz1 Hz2]. apply N.eqb_eq in Hz2.
      pose proof (Hlow _ Hin') as L1. pose proof (Hlow' _ Hz1) as L2. cbn [fst] in L1. lia. }
    rewrite Hr. subst tie. destruct others; reflexivity.
  Qed.
End Scan.

(* ---------- ranks ---------- *)
Lemma rank_of_ge c path : forall i0 i, rank_of c path i0 = Some i -> i0 <= i.
Proof.
  induction path as [|c' p IH]; intros i0 i H; cbn in H; [discriminate|].
  destruct (c =? c'); [inversion H; lia|]. apply IH in H. lia.
Qed.

Lemma path_rows_nil rows i0 ty d q : path_rows_of rows [] i0 ty d q = [].
Proof. unfold path_rows_of. induction rows as [|r l IH]; cbn; [reflexivity|exact IH]. Qed.

Lemma path_rows_low rows path i0 ty d q : forall y, In y (path_rows_of rows path i0 ty d q) -> i0 <= fst y.
Proof.
  intros y Hy. unfold path_rows_of in Hy. apply in_flat_map in Hy as (r & _ & Hy).
  destruct (rank_of (r_coll r) path i0) as [i|] eqn:E; [|contradiction].
  destruct ((r_ty r =? ty) && (r_did r =? d) && py_overlaps (r_ts r) q); [|contradiction].
  destruct Hy as [<-|[]]. cbn. eapply rank_of_ge, E.
Qed.

(* rows of the head collection are exactly the rows of rank i0 *)
Lemma at_rank_head rows c p i0 ty d q :
  at_rank i0 (path_rows_of rows (c :: p) i0 ty d q) = map (pair i0) (coll_rows rows c ty d q).
Proof.
  unfold path_rows_of, coll_rows, key_match. induction rows as [|r l IH]; [reflexivity|].
  cbn [flat_map filter]. rewrite at_rank_app, IH. cbn [rank_of].
  destruct (r_coll r =? c) eqn:E1; cbn [andb].
  - destruct ((r_ty r =? ty) && (r_did r =? d) && py_overlaps (r_ts r) q) eqn:E2.
    + assert ((r_ty r =? ty) && (r_did r =? d) && py_overlaps (r_ts r) q = true) as E2' by exact E2.
      cbn. rewrite N.eqb_refl. cbn. reflexivity.
    + reflexivity.
  - destruct (rank_of (r_coll r) p (N.succ i0)) as [i|] eqn:E3; [|reflexivity].
    destruct ((r_ty r =? ty) && (r_did r =? d) && py_overlaps (r_ts r) q); [|reflexivity].
    apply rank_of_ge in E3. cbn. assert (i =? i0 = false) as -> by (apply N.eqb_neq; lia). reflexivity.
Qed.

(* a head collection without overlapping rows is invisible *)
Lemma path_rows_skip rows c p i0 ty d q : coll_rows rows c ty d q = [] ->
  path_rows_of rows (c :: p) i0 ty d q = path_rows_of rows p (N.succ i0) ty d q.
Proof.
  unfold path_rows_of, coll_rows, key_match. induction rows as [|r l IH]; intros H; [reflexivity|].
  cbn [flat_map filter] in *.
  destruct ((r_coll r =? c) && (r_ty r =? ty) && (r_did r =? d) && py_overlaps (r_ts r) q) eqn:E0; [discriminate H|].
  rewrite (IH H). cbn [rank_of].
  destruct (r_coll r =? c) eqn:E1; cbn [andb] in E0; [|reflexivity].
  rewrite E0. destruct (rank_of (r_coll r) p (N.succ i0)); reflexivity.
Qed.

Lemma span_of_map i (l : list crow) : span_ofA r_ds (map (pair i) l) = span_of l.
Proof. destruct l as [|a [|b l]]; reflexivity. Qed.

Lemma scan_path_rows rows ty d q : forall path i0,
  scan r_ds (path_rows_of rows path i0 ty d q) = first_rows rows path ty d q.
Proof.
  induction path as [|c p IH]; intros i0; cbn [first_rows]; [rewrite path_rows_nil; reflexivity|].
  destruct (coll_rows rows c ty d q) as [|r0 l'] eqn:E.
  - rewrite (path_rows_skip rows c p i0 ty d q E). apply IH.
  - rewrite (scan_char r_ds _ i0).
    + rewrite at_rank_head, E. apply span_of_map.
    + apply path_rows_low.
    + rewrite at_rank_head, E. discriminate.
Qed.

Lemma lookup_rows_first_wins_p rows path ty d q : lookup_rows rows path ty d q = first_rows rows path ty d q.
Proof. apply scan_path_rows. Qed.

Lemma lookup_path_rows s path ty d q : lookup_path s path ty d q = lookup_rows (calibs s) path ty d q.
Proof. reflexivity. Qed.

Lemma lookup_span_rows s c ty d q : lookup_span s c ty d q = span_of (coll_rows (calibs s) c ty d q).
Proof. reflexivity. Qed.

Lemma first_rows_lookup_first s ty d q : forall path, first_rows (calibs s) path ty d q = lookup_first s path ty d q.
Proof.
  induction path as [|c p IH]; [reflexivity|]. cbn [first_rows lookup_first]. rewrite lookup_span_rows, IH.
  destruct (coll_rows (calibs s) c ty d q) as [|a [|b l]]; reflexivity.
Qed.

Lemma lookup_path_first_wins_p s path ty d q : lookup_path s path ty d q = lookup_first s path ty d q.
Proof. rewrite lookup_path_rows, lookup_rows_first_wins_p. apply first_rows_lookup_first. Qed.

(* ---------- consequences ---------- *)
Lemma lookup_first_decided s ty d q : forall pre c post,
  (forall c', In c' pre -> lookup_span s c' ty d q = NotFound) -> lookup_span s c ty d q <> NotFound ->
  lookup_first s (pre ++ c :: post) ty d q = lookup_span s c ty d q.
Proof.
  induction pre as [|a pre IH]; intros c post Hpre Hc; cbn [app lookup_first].
  - destruct (lookup_span s c ty d q); try reflexivity. contradiction Hc; reflexivity.
  - rewrite (Hpre a (or_introl eq_refl)). apply IH; [|exact Hc]. intros c' H. apply Hpre. right. exact H.
Qed.

Lemma lookup_path_decided_p s pre c post ty d q :
  (forall c', In c' pre -> lookup_span s c' ty d q = NotFound) -> lookup_span s c ty d q <> NotFound ->
  lookup_path s (pre ++ c :: post) ty d q = lookup_span s c ty d q.
Proof. intros. rewrite lookup_path_first_wins_p. apply lookup_first_decided; assumption. Qed.

Lemma lookup_first_notfound s ty d q : forall path,
  lookup_first s path ty d q = NotFound <-> (forall c, In c path -> lookup_span s c ty d q = NotFound).
Proof.
  induction path as [|a p IH]; cbn [lookup_first].
  - split; [intros _ c []|reflexivity].
  - destruct (lookup_span s a ty d q) eqn:E.
    + split; [discriminate|]. intros H. specialize (H a (or_introl eq_refl)). rewrite E in H. discriminate.
    + split; [discriminate|]. intros H. specialize (H a (or_introl eq_refl)). rewrite E in H. discriminate.
    + rewrite IH. split.
      * intros H c [<-|Hc]; [exact E|apply H, Hc].
      * intros H c Hc. apply H. right. exact Hc.
Qed.

Lemma lookup_path_notfound_iff_p s path ty d q :
  lookup_path s path ty d q = NotFound <-> (forall c, In c path -> lookup_span s c ty d q = NotFound).
Proof. rewrite lookup_path_first_wins_p. apply lookup_first_notfound. Qed.

(* whatever a path lookup answers (dataset or ambiguity) is the answer of ONE collection, all earlier ones being empty *)
Lemma lookup_first_found s ty d q : forall path res, res <> NotFound -> lookup_first s path ty d q = res ->
  exists pre c post, path = pre ++ c :: post /\ (forall c', In c' pre -> lookup_span s c' ty d q = NotFound) /\
                     lookup_span s c ty d q = res.
Proof.
  induction path as [|a p IH]; intros res Hres H; cbn [lookup_first] in H; [symmetry in H; contradiction|].
  destruct (lookup_span s a ty d q) eqn:E.
  - exists [], a, p. repeat split; [intros c' []|rewrite E; exact H].
  - exists [], a, p. repeat split; [intros c' []|rewrite E; exact H].
  - destruct (IH res Hres H) as (pre & c & post & -> & Hpre & Hc). exists (a :: pre), c, post. repeat split; [|exact Hc].
    intros c' [<-|Hc']; [exact E|apply Hpre, Hc'].
Qed.

Lemma lookup_path_found_p s path ty d q res : res <> NotFound -> lookup_path s path ty d q = res ->
  exists pre c post, path = pre ++ c :: post /\ (forall c', In c' pre -> lookup_span s c' ty d q = NotFound) /\
                     lookup_span s c ty d q = res.
Proof. rewrite lookup_path_first_wins_p. apply lookup_first_found. Qed.

Lemma lookup_path_unique_sound_p s path ty d q ds : lookup_path s path ty d q = Unique ds ->
  exists pre c post r, path = pre ++ c :: post /\ (forall c', In c' pre -> overlapping s c' ty d q = []) /\
                       overlapping s c ty d q = [r] /\ r_ds r = ds.
Proof.
  intros H. apply lookup_path_found_p in H as (pre & c & post & -> & Hpre & Hc); [|discriminate].
  destruct (lookup_span_spec_p s c ty d q) as (HU & _ & _). apply HU in Hc as (r & Hr & Hd).
  exists pre, c, post, r. repeat split; try assumption.
  intros c' Hc'. apply (lookup_span_spec_p s c' ty d q), Hpre, Hc'.
Qed.

Lemma lookup_path_ambiguous_iff_p s path ty d q : lookup_path s path ty d q = Ambiguous <->
  exists pre c post, path = pre ++ c :: post /\ (forall c', In c' pre -> overlapping s c' ty d q = []) /\
                     (length (overlapping s c ty d q) >= 2)%nat.
Proof.
  split.
  - intros H. apply lookup_path_found_p in H as (pre & c & post & -> & Hpre & Hc); [|discriminate].
    exists pre, c, post. repeat split.
    + intros c' Hc'. apply (lookup_span_spec_p s c' ty d q), Hpre, Hc'.
    + apply (lookup_span_spec_p s c ty d q), Hc.
  - intros (pre & c & post & -> & Hpre & Hc).
    assert (lookup_span s c ty d q = Ambiguous) as Ha by (apply (lookup_span_spec_p s c ty d q), Hc).
    rewrite lookup_path_decided_p; [exact Ha| |rewrite Ha; discriminate].
    intros c' Hc'. apply (lookup_span_spec_p s c' ty d q), Hpre, Hc'.
Qed.

(* ---------- the order in which the database returns the rows is irrelevant ---------- *)
Lemma span_of_perm l l' : Permutation l l' -> span_of l = span_of l'.
Proof.
  intros P. pose proof (Permutation_length P) as L.
  destruct l as [|a [|b l]].
  - apply Permutation_nil in P. subst. reflexivity.
  - apply Permutation_length_1_inv in P. subst. reflexivity.
  - destruct l' as [|a' [|b' l']]; cbn in L; try lia. reflexivity.
Qed.

Lemma coll_rows_perm rows rows' c ty d q : Permutation rows rows' ->
  Permutation (coll_rows rows c ty d q) (coll_rows rows' c ty d q).
Proof.
  intros P. unfold coll_rows. induction P; cbn.
  - constructor.
  - destruct (key_match c ty d x && py_overlaps (r_ts x) q); [constructor|]; assumption.
  - destruct (key_match c ty d x && py_overlaps (r_ts x) q), (key_match c ty d y && py_overlaps (r_ts y) q);
      first [apply perm_swap | apply Permutation_refl].
  - etransitivity; eassumption.
Qed.

Lemma first_rows_perm rows rows' ty d q : Permutation rows rows' ->
  forall path, first_rows rows path ty d q = first_rows rows' path ty d q.
Proof.
  intros P. induction path as [|c p IH]; [reflexivity|]. cbn [first_rows].
  pose proof (coll_rows_perm rows rows' c ty d q P) as Pc.
  pose proof (span_of_perm _ _ Pc) as Hs.
  destruct (coll_rows rows c ty d q) as [|a l] eqn:E1.
  - apply Permutation_nil in Pc. rewrite Pc. exact IH.
  - destruct (coll_rows rows' c ty d q) as [|a' l'] eqn:E2; [|exact Hs].
    apply Permutation_sym, Permutation_nil in Pc. discriminate.
Qed.

Lemma lookup_rows_perm_p rows rows' path ty d q : Permutation rows rows' ->
  lookup_rows rows path ty d q = lookup_rows rows' path ty d q.
Proof. intros P. rewrite !lookup_rows_first_wins_p. apply first_rows_perm, P. Qed.

(* ---------- instants: on a reachable state a path lookup at an instant is never ambiguous ---------- *)
Lemma lookup_first_instant s ty d x : Inv s -> forall path, lookup_first s path ty d (x, x + 1)%Z <> Ambiguous.
Proof.
  intros Hi. induction path as [|c p IH]; cbn [lookup_first]; [discriminate|].
  destruct (lookup_span s c ty d (x, x + 1)%Z) eqn:E; [discriminate| |exact IH].
  exfalso. apply (lookup_instant_p s c ty d x Hi). exact E.
Qed.

Lemma lookup_path_instant_p s path ty d x : Inv s ->
  lookup_path s path ty d (x, x + 1)%Z <> Ambiguous /\
  (forall ds, lookup_path s path ty d (x, x + 1)%Z = Unique ds <->
     exists pre c post, path = pre ++ c :: post /\ (forall c', In c' pre -> valid_at s c' ty d x = []) /\ valid_at s c ty d x = [ds]).
Proof.
  intros Hi. split; [rewrite lookup_path_first_wins_p; apply lookup_first_instant, Hi|].
  intros ds. split.
  - intros H. apply lookup_path_found_p in H as (pre & c & post & -> & Hpre & Hc); [|discriminate].
    exists pre, c, post. repeat split.
    + intros c' Hc'. apply (lookup_instant_p s c' ty d x Hi), Hpre, Hc'.
    + apply (lookup_instant_p s c ty d x Hi), Hc.
  - intros (pre & c & post & -> & Hpre & Hc).
    assert (lookup_span s c ty d (x, x + 1)%Z = Unique ds) as Hu by (apply (lookup_instant_p s c ty d x Hi), Hc).
    rewrite lookup_path_decided_p; [exact Hu| |rewrite Hu; discriminate].
    intros c' Hc'. apply (lookup_instant_p s c' ty d x Hi), Hpre, Hc'.
Qed.
