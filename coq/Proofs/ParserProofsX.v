(* C14 proofs, part 6: corollaries that combine the round trip (ParserProofs2), its converse (ParserProofsCanon) and
   fuel adequacy (ParserProofsFuel): statements over parse_tokens / parse_string (the fuel the model really uses)
   instead of "for all large enough fuel". *)
From Coq Require Import ZArith List Bool String Ascii Arith Lia.
From V Require Import Model.ExprTree Model.Lexer Model.Parser Gen.GrammarGen
                      Proofs.ParserProofs Proofs.ParserProofs2 Proofs.ParserProofsCanon Proofs.ParserProofsFuel.
Import ListNotations.
Open Scope string_scope.
Open Scope list_scope.

Section X.
  Variable tv : string -> option string.
  Variable tun : string -> string.

  Theorem parse_print_tokens_p : forall t, canonical tv tun t = true -> parse_tokens tv (print_fix tun t) = POk (Some t).
  Proof. intros t C. apply ev_parse_tokens. apply parse_print_fix_p. exact C. Qed.

  Theorem parse_print_partial_tokens_p : forall tshow t,
    canonical tv tun t = true -> plain t = true -> parse_tokens tv (print tshow t) = POk (Some t).
  Proof. intros tshow t C P. apply ev_parse_tokens. apply (parse_print_p tv tun tshow t C P). Qed.

  Theorem paren_redundant_tokens_p : forall t,
    canonical tv tun t = true -> parse_tokens tv (TLP :: print_fix tun t ++ [TRP]) = POk (Some (Parens t)).
  Proof. intros t C. apply ev_parse_tokens. apply paren_redundant_p. exact C. Qed.

  (* the repaired printer loses nothing: two canonical trees with the same printed form are the same tree *)
  Theorem print_fix_injective_p : forall t1 t2, canonical tv tun t1 = true -> canonical tv tun t2 = true ->
    print_fix tun t1 = print_fix tun t2 -> t1 = t2.
  Proof.
    intros t1 t2 C1 C2 E. pose proof (parse_print_tokens_p t1 C1) as P1. pose proof (parse_print_tokens_p t2 C2) as P2.
    rewrite E in P1. rewrite P1 in P2. inversion P2. reflexivity.
  Qed.

  (* the round trip of the property statement, for EVERY tree the parser returns (any fuel, any well-formed token
     list, hence any string): print it, parse it again, get the same tree *)
  Theorem reparse_tokens_p : tun_inverts tv tun -> forall fuel ts t,
    toks_wf ts = true -> parse tv fuel ts = POk (Some t) -> parse_tokens tv (print_fix tun t) = POk (Some t).
  Proof. intros TI fuel ts t W P. apply parse_print_tokens_p. eapply parse_canonical_p; eauto. Qed.

  Theorem reparse_string_p : tun_inverts tv tun -> forall s t,
    parse_string tv s = POk (Some t) -> parse_tokens tv (print_fix tun t) = POk (Some t).
  Proof. intros TI s t P. apply parse_print_tokens_p. eapply parse_string_canonical_p; eauto. Qed.

  (* ... and with the existing Node.__str__ when the tree has no TimeLiteral / BindName *)
  Theorem reparse_string_partial_p : tun_inverts tv tun -> forall tshow s t,
    parse_string tv s = POk (Some t) -> plain t = true -> parse_tokens tv (print tshow t) = POk (Some t).
  Proof. intros TI tshow s t P PL. apply parse_print_partial_tokens_p; auto. eapply parse_string_canonical_p; eauto. Qed.

  (* parse_string never runs out of fuel, and more fuel never changes its answer *)
  Theorem parse_string_total_p : forall s, parse_string tv s <> PFuel.
  Proof. intros s. unfold parse_string, parse_tokens. apply fuel_adequate. lia. Qed.

End X.
