(* C20 lemmas, part 1: single-block ("closed") API calls make every schedule a serial order. *)
From Coq Require Import NArith List Bool Arith Lia.
From V Require Import Model.Conc.
Import ListNotations.

(* an API call whose decisions are all re-read inside its one transaction block *)
Definition single_block (fixed : bool) (o : op) : bool :=
  match o with
  | Put _ _ _ | Assoc _ _ | RmColl _ => true
  | SetChain _ _ | Prepend _ _ | Extend _ _ | Unchain _ _ => fixed
  | _ => false
  end.

Lemma chain_step_fixed_done : forall g own e c ch s,
  exists g' r, chain_step true g own e c ch s = (g', Done r own).
Proof.
  intros. unfold chain_step.
  destruct (chain_check g e c ch); [eauto|].
  destruct (chain_write g e c ch); eauto.
Qed.

Lemma single_block_done : forall fixed o, single_block fixed o = true ->
  forall slots g own s, exists g' r own', mstep fixed slots g own o s = (g', Done r own').
Proof.
  intros fixed o H slots g own s.
  destruct o; simpl in H; try discriminate; simpl.
  - destruct (remove_coll g n); eauto.
  - destruct (lookup run (colls g)) as [[| |]|]; eauto.
    destruct (negb (memN run (runs g))); eauto.
    destruct (has_key g run det); eauto.
  - destruct (lookup tag (colls g)) as [[| |]|]; eauto.
    match goal with |- context[if ?b then _ else _] => destruct b end; eauto.
  - subst. destruct (chain_step_fixed_done g own CSet c ch s) as (g' & r & E). rewrite E. eauto.
  - subst. destruct (chain_step_fixed_done g own CPre c ch s) as (g' & r & E). rewrite E. eauto.
  - subst. destruct (chain_step_fixed_done g own CExt c ch s) as (g' & r & E). rewrite E. eauto.
  - subst. destruct (chain_step_fixed_done g own CDel c ch s) as (g' & r & E). rewrite E. eauto.
Qed.

Definition closed_client (fixed : bool) (c : client) : bool := forallb (single_block fixed) (prog c).
Definition all_closed (fixed : bool) (cs : list client) : bool := forallb (closed_client fixed) cs.

Lemma finish_op_nil : forall fuel fixed slots g c, prog c = [] -> finish_op fuel fixed slots g c 0 = (g, c).
Proof.
  induction fuel; intros; simpl; auto.
  rewrite H. simpl. unfold cstep. rewrite H. rewrite H. simpl. apply IHfuel. auto.
Qed.

Lemma astep_cstep : forall fixed slots g c, closed_client fixed c = true ->
  astep fixed slots g c = cstep fixed slots g c.
Proof.
  intros fixed slots g c H. unfold astep, closed_client in *.
  destruct (prog c) as [|o rest] eqn:P.
  - simpl length. rewrite finish_op_nil by auto. unfold cstep. rewrite P. auto.
  - simpl in H. apply andb_true_iff in H. destruct H as [Ho _].
    unfold OP_FUEL. simpl finish_op. rewrite P. simpl length. rewrite Nat.eqb_refl.
    unfold cstep. rewrite P.
    destruct (single_block_done fixed o Ho slots g (own c) (sc c)) as (g' & r & own' & E).
    rewrite E. simpl.
    replace (length rest =? S (length rest))%nat with false; auto.
    symmetry. apply Nat.eqb_neq. lia.
Qed.

Lemma cstep_closed : forall fixed slots g c g' c', closed_client fixed c = true ->
  cstep fixed slots g c = (g', c') -> closed_client fixed c' = true.
Proof.
  intros fixed slots g c g' c' H E. unfold cstep, closed_client in *.
  destruct (prog c) as [|o rest] eqn:P.
  - inversion E as [[Eg Ec]]. rewrite <- Ec. rewrite P. auto.
  - simpl in H. apply andb_true_iff in H. destruct H as [Ho Hr].
    destruct (mstep fixed slots g (own c) o (sc c)) as [g1 [s'|r own']]; inversion E; subst; simpl; rewrite ?Ho, ?Hr; auto.
Qed.

Lemma upd_forallb : forall {A} (f : A -> bool) i x l, forallb f l = true -> f x = true -> forallb f (upd i x l) = true.
Proof.
  intros A f i x l. revert i. induction l; intros; [destruct i; auto|].
  simpl in H. apply andb_true_iff in H. destruct H.
  destruct i; simpl; rewrite ?H0, ?H, ?H1; auto. rewrite IHl; auto.
Qed.

Lemma nth_error_forallb : forall {A} (f : A -> bool) l i x, forallb f l = true -> nth_error l i = Some x -> f x = true.
Proof.
  intros A f l. induction l; intros; destruct i; simpl in *; try discriminate.
  - inversion H0; subst. apply andb_true_iff in H. tauto.
  - apply andb_true_iff in H. destruct H. eapply IHl; eauto.
Qed.

Lemma step_at_closed : forall fixed slots g cs i, all_closed fixed cs = true ->
  astep_at fixed slots g cs i = step_at fixed slots g cs i /\ all_closed fixed (snd (step_at fixed slots g cs i)) = true.
Proof.
  intros fixed slots g cs i H. unfold astep_at, step_at.
  destruct (nth_error cs i) as [c|] eqn:N; [|split; auto].
  assert (Hc : closed_client fixed c = true) by (eapply nth_error_forallb; eauto).
  rewrite astep_cstep by auto.
  destruct (cstep fixed slots g c) as [g' c'] eqn:E. split; auto. simpl.
  apply upd_forallb; auto. eapply cstep_closed; eauto.
Qed.

(* MAIN: when every API call of every client is a single block, the interleaved run under ANY schedule is the serial run
   whose order is the schedule itself (= the commit order): same per-client outcomes, same final state. *)
Theorem closed_ops_serializable_p : forall fixed slots sched g cs, all_closed fixed cs = true ->
  run_sched fixed slots g cs sched = run_serial fixed slots g cs sched.
Proof.
  intros fixed slots sched. induction sched as [|k r IH]; intros g cs H; simpl; auto.
  destruct (pick k cs) as [i|]; auto.
  destruct (step_at_closed fixed slots g cs i H) as [E C]. rewrite E.
  destruct (step_at fixed slots g cs i) as [g' cs']. simpl in C. apply IH; auto.
Qed.

Lemma put_closed_p : forall fixed run det v, single_block fixed (Put run det v) = true. Proof. auto. Qed.
Lemma assoc_closed_p : forall fixed t rs, single_block fixed (Assoc t rs) = true. Proof. auto. Qed.
Lemma rmcoll_closed_p : forall fixed n, single_block fixed (RmColl n) = true. Proof. auto. Qed.
Lemma chain_edit_closed_with_fix_p : forall c ch,
  single_block true (SetChain c ch) = true /\ single_block true (Prepend c ch) = true /\
  single_block true (Extend c ch) = true /\ single_block true (Unchain c ch) = true.
Proof. auto. Qed.

(* without fbfd646 the cycle check is a separate step: the call is still running after its first step *)
Lemma chain_edit_not_closed_without_fix_p :
  exists g s', colls g <> [] /\ mstep false [] g [] (SetChain 1 [2]) s0 = (g, Cont s').
Proof.
  exists (mkG [(1, CChained); (2, CChained)] [] [] [] [] [] [] [] [] 1%N [] []), (at_ph 1 s0).
  split; [discriminate | reflexivity].
Qed.

(* ---- sync-style registration: get-or-create inside the block *)
Lemma sync_get_or_create_p : forall g n t,
  match lookup n (colls g) with
  | None => exists g', sync_coll g n t = (g', inl true) /\ lookup n (colls g') = Some t /\ dsets g' = dsets g
  | Some t' => if ctype_eqb t t' then sync_coll g n t = (g, inl false) else sync_coll g n t = (g, inr EConflict)
  end.
Proof.
  intros. unfold sync_coll. destruct (lookup n (colls g)) as [t'|] eqn:L.
  - destruct (ctype_eqb t t'); auto.
  - eexists. split; [reflexivity|]. split; auto. simpl.
    revert L. generalize (colls g). induction l as [|[k v] l IH]; simpl; intros.
    + rewrite N.eqb_refl. auto.
    + destruct (n =? k)%N; [discriminate|]. auto.
Qed.
