(* C02: the conflict error is raised exactly when uniqueness would break -- BATCH form for associate (honest refs). *)
From Coq Require Import NArith Arith List Bool Lia.
From V Require Import Model.Registry Model.RegistryAbs Proofs.RegistryProofs Proofs.RegistryProofsX1
  Proofs.RegistryProofsX2 Proofs.RegistryProofsX3.
Import ListNotations.
Open Scope N_scope.

Lemma nodup_uk_inj : forall l x y, NoDup (map ukey l) -> In x l -> In y l -> ukey x = ukey y -> x = y.
Proof.
  induction l as [|a l IH]; intros x y Hn Hx Hy E; [contradiction|]. inversion Hn as [|? ? Hna Hn']; subst.
  destruct Hx as [->|Hx], Hy as [->|Hy]; auto.
  - exfalso. apply Hna. rewrite E. apply in_map; auto.
  - exfalso. apply Hna. rewrite <- E. apply in_map; auto.
Qed.

Lemma memN_in : forall x l, memN x l = true <-> In x l.
Proof.
  intros x l. unfold memN. rewrite existsb_exists. split.
  - intros [y [Hy E]]. apply N.eqb_eq in E. subst; auto.
  - intros H. exists x. split; auto. apply N.eqb_refl.
Qed.

Lemma tio_in : forall refs seen f, In f refs -> ~ In (f_type f) seen -> In (f_type f) (types_in_order refs seen).
Proof.
  induction refs as [|a r IH]; intros seen f Hf Hs; [contradiction|]. simpl.
  destruct (memN (f_type a) seen) eqn:M.
  - destruct Hf as [->|Hf]; [apply memN_in in M; contradiction | apply IH; auto].
  - destruct Hf as [->|Hf]; [left; reflexivity|].
    destruct (N.eq_dec (f_type a) (f_type f)) as [E|E]; [left; exact E|]. right. apply IH; auto.
    intros [F|F]; auto.
Qed.

Lemma tio_from : forall refs seen t, In t (types_in_order refs seen) -> exists f, In f refs /\ f_type f = t.
Proof.
  induction refs as [|a r IH]; intros seen t H; [contradiction|]. simpl in H.
  destruct (memN (f_type a) seen).
  - destruct (IH _ _ H) as [f [Hf E]]. exists f; split; [right|]; auto.
  - destruct H as [<-|H]; [exists a; split; [left|]; auto|].
    destruct (IH _ _ H) as [f [Hf E]]. exists f; split; [right|]; auto.
Qed.

Section AssocBatch.
  Variables (s : state) (c : N) (refs : list ref).
  Hypothesis HU : Uniq s.
  Hypothesis HJ : J s.
  Hypothesis Hal : forall f, In f refs -> alive s (f_id f) = true.
  Hypothesis Hty : forall f, In f refs -> has_type s (f_type f) = true.
  Hypothesis Hho : forall f, In f refs -> honest_ref s f = true.

  Definition clash (x : row) (f : ref) : Prop :=
    r_coll x = c /\ r_type x = f_type f /\ r_data x = f_data f /\ r_id x <> f_id f.
  (* another dataset of the collection holds a ref's key, or two refs of the batch with different ids share a key *)
  Definition D1 : Prop := exists f x, In f refs /\ In x (tags s) /\ clash x f.
  Definition D2 : Prop := exists f g, In f refs /\ In g refs /\ f_type f = f_type g /\ f_data f = f_data g /\ f_id f <> f_id g.

  Definition P (tg : list row) : Prop :=
    forall f x, In f refs -> In x tg -> r_id x = f_id f -> r_coll x = c -> x = ref_row c f.

  Lemma pair_agree : forall f g, In f refs -> In g refs -> f_id f = f_id g -> ref_row c f = ref_row c g.
  Proof.
    intros f g Hf Hg E. destruct HJ as [_ [_ [Ra _]]].
    pose proof (Hal f Hf) as A. unfold alive in A. destruct (ds_find (datasets s) (f_id f)) as [z|] eqn:Ez; [|discriminate].
    apply ds_find_some in Ez. destruct Ez as [Hz Ez]. destruct (Ra z Hz) as [_ [d0 Hrow]].
    destruct (honest_ref_spec s f _ (Hho f Hf) Hrow) as [H1 H2]; [simpl; auto|].
    destruct (honest_ref_spec s g _ (Hho g Hg) Hrow) as [H3 H4]; [simpl; congruence|].
    simpl in *. unfold ref_row. congruence.
  Qed.

  Lemma P0 : P (tags s).
  Proof.
    intros f x Hf Hx E Ec. destruct (honest_ref_spec s f x (Hho f Hf) Hx E) as [H1 H2].
    rewrite <- (row_eta x). unfold ref_row. congruence.
  Qed.

  Lemma upsert_keep : forall tg f tg', In f refs -> P tg -> assoc_row s c tg f = Some tg' ->
    P tg' /\ (forall x, In x tg -> In x tg') /\ In (ref_row c f) tg'.
  Proof.
    intros tg f tg' Hf HP H. unfold assoc_row in H. rewrite (Hal f Hf) in H.
    apply tag_upsert_some in H. destruct H as [-> _]. split; [|split].
    - intros g x Hg [<-|Hx] E Ec.
      + apply pair_agree; auto.
      + apply filter_In in Hx. destruct Hx as [Hx _]. apply HP; auto.
    - intros x Hx. destruct (pk_eq (ref_row c f) x) eqn:K.
      + apply pk_eq_true in K. unfold pkey in K; simpl in K. injection K; intros K2 K1. left. symmetry.
        apply HP; auto; symmetry; assumption.
      + right. apply filter_In. split; auto. rewrite K; reflexivity.
    - left; reflexivity.
  Qed.

  Lemma fold_keep : forall g tg tg', (forall f, In f g -> In f refs) -> P tg ->
    fold_opt (assoc_row s c) tg g = Some tg' ->
    P tg' /\ (forall x, In x tg -> In x tg') /\ (forall f, In f g -> In (ref_row c f) tg').
  Proof.
    induction g as [|a g IH]; simpl; intros tg tg' Hg HP H.
    - inversion H; subst. split; [auto|split; [auto|intros f []]].
    - destruct (assoc_row s c tg a) as [tg1|] eqn:E; [|discriminate].
      destruct (upsert_keep tg a tg1 (Hg a (or_introl eq_refl)) HP E) as [P1 [K1 K2]].
      destruct (IH tg1 tg' (fun f Hf => Hg f (or_intror Hf)) P1 H) as [P2 [K3 K4]].
      split; [auto|split].
      + intros x Hx. apply K3, K1; auto.
      + intros f [<-|Hf]; [apply K3; exact K2 | apply K4; auto].
  Qed.

  Lemma groups_keep : forall ts tg st sg tg' st' sg', P tg ->
    assoc_groups s c TAGGED refs ts (tg, st, sg) = inl (tg', st', sg') ->
    P tg' /\ (forall x, In x tg -> In x tg') /\ (forall f, In f refs -> In (f_type f) ts -> In (ref_row c f) tg').
  Proof.
    induction ts as [|t ts IH]; simpl; intros tg st sg tg' st' sg' HP H.
    - inversion H; subst. split; [auto|split; [auto|intros f _ []]].
    - destruct (negb (has_type s t)); [discriminate|].
      destruct (fold_opt (assoc_row s c) tg (group refs t)) as [tg1|] eqn:E; [|discriminate].
      assert (Hg : forall f, In f (group refs t) -> In f refs) by (intros f Hf; apply filter_In in Hf; tauto).
      destruct (fold_keep _ _ _ Hg HP E) as [P1 [K1 K2]].
      destruct (IH _ _ _ _ _ _ P1 H) as [P2 [K3 K4]]. split; [auto|split].
      + intros x Hx. apply K3, K1; auto.
      + intros f Hf [E1|Ht]; [|apply K4; auto]. apply K3. apply K2. apply filter_In. split; auto.
        apply N.eqb_eq. symmetry. exact E1.
  Qed.

  Lemma upsert_fail : forall tg f, In f refs -> assoc_row s c tg f = None -> exists x, In x tg /\ clash x f.
  Proof.
    intros tg f Hf H. unfold assoc_row in H. rewrite (Hal f Hf) in H. unfold tag_upsert in H.
    destruct (existsb (uk_eq (ref_row c f)) (filter (fun x => negb (pk_eq (ref_row c f) x)) tg)) eqn:E; [|discriminate].
    apply existsb_exists in E. destruct E as [x [Hx E]]. apply filter_In in Hx. destruct Hx as [Hx K].
    apply uk_eq_true in E. unfold ukey in E; simpl in E. inversion E.
    exists x. split; auto. unfold clash. repeat split; auto.
    intros F. apply negb_true_iff in K.
    assert (pk_eq (ref_row c f) x = true) by (apply pk_eq_true; unfold pkey; simpl; congruence). congruence.
  Qed.

  Lemma fold_fail : forall g tg, (forall f, In f g -> In f refs) -> fold_opt (assoc_row s c) tg g = None ->
    exists f x, In f g /\ (In x tg \/ exists f', In f' g /\ x = ref_row c f') /\ clash x f.
  Proof.
    induction g as [|a g IH]; simpl; intros tg Hg H; [discriminate|].
    destruct (assoc_row s c tg a) as [tg1|] eqn:E.
    - destruct (IH tg1 (fun f Hf => Hg f (or_intror Hf)) H) as [f [x [Hf [Hx Cl]]]].
      exists f, x. split; [right; exact Hf|]. split; [|exact Cl].
      destruct Hx as [Hx|[f' [Hf' ->]]]; [|right; exists f'; auto].
      unfold assoc_row in E. destruct (alive s (f_id a)); [|discriminate].
      apply tag_upsert_some in E. destruct E as [-> _]. destruct Hx as [<-|Hx].
      + right. exists a. auto.
      + left. apply filter_In in Hx. tauto.
    - destruct (upsert_fail tg a (Hg a (or_introl eq_refl)) E) as [x [Hx Cl]].
      exists a, x. split; [left; reflexivity|]. split; [left; exact Hx | exact Cl].
  Qed.

  Lemma groups_fail : forall ts tg st sg e, (forall t, In t ts -> has_type s t = true) ->
    assoc_groups s c TAGGED refs ts (tg, st, sg) = inr e ->
    e = Conflict /\ exists f x, In f refs /\ (In x tg \/ exists f', In f' refs /\ x = ref_row c f') /\ clash x f.
  Proof.
    induction ts as [|t ts IH]; simpl; intros tg st sg e Hts H; [discriminate|].
    rewrite (Hts t (or_introl eq_refl)) in H. simpl in H.
    assert (Hg : forall f, In f (group refs t) -> In f refs) by (intros f Hf; apply filter_In in Hf; tauto).
    destruct (fold_opt (assoc_row s c) tg (group refs t)) as [tg1|] eqn:E.
    - destruct (IH _ _ _ _ (fun t' Ht' => Hts t' (or_intror Ht')) H) as [-> [f [x [Hf [Hx Cl]]]]].
      split; [reflexivity|]. exists f, x. split; [exact Hf|]. split; [|exact Cl].
      destruct Hx as [Hx|Hx]; [|right; exact Hx].
      destruct (fold_assoc_row_in2 _ _ _ _ _ E x Hx) as [H1|[f' [H1 [H2 _]]]]; [left; exact H1|].
      right. exists f'. split; [apply Hg; exact H1 | exact H2].
    - inversion H; subst. split; [reflexivity|].
      destruct (fold_fail _ _ Hg E) as [f [x [Hf [Hx Cl]]]]. exists f, x. split; [apply Hg; exact Hf|]. split; [|exact Cl].
      destruct Hx as [Hx|[f' [Hf' ->]]]; [left; exact Hx | right; exists f'; split; [apply Hg; exact Hf' | reflexivity]].
  Qed.

  Lemma associate_batch : coll_type s c = Some TAGGED ->
    (snd (step s (Associate c refs)) = Err Conflict <-> D1 \/ D2) /\
    (snd (step s (Associate c refs)) = Ok \/ snd (step s (Associate c refs)) = Err Conflict).
  Proof.
    intros Hc. simpl. unfold do_associate. rewrite Hc.
    destruct (assoc_groups s c TAGGED refs (types_in_order refs []) (tags s, summ_t s, summ_g s)) as [[[tg st] sg]|e] eqn:E.
    - assert (Ok' : snd (match refs with [] => (s, Ok) | _ :: _ => (St (colls s) (dtypes s) (datasets s) tg st sg, Ok) end) = Ok)
        by (destruct refs; reflexivity).
      rewrite Ok'. split; [|left; reflexivity]. split; [discriminate|]. intros D. exfalso.
      destruct (groups_keep _ _ _ _ _ _ _ P0 E) as [_ [K1 K2]].
      assert (K3 : forall f, In f refs -> In (ref_row c f) tg) by (intros f Hf; apply K2; auto; apply tio_in; auto).
      pose proof (assoc_groups_uniq _ _ _ _ _ _ _ _ _ _ _ E HU) as [Nu _].
      destruct D as [[f [x [Hf [Hx [C1 [C2 [C3 C4]]]]]]]|[f [g [Hf [Hg [C1 [C2 C3]]]]]]].
      + assert (x = ref_row c f) as ->.
        { apply (nodup_uk_inj tg); auto. unfold ukey; simpl. congruence. }
        apply C4. reflexivity.
      + assert (ref_row c f = ref_row c g) as Q.
        { apply (nodup_uk_inj tg); auto. unfold ukey; simpl. congruence. }
        inversion Q. contradiction.
    - simpl. assert (Hts : forall t, In t (types_in_order refs []) -> has_type s t = true).
      { intros t Ht'. destruct (tio_from _ _ _ Ht') as [f [Hf <-]]. apply Hty; exact Hf. }
      destruct (groups_fail _ _ _ _ _ Hts E) as [-> [f [x [Hf [Hx Cl]]]]].
      split; [|right; reflexivity]. split; [intros _|reflexivity].
      destruct Hx as [Hx|[f' [Hf' ->]]].
      + left. exists f, x. auto.
      + right. destruct Cl as [_ [C2 [C3 C4]]]. simpl in *. exists f', f. repeat split; auto.
  Qed.
End AssocBatch.

(* ANY reachable state, ANY batch of honest refs to live datasets of registered types, TAGGED collection:
   associate is refused with Conflict exactly when another dataset of the collection holds one of the keys or two refs
   of the batch with different ids share a key; otherwise it succeeds *)
Lemma associate_conflict_iff_batch_p : forall h c refs,
  coll_type (run h) c = Some TAGGED ->
  (forall f, In f refs -> has_type (run h) (f_type f) = true /\ alive (run h) (f_id f) = true /\ honest_ref (run h) f = true) ->
  (snd (step (run h) (Associate c refs)) = Err Conflict <->
   (exists f x, In f refs /\ In x (tags (run h)) /\
      r_coll x = c /\ r_type x = f_type f /\ r_data x = f_data f /\ r_id x <> f_id f) \/
   (exists f g, In f refs /\ In g refs /\ f_type f = f_type g /\ f_data f = f_data g /\ f_id f <> f_id g)) /\
  (snd (step (run h) (Associate c refs)) = Ok \/ snd (step (run h) (Associate c refs)) = Err Conflict).
Proof.
  intros h c refs Hc H.
  apply (associate_batch (run h) c refs (uniq_run h) (J_run h)); auto; intros f Hf; apply (H f Hf).
Qed.
