(* C18 (extension) -- the nested pickle round trip of data IDs over the GENERATED __reduce__ table
   (Gen/SerialReduceGen.v, regenerated from dimensions/_coordinate.py on every run). *)
From Coq Require Import ZArith List Bool String.
From V Require Import Model.Serial Model.SerialX Gen.SerialReduceGen Proofs.SerialProofs Proofs.SerialProofsB Proofs.SerialProofsX.
Import ListNotations.

(* what pickle receives according to the source: the class of the object selects the __reduce__ body *)
Definition reduce_coord_gen (c : coord) : option pk_coord :=
  let ta := gen_reduce (cls_of c) in pk_of_args (fst ta) (snd ta) c.

Lemma reduce_coord_gen_is_model : forall c, reduce_coord_gen c = Some (reduce_coord_deep c).
Proof.
  intros [g v [rs|]]; unfold reduce_coord_gen, reduce_coord_deep, cls_of; cbn [c_recs c_grp c_vals]; [reflexivity|].
  destruct (has_full _); reflexivity.
Qed.

Lemma coord_pickle_gen_p : forall u c, wf_coord u c -> in_universe u (c_grp c) -> grp_ok (c_grp c) ->
  exists a, reduce_coord_gen c = Some a /\ rebuild_coord_deep u a = Some c.
Proof.
  intros u c H1 H2 H3. exists (reduce_coord_deep c). split; [apply reduce_coord_gen_is_model | apply coord_pickle_deep_p; assumption].
Qed.
