(* lookup_order for groups that contain ONE skypix dimension next to any set of non-skypix dimensions of the current
   universe: generic reduction to the closed groups + the finite tables (decided in GroupProofsXS1..4.v). *)
From Coq Require Import String List Bool Arith.
From V Require Import Model.Universe Model.Group Model.GroupX Gen.Universes Proofs.GroupProofs Proofs.GroupProofsShipped.
Import ListNotations.
Open Scope string_scope.
Open Scope list_scope.

(* the sub-lists (universe order) that are their own closure *)
Definition closed_subsets (u : universe) (subs : list (list string)) : list (list string) :=
  filter (fun S => match closure u S with GOk C => list_eqb C S | _ => false end) subs.

Definition closure_in (u : universe) (cl : list (list string)) (S : list string) : bool :=
  match closure u S with GOk C => existsb (list_eqb C) cl | _ => false end.

Definition skypix_lookup_okb (u : universe) (ss : list string) (cl : list (list string)) : bool :=
  forallb (fun s => forallb (fun C => group_okb u lookup_okb (s :: C)) cl) ss.

(* the 460 (today) closed sets of non-skypix dimensions of the current universe *)
Definition cl_current : list (list string) :=
  Eval vm_compute in closed_subsets u_current (all_subsets (nonskypix_dimension_names u_current)).

(* the skypix dimensions of the current universe in four parts (one file each, to keep every file fast) *)
Definition sky_part (k : nat) : list string :=
  let l := skypix_names u_current in
  match k with
  | 0 => firstn 11 l
  | 1 => firstn 11 (skipn 11 l)
  | 2 => firstn 11 (skipn 22 l)
  | _ => skipn 33 l
  end.

Lemma skipn_add {A} (a b : nat) : forall l : list A, skipn a (skipn b l) = skipn (b + a) l.
Proof. induction b as [|b IH]; intro l; [reflexivity|]. destruct l as [|x r]; simpl; [destruct a; reflexivity|apply IH]. Qed.

Lemma four_parts {A} (s : A) (l : list A) : In s l ->
  In s (firstn 11 l) \/ In s (firstn 11 (skipn 11 l)) \/ In s (firstn 11 (skipn 22 l)) \/ In s (skipn 33 l).
Proof.
  intro H. rewrite <- (firstn_skipn 11 l) in H. apply in_app_or in H as [H|H]; [auto|]. right.
  remember (skipn 11 l) as l1 eqn:E1.
  rewrite <- (firstn_skipn 11 l1) in H. apply in_app_or in H as [H|H]; [auto|]. right.
  assert (E2 : skipn 11 l1 = skipn 22 l) by (subst l1; rewrite skipn_add; reflexivity).
  rewrite E2 in H. remember (skipn 22 l) as l2 eqn:E3.
  rewrite <- (firstn_skipn 11 l2) in H. apply in_app_or in H as [H|H]; [auto|]. right.
  assert (E4 : skipn 11 l2 = skipn 33 l) by (subst l2; rewrite skipn_add; reflexivity).
  rewrite E4 in H. exact H.
Qed.

Lemma sky_parts s : In s (skypix_names u_current) -> exists k, k < 4 /\ In s (sky_part k).
Proof.
  intro H. destruct (four_parts s _ H) as [H1|[H1|[H1|H1]]].
  - exists 0. split; [repeat constructor|exact H1].
  - exists 1. split; [repeat constructor|exact H1].
  - exists 2. split; [repeat constructor|exact H1].
  - exists 3. split; [repeat constructor|exact H1].
Qed.

Lemma mkgroup_cons_closure u s l C : wf_universe u = true -> In s (names_of u) -> closure u l = GOk C ->
  mkgroup u (s :: l) = mkgroup u (s :: C).
Proof.
  intros Hwf Hs HC. pose proof (closure_inv _ _ _ HC) as (Hl & Hc & Hm & HK & _).
  destruct (mkgroup_total u (s :: l) Hwf) as [G1 H1]; [intros x [Hx|Hx]; [subst; exact Hs|apply HK, Hl, Hx]|].
  destruct (mkgroup_total u (s :: C) Hwf) as [G2 H2]; [intros x [Hx|Hx]; [subst; exact Hs|apply HK, Hx]|].
  rewrite H1, H2. f_equal. apply (group_ext u (s :: l) (s :: C) G1 G2 H1 H2).
  pose proof (group_is_closure_p u _ G1 H1) as (A1 & B1 & C1 & _).
  pose proof (group_is_closure_p u _ G2 H2) as (A2 & B2 & C2 & _).
  intro x. split; revert x.
  - apply C1; [exact B2|]. intros y [Hy|Hy]; [apply A2; left; exact Hy|apply A2; right; apply Hl; exact Hy].
  - apply C2; [exact B1|]. intros y [Hy|Hy]; [apply A1; left; exact Hy|].
    revert y Hy. apply Hm; [exact B1|]. intros y Hy. apply A1. right. exact Hy.
Qed.
