(* lookup_order for groups that contain ONE skypix dimension next to any set of non-skypix dimensions of the current
   universe: generic reduction to the closed groups + the finite table (decided in GroupProofsXS1.v). *)
From Coq Require Import String List Bool Arith.
From V Require Import Model.Universe Model.Group Model.GroupX Gen.Universes Proofs.GroupProofs Proofs.GroupProofsShipped.
Import ListNotations.
Open Scope string_scope.
Open Scope list_scope.

(* the sub-lists (universe order) that are their own closure *)
Definition closed_subsets (u : universe) (subs : list (list string)) : list (list string) :=
  filter (fun S => match closure u S with GOk C => list_eqb C S | _ => false end) subs.

Definition closure_in (u : universe) (cl : list (list string)) (S : list string) : bool :=
  match closure u S with GOk C => existsb (list_eqb C) cl | _ => false end.

Definition skypix_lookup_okb (u : universe) (ss : list string) (cl : list (list string)) : bool :=
  forallb (fun s => forallb (fun C => group_okb u lookup_okb (s :: C)) cl) ss.

(* the 460 (today) closed sets of non-skypix dimensions of the current universe *)
Definition cl_current : list (list string) :=
  Eval vm_compute in closed_subsets u_current (all_subsets (nonskypix_dimension_names u_current)).

(* the skypix dimensions at the two ends of every pixelization system (lowest and highest level: healpix1, healpix17,
   htm1, htm24 today): the skypix elements whose neighbour in the universe order is not a skypix of the same system *)
Definition sky_fam (e : elem) : option string := if is_skypix e then espatial e else None.
Definition opt_same (a b : option string) : bool :=
  match a, b with Some x, Some y => String.eqb x y | None, None => true | _, _ => false end.
Fixpoint sky_ends (prev : option string) (l : universe) : list string :=
  match l with
  | [] => []
  | e :: r =>
    let fam := sky_fam e in
    let next := match r with e2 :: _ => sky_fam e2 | [] => None end in
    (if is_skypix e && (negb (opt_same prev fam) || negb (opt_same next fam)) then [ename e] else [])
    ++ sky_ends fam r
  end.
Definition sky_sample_current : list string := Eval vm_compute in sky_ends None u_current.

Lemma mkgroup_cons_closure u s l C : wf_universe u = true -> In s (names_of u) -> closure u l = GOk C ->
  mkgroup u (s :: l) = mkgroup u (s :: C).
Proof.
  intros Hwf Hs HC. pose proof (closure_inv _ _ _ HC) as (Hl & Hc & Hm & HK & _).
  destruct (mkgroup_total u (s :: l) Hwf) as [G1 H1]; [intros x [Hx|Hx]; [subst; exact Hs|apply HK, Hl, Hx]|].
  destruct (mkgroup_total u (s :: C) Hwf) as [G2 H2]; [intros x [Hx|Hx]; [subst; exact Hs|apply HK, Hx]|].
  rewrite H1, H2. f_equal. apply (group_ext u (s :: l) (s :: C) G1 G2 H1 H2).
  pose proof (group_is_closure_p u _ G1 H1) as (A1 & B1 & C1 & _).
  pose proof (group_is_closure_p u _ G2 H2) as (A2 & B2 & C2 & _).
  intro x. split; revert x.
  - apply C1; [exact B2|]. intros y [Hy|Hy]; [apply A2; left; exact Hy|apply A2; right; apply Hl; exact Hy].
  - apply C2; [exact B1|]. intros y [Hy|Hy]; [apply A1; left; exact Hy|].
    revert y Hy. apply Hm; [exact B1|]. intros y Hy. apply A1. right. exact Hy.
Qed.
