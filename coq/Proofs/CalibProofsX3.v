(* C04 extension, part 3: fuel of `flatten` -- more fuel never changes a result, and an acyclic chain table (one that
   admits a rank function decreasing from a chain to its children, which is what the registry's cycle check enforces)
   always has enough. *)
From Coq Require Import ZArith NArith List Bool Lia.
From V Require Import Gen.TimespanGen Model.Timespan Model.Calib Model.CalibPath.
Import ListNotations.
Open Scope N_scope.

Lemma flatten_mono ch : forall f path r, flatten f ch path = Some r -> flatten (S f) ch path = Some r.
Proof.
  induction f as [|f IH]; intros path r H; [discriminate H|].
  revert r H. induction path as [|c p IHp]; intros r H; [exact H|].
  cbn [flatten fold_right] in H. change (fold_right _ (Some []) p) with (flatten (S f) ch p) in H.
  destruct (flatten (S f) ch p) as [r1|] eqn:E1; [|discriminate H].
  specialize (IHp r1 eq_refl).
  change (flatten (S (S f)) ch (c :: p)) with
    (match flatten (S (S f)) ch p with
     | None => None
     | Some r => match lookup c ch with
                 | None => Some (c :: r)
                 | Some kids => match flatten (S f) ch kids with None => None | Some k => Some (k ++ r) end
                 end
     end).
  rewrite IHp. destruct (lookup c ch) as [kids|]; [|exact H].
  destruct (flatten f ch kids) as [k|] eqn:E2; [|discriminate H]. rewrite (IH kids k E2). exact H.
Qed.

Definition acyclic_by (rk : N -> nat) (ch : list (N * list N)) : Prop :=
  forall c kids, lookup c ch = Some kids -> (1 <= rk c)%nat /\ forall k, In k kids -> (rk k < rk c)%nat.

Lemma flatten_enough rk ch : acyclic_by rk ch ->
  forall f path, (forall c, In c path -> (rk c <= f)%nat) -> exists r, flatten (S f) ch path = Some r.
Proof.
  intros Hac. induction f as [|f IH]; intros path Hp.
  - (* rank 0: no collection of the path is a chain *)
    induction path as [|c p IHp]; [exists []; reflexivity|].
    destruct IHp as [r Hr]; [intros c' Hc'; apply Hp; right; exact Hc'|].
    cbn [flatten fold_right] in *. rewrite Hr.
    destruct (lookup c ch) as [kids|] eqn:E; [|eexists; reflexivity].
    destruct (Hac c kids E) as [H1 _]. specialize (Hp c (or_introl eq_refl)). lia.
  - induction path as [|c p IHp]; [exists []; reflexivity|].
    destruct IHp as [r Hr]; [intros c' Hc'; apply Hp; right; exact Hc'|].
    change (flatten (S (S f)) ch (c :: p)) with
      (match flatten (S (S f)) ch p with
       | None => None
       | Some r => match lookup c ch with
                   | None => Some (c :: r)
                   | Some kids => match flatten (S f) ch kids with None => None | Some k => Some (k ++ r) end
                   end
       end).
    rewrite Hr. destruct (lookup c ch) as [kids|] eqn:E; [|eexists; reflexivity].
    destruct (Hac c kids E) as [_ H2].
    destruct (IH kids) as [k Hk].
    + intros k Hk. specialize (H2 k Hk). specialize (Hp c (or_introl eq_refl)). lia.
    + rewrite Hk. eexists; reflexivity.
Qed.
