(* C18 -- lemmas about the codec model (Model/Serial.v). *)
From Coq Require Import ZArith List Bool String Lia.
From V Require Import Model.Serial.
Import ListNotations.
Open Scope string_scope.
Open Scope Z_scope.

(* ---------- Timespan ---------- *)
Lemma ts_json_roundtrip_p : forall mx t, 0 < mx -> ts_wf mx t -> dec_ts mx (enc_ts t) = Some t.
Proof.
  intros mx [b e] Hm [[H1 H2] | H]; unfold enc_ts, dec_ts, ts_mk; simpl in *.
  - destruct (b <? e) eqn:E; [reflexivity | apply Z.ltb_ge in E; lia].
  - inversion H; subst. unfold TMIN. destruct (mx <? 0) eqn:E; [apply Z.ltb_lt in E; lia | reflexivity].
Qed.

Lemma ts_yaml_roundtrip_p : forall mx t, 0 < mx -> ts_wf mx t -> dec_ts_yaml mx (enc_ts_yaml mx t) = t.
Proof.
  intros mx [b e] Hm [[H1 H2] | H]; unfold enc_ts_yaml, dec_ts_yaml, ts_is_empty, ts_mk, TMIN in *; simpl in *.
  - destruct (e <=? b) eqn:E; [apply Z.leb_le in E; lia |].
    destruct (b =? 0) eqn:Eb; destruct (e =? mx) eqn:Ee;
      try apply Z.eqb_eq in Eb; try apply Z.eqb_eq in Ee; subst;
      match goal with |- (if ?x <? ?y then _ else _) = _ => destruct (x <? y) eqn:E2; [reflexivity | apply Z.ltb_ge in E2; lia] end.
  - inversion H; subst. destruct (0 <=? mx) eqn:E; [reflexivity | apply Z.leb_gt in E; lia].
Qed.

Lemma ts_pickle_roundtrip_p : forall mx t, 0 < mx -> ts_wf mx t -> rebuild_ts mx (reduce_ts t) = t.
Proof.
  intros mx [b e] Hm [[H1 H2] | H]; unfold rebuild_ts, reduce_ts, ts_mk, TMIN in *; simpl in *.
  - destruct (b <? e) eqn:E; [reflexivity | apply Z.ltb_ge in E; lia].
  - inversion H; subst. destruct (mx <? 0) eqn:E; [apply Z.ltb_lt in E; lia | reflexivity].
Qed.

Lemma ts_mk_wf_p : forall mx b e, 0 <= b -> e <= mx -> ts_wf mx (ts_mk mx b e).
Proof.
  intros. unfold ts_mk, ts_wf, TMIN. destruct (b <? e) eqn:E; simpl; [left; apply Z.ltb_lt in E; lia | right; reflexivity].
Qed.

(* ---------- generic ---------- *)
Lemma slist_eqb_eq : forall a b, slist_eqb a b = true -> a = b.
Proof.
  induction a; destruct b; simpl; intros; try discriminate; auto.
  apply andb_true_iff in H as [H1 H2]. apply String.eqb_eq in H1. f_equal; auto.
Qed.
Lemma slist_eqb_refl : forall a, slist_eqb a a = true.
Proof. induction a; simpl; auto. rewrite String.eqb_refl; auto. Qed.

Lemma jstrings_map : forall l, jstrings (JArr (map JStr l)) = Some l.
Proof.
  unfold jstrings. induction l; simpl; auto. rewrite IHl. reflexivity.
Qed.

(* ---------- DimensionGroup ---------- *)
Lemma dec_enc_grp_p : forall u g, conform u (g_names g) = Some g -> dec_grp u (enc_grp g) = Some g.
Proof. intros. unfold dec_grp, enc_grp. rewrite jstrings_map. assumption. Qed.

Lemma grp_pickle_p : forall u g, conform u (g_names g) = Some g -> rebuild_grp u (reduce_grp g) = Some g.
Proof. intros. assumption. Qed.

(* ---------- DatasetType ---------- *)
Definition wf_dt (u : uctx) (t : dstype) : Prop :=
  valid_name (t_name t) = true /\ mem (t_name t) (u_governors u) = false
  /\ (t_psc t = None <-> component_of (t_name t) = None)
  /\ conform u (g_req (t_grp t)) = Some (t_grp t).

Lemma mk_dt_wf : forall u t, wf_dt u t -> mk_dt u (t_name t) (t_grp t) (t_sc t) (t_psc t) (t_calib t) = Some t.
Proof.
  intros u [n g sc psc cal] (Hv & Hg & Hc & _). unfold mk_dt; simpl in *. rewrite Hv, Hg. simpl.
  destruct psc as [p|]; destruct (component_of n) eqn:E; try reflexivity.
  - destruct Hc as [_ Hc]. specialize (Hc eq_refl). discriminate.
  - destruct Hc as [Hc _]. specialize (Hc eq_refl). discriminate.
Qed.

Lemma dec_enc_dt_full_p : forall u t, wf_dt u t -> dec_dt u (enc_dt false t) = Some t.
Proof.
  intros u t H. pose proof (mk_dt_wf u t H) as Hm. destruct H as (_ & _ & _ & Hc).
  destruct t as [n g sc psc cal]; simpl in *.
  Local Opaque jstrings conform mk_dt.
  unfold dec_dt, enc_dt, dec_grp.
  destruct psc as [p|]; destruct cal; simpl; rewrite jstrings_map, Hc; exact Hm.
  Local Transparent jstrings conform mk_dt.
Qed.

Lemma dec_enc_dt_minimal_p : forall u t, aget (t_name t) (u_types u) = Some t -> dec_dt u (enc_dt true t) = Some t.
Proof. intros u t H. unfold dec_dt, enc_dt; simpl. exact H. Qed.

Lemma dt_pickle_p : forall u t, wf_dt u t -> rebuild_dt u (reduce_dt t) = Some t.
Proof. intros. unfold rebuild_dt, reduce_dt. apply mk_dt_wf; assumption. Qed.

(* ---------- equality and hashing ---------- *)
Lemma dval_eqb_eq : forall a b, dval_eqb a b = true -> a = b.
Proof.
  destruct a, b; simpl; intros; try discriminate.
  - apply Z.eqb_eq in H; subst; auto.
  - apply String.eqb_eq in H; subst; auto.
Qed.
Lemma dvals_eqb_eq : forall a b, dvals_eqb a b = true -> a = b.
Proof.
  induction a as [|[k x] a]; destruct b as [|[k' y] b]; simpl; intros; try discriminate; auto.
  apply andb_true_iff in H as [H H3]. apply andb_true_iff in H as [H1 H2].
  apply String.eqb_eq in H1. apply dval_eqb_eq in H2. subst. f_equal; auto.
Qed.

(* both groups are groups of the universe: the name set determines the group *)
Definition in_universe (u : uctx) (g : grp) : Prop := conform u (g_names g) = Some g.

Lemma grp_eq_same : forall u a b, in_universe u a -> in_universe u b -> grp_eq a b = true -> a = b.
Proof.
  unfold in_universe, grp_eq. intros u a b Ha Hb H. apply slist_eqb_eq in H. rewrite H in Ha. congruence.
Qed.

Lemma hash_preserved_grp_p : forall u a b, in_universe u a -> in_universe u b -> grp_eq a b = true -> grp_hash_key a = grp_hash_key b.
Proof. intros. rewrite (grp_eq_same u a b); auto. Qed.

Lemma hash_preserved_coord_p : forall u a b, in_universe u (c_grp a) -> in_universe u (c_grp b) ->
  coord_eq a b = true -> coord_hash_key a = coord_hash_key b.
Proof.
  unfold coord_eq, coord_hash_key. intros u a b Ha Hb H. apply andb_true_iff in H as [H1 H2].
  rewrite (grp_eq_same u _ _ Ha Hb H1). apply dvals_eqb_eq in H2. rewrite H2. reflexivity.
Qed.

Lemma hash_preserved_dt_p : forall u a b, in_universe u (t_grp a) -> in_universe u (t_grp b) ->
  dt_eq a b = true -> dt_hash_key a = dt_hash_key b.
Proof.
  unfold dt_eq, dt_hash_key. intros u a b Ha Hb H.
  repeat (apply andb_true_iff in H as [H ?]).
  apply String.eqb_eq in H. rewrite (grp_eq_same u _ _ Ha Hb H3).
  apply String.eqb_eq in H0. destruct (t_psc a), (t_psc b); simpl in H1; try discriminate;
    try (apply String.eqb_eq in H1); subst; congruence.
Qed.

Lemma hash_preserved_ref_p : forall u a b,
  in_universe u (t_grp (f_type a)) -> in_universe u (t_grp (f_type b)) ->
  in_universe u (c_grp (f_coord a)) -> in_universe u (c_grp (f_coord b)) ->
  ref_eq a b = true -> ref_hash_key a = ref_hash_key b.
Proof.
  unfold ref_eq, ref_hash_key. intros u a b H1 H2 H3 H4 H.
  apply andb_true_iff in H as [H Hi]. apply andb_true_iff in H as [Ht Hc].
  rewrite (hash_preserved_dt_p u _ _ H1 H2 Ht), (hash_preserved_coord_p u _ _ H3 H4 Hc).
  apply String.eqb_eq in Hi. rewrite Hi. reflexivity.
Qed.

Lemma hash_preserved_ts_p : forall a b : Z * Z, a = b -> a = b.
Proof. auto. Qed.

(* ---------- the variant of from_simple before commit 0b78af8 loses None records ---------- *)
Definition w_g : grp := {| g_names := ["a"]; g_req := ["a"]; g_impl := []; g_elems := ["a"; "x"] |}.
Definition w_u : uctx := {| u_max := 100; u_conform := [(["a"], w_g)]; u_schema := [("a", [("id", (TInt, false))])];
                            u_governors := []; u_types := []; u_refs := []; u_compsc := [] |}.
Definition w_c : coord := {| c_grp := w_g; c_vals := [("a", DInt 1)];
                             c_recs := Some [("a", Some {| r_def := "a"; r_fields := [("id", FInt 1)] |}); ("x", None)] |}.
Lemma coord_prefix_variant_refuted_p : exists c',
  dec_coord_prefix w_u (enc_coord false w_c) = Some c' /\ record_state w_c "x" = 1%N /\ record_state c' "x" = 2%N.
Proof.
  eexists. split; [vm_compute; reflexivity|]. split; vm_compute; reflexivity.
Qed.
