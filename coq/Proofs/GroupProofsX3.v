(* Part 3: the main clauses of C12 re-stated over the GENERATED constructor (corollaries of gen_group_agrees), and
   dimensions without dependencies that nothing depends on (every skypix dimension of every shipped universe). *)
From Coq Require Import String List Bool Arith Lia.
From V Require Import Model.Universe Model.GroupX Gen.GroupGen Proofs.GroupProofs Proofs.GroupProofsX Proofs.GroupProofsX2.
Import ListNotations.
Open Scope list_scope.

(* ---------- outcome of the generated constructor ---------- *)
Theorem gen_group_outcome u l : wf_universe u = true ->
  (incl l (names_of u) /\ exists G, gen_group u l true = GOk G)
  \/ ((exists y, In y l /\ ~ In y (names_of u)) /\ gen_group u l true = GKeyError).
Proof.
  intro Hwf. rewrite (gen_group_agrees u l Hwf). destruct (known_dec u l) as [Hk|Hun].
  - left. split; [exact Hk|]. apply mkgroup_total; assumption.
  - right. split; [exact Hun|]. unfold mkgroup. rewrite (closure_keyerror u l Hun). reflexivity.
Qed.

Theorem gen_group_least u l G : wf_universe u = true -> gen_group u l true = GOk G ->
  incl l (gnames G) /\ closed u (gnames G) /\ (forall T, closed u T -> incl l T -> incl (gnames G) T)
  /\ sort_names u (gnames G) = gnames G.
Proof.
  intros Hwf H. rewrite (gen_group_agrees u l Hwf) in H.
  pose proof (group_is_closure_p u l G H) as (H1 & H2 & H3 & _). pose proof (group_sorted u l G H). auto.
Qed.

(* same object however spelled -- including the failure: equal name sets give equal results *)
Theorem gen_group_canonical u l1 l2 : wf_universe u = true -> same l1 l2 -> gen_group u l1 true = gen_group u l2 true.
Proof.
  intros Hwf Hs. rewrite !(gen_group_agrees _ _ Hwf). destruct (known_dec u l1) as [Hk|[y [Hy Hun]]].
  - destruct (mkgroup_total u l1 Hwf Hk) as [G HG]. rewrite HG. symmetry. eapply group_canonical_p; eauto.
  - unfold mkgroup. rewrite (closure_keyerror u l1), (closure_keyerror u l2); [reflexivity| |]; exists y; split; auto.
    apply Hs. exact Hy.
Qed.

Theorem gen_group_parts u l G d : wf_universe u = true -> gen_group u l true = GOk G ->
  ((In d (gnames G) <-> In d (grequired G) \/ In d (gimplied G)) /\ ~ (In d (grequired G) /\ In d (gimplied G)))
  /\ (In d (grequired G) <->
      In d (gnames G) /\ forall d2 e2, In d2 (gnames G) -> find_elem u d2 = Some e2 -> ~ In d (eimp e2))
  /\ gen_group u (grequired G) true = GOk G.
Proof.
  intros Hwf H. pose proof H as H'. rewrite (gen_group_agrees u l Hwf) in H'.
  split; [exact (partition_p u l G d H')|]. split; [exact (required_char_p u l G d H')|].
  rewrite (gen_group_agrees u _ Hwf).
  pose proof (required_generates u l G Hwf H') as Hr. unfold mkgroup. rewrite Hr. simpl.
  pose proof (group_is_closure_p u l G H') as (_ & _ & _ & E). rewrite <- E. reflexivity.
Qed.

(* ---------- dimensions that have no dependencies and that nothing depends on ---------- *)
Definition isolatedb (u : universe) (s : string) : bool :=
  match find_elem u s with
  | Some e => list_eqb (ereq e) [s] && list_eqb (eimp e) []
              && forallb (fun e' => String.eqb (ename e') s || negb (memb s (deps e'))) u
  | None => false
  end.

Definition skypix_isolatedb (u : universe) : bool := forallb (isolatedb u) (skypix_names u).

Lemma isolated_spec u s : isolatedb u s = true ->
  exists e, find_elem u s = Some e /\ ereq e = [s] /\ eimp e = []
    /\ forall d e', find_elem u d = Some e' -> d <> s -> ~ In s (deps e').
Proof.
  unfold isolatedb. destruct (find_elem u s) as [e|] eqn:Hf; [|discriminate]. intro H.
  apply andb_true_iff in H as [H H3]. apply andb_true_iff in H as [H1 H2].
  apply list_eqb_eq in H1, H2. exists e. repeat split; auto.
  intros d e' Hd Hne Hin. rewrite forallb_forall in H3. apply find_elem_some in Hd as [Hd Hn].
  specialize (H3 e' Hd). rewrite Hn in H3. apply orb_true_iff in H3 as [H3|H3].
  - apply String.eqb_eq in H3. contradiction.
  - apply negb_true_iff in H3. apply memb_false in H3. contradiction.
Qed.

(* adding an isolated dimension s to a group adds exactly s, as a required dimension, and changes nothing else *)
Theorem isolated_extends u s l G : wf_universe u = true -> isolatedb u s = true -> mkgroup u l = GOk G ->
  exists G', mkgroup u (s :: l) = GOk G'
    /\ (forall x, In x (gnames G') <-> x = s \/ In x (gnames G))
    /\ In s (grequired G')
    /\ (forall d, d <> s -> (In d (grequired G') <-> In d (grequired G)))
    /\ (forall d, In d (gimplied G') <-> In d (gimplied G)).
Proof.
  intros Hwf Hiso HG. destruct (isolated_spec u s Hiso) as [es (Hfs & Hreq & Himp & Hnodep)].
  pose proof (group_is_closure_p u l G HG) as (Hl & Hcl & Hleast & HGeq).
  pose proof (group_facts u l G HG) as (_ & HK & _).
  destruct (mkgroup_total u (s :: l) Hwf) as [G' HG'].
  { intros x [Hx|Hx]; [subst; eapply find_elem_is_known; exact Hfs|apply HK, Hl, Hx]. }
  exists G'. split; [exact HG'|].
  pose proof (group_is_closure_p u (s :: l) G' HG') as (Hl' & Hcl' & Hleast' & HGeq').
  assert (Hm : forall x, In x (gnames G') <-> x = s \/ In x (gnames G)).
  { intro x. split.
    - revert x. change (incl (gnames G') (s :: gnames G)) with (forall x, In x (gnames G') -> In x (s :: gnames G)).
      assert (Hc : closed u (s :: gnames G)).
      { intros d e [Hd|Hd] Hf y Hy.
        - subst d. rewrite Hfs in Hf. inversion Hf; subst e. unfold deps in Hy. rewrite Hreq, Himp in Hy.
          destruct Hy as [Hy|[]]. left. exact Hy.
        - right. eapply Hcl; eauto. }
      intros x Hx. pose proof (Hleast' (s :: gnames G) Hc) as Hi.
      assert (Hin : incl (s :: l) (s :: gnames G)) by (intros y [Hy|Hy]; [left; exact Hy|right; apply Hl; exact Hy]).
      destruct (Hi Hin x Hx) as [E|E]; [left; symmetry; exact E|right; exact E].
    - intros [E|Hx]; [subst; apply Hl'; left; reflexivity|].
      revert x Hx. apply Hleast; [exact Hcl'|]. intros y Hy. apply Hl'. right. exact Hy. }
  split; [exact Hm|].
  assert (Himp_s : forall d2 e2, find_elem u d2 = Some e2 -> ~ In s (eimp e2)).
  { intros d2 e2 Hf Hin. destruct (string_dec d2 s) as [E|E].
    - subst d2. rewrite Hfs in Hf. inversion Hf; subst e2. rewrite Himp in Hin. contradiction.
    - apply (Hnodep d2 e2 Hf E). unfold deps. apply in_or_app. right. exact Hin. }
  assert (Hreq' : forall d, In d (grequired G') <->
            In d (gnames G') /\ forall d2 e2, In d2 (gnames G') -> find_elem u d2 = Some e2 -> ~ In d (eimp e2))
    by (intro d; exact (required_char_p u (s :: l) G' d HG')).
  assert (HreqG : forall d, In d (grequired G) <->
            In d (gnames G) /\ forall d2 e2, In d2 (gnames G) -> find_elem u d2 = Some e2 -> ~ In d (eimp e2))
    by (intro d; exact (required_char_p u l G d HG)).
  assert (Hreq_iff : forall d, d <> s -> (In d (grequired G') <-> In d (grequired G))).
  { intros d Hne. rewrite Hreq', HreqG, Hm. split.
    - intros [[E|Hd] Hno]; [contradiction|]. split; [exact Hd|]. intros d2 e2 Hd2. apply Hno. apply Hm. right. exact Hd2.
    - intros [Hd Hno]. split; [right; exact Hd|]. intros d2 e2 Hd2 Hf. apply Hm in Hd2 as [E|Hd2]; [|eapply Hno; eauto].
      subst d2. rewrite Hfs in Hf. inversion Hf; subst e2. rewrite Himp. intros []. }
  split; [apply Hreq'; split; [apply Hm; left; reflexivity|intros d2 e2 _ Hf; apply (Himp_s d2 e2 Hf)]|].
  split; [exact Hreq_iff|].
  intro d. pose proof (partition_p u (s :: l) G' d HG') as [P1 P2]. pose proof (partition_p u l G d HG) as [Q1 Q2].
  destruct (string_dec d s) as [E|E].
  - subst d. split; intro Hi.
    + exfalso. apply P2. split; [|exact Hi]. apply Hreq'. split; [apply Hm; left; reflexivity|intros d2 e2 _ Hf; apply (Himp_s d2 e2 Hf)].
    + exfalso. assert (Hin : In s (gnames G)) by (apply Q1; right; exact Hi).
      (* s in G and implied there: some member implies it, impossible *)
      pose proof (HreqG s) as Hr. assert (In s (grequired G)) by (apply Hr; split; [exact Hin|intros d2 e2 _ Hf; apply (Himp_s d2 e2 Hf)]).
      apply Q2. split; assumption.
  - specialize (Hreq_iff d E). split; intro Hi.
    + assert (Hd : In d (gnames G')) by (apply P1; right; exact Hi). apply Hm in Hd as [Hd|Hd]; [contradiction|].
      apply Q1 in Hd as [Hd|Hd]; [|exact Hd]. exfalso. apply P2. split; [apply Hreq_iff; exact Hd|exact Hi].
    + assert (Hd : In d (gnames G')) by (apply Hm; right; apply Q1; right; exact Hi).
      apply P1 in Hd as [Hd|Hd]; [|exact Hd]. exfalso. apply Q2. split; [apply Hreq_iff; exact Hd|exact Hi].
Qed.
