(* C10 lemmas, part 1: refusals, the registry's orphan guard, existence flags, the datastore-bridge invariant. *)
From Coq Require Import NArith List Bool Lia.
From V Require Import Model.Removal.
Import ListNotations.
Open Scope N_scope.

(* every refusal returns the state it was given, except one: a put of a dataset that has a location row but no records (a state
   only the stale-trash-row defect produces; excluded by the bridge invariant, see refused_unchanged_l below) *)
Definition put_on_recordless (s : st) (o : op) : bool :=
  match o with Put d _ _ => negb (has_rec s d) && memN d (loc s) | _ => false end.
Lemma refused_unchanged_raw : forall s o s' e, put_on_recordless s o = false -> step s o = (s', Err e) -> s' = s.
Proof.
  intros s o s' e G H. destruct o; simpl in H, G; try unfold xfer in H;
  repeat match type of H with
  | context [match ?x with _ => _ end] => destruct x eqn:?; simpl in H
  end; simpl in G; try congruence; try (inversion H; reflexivity).
Qed.

(* ---------- membership ---------- *)
Lemma memN_In : forall x l, memN x l = true <-> In x l.
Proof.
  intros x l. unfold memN. rewrite existsb_exists. split.
  - intros [y [Hy E]]. apply N.eqb_eq in E. subst. exact Hy.
  - intro H. exists x. split; [exact H | apply N.eqb_refl].
Qed.
Lemma memN_false : forall x l, memN x l = false <-> ~ In x l.
Proof. intros x l. rewrite <- memN_In. destruct (memN x l); split; intro H; congruence || (exfalso; apply H; reflexivity) || discriminate. Qed.

Lemma art_eqb_eq : forall a b, art_eqb a b = true <-> a = b.
Proof.
  intros [a1 a2] [b1 b2]. unfold art_eqb. simpl. rewrite andb_true_iff, !N.eqb_eq. split.
  - intros [-> ->]. reflexivity.
  - intro H. inversion H. split; reflexivity.
Qed.
Lemma memA_In : forall p l, memA p l = true <-> In p l.
Proof.
  intros p l. unfold memA. rewrite existsb_exists. split.
  - intros [y [Hy E]]. apply art_eqb_eq in E. subst. exact Hy.
  - intro H. exists p. split; [exact H | apply art_eqb_eq; reflexivity].
Qed.

Lemma addN_In : forall x y l, In y (addN x l) <-> y = x \/ In y l.
Proof.
  intros x y l. unfold addN. destruct (memN x l) eqn:E.
  - apply memN_In in E. split; [intro H; right; exact H | intros [-> | H]; assumption].
  - simpl. split; [intros [<- | H]; [left; reflexivity | right; exact H] | intros [-> | H]; [left; reflexivity | right; exact H]].
Qed.
Lemma fold_addN_In : forall m l y, In y (fold_right addN l m) <-> In y m \/ In y l.
Proof.
  induction m as [| x m IH]; intros l y; simpl.
  - split; [intro H; right; exact H | intros [[] | H]; exact H].
  - rewrite addN_In, IH. split.
    + intros [-> | [H | H]]; [left; left; reflexivity | left; right; exact H | right; exact H].
    + intros [[<- | H] | H]; [left; reflexivity | right; left; exact H | right; right; exact H].
Qed.
Lemma dedup_In : forall l x, In x (dedup l) <-> In x l.
Proof.
  induction l as [| y l IH]; intro x; simpl; [tauto |].
  destruct (memN y l) eqn:E.
  - rewrite IH. apply memN_In in E. split; [intro H; right; exact H | intros [<- | H]; assumption].
  - simpl. rewrite IH. tauto.
Qed.

(* keyed lists *)
Definition hasK (d : N) (l : list (N * art)) : bool := existsb (fun p => fst p =? d) l.
Lemma hasK_In : forall d l, hasK d l = true <-> exists p, In (d, p) l.
Proof.
  intros d l. unfold hasK. rewrite existsb_exists. split.
  - intros [[k p] [Hin E]]. simpl in E. apply N.eqb_eq in E. subst. exists p. exact Hin.
  - intros [p Hin]. exists (d, p). split; [exact Hin | simpl; apply N.eqb_refl].
Qed.
Lemma has_rec_In : forall s d, has_rec s d = true <-> exists p, In (d, p) (recs s).
Proof. intros. apply hasK_In. Qed.
Lemma has_ds_In : forall s d, has_ds s d = true <-> exists p, In (d, p) (ds s).
Proof. intros. apply hasK_In. Qed.
Lemma find_key_some : forall d (l : list (N * art)) p, find (fun q => fst q =? d) l = Some p -> fst p = d /\ In p l.
Proof.
  intros d l p H. apply find_some in H. destruct H as [Hin E]. apply N.eqb_eq in E. split; assumption.
Qed.
Lemma find_key_none : forall d (l : list (N * art)), find (fun q => fst q =? d) l = None -> hasK d l = false.
Proof.
  intros d l H. unfold hasK. destruct (existsb (fun p => fst p =? d) l) eqn:E; [| reflexivity].
  apply existsb_exists in E. destruct E as [x [Hin Hx]]. pose proof (find_none _ _ H x Hin) as F. simpl in F. congruence.
Qed.

(* ---------- existence flags are the three facts ---------- *)
Lemma exists_flags_spec_l : forall s d,
  (fst (fst (exists_flags s d)) = true <-> exists a, In (d, a) (ds s)) /\
  (snd (fst (exists_flags s d)) = true <-> exists p, In (d, p) (recs s)) /\
  (snd (exists_flags s d) = true <-> exists p, rec_path s d = Some p /\ In p (files s)) /\
  (stored s d = snd (exists_flags s d)) /\
  (located s d = true <-> In d (loc s)).
Proof.
  intros s d. unfold exists_flags, stored, located. simpl. repeat split.
  - apply has_ds_In. - apply has_ds_In. - apply has_rec_In. - apply has_rec_In.
  - unfold artifact_present. destruct (rec_path s d) as [p |]; [| discriminate]. intro H. exists p. split; [reflexivity | apply memA_In; exact H].
  - intros [p [E H]]. unfold artifact_present. rewrite E. apply memA_In. exact H.
  - apply memN_In. - apply memN_In.
Qed.

(* the artifact flag implies the datastore flag: a present artifact is always one the records name *)
Lemma artifact_implies_known : forall s d, artifact_present s d = true -> has_rec s d = true.
Proof.
  intros s d. unfold artifact_present, rec_path. destruct (find (fun p => fst p =? d) (recs s)) as [p |] eqn:E; [| discriminate].
  intros _. apply find_key_some in E. destruct E as [E1 E2]. apply has_rec_In. exists (snd p). destruct p; simpl in *; subst; exact E2.
Qed.

(* ---------- the registry refuses to forget what a datastore holds ---------- *)
Lemma registry_refuses_orphan_l : forall s l d, In d l -> In d (loc s) -> step s (RegRemove l) = (s, Err Orphaned).
Proof.
  intros s l d Hl Hloc. simpl. unfold reg_remove.
  assert (E : existsb (fun d0 => memN d0 (loc s)) l = true).
  { apply existsb_exists. exists d. split; [exact Hl | apply memN_In; exact Hloc]. }
  rewrite E. reflexivity.
Qed.
Lemma registry_remove_ok_iff : forall s l, (exists s', step s (RegRemove l) = (s', Ok)) <-> (forall d, In d l -> ~ In d (loc s)).
Proof.
  intros s l. simpl. unfold reg_remove. destruct (existsb (fun d => memN d (loc s)) l) eqn:E.
  - split; [intros [s' H]; discriminate |].
    intro H. apply existsb_exists in E. destruct E as [d [Hd Hm]]. apply memN_In in Hm. exfalso. exact (H d Hd Hm).
  - split; [| intros _; eexists; reflexivity].
    intros _ d Hd Hloc. assert (existsb (fun d0 => memN d0 (loc s)) l = true) by (apply existsb_exists; exists d; split; [exact Hd | apply memN_In; exact Hloc]). congruence.
Qed.

(* ---------- the datastore-bridge invariant ---------- *)
Record wf (s : st) : Prop := {
  w_loc_rec : forall d, In d (loc s) -> has_rec s d = true;
  w_trash_rec : forall d, In d (trash s) -> has_rec s d = true;
  w_rec_somewhere : forall d, has_rec s d = true -> In d (loc s) \/ In d (trash s);
  w_disjoint : forall d, In d (loc s) -> ~ In d (trash s)
}.

Lemma wf_init : wf init.
Proof. constructor; simpl; intros; try contradiction; discriminate. Qed.

Lemma refused_unchanged_l : forall s o s' e, wf s -> step s o = (s', Err e) -> s' = s.
Proof.
  intros s o s' e W H. apply (refused_unchanged_raw s o s' e); [| exact H].
  destruct o; try reflexivity. simpl. destruct (memN d (loc s)) eqn:M; [| apply andb_false_r].
  apply memN_In in M. rewrite (w_loc_rec s W d M). reflexivity.
Qed.

Lemma wf_same_datastore : forall s s', loc s' = loc s -> trash s' = trash s -> recs s' = recs s -> wf s -> wf s'.
Proof.
  intros s s' E1 E2 E3 [A B C D]. constructor; unfold has_rec in *; rewrite ?E1, ?E2, ?E3; assumption.
Qed.

Lemma trash_refs_loc : forall l s d, In d (loc (trash_refs l s)) <-> In d (loc s) /\ ~ In d l.
Proof.
  intros l s d. unfold trash_refs. simpl. rewrite filter_In, negb_true_iff, memN_false, filter_In, dedup_In, memN_In. tauto.
Qed.
Lemma trash_refs_trash : forall l s d, In d (trash (trash_refs l s)) <-> In d (trash s) \/ (In d l /\ In d (loc s)).
Proof.
  intros l s d. unfold trash_refs. simpl. rewrite fold_addN_In, filter_In, dedup_In, memN_In. tauto.
Qed.

Lemma wf_trash_refs : forall l s, wf s -> wf (trash_refs l s).
Proof.
  intros l s [A B C D]. constructor; intro d.
  - rewrite trash_refs_loc. intros [H _]. exact (A d H).
  - rewrite trash_refs_trash. intros [H | [_ H]]; [exact (B d H) | exact (A d H)].
  - intro H. change (has_rec s d = true) in H. rewrite trash_refs_loc, trash_refs_trash.
    destruct (C d H) as [H1 | H1]; [| right; left; exact H1].
    destruct (memN d l) eqn:E; [apply memN_In in E; right; right; split; assumption | apply memN_false in E; left; split; assumption].
  - rewrite trash_refs_loc, trash_refs_trash. intros [H1 H2] [H3 | [H3 _]]; [exact (D d H1 H3) | exact (H2 H3)].
Qed.

Lemma empty_trash_rec : forall s d, has_rec (empty_trash s) d = true <-> has_rec s d = true /\ ~ In d (trash s).
Proof.
  intros s d. rewrite !has_rec_In. unfold empty_trash. simpl. split.
  - intros [p H]. apply filter_In in H. destruct H as [H1 H2]. simpl in H2. apply negb_true_iff, memN_false in H2. split; [exists p; exact H1 | exact H2].
  - intros [[p H1] H2]. exists p. apply filter_In. split; [exact H1 | simpl; apply negb_true_iff, memN_false; exact H2].
Qed.
Lemma empty_trash_trash : forall s d, In d (trash (empty_trash s)) <-> In d (trash s) /\ has_rec s d = false.
Proof. intros s d. unfold empty_trash. simpl. rewrite filter_In, negb_true_iff. tauto. Qed.

Lemma wf_empty_trash : forall s, wf s -> wf (empty_trash s).
Proof.
  intros s [A B C D]. constructor; intro d.
  - intro H. change (In d (loc s)) in H. apply empty_trash_rec. split; [exact (A d H) | exact (D d H)].
  - rewrite empty_trash_trash. intros [H1 H2]. rewrite (B d H1) in H2. discriminate.
  - rewrite empty_trash_rec. intros [H1 H2]. destruct (C d H1) as [H | H]; [left; exact H | contradiction].
  - intro H. change (In d (loc s)) in H. rewrite empty_trash_trash. intros [H1 _]. exact (D d H H1).
Qed.

Lemma forget_refs_rec : forall l s d, has_rec (forget_refs l s) d = true <-> has_rec s d = true /\ ~ In d l.
Proof.
  intros l s d. rewrite !has_rec_In. unfold forget_refs. simpl. split.
  - intros [p H]. apply filter_In in H. destruct H as [H1 H2]. simpl in H2. apply negb_true_iff, memN_false in H2. split; [exists p; exact H1 | exact H2].
  - intros [[p H1] H2]. exists p. apply filter_In. split; [exact H1 | simpl; apply negb_true_iff, memN_false; exact H2].
Qed.
Lemma wf_forget_refs : forall l s, (forall d, In d l -> ~ In d (trash s)) -> wf s -> wf (forget_refs l s).
Proof.
  intros l s Hsafe [A B C D]. constructor; intro d.
  - unfold forget_refs at 1. simpl. rewrite filter_In, negb_true_iff, memN_false. intros [H1 H2]. apply forget_refs_rec. split; [exact (A d H1) | exact H2].
  - intro H. change (In d (trash s)) in H. apply forget_refs_rec. split; [exact (B d H) |]. intro Hl. exact (Hsafe d Hl H).
  - rewrite forget_refs_rec. intros [H1 H2]. destruct (C d H1) as [H | H]; [left | right; exact H].
    unfold forget_refs. simpl. apply filter_In. split; [exact H | apply negb_true_iff, memN_false; exact H2].
  - unfold forget_refs at 1. simpl. rewrite filter_In. intros [H1 _] H2. exact (D d H1 H2).
Qed.

Lemma wf_store : forall s d r k b, has_rec s d = false -> ~ In d (loc s) -> wf s -> wf (store s d r k b).
Proof.
  intros s d r k b Hn Hl [A B C D].
  assert (R : forall x, has_rec (store s d r k b) x = true <-> x = d \/ has_rec s x = true).
  { intro x. unfold has_rec, store. simpl. rewrite orb_true_iff, N.eqb_eq. split; intros [H | H]; auto. }
  constructor; intro x.
  - simpl. intros [<- | H]; apply R; [left; reflexivity | right; exact (A x H)].
  - intro H. change (In x (trash s)) in H. apply R. right. exact (B x H).
  - rewrite R. simpl. intros [-> | H]; [left; left; reflexivity |]. destruct (C x H) as [H1 | H1]; [left; right; exact H1 | right; exact H1].
  - simpl. intros [<- | H] H2; [| exact (D x H H2)]. rewrite (B d H2) in Hn. discriminate.
Qed.

Lemma wf_ds_trash : forall l s, wf s -> wf (ds_trash l s).
Proof. intros l s W. unfold ds_trash. destruct (existsb _ l); [exact W | apply wf_trash_refs; exact W]. Qed.

(* the datastore half of a two-ref ingest: two fresh ids get a location row and a records row each *)
Lemma wf_ingest : forall s d1 d2 a rows fl, d1 <> d2 -> has_rec s d1 = false -> ~ In d1 (loc s) -> has_rec s d2 = false -> ~ In d2 (loc s) -> wf s ->
  wf (mk (colls s) (chains s) rows (tags s) (calibs s) (d1 :: d2 :: loc s) (trash s) ((d1, a) :: (d2, a) :: recs s) fl).
Proof.
  intros s d1 d2 a rows fl Hne A1 B1 A2 B2 [A B C D].
  set (s' := mk _ _ _ _ _ _ _ _ _).
  assert (R : forall x, has_rec s' x = true <-> x = d1 \/ x = d2 \/ has_rec s x = true).
  { intro x. unfold has_rec, s'. simpl. rewrite !orb_true_iff, !N.eqb_eq. split; intros [H | [H | H]]; auto. }
  constructor; intro x.
  - simpl. intros [<- | [<- | H]]; apply R; [left; reflexivity | right; left; reflexivity | right; right; exact (A x H)].
  - intro H. change (In x (trash s)) in H. apply R. right. right. exact (B x H).
  - rewrite R. simpl. intros [-> | [-> | H]]; [left; left; reflexivity | left; right; left; reflexivity |].
    destruct (C x H) as [H1 | H1]; [left; right; right; exact H1 | right; exact H1].
  - simpl. intros [<- | [<- | H]] H2; [rewrite (B d1 H2) in A1; discriminate | rewrite (B d2 H2) in A2; discriminate | exact (D x H H2)].
Qed.

(* transfer_from of one dataset: skipped when the records table has the id, else a fresh location row and records row *)
Lemma wf_xfer : forall s d r k, wf s -> wf (fst (xfer s d r k)).
Proof.
  intros s d r k W. unfold xfer. destruct (negb _); simpl; [exact W |].
  destruct (has_rec s d) eqn:Hn; simpl; [eapply wf_same_datastore; [| | | exact W]; reflexivity |].
  destruct W as [A B C D].
  set (s' := mk _ _ _ _ _ _ _ _ _).
  assert (R : forall x, has_rec s' x = true <-> x = d \/ has_rec s x = true).
  { intro x. unfold has_rec, s'. simpl. rewrite orb_true_iff, N.eqb_eq. split; intros [H | H]; auto. }
  constructor; intro x.
  - unfold s' at 1. simpl. rewrite addN_In. intros [-> | H]; apply R; [left; reflexivity | right; exact (A x H)].
  - intro H. change (In x (trash s)) in H. apply R. right. exact (B x H).
  - rewrite R. unfold s'. simpl. rewrite addN_In. intros [-> | H]; [left; left; reflexivity |].
    destruct (C x H) as [H1 | H1]; [left; right; exact H1 | right; exact H1].
  - unfold s' at 1. simpl. rewrite addN_In. intros [-> | H] H2; [| exact (D x H H2)].
    change (In d (trash s)) in H2. rewrite (B d H2) in Hn. discriminate.
Qed.

Lemma remove_run_datastore : forall s r s', remove_run s r = inl s' -> loc s' = loc s /\ trash s' = trash s /\ recs s' = recs s /\ files s' = files s.
Proof.
  intros s r s' H. unfold remove_run in H.
  destruct (ctype s r); [| discriminate]. destruct (is_child s r); [discriminate |].
  destruct (existsb _ _); [discriminate |]. inversion H. simpl. repeat split.
Qed.
Lemma remove_runs_datastore : forall rs s s', remove_runs s rs = inl s' -> loc s' = loc s /\ trash s' = trash s /\ recs s' = recs s /\ files s' = files s.
Proof.
  induction rs as [| r rs IH]; intros s s' H; simpl in H.
  - inversion H. repeat split.
  - destruct (remove_run s r) as [s1 | e] eqn:E; [| discriminate].
    apply remove_run_datastore in E. destruct E as [E1 [E2 [E3 E4]]].
    apply IH in H. destruct H as [H1 [H2 [H3 H4]]]. rewrite H1, H2, H3, H4. repeat split; assumption.
Qed.

(* an operation is "safe" unless it forgets (removeRuns(unstore=False)) a dataset whose location row is pending in the trash *)
Definition safe (s : st) (o : op) : bool :=
  match o with
  | RemoveRuns rs false => forallb (fun d => negb (memN d (trash s))) (run_members s rs)
  | _ => true
  end.

Lemma wf_step : forall s o, wf s -> safe s o = true -> wf (exec s o).
Proof.
  intros s o W S. unfold exec. destruct o; simpl.
  - (* RegColl *) destruct (ctype s c); simpl; [exact W | eapply wf_same_datastore; [| | | exact W]; reflexivity].
  - (* SetChain *) destruct (negb _); simpl; [exact W |]. destruct (ctype s c) as [[] |]; simpl; try exact W.
    destruct (existsb _ children); simpl; [exact W |].
    eapply wf_same_datastore; [| | | exact W]; reflexivity.
  - (* Put *) destruct (ctype s r) as [[] |]; simpl; try exact W.
    destruct (ds_get s d).
    + destruct (negb _); simpl; [exact W |]. destruct (has_rec s d) eqn:E1; simpl; [exact W |].
      destruct (memN d (loc s)) eqn:E2; simpl; [eapply wf_same_datastore; [| | | exact W]; reflexivity |].
      apply wf_store; [exact E1 | apply memN_false; exact E2 | exact W].
    + destruct (existsb _ _); simpl; [exact W |]. destruct (has_rec s d || memN d (loc s)) eqn:E; simpl; [exact W |].
      apply orb_false_iff in E. destruct E as [E1 E2]. apply wf_store; [exact E1 | apply memN_false; exact E2 | exact W].
  - (* Tag *) destruct (ctype s c) as [[] |]; simpl; try exact W.
    destruct (tag_all s c l (tags s)); simpl; [| exact W]. eapply wf_same_datastore; [| | | exact W]; reflexivity.
  - (* Certify *) destruct (ctype s c) as [[] |]; simpl; try exact W.
    destruct (key_of s d); simpl; [| exact W]. destruct (existsb _ _); simpl; [exact W |].
    eapply wf_same_datastore; [| | | exact W]; reflexivity.
  - (* Prune *)
    assert (G : forall s1, wf s1 -> wf (fst (match (if purge then reg_remove l s1 else if disassociate then Some (disassoc tgs l s1) else Some s1) with
                                   | None => (s, Err Orphaned) | Some s2 => (if unstore then empty_trash s2 else s2, Ok) end))).
    { intros s1 W1.
      assert (W2 : forall s2, (if purge then reg_remove l s1 else if disassociate then Some (disassoc tgs l s1) else Some s1) = Some s2 -> wf s2).
      { intros s2 H. destruct purge.
        - unfold reg_remove in H. destruct (existsb _ _); [discriminate |]. inversion H. eapply wf_same_datastore; [| | | exact W1]; reflexivity.
        - destruct disassociate; inversion H; subst; [eapply wf_same_datastore; [| | | exact W1]; reflexivity | exact W1]. }
      destruct (if purge then reg_remove l s1 else if disassociate then Some (disassoc tgs l s1) else Some s1) as [s2 |]; simpl; [| exact W].
      specialize (W2 s2 eq_refl). destruct unstore; [apply wf_empty_trash |]; exact W2. }
    assert (G' : wf (fst (let s1 := if unstore then trash_refs l s else s in
                    match (if purge then reg_remove l s1 else if disassociate then Some (disassoc tgs l s1) else Some s1) with
                    | None => (s, Err Orphaned) | Some s2 => (if unstore then empty_trash s2 else s2, Ok) end))).
    { apply G. destruct unstore; [apply wf_trash_refs |]; exact W. }
    destruct purge.
    + destruct disassociate; simpl; [| exact W]. destruct unstore; simpl; [| exact W]. exact G'.
    + destruct disassociate.
      * destruct tgs as [| t tgs]; [exact W |]. destruct (check_kinds s Tagged (t :: tgs)); [exact W | exact G'].
      * exact G'.
  - (* RemoveRuns *)
    destruct (check_kinds s Run rs); simpl; [exact W |].
    destruct unstore.
    + destruct (remove_runs (trash_refs (run_members s rs) s) rs) as [s2 | e] eqn:E; simpl; [| exact W].
      apply remove_runs_datastore in E. destruct E as [E1 [E2 [E3 _]]].
      apply wf_empty_trash. eapply wf_same_datastore; [exact E1 | exact E2 | exact E3 |]. apply wf_trash_refs. exact W.
    + destruct (remove_runs (forget_refs (run_members s rs) s) rs) as [s2 | e] eqn:E; simpl; [| exact W].
      apply remove_runs_datastore in E. destruct E as [E1 [E2 [E3 _]]].
      eapply wf_same_datastore; [exact E1 | exact E2 | exact E3 |]. apply wf_forget_refs; [| exact W].
      simpl in S. rewrite forallb_forall in S. intros d Hd. apply memN_false. apply negb_true_iff. exact (S d Hd).
  - (* ExtDelete *) eapply wf_same_datastore; [| | | exact W]; reflexivity.
  - (* Trash *) apply wf_ds_trash. exact W.
  - (* EmptyTrash *) apply wf_empty_trash. exact W.
  - (* RegRemove *) unfold reg_remove. destruct (existsb _ _); simpl; [exact W |]. eapply wf_same_datastore; [| | | exact W]; reflexivity.
  - (* Trash1 *) destruct (artifact_present s d); simpl; [apply wf_ds_trash |]; exact W.
  - (* Ingest *) destruct (ctype s r) as [[] |]; simpl; try exact W.
    destruct (d1 =? d2) eqn:E0; simpl; [exact W |]. destruct (negb _); simpl; [exact W |].
    destruct (has_rec s d1 || memN d1 (loc s) || (has_rec s d2 || memN d2 (loc s))) eqn:E; simpl; [exact W |].
    apply orb_false_iff in E. destruct E as [E1 E2]. apply orb_false_iff in E1, E2. destruct E1 as [A1 B1]. destruct E2 as [A2 B2].
    apply N.eqb_neq in E0. apply memN_false in B1, B2.
    apply (wf_ingest s d1 d2 (r, k)); assumption.
  - (* Xfer *) assert (G : wf (fst (xfer s d r k))) by (apply wf_xfer; exact W).
    destruct (ctype s r) as [[] |]; simpl; try exact W; exact G.
Qed.

(* all histories whose forget-steps are safe *)
Fixpoint hist_safe (s : st) (h : list op) : bool :=
  match h with [] => true | o :: r => safe s o && hist_safe (exec s o) r end.

Lemma wf_fold : forall h s, wf s -> hist_safe s h = true -> wf (fold_left exec h s).
Proof.
  induction h as [| o h IH]; intros s W S; simpl in *; [exact W |].
  apply andb_true_iff in S. destruct S as [S1 S2]. apply IH; [apply wf_step; assumption | exact S2].
Qed.
Lemma wf_reachable : forall h, hist_safe init h = true -> wf (run_hist h).
Proof. intros h S. apply wf_fold; [exact wf_init | exact S]. Qed.
