(* C10 lemmas, part 1: refusals, the registry's orphan guard, existence flags. *)
From Coq Require Import NArith List Bool Lia.
From V Require Import Model.Removal.
Import ListNotations.
Open Scope N_scope.

Lemma refused_unchanged_l : forall s o s' e, step s o = (s', Err e) -> s' = s.
Proof.
  intros s o s' e H. destruct o; simpl in H;
  repeat match type of H with
  | context [match ?x with _ => _ end] => destruct x eqn:?; simpl in H
  end; try congruence; inversion H; reflexivity.
Qed.
