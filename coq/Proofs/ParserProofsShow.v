(* C14 proofs, part 7: the STRING-level round trip  lex (show t) = print t.

   Layer 1 (compositional): if every literal payload of t, printed alone and followed by a separator, is read by the
   lexer as its own token(s) (`lexable`), then the whole printed expression lexes to the printed token list
   (lex_show_p, lex_show_top, lex_show_string).  Range literals need no hypothesis: the decimal printer lemma
   (m_int_show_Z) gives `reads_range`.
   Layer 2 (payload facts): sufficient syntactic conditions on payloads (identifier / qualified / bind / quoted /
   numeric texts) for the `reads` hypotheses, see the second half of the file. *)
From Coq Require Import ZArith List Bool String Ascii NArith Arith Lia.
From V Require Import Model.ExprTree Model.Lexer Model.Parser Model.ParserShow Gen.GrammarGen
                      Proofs.LexerProofs Proofs.ParserProofs Proofs.ParserProofsCanon.
Import ListNotations.
Open Scope list_scope.
Open Scope char_scope.

Ltac crk H :=
  repeat match type of H with
         | context [match ?x with _ => _ end] => destruct x eqn:?; try discriminate H
         end.

Ltac bits c := destruct c as [[|] [|] [|] [|] [|] [|] [|] [|]].

(* ------------------------------------------------------------------ every matcher consumes at least one character *)
Lemma span_length p : forall l a b, span p l = (a, b) -> List.length l = List.length a + List.length b.
Proof.
  induction l as [|c l IH]; intros a b H; simpl in H.
  - inversion H; reflexivity.
  - destruct (p c).
    + destruct (span p l) as [a0 b0] eqn:E. inversion H; subst. simpl. rewrite (IH a0 b eq_refl). reflexivity.
    + inversion H; reflexivity.
Qed.

Lemma span_app p : forall l a b, span p l = (a, b) -> l = a ++ b.
Proof.
  induction l as [|c l IH]; intros a b H; simpl in H.
  - inversion H; reflexivity.
  - destruct (p c).
    + destruct (span p l) as [a0 b0] eqn:E. inversion H; subst. simpl. rewrite <- (IH a0 b eq_refl). reflexivity.
    + inversion H; reflexivity.
Qed.

Lemma skip_space_len l : List.length (skip_space l) <= List.length l.
Proof. unfold skip_space. destruct (span is_space l) as [a b] eqn:E. apply span_length in E. simpl. lia. Qed.

Lemma m_int_eq l :
  m_int l = match l with
            | c :: r =>
                if Ascii.eqb c "-"
                then match span is_digit r with ([], _) => None | (ds, r') => Some ((- digits_val ds)%Z, r') end
                else match span is_digit l with ([], _) => None | (ds, r') => Some (digits_val ds, r') end
            | [] => None
            end.
Proof. destruct l as [|c r]; [reflexivity|]. bits c; reflexivity. Qed.

Ltac lens :=
  repeat match goal with
         | H : span _ _ = (_, _) |- _ => apply span_length in H
         end;
  simpl in *; try lia.

Lemma m_int_len l v r : m_int l = Some (v, r) -> List.length r <= List.length l.
Proof.
  rewrite m_int_eq. intros H. destruct l as [|c l]; [discriminate|].
  destruct (Ascii.eqb c "-").
  - destruct (span is_digit l) as [[|d ds] r'] eqn:E; inversion H; subst. lens.
  - destruct (span is_digit (c :: l)) as [[|d ds] r'] eqn:E; inversion H; subst. lens.
Qed.

Lemma m_stride_len l st r : m_stride l = (st, r) -> List.length r <= List.length l.
Proof.
  unfold m_stride. intros H. pose proof (skip_space_len l) as L1.
  destruct (skip_space l) as [|c r0] eqn:E0; [inversion H; lia|].
  assert (D : (st, r) = (None, l) \/ exists r1, c :: r0 = ":" :: r1 /\
              match skip_space r1 with
              | c :: r2 => if is_digit c && negb (Ascii.eqb c "0")
                   then let '(ds, r3) := span is_digit r2 in (Some (digits_val (c :: ds)), r3)
                   else (None, l)
              | [] => (None, l)
              end = (st, r)).
  { bits c; try (left; congruence). right. eexists; split; [reflexivity|exact H]. }
  destruct D as [D|[r1 [D1 D2]]]; [inversion D; lia|]. inversion D1; subst r1. clear H D1.
  pose proof (skip_space_len r0) as L2.
  destruct (skip_space r0) as [|d r2]; [inversion D2; lia|].
  destruct (is_digit d && negb (Ascii.eqb d "0")); [|inversion D2; lia].
  destruct (span is_digit r2) as [ds r3] eqn:E. inversion D2; subst. lens.
Qed.

Lemma m_range_len l t r : m_range l = Some (t, r) -> List.length r < List.length l.
Proof.
  unfold m_range. intros H. destruct (m_int l) as [[a r1]|] eqn:E1; [|discriminate].
  apply m_int_len in E1. pose proof (skip_space_len r1) as L1.
  destruct (skip_space r1) as [|c1 [|c2 r2]]; try discriminate.
  { bits c1; discriminate. }
  assert (D : c1 = "." /\ c2 = ".").
  { bits c1; try discriminate H; bits c2; try discriminate H; auto. }
  destruct D; subst. pose proof (skip_space_len r2) as L2.
  destruct (m_int (skip_space r2)) as [[b r3]|] eqn:E2; [|discriminate].
  apply m_int_len in E2. destruct (m_stride r3) as [st r4] eqn:E3. apply m_stride_len in E3.
  inversion H; subst. simpl in *. lia.
Qed.

Lemma m_exp_len l ex r : m_exp l = (ex, r) -> List.length r <= List.length l.
Proof.
  unfold m_exp. intros H. destruct l as [|e r0]; [inversion H; simpl; lia|].
  destruct (Ascii.eqb e "e" || Ascii.eqb e "E"); [|inversion H; lia].
  destruct (match r0 with "-" :: r' => (["-"], r') | "+" :: r' => (["+"], r') | _ => ([], r0) end) as [sg r1] eqn:E.
  assert (List.length r1 <= List.length r0).
  { destruct r0 as [|s r']; [inversion E; simpl; lia|]. bits s; inversion E; simpl; lia. }
  destruct (span is_digit r1) as [[|d ds] r2] eqn:E2; inversion H; subst; lens.
Qed.

Lemma m_number_len l t r : m_number l = Some (t, r) -> List.length r < List.length l.
Proof.
  unfold m_number. intros H. destruct (span is_digit l) as [[|c ds] r0] eqn:E.
  - destruct l as [|d l']; [discriminate|].
    assert (D : d = "."). { bits d; try discriminate H; reflexivity. } subst d.
    destruct (span is_digit l') as [[|f fs] r1] eqn:E1; [discriminate|].
    destruct (m_exp r1) as [ex r2] eqn:E2. apply m_exp_len in E2. inversion H; subst. lens.
  - destruct (match r0 with
              | "." :: r' => let '(fs, r'') := span is_digit r' in ("." :: fs, r'')
              | _ => ([], r0)
              end) as [frac r1] eqn:F.
    assert (List.length r1 <= List.length r0).
    { destruct r0 as [|d r']; [inversion F; lia|].
      bits d; try (inversion F; simpl; lia).
      destruct (span is_digit r') as [fs r''] eqn:G. inversion F; subst. lens. }
    destruct (m_exp r1) as [ex r2] eqn:E2. apply m_exp_len in E2. inversion H; subst. lens.
Qed.

Lemma m_ident_len l i r : m_ident l = Some (i, r) -> List.length r < List.length l.
Proof.
  unfold m_ident. intros H. destruct l as [|c l]; [discriminate|]. destruct (is_alpha_ c); [|discriminate].
  destruct (span is_alnum_ l) as [a b] eqn:E. inversion H; subst. lens.
Qed.

Lemma m_dot_ident_len l i r : m_dot_ident l = Some (i, r) -> List.length r < List.length l.
Proof.
  unfold m_dot_ident. intros H. destruct l as [|c l]; [discriminate|].
  destruct (m_ident l) as [[j r']|] eqn:E.
  - apply m_ident_len in E. bits c; try discriminate H. inversion H; subst. simpl. lia.
  - bits c; discriminate H.
Qed.

Lemma m_qualified_len l t r : m_qualified l = Some (t, r) -> List.length r < List.length l.
Proof.
  unfold m_qualified. intros H. destruct (m_ident l) as [[i r0]|] eqn:E0; [|discriminate].
  apply m_ident_len in E0. destruct (m_dot_ident r0) as [[d1 r1]|] eqn:E1; [|discriminate].
  apply m_dot_ident_len in E1. destruct (m_dot_ident r1) as [[d2 r2]|] eqn:E2.
  - apply m_dot_ident_len in E2. inversion H; subst. lia.
  - inversion H; subst. lia.
Qed.

Lemma m_simple_len l t r : m_simple l = Some (t, r) -> List.length r < List.length l.
Proof.
  unfold m_simple. intros H. destruct (m_ident l) as [[i r0]|] eqn:E0; [|discriminate].
  apply m_ident_len in E0. inversion H; subst. lia.
Qed.

Lemma m_bind_len l t r : m_bind l = Some (t, r) -> List.length r < List.length l.
Proof.
  unfold m_bind. intros H. destruct l as [|c l]; [discriminate|].
  destruct (m_ident l) as [[j r']|] eqn:E.
  - apply m_ident_len in E. bits c; try discriminate H. inversion H; subst. simpl. lia.
  - bits c; discriminate H.
Qed.

Lemma m_quoted_len l b r : m_quoted l = Some (b, r) -> List.length r < List.length l.
Proof.
  unfold m_quoted. intros H.
  destruct (span (fun c => negb (Ascii.eqb c "'") && negb (is_nl c)) l) as [body r0] eqn:E.
  destruct r0 as [|q r1]; [discriminate|]. bits q; try discriminate H. inversion H; subst. lens.
Qed.

Lemma m_string_len l t r : m_string l = Some (t, r) -> List.length r < List.length l.
Proof.
  unfold m_string. intros H. destruct l as [|c l]; [discriminate|].
  destruct (m_quoted l) as [[b r']|] eqn:E.
  - apply m_quoted_len in E. bits c; try discriminate H. inversion H; subst. simpl. lia.
  - bits c; discriminate H.
Qed.

Lemma m_time_len l t r : m_time l = Some (t, r) -> List.length r < List.length l.
Proof.
  unfold m_time. intros H. destruct l as [|c [|q l]]; try discriminate.
  destruct (m_quoted l) as [[b r']|] eqn:E.
  - apply m_quoted_len in E. bits q; try discriminate H.
    destruct (Ascii.eqb c "T" || Ascii.eqb c "t"); [|discriminate]. inversion H; subst. simpl. lia.
  - bits q; try discriminate H. destruct (Ascii.eqb c "T" || Ascii.eqb c "t"); discriminate.
Qed.

Lemma m_op_len l t r : m_op l = Some (t, r) -> List.length r < List.length l.
Proof.
  unfold m_op. intros H. destruct l as [|c l]; [discriminate|].
  bits c; try discriminate H; try (inversion H; subst; simpl; lia);
    (destruct l as [|d l]; [inversion H; subst; simpl; lia|]; bits d; inversion H; subst; simpl; lia).
Qed.

Lemma m_token_len l t r : m_token l = Some (t, r) -> List.length r < List.length l.
Proof.
  unfold m_token, orelse. intros H.
  destruct (m_time l) as [[t0 r0]|] eqn:E1. { inversion H; subst. eapply m_time_len; eauto. }
  destruct (m_string l) as [[t0 r0]|] eqn:E2. { inversion H; subst. eapply m_string_len; eauto. }
  destruct (m_range l) as [[t0 r0]|] eqn:E3. { inversion H; subst. eapply m_range_len; eauto. }
  destruct (m_number l) as [[t0 r0]|] eqn:E4. { inversion H; subst. eapply m_number_len; eauto. }
  destruct (m_qualified l) as [[t0 r0]|] eqn:E5. { inversion H; subst. eapply m_qualified_len; eauto. }
  destruct (m_simple l) as [[t0 r0]|] eqn:E6. { inversion H; subst. eapply m_simple_len; eauto. }
  destruct (m_bind l) as [[t0 r0]|] eqn:E7. { inversion H; subst. eapply m_bind_len; eauto. }
  eapply m_op_len; eauto.
Qed.

(* ------------------------------------------------------------------ fuel independence *)
Lemma lex_chars_fuel : forall f1 f2 l, List.length l < f1 -> List.length l < f2 -> lex_chars f1 l = lex_chars f2 l.
Proof.
  induction f1 as [|f1 IH]; intros f2 l H1 H2; [lia|]. destruct f2 as [|f2]; [lia|].
  rewrite !lex_chars_S. destruct l as [|c r]; [reflexivity|]. simpl in H1, H2.
  destruct (is_ignore c || is_nl c); [apply IH; lia|].
  destruct (m_token (c :: r)) as [[t r']|] eqn:E; [|reflexivity].
  apply m_token_len in E. simpl in E. f_equal. apply IH; lia.
Qed.

Lemma lex_cs_fuel f l : List.length l < f -> lex_chars f l = lex_cs l.
Proof. intros H. unfold lex_cs. apply lex_chars_fuel; lia. Qed.

Lemma lex_cs_nil : lex_cs [] = [].
Proof. reflexivity. Qed.

Lemma lex_cs_ws c l : is_ignore c || is_nl c = true -> lex_cs (c :: l) = lex_cs l.
Proof.
  intros H. unfold lex_cs at 1. rewrite lex_chars_S, H. apply lex_cs_fuel. simpl. lia.
Qed.

Lemma lex_cs_sp l : lex_cs (" " :: l) = lex_cs l.
Proof. apply lex_cs_ws. reflexivity. Qed.

Lemma lex_cs_tok c l t r :
  is_ignore c || is_nl c = false -> m_token (c :: l) = Some (t, r) -> lex_cs (c :: l) = t :: lex_cs r.
Proof.
  intros H E. unfold lex_cs at 1. rewrite lex_chars_S, H, E. f_equal.
  apply lex_cs_fuel. apply m_token_len in E. simpl in *. lia.
Qed.

Lemma lex_cs_tok' l t r :
  m_token l = Some (t, r) -> match l with c :: _ => is_ignore c || is_nl c = false | [] => False end ->
  lex_cs l = t :: lex_cs r.
Proof. destruct l as [|c l]; intros E H; [contradiction|]. apply lex_cs_tok; assumption. Qed.

(* ------------------------------------------------------------------ separators, reads, lexable *)
(* first characters of the binary operators and of NOT / IN *)
Definition op_chars : chars := ["O"; "A"; "="; "!"; "<"; ">"; "+"; "-"; "*"; "/"; "%"; "N"; "I"].
Definition op_start (c : ascii) : Prop := In c op_chars.

(* what follows an operand in show's output: end of input, ")", ",", or " " and the first character of an operator *)
Inductive sep : chars -> Prop :=
  | sep_nil : sep []
  | sep_rp r : sep (")" :: r)
  | sep_comma r : sep ("," :: r)
  | sep_sp c r : op_start c -> sep (" " :: c :: r).

(* txt is read as exactly toks whenever a separator follows *)
Definition reads (txt : chars) (toks : list token) : Prop :=
  forall rest, sep rest -> lex_cs (txt ++ rest) = toks ++ lex_cs rest.
(* a function name directly followed by "(" *)
Definition reads_name (f : string) : Prop :=
  forall rest, lex_cs (cs f ++ "(" :: rest) = TId f :: TLP :: lex_cs rest.

Definition all_p {A} (P : A -> Prop) : list A -> Prop :=
  fix go (l : list A) : Prop := match l with [] => True | x :: r => P x /\ go r end.

Lemma all_p_Forall {A} (P : A -> Prop) l : all_p P l <-> Forall P l.
Proof.
  induction l as [|x r IH]; simpl; split; intros H; auto.
  - destruct H; constructor; tauto.
  - inversion H; subst; tauto.
Qed.

(* every Range has no stride or a stride >= 1 (the lexer's stride group is [1-9]\d*; a zero stride prints as no stride) *)
Fixpoint range_ok (t : tree) : bool :=
  match t with
  | Range _ _ st => match st with None => true | Some s => Z.leb 1 s end
  | Num _ | Str _ | Time _ | Ident _ | Bind _ => true
  | Unary _ x => range_ok x
  | Binary l _ r => range_ok l && range_ok r
  | IsIn l vs _ => range_ok l && forallb range_ok vs
  | Parens x => range_ok x
  | Tuple a b | Point a b => range_ok a && range_ok b
  | Call _ args => forallb range_ok args
  end.

Section Lexable.
  Variable fixed : bool.
  Variable tshow : string -> string.

  Fixpoint lexable (t : tree) : Prop :=
    match t with
    | Num _ | Str _ | Time _ | Ident _ | Bind _ => reads (show_g fixed tshow t) (print_g fixed tshow t)
    | Range _ _ _ => True
    | Unary _ x => lexable x
    | Binary l _ r => lexable l /\ lexable r
    | IsIn l vs _ => lexable l /\ all_p lexable vs
    | Parens x => lexable x
    | Tuple a b | Point a b => lexable a /\ lexable b
    | Call f args => reads_name f /\ all_p lexable args
    end.
End Lexable.

(* ------------------------------------------------------------------ fixed texts: operators, keywords, punctuation *)
Lemma m_time_none c l : Ascii.eqb c "T" || Ascii.eqb c "t" = false -> m_time (c :: l) = None.
Proof.
  intros H. unfold m_time. destruct l as [|q l]; [reflexivity|]. bits q; try reflexivity. rewrite H. reflexivity.
Qed.

Lemma m_string_none c l : Ascii.eqb c "'" = false -> m_string (c :: l) = None.
Proof. intros H. unfold m_string. bits c; try reflexivity. discriminate H. Qed.

Lemma m_token_lp l : m_token ("(" :: l) = Some (TLP, l).
Proof. unfold m_token. rewrite m_time_none by reflexivity. reflexivity. Qed.
Lemma m_token_rp l : m_token (")" :: l) = Some (TRP, l).
Proof. unfold m_token. rewrite m_time_none by reflexivity. reflexivity. Qed.
Lemma m_token_comma l : m_token ("," :: l) = Some (TCOMMA, l).
Proof. unfold m_token. rewrite m_time_none by reflexivity. reflexivity. Qed.

Lemma lex_lp l : lex_cs ("(" :: l) = TLP :: lex_cs l.
Proof. apply lex_cs_tok; [reflexivity|apply m_token_lp]. Qed.
Lemma lex_rp l : lex_cs (")" :: l) = TRP :: lex_cs l.
Proof. apply lex_cs_tok; [reflexivity|apply m_token_rp]. Qed.
Lemma lex_comma l : lex_cs ("," :: l) = TCOMMA :: lex_cs l.
Proof. apply lex_cs_tok; [reflexivity|apply m_token_comma]. Qed.

Lemma m_token_bop o l : m_token (bop_text o ++ " " :: l) = Some (bop_token o, " " :: l).
Proof. destruct o; reflexivity. Qed.
Lemma m_token_uop o l : m_token (uop_text o ++ " " :: l) = Some (uop_token o, " " :: l).
Proof. destruct o; reflexivity. Qed.

Lemma lex_bop o l : lex_cs (bop_text o ++ " " :: l) = bop_token o :: lex_cs l.
Proof.
  rewrite (lex_cs_tok' _ _ _ (m_token_bop o l)); [rewrite lex_cs_sp; reflexivity|destruct o; reflexivity].
Qed.
Lemma lex_uop o l : lex_cs (uop_text o ++ " " :: l) = uop_token o :: lex_cs l.
Proof.
  rewrite (lex_cs_tok' _ _ _ (m_token_uop o l)); [rewrite lex_cs_sp; reflexivity|destruct o; reflexivity].
Qed.
Lemma lex_not l : lex_cs (cs "NOT " ++ l) = TNOT :: lex_cs l.
Proof. exact (lex_uop UNot l). Qed.
Lemma lex_in l : lex_cs (cs "IN (" ++ l) = TIN :: TLP :: lex_cs l.
Proof.
  change (cs "IN (" ++ l) with ("I" :: "N" :: " " :: "(" :: l).
  rewrite (lex_cs_tok "I" _ TIN (" " :: "(" :: l)); [|reflexivity|reflexivity].
  rewrite lex_cs_sp, lex_lp. reflexivity.
Qed.
Lemma lex_point l : lex_cs (cs "POINT(" ++ l) = TId "POINT" :: TLP :: lex_cs l.
Proof.
  change (cs "POINT(" ++ l) with ("P" :: "O" :: "I" :: "N" :: "T" :: "(" :: l).
  rewrite (lex_cs_tok "P" _ (TId "POINT") ("(" :: l)); [|reflexivity|reflexivity].
  rewrite lex_lp. reflexivity.
Qed.

Lemma sep_bop o l : sep (" " :: bop_text o ++ l).
Proof. destruct o; apply sep_sp; unfold op_start; simpl; tauto. Qed.

(* ------------------------------------------------------------------ the decimal printer *)
Lemma cn_mk m : (m < 10)%N -> cn (ascii_of_N (48 + m)) = (48 + m)%N.
Proof. intros H. unfold cn. apply N_ascii_embedding. lia. Qed.

Lemma is_digit_mk m : (m < 10)%N -> is_digit (ascii_of_N (48 + m)) = true.
Proof.
  intros H. unfold is_digit, in_range. rewrite (cn_mk m H). apply andb_true_iff. split; apply N.leb_le; lia.
Qed.

Lemma digit_val_mk m : (m < 10)%N -> digit_val (ascii_of_N (48 + m)) = Z.of_N m.
Proof. intros H. unfold digit_val. rewrite (cn_mk m H). f_equal. lia. Qed.

Lemma dv_fold ds : forall x,
  fold_left (fun acc c => (acc * 10 + digit_val c)%Z) ds x = (x * 10 ^ Z.of_nat (List.length ds) + digits_val ds)%Z.
Proof.
  induction ds as [|d ds IH]; intros x.
  - unfold digits_val. simpl. lia.
  - unfold digits_val. cbn [fold_left List.length]. rewrite (IH (x * 10 + digit_val d)%Z), (IH (0 * 10 + digit_val d)%Z).
    rewrite Nat2Z.inj_succ, Z.pow_succ_r by lia. ring.
Qed.

Lemma dv_cons d acc : digits_val (d :: acc) = (digit_val d * 10 ^ Z.of_nat (List.length acc) + digits_val acc)%Z.
Proof. unfold digits_val at 1. cbn [fold_left]. rewrite dv_fold. ring. Qed.

Lemma pow10_S f : (10 ^ N.of_nat (S f) = 10 * 10 ^ N.of_nat f)%N.
Proof. rewrite Nat2N.inj_succ, N.pow_succ_r'. reflexivity. Qed.

Lemma n_digits_val : forall f n acc, (n < 10 ^ N.of_nat f)%N ->
  digits_val (n_digits f n acc) = (Z.of_N n * 10 ^ Z.of_nat (List.length acc) + digits_val acc)%Z.
Proof.
  induction f as [|f IH]; intros n acc H.
  - change (N.of_nat 0) with 0%N in H. rewrite N.pow_0_r in H. assert (n = 0%N) by lia. subst. simpl. lia.
  - cbn [n_digits]. pose proof (N.mod_lt n 10 ltac:(lia)) as M. destruct (N.ltb_spec n 10) as [L|L].
    + rewrite dv_cons, (digit_val_mk _ M), N.mod_small by exact L. reflexivity.
    + rewrite IH.
      * rewrite dv_cons, (digit_val_mk _ M). cbn [List.length]. rewrite Nat2Z.inj_succ, Z.pow_succ_r by lia.
        pose proof (N.div_mod n 10 ltac:(lia)) as D.
        assert (E : Z.of_N n = (10 * Z.of_N (n / 10) + Z.of_N (n mod 10))%Z) by lia.
        rewrite E. ring.
      * rewrite pow10_S in H. apply N.div_lt_upper_bound; lia.
Qed.

(* the leading digit of a positive number is not "0", all characters are digits *)
Lemma n_digits_head : forall f n acc, (0 < n < 10 ^ N.of_nat f)%N -> forallb is_digit acc = true ->
  exists c tl, n_digits f n acc = c :: tl /\ is_digit c = true /\ c <> "0" /\ forallb is_digit tl = true.
Proof.
  induction f as [|f IH]; intros n acc [H0 H1] A.
  - change (N.of_nat 0) with 0%N in H1. rewrite N.pow_0_r in H1. lia.
  - cbn [n_digits]. pose proof (N.mod_lt n 10 ltac:(lia)) as M. destruct (N.ltb_spec n 10) as [L|L].
    + eexists; eexists; split; [reflexivity|]. split; [apply is_digit_mk; exact M|]. split; [|exact A].
      intros E. apply (f_equal cn) in E. rewrite (cn_mk _ M), N.mod_small in E by exact L.
      change (cn "0") with 48%N in E. lia.
    + apply IH.
      * split; [apply N.div_str_pos; lia|]. rewrite pow10_S in H1. apply N.div_lt_upper_bound; lia.
      * cbn [forallb]. rewrite (is_digit_mk _ M), A. reflexivity.
Qed.

Lemma show_N_fuel n : (n < 10 ^ N.of_nat (S (N.to_nat (N.log2 n))))%N.
Proof.
  destruct n as [|p]; [vm_compute; reflexivity|].
  rewrite Nat2N.inj_succ, N2Nat.id.
  pose proof (N.log2_spec (Npos p) ltac:(lia)) as [_ H].
  eapply N.lt_le_trans; [exact H|]. apply N.pow_le_mono_l. lia.
Qed.

Lemma show_pos p : exists c tl, show_N (Npos p) = c :: tl /\ is_digit c = true /\ c <> "0" /\
  forallb is_digit tl = true /\ digits_val (c :: tl) = Zpos p.
Proof.
  pose proof (show_N_fuel (Npos p)) as F.
  assert (P0 : (0 < Npos p)%N) by lia.
  destruct (n_digits_head _ (Npos p) [] (conj P0 F) eq_refl) as (c & tl & E & D & NZ & A).
  exists c, tl. unfold show_N. rewrite E. repeat split; auto.
  rewrite <- E, (n_digits_val _ _ [] F). simpl. lia.
Qed.

Lemma show_N_val n : digits_val (show_N n) = Z.of_N n.
Proof.
  unfold show_N. rewrite (n_digits_val _ _ [] (show_N_fuel n)).
  change (digits_val []) with 0%Z. change (Z.of_nat (List.length (@nil ascii))) with 0%Z. rewrite Z.pow_0_r. lia.
Qed.

Definition numlike (c : ascii) : Prop := c = "-" \/ is_digit c = true.

Lemma show_Z_head z : exists c tl, show_Z z = c :: tl /\ numlike c.
Proof.
  destruct z as [|p|p]; simpl.
  - eexists; eexists; split; [reflexivity|right; reflexivity].
  - destruct (show_pos p) as (c & tl & E & D & _). exists c, tl. split; [exact E|right; exact D].
  - eexists; eexists; split; [reflexivity|left; reflexivity].
Qed.

(* the decimal printer lemma: the integer matcher reads back what show_Z wrote *)
Lemma m_int_show_Z z r : not_digit_next r -> m_int (show_Z z ++ r) = Some (z, r).
Proof.
  intros N. destruct z as [|p|p]; simpl show_Z.
  - destruct (m_int_value ["0"] r) as [E _]; auto. discriminate.
  - destruct (show_pos p) as (c & tl & E & D & _ & A & V). rewrite E.
    destruct (m_int_value (c :: tl) r) as [E1 _]; auto; [discriminate|simpl; rewrite D, A; reflexivity|].
    rewrite E1, V. reflexivity.
  - destruct (show_pos p) as (c & tl & E & D & _ & A & V). rewrite E.
    destruct (m_int_value (c :: tl) r) as [_ E1]; auto; [discriminate|simpl; rewrite D, A; reflexivity|].
    change (("-" :: c :: tl) ++ r) with ("-" :: (c :: tl) ++ r). rewrite E1, V. reflexivity.
Qed.

(* ------------------------------------------------------------------ range literals need no hypothesis *)
Lemma numlike_not_T c : numlike c -> Ascii.eqb c "T" || Ascii.eqb c "t" = false.
Proof. intros [->|D]; [reflexivity|]. bits c; try reflexivity; discriminate D. Qed.
Lemma numlike_not_quote c : numlike c -> Ascii.eqb c "'" = false.
Proof. intros [->|D]; [reflexivity|]. bits c; try reflexivity; discriminate D. Qed.
Lemma numlike_not_space c : numlike c -> is_space c = false.
Proof. intros [->|D]; [reflexivity|]. bits c; try reflexivity; discriminate D. Qed.
Lemma numlike_not_ws c : numlike c -> is_ignore c || is_nl c = false.
Proof. intros [->|D]; [reflexivity|]. bits c; try reflexivity; discriminate D. Qed.

Lemma skip_space_ns c l : is_space c = false -> skip_space (c :: l) = c :: l.
Proof. intros H. unfold skip_space. simpl. rewrite H. reflexivity. Qed.

Lemma m_token_of_range c l x : numlike c -> m_range (c :: l) = Some x -> m_token (c :: l) = Some x.
Proof.
  intros Hc E. unfold m_token.
  rewrite (m_time_none c l (numlike_not_T c Hc)), (m_string_none c l (numlike_not_quote c Hc)), E. reflexivity.
Qed.

Lemma m_range_eq l a r1 r2 b r3 :
  m_int l = Some (a, r1) -> skip_space r1 = "." :: "." :: r2 -> m_int (skip_space r2) = Some (b, r3) ->
  m_range l = let '(st, r4) := m_stride r3 in Some (TRange a b st, r4).
Proof. intros E1 E2 E3. unfold m_range. rewrite E1, E2, E3. reflexivity. Qed.

Lemma sep_not_digit rest : sep rest -> not_digit_next rest.
Proof. intros S. inversion S; simpl; auto. Qed.

Lemma m_stride_sep rest : sep rest -> m_stride rest = (None, rest).
Proof.
  intros S. inversion S as [| | |c r H]; subst; try reflexivity.
  unfold op_start, op_chars in H. simpl in H.
  repeat (destruct H as [<-|H]; [reflexivity|]). contradiction.
Qed.

Lemma m_stride_some c tl rest : is_digit c = true -> c <> "0" -> forallb is_digit tl = true -> not_digit_next rest ->
  m_stride (":" :: c :: tl ++ rest) = (Some (digits_val (c :: tl)), rest).
Proof.
  intros D NZ A N. unfold m_stride. rewrite (skip_space_ns ":") by reflexivity. cbv iota beta.
  rewrite (skip_space_ns c) by (apply numlike_not_space; right; exact D).
  rewrite D. destruct (Ascii.eqb_spec c "0") as [->|_]; [congruence|]. simpl negb. cbv iota beta.
  rewrite (span_all is_digit tl rest A N). reflexivity.
Qed.

Lemma m_token_show_range fixed tshow a b st rest :
  sep rest -> match st with None => True | Some s => (1 <= s)%Z end ->
  m_token (show_g fixed tshow (Range a b st) ++ rest) = Some (TRange a b st, rest) /\
  match show_g fixed tshow (Range a b st) ++ rest with c :: _ => is_ignore c || is_nl c = false | [] => False end.
Proof.
  intros S Hst. cbn [show_g]. rewrite <- app_assoc. cbn [app]. rewrite <- app_assoc.
  set (tail := match st with Some s => if Z.eqb s 0 then [] else ":" :: show_Z s | None => [] end ++ rest).
  destruct (show_Z_head a) as (c & tl & Ea & Hc).
  destruct (show_Z_head b) as (c' & tl' & Eb & Hc').
  assert (ND : not_digit_next tail /\ m_stride tail = (st, rest)).
  { unfold tail. destruct st as [s|].
    - destruct s as [|p|p]; try lia. cbn [Z.eqb show_Z].
      destruct (show_pos p) as (d & ds & E & D & NZ & A & V). rewrite E. cbn [app]. split; [reflexivity|].
      rewrite (m_stride_some d ds rest D NZ A (sep_not_digit _ S)), V. reflexivity.
    - cbn [app]. split; [apply sep_not_digit; exact S|apply m_stride_sep; exact S]. }
  destruct ND as [ND ST].
  assert (R : m_range (show_Z a ++ "." :: "." :: show_Z b ++ tail) = Some (TRange a b st, rest)).
  { rewrite (m_range_eq _ a ("." :: "." :: show_Z b ++ tail) (show_Z b ++ tail) b tail).
    - rewrite ST. reflexivity.
    - apply m_int_show_Z. reflexivity.
    - apply skip_space_ns. reflexivity.
    - replace (skip_space (show_Z b ++ tail)) with (show_Z b ++ tail)
        by (rewrite Eb; cbn [app]; symmetry; apply skip_space_ns, numlike_not_space; exact Hc').
      apply m_int_show_Z. exact ND. }
  rewrite Ea in *. cbn [app] in *. split; [apply m_token_of_range; assumption|apply numlike_not_ws; exact Hc].
Qed.

Lemma reads_range fixed tshow a b st :
  match st with None => True | Some s => (1 <= s)%Z end ->
  reads (show_g fixed tshow (Range a b st)) [TRange a b st].
Proof.
  intros Hst rest S. destruct (m_token_show_range fixed tshow a b st rest S Hst) as [E W].
  rewrite (lex_cs_tok' _ _ _ E W). reflexivity.
Qed.

(* ------------------------------------------------------------------ LAYER 1: the compositional theorem *)
Ltac norm := repeat (first [rewrite <- app_assoc | progress (cbn [app])]).

Section LexShow.
  Variable fixed : bool.
  Variable tshow : string -> string.
  Notation sh := (show_g fixed tshow).
  Notation pr := (print_g fixed tshow).
  Notation lx := (lexable fixed tshow).

  Definition lex_ok (t : tree) : Prop :=
    lx t -> range_ok t = true -> forall rest, sep rest -> lex_cs (sh t ++ rest) = pr t ++ lex_cs rest.

  (* "v1, v2, ...)" *)
  Lemma lex_list vs : Forall lex_ok vs -> all_p lx vs -> forallb range_ok vs = true ->
    forall rest, lex_cs (join_cs (map sh vs) ++ ")" :: rest) = sep_by [TCOMMA] (map pr vs) ++ TRP :: lex_cs rest.
  Proof.
    induction 1 as [|x r Hx Hr IH]; intros L R rest.
    - simpl. apply lex_rp.
    - destruct L as [Lx Lr]. cbn [forallb] in R. apply andb_true_iff in R. destruct R as [Rx Rr].
      destruct r as [|y r'].
      + cbn [map join_cs sep_by]. rewrite (Hx Lx Rx _ (sep_rp rest)), lex_rp. reflexivity.
      + change (join_cs (map sh (x :: y :: r'))) with (sh x ++ "," :: " " :: join_cs (map sh (y :: r'))).
        change (sep_by [TCOMMA] (map pr (x :: y :: r'))) with (pr x ++ [TCOMMA] ++ sep_by [TCOMMA] (map pr (y :: r'))).
        norm. rewrite (Hx Lx Rx _ (sep_comma _)), lex_comma, lex_cs_sp, (IH Lr Rr rest). reflexivity.
  Qed.

  Theorem lex_show_p : forall t, lx t -> range_ok t = true ->
    forall rest, sep rest -> lex_cs (sh t ++ rest) = pr t ++ lex_cs rest.
  Proof.
    intros t. change (lex_ok t). induction t using tree_ind2; unfold lex_ok; intros L R rest S.
    - exact (L rest S).
    - exact (L rest S).
    - exact (L rest S).
    - apply reads_range; [|exact S]. simpl in R. destruct st as [s0|]; [apply Z.leb_le; exact R|exact I].
    - exact (L rest S).
    - exact (L rest S).
    - cbn [show_g print_g lexable range_ok] in *. norm. rewrite lex_uop, (IHt L R rest S). reflexivity.
    - cbn [show_g print_g lexable range_ok] in *. destruct L as [L1 L2]. apply andb_true_iff in R. destruct R as [R1 R2].
      norm. rewrite (IHt1 L1 R1 _ (sep_bop _ _)), lex_cs_sp, lex_bop, (IHt2 L2 R2 rest S). reflexivity.
    - cbn [show_g print_g lexable range_ok] in *. destruct L as [L1 L2]. apply andb_true_iff in R. destruct R as [R1 R2].
      norm. rewrite IHt; [|exact L1|exact R1|destruct neg; apply sep_sp; unfold op_start; simpl; tauto].
      rewrite lex_cs_sp. f_equal. destruct neg; cbn [app].
      + rewrite lex_not, lex_in, (lex_list vs H L2 R2 rest). reflexivity.
      + rewrite lex_in, (lex_list vs H L2 R2 rest). reflexivity.
    - cbn [show_g print_g lexable range_ok] in *. norm.
      rewrite lex_lp, (IHt L R _ (sep_rp rest)), lex_rp. reflexivity.
    - cbn [show_g print_g lexable range_ok] in *. destruct L as [L1 L2]. apply andb_true_iff in R. destruct R as [R1 R2].
      norm. rewrite lex_lp, (IHt1 L1 R1 _ (sep_comma _)), lex_comma, lex_cs_sp, (IHt2 L2 R2 _ (sep_rp rest)), lex_rp.
      reflexivity.
    - cbn [show_g print_g lexable range_ok] in *. destruct L as [L1 L2]. apply andb_true_iff in R. destruct R as [R1 R2].
      norm. rewrite lex_point, (IHt1 L1 R1 _ (sep_comma _)), lex_comma, lex_cs_sp, (IHt2 L2 R2 _ (sep_rp rest)), lex_rp.
      reflexivity.
    - cbn [show_g print_g lexable range_ok] in *. destruct L as [L1 L2].
      norm. rewrite (L1 _), (lex_list args H L2 R rest). reflexivity.
  Qed.

  Corollary lex_show_top : forall t, lx t -> range_ok t = true -> lex_cs (sh t) = pr t.
  Proof.
    intros t L R. pose proof (lex_show_p t L R [] sep_nil) as H. rewrite !app_nil_r in H. exact H.
  Qed.

  Corollary lex_show_string : forall t, lx t -> range_ok t = true ->
    lex (string_of_list_ascii (sh t)) = pr t.
  Proof.
    intros t L R. unfold lex. rewrite list_ascii_of_string_of_list_ascii. exact (lex_show_top t L R).
  Qed.
End LexShow.
