(* C18 (extension) -- names(delimiter=d) x []: the positive theorem for an EXPLICIT delimiter, where keys may contain
   the delimiter and are escaped (`\d`), un-escaped again by _splitIntoKeys through the "\r" placeholder. *)
From Coq Require Import ZArith NArith List Bool Lia.
From V Require Import Model.ConfigKey Proofs.ConfigKeyProofs Proofs.ConfigKeyProofsB.
Import ListNotations.
Open Scope N_scope.

(* ---------- small facts about replace2 / infixb ---------- *)
Definition hd_is (d : N) (s : str) : bool := match s with y :: _ => y =? d | [] => false end.

Lemma replace2_hit : forall a b t r, replace2 a b t (a :: b :: r) = t :: replace2 a b t r.
Proof. intros. simpl. rewrite !N.eqb_refl. reflexivity. Qed.
Lemma replace2_skip : forall a b t x tl, (x =? a) = false \/ hd_is b tl = false ->
  replace2 a b t (x :: tl) = x :: replace2 a b t tl.
Proof.
  intros a b t x tl H. destruct tl as [|y r]; [reflexivity|]. simpl in *.
  destruct H as [H|H]; rewrite H; rewrite ?andb_false_r; reflexivity.
Qed.
Lemma infixb3_cons : forall a b c x s,
  infixb [a; b; c] (x :: s) = ((a =? x) && match s with y :: t => (b =? y) && hd_is c t | [] => false end) || infixb [a; b; c] s.
Proof.
  intros. simpl. destruct s as [|y [|z t]]; simpl; rewrite ?andb_false_r, ?andb_true_r; try reflexivity.
  rewrite (N.eqb_sym z c). reflexivity.
Qed.
Lemma infixb2_app_r : forall a b x y, infixb [a; b] y = true -> infixb [a; b] (x ++ y) = true.
Proof.
  induction x as [|c x IH]; intros y H; [exact H|]. simpl app. rewrite infixb2_cons, (IH y H). apply orb_true_r.
Qed.
Lemma memc_app : forall c a b, memc c (a ++ b) = memc c a || memc c b.
Proof. intros. unfold memc. apply existsb_app. Qed.

Section Explicit.
  Variable d : N.
  Hypothesis d_not_bs : d <> BS.
  Hypothesis d_not_cr : d <> CR.

  Let Ebs : (BS =? d) = false. Proof. apply N.eqb_neq. congruence. Qed.
  Let Edb : (d =? BS) = false. Proof. apply N.eqb_neq. congruence. Qed.
  Let Ecr : (d =? CR) = false. Proof. apply N.eqb_neq. congruence. Qed.
  Let Ecd : (CR =? d) = false. Proof. apply N.eqb_neq. congruence. Qed.

  (* the key with every delimiter replaced by the placeholder: what replace + split see *)
  Definition sub (s : str) : str := map (fun c => if c =? d then CR else c) s.

  Lemma esc_cons : forall c s, esc d (c :: s) = (if c =? d then [BS; d] else [c]) ++ esc d s.
  Proof. reflexivity. Qed.

  (* the first character of an escaped non-empty key is never the bare delimiter *)
  Lemma head_not_d : forall s rest, s <> [] -> hd_is d (esc d s ++ rest) = false.
  Proof.
    intros [|x s] rest H; [congruence|]. rewrite esc_cons. destruct (x =? d) eqn:E; simpl; [exact Ebs | exact E].
  Qed.
  Lemma ends_bs_cons : forall c s, s <> [] -> ends_bs (c :: s) = ends_bs s.
  Proof. intros c [|x s] H; [congruence | reflexivity]. Qed.

  (* str.replace("\\d", "\r") on an escaped key followed by anything that does not start with the delimiter
     (or on a key that does not end in a backslash) *)
  Lemma replace_esc : forall s rest, (ends_bs s = true -> hd_is d rest = false) ->
    replace2 BS d CR (esc d s ++ rest) = sub s ++ replace2 BS d CR rest.
  Proof.
    induction s as [|c s IH]; intros rest He; [reflexivity|].
    assert (He' : ends_bs s = true -> hd_is d rest = false).
    { intros H. apply He. destruct s; [discriminate | exact H]. }
    rewrite esc_cons. simpl sub. destruct (c =? d) eqn:E.
    - simpl app. rewrite replace2_hit, (IH rest He'). reflexivity.
    - simpl app. rewrite replace2_skip, (IH rest He'); [reflexivity|].
      destruct s as [|x s'].
      + simpl app. destruct (c =? BS) eqn:Ec; [right | left; reflexivity].
        apply He. simpl. exact Ec.
      + right. apply head_not_d. discriminate.
  Qed.

  Lemma join_cons2 : forall (f : str -> str) k k2 r,
    join d (map f (k :: k2 :: r)) = f k ++ d :: join d (map f (k2 :: r)).
  Proof. reflexivity. Qed.

  Lemma replace_join : forall ks, nonlast_ok ks = true ->
    replace2 BS d CR (join d (map (esc d) ks)) = join d (map sub ks).
  Proof.
    induction ks as [|k r IH]; intros Hn; [reflexivity|]. destruct r as [|k2 r'].
    - simpl. rewrite <- (app_nil_r (esc d k)). rewrite replace_esc; [simpl; apply app_nil_r | reflexivity].
    - change (nonlast_ok (k :: k2 :: r')) with (negb (ends_bs k) && nonlast_ok (k2 :: r')) in Hn.
      apply andb_true_iff in Hn as [Hn1 Hn2]. apply negb_true_iff in Hn1.
      rewrite !join_cons2. rewrite replace_esc by (rewrite Hn1; discriminate).
      rewrite replace2_skip by (left; exact Edb). rewrite (IH Hn2). reflexivity.
  Qed.

  Lemma memc_sub : forall s, memc d (sub s) = false.
  Proof.
    induction s as [|c s IH]; [reflexivity|]. unfold memc in *. simpl. rewrite IH.
    destruct (c =? d) eqn:E; [rewrite Ecr | rewrite N.eqb_sym, E]; reflexivity.
  Qed.
  Lemma unesc_sub : forall s, memc CR s = false -> unesc d (sub s) = s.
  Proof.
    induction s as [|c s IH]; intros H; [reflexivity|]. apply memc_cons_false in H as [H1 H2].
    simpl. rewrite (IH H2). destruct (c =? d) eqn:E.
    - rewrite N.eqb_refl. apply N.eqb_eq in E. subst. reflexivity.
    - rewrite H1. reflexivity.
  Qed.

  (* no "\\d" (escaping an escaped delimiter) in the name *)
  Lemma no_bsbsd_esc : forall s rest, infixb [BS; d] s = false -> (ends_bs s = true -> rest = []) ->
    infixb [BS; BS; d] (esc d s ++ rest) = infixb [BS; BS; d] rest.
  Proof.
    induction s as [|c s IH]; intros rest Hi He; [reflexivity|].
    rewrite infixb2_cons in Hi. apply orb_false_iff in Hi as [Hi1 Hi2].
    assert (He' : ends_bs s = true -> rest = []).
    { intros H. apply He. destruct s; [discriminate | exact H]. }
    rewrite esc_cons. destruct (c =? d) eqn:E.
    - simpl app. rewrite infixb3_cons. rewrite Ebs, andb_false_l, andb_false_r, orb_false_l.
      rewrite infixb3_cons, Ebs, andb_false_l, orb_false_l. apply IH; assumption.
    - simpl app. rewrite infixb3_cons, (IH rest Hi2 He').
      destruct (BS =? c) eqn:Ec; [|reflexivity]. apply N.eqb_eq in Ec. subst c.
      rewrite andb_true_l in Hi1. rewrite andb_true_l.
      destruct s as [|x s'].
      + rewrite (He eq_refl). reflexivity.
      + rewrite esc_cons. rewrite (N.eqb_sym x d), Hi1. simpl app. cbv iota.
        destruct (BS =? x) eqn:Ex; [|reflexivity]. apply N.eqb_eq in Ex. subst x.
        destruct s' as [|y s''].
        * rewrite (He eq_refl). reflexivity.
        * rewrite head_not_d by discriminate. reflexivity.
  Qed.
  Lemma no_bsbsd_join : forall ks, Forall (fun s => infixb [BS; d] s = false) ks -> nonlast_ok ks = true ->
    infixb [BS; BS; d] (join d (map (esc d) ks)) = false.
  Proof.
    induction ks as [|k r IH]; intros Hf Hn; [reflexivity|]. inversion Hf; subst. destruct r as [|k2 r'].
    - simpl. rewrite <- (app_nil_r (esc d k)). rewrite no_bsbsd_esc; auto.
    - change (nonlast_ok (k :: k2 :: r')) with (negb (ends_bs k) && nonlast_ok (k2 :: r')) in Hn.
      apply andb_true_iff in Hn as [Hn1 Hn2]. apply negb_true_iff in Hn1.
      rewrite join_cons2. rewrite no_bsbsd_esc by (auto; rewrite Hn1; discriminate).
      rewrite infixb3_cons, Ebs, andb_false_l, orb_false_l. apply IH; assumption.
  Qed.

  (* no "\r" in the name *)
  Lemma memc_cr_esc : forall s, memc CR s = false -> memc CR (esc d s) = false.
  Proof.
    induction s as [|c s IH]; intros H; [reflexivity|]. apply memc_cons_false in H as [H1 H2].
    rewrite esc_cons, memc_app, (IH H2), orb_false_r. destruct (c =? d); unfold memc; cbn [existsb].
    - rewrite Ecd. reflexivity.
    - rewrite (N.eqb_sym CR c), H1. reflexivity.
  Qed.
  Lemma memc_cr_join : forall ks, Forall (fun s => memc CR s = false) ks -> memc CR (join d (map (esc d) ks)) = false.
  Proof.
    induction ks as [|k r IH]; intros Hf; [reflexivity|]. inversion Hf; subst. destruct r as [|k2 r'].
    - simpl. apply memc_cr_esc; assumption.
    - rewrite join_cons2, memc_app, (memc_cr_esc k H1), orb_false_l.
      change (memc CR (d :: join d (map (esc d) (k2 :: r')))) with ((CR =? d) || memc CR (join d (map (esc d) (k2 :: r')))).
      rewrite Ecd, (IH H2). reflexivity.
  Qed.

  (* a key that contains the delimiter puts "\d" into the name *)
  Lemma esc_has_bsd : forall s rest, memc d s = true -> infixb [BS; d] (esc d s ++ rest) = true.
  Proof.
    induction s as [|c s IH]; intros rest H; [discriminate|]. rewrite esc_cons.
    destruct (c =? d) eqn:E.
    - simpl app. rewrite infixb2_cons, !N.eqb_refl. reflexivity.
    - simpl app. rewrite infixb2_cons, IH; [apply orb_true_r|].
      unfold memc in H. simpl in H. rewrite (N.eqb_sym d c), E in H. exact H.
  Qed.
  Lemma join_has_bsd : forall ks, existsb (memc d) ks = true -> infixb [BS; d] (join d (map (esc d) ks)) = true.
  Proof.
    induction ks as [|k r IH]; intros H; [discriminate|]. simpl existsb in H. destruct (memc d k) eqn:Ek.
    - destruct r as [|k2 r']; [simpl; rewrite <- (app_nil_r (esc d k)) | rewrite join_cons2]; apply esc_has_bsd; exact Ek.
    - simpl in H. destruct r as [|k2 r']; [discriminate|]. rewrite join_cons2.
      apply infixb2_app_r. rewrite infixb2_cons, (IH H). apply orb_true_r.
  Qed.

  Definition key_fine (s : str) : Prop := infixb [BS; d] s = false /\ memc CR s = false.

  (* the name of a path splits back into the path: keys may contain the delimiter *)
  Lemma name_split_explicit_p : forall alnum ks, alnum d = false -> ks <> [] ->
    Forall key_fine ks -> nonlast_ok ks = true ->
    split_key alnum (mkname d (map KS ks)) = Ok (map KS ks).
  Proof.
    intros alnum ks Ha Hne Hf Hn.
    destruct (existsb (memc d) ks) eqn:Ex.
    - assert (Hk : mkname d (map KS ks) = d :: join d (map (esc d) ks)).
      { unfold mkname. rewrite map_map. reflexivity. }
      rewrite Hk. unfold split_key. rewrite Ha, (join_has_bsd ks Ex).
      rewrite no_bsbsd_join; [| eapply Forall_impl; [|exact Hf]; intros s [H _]; exact H | exact Hn].
      rewrite memc_cr_join by (eapply Forall_impl; [|exact Hf]; intros s [_ H]; exact H).
      rewrite Ecr. simpl orb. cbv iota.
      rewrite (replace_join ks Hn). rewrite split_join_p.
      + f_equal. rewrite map_map. rewrite <- (map_id ks) at 2. rewrite !map_map.
        apply map_ext_in. intros s Hs. rewrite Forall_forall in Hf. destruct (Hf s Hs) as [_ Hc].
        rewrite unesc_sub by exact Hc. reflexivity.
      + destruct ks; [congruence | discriminate].
      + apply Forall_forall. intros s Hs. apply in_map_iff in Hs as [s0 [E _]]. subst s. apply memc_sub.
    - apply name_split_p; auto.
      apply Forall_forall. intros s Hs. destruct (memc d s) eqn:E; [|reflexivity].
      assert (existsb (memc d) ks = true) by (apply existsb_exists; exists s; auto). congruence.
  Qed.
End Explicit.

(* ---------- the premises of the positive theorem, as decidable checks on the tree ---------- *)
(* every component of every reported key path: no backslash directly before the delimiter, no "\r" *)
Definition xkeys_okb (d : N) (top : list (key * cv)) : bool :=
  forallb (fun p => forallb (fun k => negb (infixb [BS; d] (key_str k)) && negb (memc CR (key_str k))) (fst p))
          (tuples (CDict top)).
(* no reported name is itself a top-level key (the `if name in self._data` shortcut of __getitem__) *)
Definition noshadowb (d : N) (top : list (key * cv)) : bool :=
  forallb (fun p => match dget (KS (fst p)) top with None => true | Some _ => false end) (names_with d top).

Lemma names_retrieve_explicit_p : forall alnum d top l,
  keys_okb (CDict top) = true -> xkeys_okb d top = true -> noshadowb d top = true ->
  d <> BS -> d <> CR -> names_explicit alnum d top = Some l ->
  forall n x, In (n, x) l -> lookup alnum top n = Ok x /\ contains alnum top n = Ok true.
Proof.
  intros alnum d top l Hk Hx Hs Hbs Hcr Hn n x Hin.
  unfold names_explicit in Hn. destruct (alnum d) eqn:Ha; [discriminate|]. inversion Hn; subst l; clear Hn.
  assert (Hg : dget (KS n) top = None).
  { unfold noshadowb in Hs. rewrite forallb_forall in Hs. specialize (Hs _ Hin). simpl in Hs.
    destruct (dget (KS n) top); [discriminate | reflexivity]. }
  unfold names_with in Hin. apply in_map_iff in Hin as [[t y] [E Hi]]. simpl in E. inversion E; subst n y.
  assert (Hp : path_ok t (CDict top) x) by (apply tuples_path_ok; auto; right; exact Hi).
  assert (Hne : t <> []) by (intro; subst; exact (tuples_nonempty _ _ Hi)).
  rewrite <- mkname_str in Hg |- *.
  assert (Hsp : split_key alnum (mkname d (map KS (map key_str t))) = Ok (map KS (map key_str t))).
  { apply name_split_explicit_p; auto.
    - destruct t; [congruence | discriminate].
    - apply Forall_forall. intros s Hs0. apply in_map_iff in Hs0 as [k [Ek Hk0]]. subst s.
      unfold xkeys_okb in Hx. rewrite forallb_forall in Hx. specialize (Hx _ Hi). simpl in Hx.
      rewrite forallb_forall in Hx. specialize (Hx _ Hk0). apply andb_true_iff in Hx as [H1 H2].
      apply negb_true_iff in H1. apply negb_true_iff in H2. split; assumption.
    - eapply path_nonlast; eauto. }
  pose proof (path_walk _ _ _ Hp) as Hw. rewrite <- map_map in Hw.
  unfold lookup, contains. rewrite Hg, Hsp. unfold walk1.
  destruct t as [|k0 r]; [congruence|]. cbn [map] in *. rewrite Hw. split; reflexivity.
Qed.

(* ---------- the excluded shapes are exactly the failing ones: witnesses ---------- *)
(* Config({"a\r.b": 1}).names(delimiter="."): the reported key raises ValueError ("\r" is the placeholder) *)
Lemma names_explicit_cr_refuted_p :
  exists top l n x, keys_okb (CDict top) = true /\ noshadowb 46 top = true /\
    names_explicit ascii_alnum 46 top = Some l /\ In (n, x) l /\ lookup ascii_alnum top n = Err ValueErr.
Proof.
  exists [(KS [97; 13; 46; 98], CInt 1)], (names_with 46 [(KS [97; 13; 46; 98], CInt 1)]), [46; 97; 13; 92; 46; 98], (CInt 1).
  repeat split; try (vm_compute; reflexivity). vm_compute. left; reflexivity.
Qed.
(* Config({"#": {"a": 1}, "": "v"}).names(delimiter="#"): the name "#" of the empty key is a top-level key; the
   lookup succeeds with the WRONG value *)
Lemma names_explicit_shadow_refuted_p :
  exists top l n x y, keys_okb (CDict top) = true /\ xkeys_okb 35 top = true /\
    names_explicit ascii_alnum 35 top = Some l /\ In (n, x) l /\ lookup ascii_alnum top n = Ok y /\ cv_eqb x y = false.
Proof.
  exists [(KS [35], CDict [(KS [97], CInt 1)]); (KS [], CStr [118])],
         (names_with 35 [(KS [35], CDict [(KS [97], CInt 1)]); (KS [], CStr [118])]),
         [35], (CStr [118]), (CDict [(KS [97], CInt 1)]).
  repeat split; try (vm_compute; reflexivity). vm_compute. right; right; left; reflexivity.
Qed.
