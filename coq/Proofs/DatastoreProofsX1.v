(* C01 extension 1: the refused operation, exactly.

   `refused_noop_partial` (DatastoreProofs2.v) excludes the ingest of a dataset the datastore already holds.
   Here the excluded case is characterised completely: a refused operation either returns the identical state,
   or it is the refused re-ingest and the ONLY change is that the artifact at the path the ingest would have
   written has disappeared (registry, tags, records, in-memory store and `orig` untouched); what that does to
   `get` of every dataset is stated too.  All for ANY codec, size and path function, every datastore kind. *)
From Coq Require Import String Ascii List Bool ZArith NArith Lia.
From V Require Import Model.Template Model.Datastore Proofs.DatastoreProofs Proofs.DatastoreProofs2.
Import ListNotations.
Open Scope string_scope.

Section FactsX1.
  Variable obj : Type.
  Variable bytes : Type.
  Variable enc : N -> obj -> bytes.
  Variable dec : N -> bytes -> option obj.
  Variable size : bytes -> Z.
  Variable path_of : ident -> fresult.
  Variable ext_of : N -> string.

  Notation state := (state obj bytes).
  Notation op := (op obj bytes).
  Notation step := (step obj bytes enc dec size path_of ext_of).
  Notation run := (run obj bytes enc dec size path_of ext_of).
  Notation get := (get obj bytes dec size).
  Notation get_file := (get_file obj bytes dec size).
  Notation get_mem := (get_mem obj bytes).
  Notation has_rec := (has_rec obj bytes).
  Notation held := (held obj bytes).
  Notation reingest := (reingest obj bytes).
  Notation file_path := (file_path path_of ext_of).

  (* the state with the artifact at path p gone, everything else as it was *)
  Definition drop_artifact (s : state) (p : string) : state :=
    mkState (reg s) (tags s) (recs s) (adel String.eqb (fs s) p) (mem s) (orig s).

  (* the record of dataset id points at path p *)
  Definition uses_path (s : state) (id : N) (p : string) : bool :=
    match aget N.eqb (recs s) id with Some r => String.eqb (r_path r) p | None => false end.

  (* EXACT effect of a refused operation *)
  Lemma refused_exact_p : forall c s x s' e,
    step c s x = (s', Refused e) ->
    s' = s
    \/ exists mv id i b p,
         x = Ingest obj bytes mv id i b /\ has_rec s id = true /\ c_kind c <> KMem
         /\ file_path i (c_fmt c) = FOk p /\ e = Conflict /\ s' = drop_artifact s p.
  Proof.
    intros c s x s' e H.
    destruct x as [k j o|mv k j b|src k|tag k|tag k|purge ids];
      try (left; eapply (refused_noop_partial_p obj bytes enc dec size path_of ext_of); [exact H|reflexivity]).
    destruct (aget N.eqb (recs s) k) as [r0|] eqn:Er.
    2:{ left. eapply (refused_noop_partial_p obj bytes enc dec size path_of ext_of); [exact H|].
        cbn [Datastore.reingest]. rewrite Er. reflexivity. }
    cbn [Datastore.step] in H. rewrite Er in H.
    destruct (import_reg (reg s) k j) as [reg'|]; [|inversion H; left; reflexivity].
    destruct (c_kind c) eqn:Ek; [|inversion H; left; reflexivity|];
      (destruct (file_path j (c_fmt c)) as [p| |] eqn:Ep; inversion H; subst;
       [right; exists mv, k, j, b, p; unfold Datastore.has_rec; rewrite Er;
        repeat split; try reflexivity; try discriminate; exact Ep
       |left; reflexivity|left; reflexivity]).
  Qed.

  (* what the lost artifact means for every dataset of the repository *)
  Lemma drop_artifact_get_file : forall s p id,
    get_file (drop_artifact s p) id = if uses_path s id p then Fail NotFound else get_file s id.
  Proof.
    intros s p id. unfold Datastore.get_file, uses_path, drop_artifact. cbn [recs fs].
    destruct (aget N.eqb (recs s) id) as [r|]; [|reflexivity].
    destruct (String.eqb (r_path r) p) eqn:E.
    - apply String.eqb_eq in E. subst p. rewrite (aget_adel_eq String.eqb). reflexivity.
    - rewrite (aget_adel_neq String.eqb Seqb_spec); [reflexivity|].
      intro Hp. subst p. rewrite String.eqb_refl in E. discriminate.
  Qed.

  Lemma drop_artifact_get : forall c s p id,
    get c (drop_artifact s p) id =
      match c_kind c with
      | KMem => get c s id
      | KFile => if uses_path s id p then Fail NotFound else get c s id
      | KChained => match get_mem s id with
                    | Got o => Got o
                    | Fail _ => if uses_path s id p then Fail NotFound else get c s id
                    end
      end.
  Proof.
    intros c s p id. unfold Datastore.get. destruct (c_kind c).
    - apply drop_artifact_get_file.
    - reflexivity.
    - change (Datastore.get_mem obj bytes (drop_artifact s p) id) with (get_mem s id).
      destruct (get_mem s id) eqn:Em; [reflexivity|]. rewrite drop_artifact_get_file.
      destruct (uses_path s id p); reflexivity.
  Qed.

  (* the refused operation, lifted to full strength: registry identity, tag membership, datastore records,
     in-memory store and the specification field never change; `held` never changes; the artifacts change
     only as stated; a dataset whose record does not point at the lost path reads back as before *)
  Lemma refused_effect_p : forall c s x s' e,
    step c s x = (s', Refused e) ->
    reg s' = reg s /\ tags s' = tags s /\ recs s' = recs s /\ mem s' = mem s /\ orig s' = orig s
    /\ (forall id, held c s' id = held c s id)
    /\ (reingest s x = false -> fs s' = fs s)
    /\ (forall id, get c s' id <> get c s id ->
          exists mv k i b p, x = Ingest obj bytes mv k i b /\ has_rec s k = true
                             /\ file_path i (c_fmt c) = FOk p /\ uses_path s id p = true
                             /\ get_file s' id = Fail NotFound).
  Proof.
    intros c s x s' e H.
    destruct (refused_exact_p c s x s' e H) as [->|[mv [k [i [b [p [-> [Hr [Hk [Hp [-> ->]]]]]]]]]]].
    - repeat split; try reflexivity. intros id Hne. exfalso. apply Hne. reflexivity.
    - repeat split; try reflexivity.
      + intro Hre. cbn [Datastore.reingest] in Hre. unfold Datastore.has_rec in Hr.
        destruct (aget N.eqb (recs s) k); discriminate.
      + intros id Hne. exists mv, k, i, b, p. repeat split; try assumption.
        * rewrite drop_artifact_get in Hne. unfold Datastore.get in Hne.
          destruct (c_kind c); [| exfalso; apply Hne; reflexivity |].
          -- destruct (uses_path s id p); [reflexivity|exfalso; apply Hne; reflexivity].
          -- destruct (get_mem s id); [exfalso; apply Hne; reflexivity|].
             destruct (uses_path s id p); [reflexivity|exfalso; apply Hne; reflexivity].
        * rewrite drop_artifact_get_file.
          rewrite drop_artifact_get in Hne. unfold Datastore.get in Hne.
          destruct (uses_path s id p); [reflexivity|].
          exfalso. apply Hne. destruct (c_kind c); try reflexivity.
          destruct (get_mem s id); reflexivity.
  Qed.

  (* a refused operation aimed at dataset k never changes what ANOTHER dataset reads back as, provided no other
     record shares the path (collision_free) -- this includes the refused re-ingest *)
  Lemma refused_frame_p : forall c s x s' e id,
    step c s x = (s', Refused e) ->
    collision_free obj bytes path_of ext_of c s x = true -> touches obj bytes x id = false ->
    get c s' id = get c s id.
  Proof.
    intros c s x s' e id H Hcf Ht.
    pose proof (frame_put_delete_p obj bytes enc dec size path_of ext_of c s x id Hcf Ht) as [Hg _].
    rewrite H in Hg. exact Hg.
  Qed.

  (* histories: refused operations that are not re-ingests can be erased from any history *)
  Fixpoint erase_refused (c : cfg) (s : state) (h : list op) : list op :=
    match h with
    | [] => []
    | x :: r =>
        match snd (step c s x) with
        | Refused _ => if reingest s x then x :: erase_refused c (fst (step c s x)) r
                       else erase_refused c (fst (step c s x)) r
        | Done => x :: erase_refused c (fst (step c s x)) r
        end
    end.

  Lemma erase_refused_same_p : forall c h s, run c s (erase_refused c s h) = run c s h.
  Proof.
    intros c h. induction h as [|x h IH]; intro s; [reflexivity|].
    cbn [erase_refused]. destruct (step c s x) as [s1 out] eqn:E. cbn [fst snd].
    destruct out as [|e].
    - unfold Datastore.run. cbn [fold_left]. rewrite E. cbn [fst]. apply IH.
    - destruct (reingest s x) eqn:Hre.
      + unfold Datastore.run. cbn [fold_left]. rewrite E. cbn [fst]. apply IH.
      + pose proof (refused_noop_partial_p obj bytes enc dec size path_of ext_of c s x s1 e E Hre) as ->.
        rewrite IH. unfold Datastore.run at 2. cbn [fold_left]. rewrite E. reflexivity.
  Qed.
End FactsX1.
