(* C01 extension 1: refused operations.

   Since commit 2da36a1 the ingest of a dataset the datastore already holds is refused before anything is written,
   so EVERY refused operation returns the identical state (refused_noop_p, DatastoreProofs2.v).  Here: the
   consequences (frame, erasure from histories) and the exact relation between the repaired `step` and the variant
   `step_unfixed` that keeps the destructive behaviour from before the fix: they differ only on the re-ingest, and
   there only by the loss of the artifact at the path the ingest was going to write. *)
From Coq Require Import String Ascii List Bool ZArith NArith Lia.
From V Require Import Model.Template Model.Datastore Proofs.DatastoreProofs Proofs.DatastoreProofs2.
Import ListNotations.
Open Scope string_scope.

Section FactsX1.
  Variable obj : Type.
  Variable bytes : Type.
  Variable enc : N -> obj -> bytes.
  Variable dec : N -> bytes -> option obj.
  Variable size : bytes -> Z.
  Variable path_of : ident -> fresult.
  Variable ext_of : N -> string.

  Notation state := (state obj bytes).
  Notation op := (op obj bytes).
  Notation step := (step obj bytes enc dec size path_of ext_of).
  Notation run := (run obj bytes enc dec size path_of ext_of).
  Notation get := (get obj bytes dec size).
  Notation get_file := (get_file obj bytes dec size).
  Notation get_mem := (get_mem obj bytes).
  Notation has_rec := (has_rec obj bytes).
  Notation held := (held obj bytes).
  Notation reingest := (reingest obj bytes).
  Notation file_path := (file_path path_of ext_of).

  (* the state with the artifact at path p gone, everything else as it was *)
  Definition drop_artifact (s : state) (p : string) : state :=
    mkState (reg s) (tags s) (recs s) (adel String.eqb (fs s) p) (mem s) (orig s).

  (* the record of dataset id points at path p *)
  Definition uses_path (s : state) (id : N) (p : string) : bool :=
    match aget N.eqb (recs s) id with Some r => String.eqb (r_path r) p | None => false end.

  Notation step_unfixed := (step_unfixed obj bytes enc dec size path_of ext_of).

  (* the variant without the fix, exactly: identical to `step` except for the ingest of a dataset already held by a
     file / chained datastore, where the artifact at the target path is lost *)
  Lemma unfixed_exact_p : forall c s x,
    step_unfixed c s x = step c s x
    \/ exists mv id i b p,
         x = Ingest obj bytes mv id i b /\ has_rec s id = true /\ c_kind c <> KMem
         /\ file_path i (c_fmt c) = FOk p /\ step c s x = (s, Refused Conflict)
         /\ step_unfixed c s x = (drop_artifact s p, Refused Conflict).
  Proof.
    intros c s x.
    destruct x as [k j o|mv k j b|src k|tag k|tag k|purge ids]; try (left; reflexivity).
    cbn [Datastore.step_unfixed Datastore.step].
    destruct (import_reg (reg s) k j) as [reg'|]; [|left; reflexivity].
    destruct (c_kind c) eqn:Ek; [|left; reflexivity|];
      (destruct (aget N.eqb (recs s) k) as [r0|] eqn:Er; [|left; reflexivity];
       destruct (file_path j (c_fmt c)) as [p| |] eqn:Ep; [|left; reflexivity|left; reflexivity];
       right; exists mv, k, j, b, p; unfold Datastore.has_rec; rewrite Er;
       split; [reflexivity|split; [reflexivity|split; [discriminate|split; [first [exact Ep|reflexivity]|split; reflexivity]]]]).
  Qed.

  (* what the lost artifact means for every dataset of the repository *)
  Lemma drop_artifact_get_file : forall s p id,
    get_file (drop_artifact s p) id = if uses_path s id p then Fail NotFound else get_file s id.
  Proof.
    intros s p id. unfold Datastore.get_file, uses_path, drop_artifact. cbn [recs fs].
    destruct (aget N.eqb (recs s) id) as [r|]; [|reflexivity].
    destruct (String.eqb (r_path r) p) eqn:E.
    - apply String.eqb_eq in E. subst p. rewrite (aget_adel_eq String.eqb). reflexivity.
    - rewrite (aget_adel_neq String.eqb Seqb_spec); [reflexivity|].
      intro Hp. subst p. rewrite String.eqb_refl in E. discriminate.
  Qed.

  (* a refused operation never changes what ANY dataset reads back as, whether it is held, or the specification field *)
  Lemma refused_frame_p : forall c s x s' e id,
    step c s x = (s', Refused e) ->
    get c s' id = get c s id /\ held c s' id = held c s id /\ aget N.eqb (orig s') id = aget N.eqb (orig s) id.
  Proof.
    intros c s x s' e id H. rewrite (refused_noop_p obj bytes enc dec size path_of ext_of c s x s' e H).
    repeat split; reflexivity.
  Qed.

  (* histories: EVERY refused operation can be erased from any history *)
  Fixpoint erase_refused (c : cfg) (s : state) (h : list op) : list op :=
    match h with
    | [] => []
    | x :: r =>
        match snd (step c s x) with
        | Refused _ => erase_refused c (fst (step c s x)) r
        | Done => x :: erase_refused c (fst (step c s x)) r
        end
    end.

  Lemma erase_refused_same_p : forall c h s, run c s (erase_refused c s h) = run c s h.
  Proof.
    intros c h. induction h as [|x h IH]; intro s; [reflexivity|].
    cbn [erase_refused]. destruct (step c s x) as [s1 out] eqn:E. cbn [fst snd].
    destruct out as [|e].
    - unfold Datastore.run. cbn [fold_left]. rewrite E. cbn [fst]. apply IH.
    - pose proof (refused_noop_p obj bytes enc dec size path_of ext_of c s x s1 e E) as ->.
      rewrite IH. unfold Datastore.run at 2. cbn [fold_left]. rewrite E. reflexivity.
  Qed.

  (* the erased history contains no refused operation any more *)
  Lemma erase_refused_all_done_p : forall c h s,
    forallb (fun b => b) (snd (fold_left (fun (a : state * list bool) x =>
        (fst (step c (fst a) x), (snd a ++ [match snd (step c (fst a) x) with Done => true | Refused _ => false end])%list))
      (erase_refused c s h) (s, []))) = true.
  Proof.
    intros c h s.
    assert (G : forall h s acc, forallb (fun b => b) acc = true ->
              forallb (fun b => b) (snd (fold_left (fun (a : state * list bool) x =>
                (fst (step c (fst a) x), (snd a ++ [match snd (step c (fst a) x) with Done => true | Refused _ => false end])%list))
                (erase_refused c s h) (s, acc))) = true).
    { clear h s. induction h as [|x h IH]; intros s acc Hacc; [exact Hacc|].
      cbn [erase_refused]. destruct (step c s x) as [s1 out] eqn:E. cbn [fst snd].
      destruct out as [|e].
      - cbn [fold_left fst snd]. rewrite E. cbn [fst snd]. apply IH. rewrite forallb_app, Hacc. reflexivity.
      - rewrite (refused_noop_p obj bytes enc dec size path_of ext_of c s x s1 e E). apply IH, Hacc. }
    apply G. reflexivity.
  Qed.
End FactsX1.
