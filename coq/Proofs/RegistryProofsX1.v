(* C02 refinement, part 1: how the row lists of Model/Registry.v refine to the maps of Model/RegistryAbs.v
   (look / dlook commute with cons and with filter), and simulation of the insert / upsert primitives and folds. *)
From Coq Require Import NArith Arith List Bool Lia.
From V Require Import Model.Registry Model.RegistryAbs Proofs.RegistryProofs.
Import ListNotations.
Open Scope N_scope.

Definition meq (m m' : amap) : Prop := forall c t d, m c t d = m' c t d.
Definition deq (f f' : adef) : Prop := forall i, f i = f' i.

Lemma meq_sym : forall m m', meq m m' -> meq m' m.
Proof. intros m m' H c t d; symmetry; apply H. Qed.
Lemma meq_trans : forall m1 m2 m3, meq m1 m2 -> meq m2 m3 -> meq m1 m3.
Proof. intros m1 m2 m3 H1 H2 c t d; rewrite H1; apply H2. Qed.
Lemma deq_sym : forall m m', deq m m' -> deq m' m.
Proof. intros m m' H i; symmetry; apply H. Qed.

Lemma mset_meq : forall m m' r, meq m m' -> meq (mset m r) (mset m' r).
Proof. intros m m' r H c t d; unfold mset. destruct (_ && _); auto. Qed.
Lemma mdrop_meq : forall m m' p p', meq m m' -> (forall c i, p c i = p' c i) -> meq (mdrop m p) (mdrop m' p').
Proof. intros m m' p p' H Hp c t d; unfold mdrop. rewrite H. destruct (m' c t d); auto. rewrite Hp; reflexivity. Qed.
Lemma dset_deq : forall f f' x, deq f f' -> deq (dset f x) (dset f' x).
Proof. intros f f' x H i; unfold dset. destruct (_ =? _); auto. Qed.
Lemma ddrop_deq : forall f f' q q', deq f f' -> (forall i tr, q i tr = q' i tr) -> deq (ddrop f q) (ddrop f' q').
Proof. intros f f' q q' H Hq i; unfold ddrop. rewrite H. destruct (f' i); auto. rewrite Hq; reflexivity. Qed.

(* ---- look ------------------------------------------------------------------------------------------------ *)
Definition kmatch (c t d : N) (x : row) : bool := (r_coll x =? c) && (r_type x =? t) && (r_data x =? d).

Lemma kmatch_true : forall c t d x, kmatch c t d x = true <-> ukey x = (c, t, d).
Proof.
  intros c t d [c' t' d' i]; unfold kmatch, ukey; simpl. rewrite !andb_true_iff, !N.eqb_eq.
  split; [intros [[-> ->] ->]; reflexivity | intros H; inversion H; auto].
Qed.

Lemma look_cons : forall r tg c t d, look (r :: tg) c t d = mset (look tg) r c t d.
Proof.
  intros r tg c t d. unfold look, find, mset; simpl.
  destruct ((r_coll r =? c) && (r_type r =? t) && (r_data r =? d)); reflexivity.
Qed.

Lemma look_none : forall tg c t d, look tg c t d = None <-> ~ In (c, t, d) (map ukey tg).
Proof.
  induction tg as [|a tg IH]; intros c t d.
  - split; [intros _ [] | reflexivity].
  - rewrite look_cons. unfold mset. fold (kmatch c t d a). destruct (kmatch c t d a) eqn:K.
    + apply kmatch_true in K. split; [discriminate | intros H; exfalso; apply H; simpl; auto].
    + rewrite IH. simpl. split; [intros H [F|F]; auto | intros H F; apply H; auto].
      apply kmatch_true in F. congruence.
Qed.

Lemma look_some_in : forall tg c t d i, look tg c t d = Some i -> In (Row c t d i) tg.
Proof.
  induction tg as [|a tg IH]; intros c t d i H; [discriminate|].
  rewrite look_cons in H. unfold mset in H. fold (kmatch c t d a) in H. destruct (kmatch c t d a) eqn:K.
  - apply kmatch_true in K. inversion H; subst. left. destruct a; unfold ukey in K; simpl in *. inversion K; reflexivity.
  - right; auto.
Qed.

Lemma look_in : forall tg c t d i, NoDup (map ukey tg) -> In (Row c t d i) tg -> look tg c t d = Some i.
Proof.
  induction tg as [|a tg IH]; intros c t d i Hn H; [contradiction|].
  inversion Hn as [|? ? Hna Hn']; subst. rewrite look_cons. unfold mset. fold (kmatch c t d a).
  destruct H as [->|H].
  - assert (kmatch c t d (Row c t d i) = true) as -> by (apply kmatch_true; reflexivity). reflexivity.
  - destruct (kmatch c t d a) eqn:K; [|auto].
    apply kmatch_true in K. exfalso. apply Hna. rewrite K. apply in_map_iff. exists (Row c t d i); auto.
Qed.

(* a filter on (collection, dataset id) is a drop on the map -- needs the UNIQUE constraint *)
Lemma look_filter : forall (p : N -> N -> bool) tg, NoDup (map ukey tg) ->
  meq (look (filter (fun x => negb (p (r_coll x) (r_id x))) tg)) (mdrop (look tg) p).
Proof.
  intros p tg; induction tg as [|a tg IH]; intros Hn c t d; [reflexivity|].
  inversion Hn as [|? ? Hna Hn']; subst. specialize (IH Hn' c t d).
  unfold mdrop in *. rewrite look_cons. unfold mset. fold (kmatch c t d a). simpl filter.
  destruct (kmatch c t d a) eqn:K.
  - pose proof K as K'. apply kmatch_true in K'.
    assert (look tg c t d = None) as L by (apply look_none; rewrite <- K'; exact Hna).
    assert (r_coll a = c) as Ec by (unfold ukey in K'; inversion K'; reflexivity).
    rewrite Ec. destruct (p c (r_id a)); simpl.
    + rewrite IH, L. reflexivity.
    + rewrite look_cons. unfold mset. fold (kmatch c t d a). rewrite K. reflexivity.
  - destruct (p (r_coll a) (r_id a)); simpl; [exact IH|].
    rewrite look_cons. unfold mset. fold (kmatch c t d a). rewrite K. exact IH.
Qed.

Lemma existsb_uk_look : forall r tg,
  existsb (uk_eq r) tg = match look tg (r_coll r) (r_type r) (r_data r) with Some _ => true | None => false end.
Proof.
  intros r tg. destruct (look tg (r_coll r) (r_type r) (r_data r)) as [j|] eqn:L.
  - apply look_some_in in L. apply existsb_exists. exists (Row (r_coll r) (r_type r) (r_data r) j). split; auto.
    apply uk_eq_true. reflexivity.
  - apply existsb_false_forall. intros x Hx. destruct (uk_eq r x) eqn:E; auto. apply uk_eq_true in E.
    apply look_none in L. exfalso. apply L. unfold ukey in E at 1. rewrite E. apply in_map; auto.
Qed.

(* ---- dlook ----------------------------------------------------------------------------------------------- *)
Lemma dlook_cons : forall x ds i, dlook (x :: ds) i = dset (dlook ds) x i.
Proof. intros x ds i. unfold dlook, dset; simpl. destruct (d_id x =? i); reflexivity. Qed.

Lemma dlook_filter : forall (q : N -> N * N -> bool) ds, NoDup (map d_id ds) ->
  deq (dlook (filter (fun x => negb (q (d_id x) (d_type x, d_run x))) ds)) (ddrop (dlook ds) q).
Proof.
  intros q ds; induction ds as [|a ds IH]; intros Hn i; [reflexivity|].
  inversion Hn as [|? ? Hna Hn']; subst. specialize (IH Hn' i).
  unfold ddrop in *. rewrite dlook_cons. unfold dset. simpl filter.
  destruct (d_id a =? i) eqn:K.
  - apply N.eqb_eq in K. subst i.
    assert (dlook ds (d_id a) = None) as L by (unfold dlook; apply ds_find_none in Hna; rewrite Hna; reflexivity).
    destruct (q (d_id a) (d_type a, d_run a)); simpl.
    + rewrite IH, L. reflexivity.
    + rewrite dlook_cons. unfold dset. rewrite N.eqb_refl. reflexivity.
  - destruct (q (d_id a) (d_type a, d_run a)); simpl; [exact IH|].
    rewrite dlook_cons. unfold dset. rewrite K. exact IH.
Qed.

Lemma dlook_alive : forall s i, alive s i = match dlook (datasets s) i with Some _ => true | None => false end.
Proof. intros s i. unfold alive, dlook. destruct (ds_find (datasets s) i); reflexivity. Qed.

(* ---- small list facts ------------------------------------------------------------------------------------ *)
Lemma forallb_ext' : forall {A} (f g : A -> bool) l, (forall x, In x l -> f x = g x) -> forallb f l = forallb g l.
Proof.
  intros A f g l; induction l as [|a l IH]; intros H; simpl; [reflexivity|].
  rewrite (H a) by (left; reflexivity). rewrite IH; [reflexivity | intros; apply H; right; auto].
Qed.
Lemma existsb_ext' : forall {A} (f g : A -> bool) l, (forall x, In x l -> f x = g x) -> existsb f l = existsb g l.
Proof.
  intros A f g l; induction l as [|a l IH]; intros H; simpl; [reflexivity|].
  rewrite (H a) by (left; reflexivity). rewrite IH; [reflexivity | intros; apply H; right; auto].
Qed.
Lemma existsb_or3 : forall {A} (p q r : A -> bool) l,
  existsb (fun x => p x || q x || r x) l = existsb p l || existsb q l || existsb r l.
Proof.
  intros A p q r l; induction l as [|a l IH]; simpl; [reflexivity|]. rewrite IH.
  destruct (p a), (q a), (r a), (existsb p l), (existsb q l), (existsb r l); reflexivity.
Qed.

(* ---- simulation of the primitives ------------------------------------------------------------------------- *)
Definition sim_opt {A B} (R : A -> B -> Prop) (x : option A) (y : option B) : Prop :=
  match x, y with Some a, Some b => R a b | None, None => True | _, _ => False end.

Lemma fold_opt_sim : forall {A B X} (R : A -> B -> Prop) (f : A -> X -> option A) (g : B -> X -> option B),
  (forall a b x, R a b -> sim_opt R (f a x) (g b x)) ->
  forall l a b, R a b -> sim_opt R (fold_opt f a l) (fold_opt g b l).
Proof.
  intros A B X R f g H l; induction l as [|x l IH]; intros a b Hab; simpl; [exact Hab|].
  specialize (H a b x Hab). unfold sim_opt in H.
  destruct (f a x) as [a'|], (g b x) as [b'|]; try contradiction; [apply IH; exact H | exact I].
Qed.

Lemma ds_insert_sim : forall ds f x, deq (dlook ds) f -> sim_opt (fun ds' f' => deq (dlook ds') f') (ds_insert ds x) (d_ins f x).
Proof.
  intros ds f x H. unfold ds_insert, d_ins. rewrite <- (H (d_id x)).
  assert (E : dlook ds (d_id x) = option_map (fun y => (d_type y, d_run y)) (ds_find ds (d_id x))) by reflexivity.
  rewrite E. destruct (ds_find ds (d_id x)); simpl; [exact I|].
  intros i. rewrite dlook_cons. apply dset_deq; exact H.
Qed.

Lemma ds_fold_sim : forall news ds f, deq (dlook ds) f ->
  sim_opt (fun ds' f' => deq (dlook ds') f') (fold_opt ds_insert ds news) (fold_opt d_ins f news).
Proof. intros news ds f H. apply fold_opt_sim; auto. intros; apply ds_insert_sim; auto. Qed.

(* INSERT of a row whose primary key cannot clash (its dataset id occurs in no row) is "the key must be free" *)
Lemma tag_insert_sim : forall tg m r, meq (look tg) m -> (forall x, In x tg -> r_id x <> r_id r) ->
  sim_opt (fun tg' m' => tg' = r :: tg /\ meq (look tg') m') (tag_insert tg r) (m_ins m r).
Proof.
  intros tg m r Hm Hid. unfold tag_insert, m_ins. rewrite <- Hm.
  destruct (existsb (fun x => pk_eq r x || uk_eq r x) tg) eqn:E;
    destruct (look tg (r_coll r) (r_type r) (r_data r)) as [j|] eqn:L; simpl; auto.
  - apply existsb_exists in E. destruct E as [x [Hx E]]. apply orb_true_iff in E. destruct E as [E|E].
    + apply pk_eq_true in E. unfold pkey in E. inversion E. exfalso. apply (Hid x Hx). congruence.
    + pose proof (existsb_uk_look r tg) as Q. rewrite L in Q.
      rewrite existsb_false_forall in Q. rewrite (Q x Hx) in E. discriminate.
  - pose proof (existsb_uk_look r tg) as Q. rewrite L in Q. apply existsb_exists in Q. destruct Q as [x [Hx Q]].
    rewrite existsb_false_forall in E. specialize (E x Hx). rewrite Q in E. rewrite orb_true_r in E. discriminate.
  - split; [reflexivity|]. intros c t d. rewrite look_cons. apply mset_meq; exact Hm.
Qed.

Lemma tag_fold_sim : forall rows tg m, meq (look tg) m ->
  (forall x, In x tg -> ~ In (r_id x) (map r_id rows)) -> NoDup (map r_id rows) ->
  sim_opt (fun tg' m' => meq (look tg') m') (fold_opt tag_insert tg rows) (fold_opt m_ins m rows).
Proof.
  induction rows as [|r rows IH]; intros tg m Hm Hid Hn; simpl; [exact Hm|].
  inversion Hn as [|? ? Hnr Hn']; subst.
  pose proof (tag_insert_sim tg m r Hm) as S. unfold sim_opt in S.
  assert (forall x, In x tg -> r_id x <> r_id r) as Hid1 by (intros x Hx F; apply (Hid x Hx); simpl; auto).
  specialize (S Hid1).
  destruct (tag_insert tg r) as [tg1|], (m_ins m r) as [m1|]; try contradiction; [|exact I].
  destruct S as [-> S]. apply IH; auto.
  intros x [<-|Hx]; [exact Hnr|]. intros F. apply (Hid x Hx). simpl; auto.
Qed.

(* upsert on the primary key (dataset id, collection) *)
Definition R (tg : list row) (m : amap) : Prop := NoDup (map ukey tg) /\ meq (look tg) m.

Lemma assoc_row_sim : forall s c f tg m r, deq (dlook (datasets s)) f -> R tg m ->
  sim_opt R (assoc_row s c tg r) (a_assoc1 f c m r).
Proof.
  intros s c f tg m r Hd [Hn Hm]. unfold assoc_row, a_assoc1. rewrite <- Hd, dlook_alive.
  destruct (dlook (datasets s) (f_id r)) as [tr|]; [|exact I].
  unfold tag_upsert.
  set (p := fun c' i => (f_id r =? i) && (c =? c')).
  assert (Hf : filter (fun x => negb (pk_eq (ref_row c r) x)) tg = filter (fun x => negb (p (r_coll x) (r_id x))) tg).
  { apply filter_ext. intros x. reflexivity. }
  rewrite Hf.
  assert (Hm0 : meq (look (filter (fun x => negb (p (r_coll x) (r_id x))) tg)) (mdrop m p)).
  { eapply meq_trans; [apply look_filter; exact Hn|]. apply mdrop_meq; auto. }
  rewrite existsb_uk_look. cbn [ref_row r_coll r_type r_data]. rewrite (Hm0 c (f_type r) (f_data r)).
  destruct (mdrop m p c (f_type r) (f_data r)) eqn:L; simpl; [exact I|].
  split.
  - rewrite map_cons. constructor; [|apply NoDup_map_filter; exact Hn].
    apply (proj1 (look_none _ c (f_type r) (f_data r))). rewrite (Hm0 c (f_type r) (f_data r)). exact L.
  - intros c' t' d'. rewrite look_cons. apply mset_meq. exact Hm0.
Qed.

Lemma assoc_fold_sim : forall s c f g tg m, deq (dlook (datasets s)) f -> R tg m ->
  sim_opt R (fold_opt (assoc_row s c) tg g) (fold_opt (a_assoc1 f c) m g).
Proof. intros s c f g tg m Hd H. apply fold_opt_sim; auto. intros; apply assoc_row_sim; auto. Qed.
