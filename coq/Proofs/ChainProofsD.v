(* C03 proofs, part D: statements assembled for Props/C03.v. *)
From Coq Require Import ZArith NArith List Bool Lia.
From V Require Import Model.Chain Proofs.ChainProofsA Proofs.ChainProofsB Proofs.ChainProofsC.
Import ListNotations.
Local Opaque fuel_of.

Lemma wf_inv_p : forall ops, wf (run init ops).
Proof. intro. apply run_wf. apply init_wf. Qed.
Lemma acyclic_inv_p : forall ops, acyclic (rows (run init ops)).
Proof. intro. apply (wf_inv_p ops). Qed.
Lemma pk_inv_p : forall ops p, NoDup (map rpos (prows (rows (run init ops)) p)).
Proof. intros. destruct (wf_inv_p ops) as [_ [_ [PU _]]]. apply PU. Qed.

Lemma flatten_fuel_ok_p : forall s ns, wf s ->
  order_list (fuel_of s) s ns <> None /\
  forall f', (fuel_of s <= f')%nat -> order_list f' s ns = order_list (fuel_of s) s ns.
Proof.
  intros s ns [A _]. split; [apply order_list_fuel_ok; assumption|]. intros f' Hle.
  destruct (order_list (fuel_of s) s ns) as [L|] eqn:O; [|exfalso; eapply order_list_fuel_ok; eauto].
  eapply order_list_mono_le; eauto.
Qed.
Lemma flatten_total_p : forall s ns, wf s -> forallb (exists_c s) ns = true -> exists path, flatten s ns = Ok path /\ NoDup path.
Proof.
  intros s ns [A _] E. destruct (expand_ok s ns A E) as [L H]. unfold flatten. rewrite H. simpl.
  eexists. split; [reflexivity|apply dedup_NoDup].
Qed.
Lemma flatten_missing_p : forall s ns, forallb (exists_c s) ns = false -> flatten s ns = Err EMissing.
Proof. intros. unfold flatten, expand. rewrite H. reflexivity. Qed.

Lemma edit_orders_p : forall s k p cs s', edit s k p cs = (s', Done) ->
  children s' p =
    match k with
    | KRedefine => dedup cs
    | KPrepend => dedup cs ++ without cs (children s p)
    | KExtend => without cs (children s p) ++ dedup cs
    | KRemove => without cs (children s p)
    end /\
  (forall q, q <> p -> children s' q = children s q) /\
  colls s' = colls s /\ cont s' = cont s.
Proof.
  intros s k p cs s' H. apply edit_done in H. destruct H as [-> _]. unfold children. simpl.
  split; [apply edit_orders_rows|]. split; [intros; apply edit_orders_other; assumption|]. split; reflexivity.
Qed.

(* the cycle check refuses exactly the edits that would close a cycle *)
Lemma edit_cycle_iff_p : forall s k p cs, wf s -> k <> KRemove -> forallb (exists_c s) cs = true ->
  is_chained s p = true ->
  (snd (edit s k p cs) = Refused ECycle <-> exists c, In c cs /\ reachs (rows s) c p).
Proof.
  intros s k p cs Hwf Hk Ex Cp. pose proof Hwf as [A [W _]].
  destruct (expand_ok s cs A Ex) as [L E].
  assert (HL : In p L <-> exists c, In c cs /\ reachs (rows s) c p).
  { unfold expand in E. rewrite Ex in E. destruct (order_list (fuel_of s) s cs) as [L'|] eqn:O; [|discriminate].
    inversion E; subst. split.
    - intro Hin. unfold order_list in O. destruct (opt_concat_in _ _ _ O Hin) as [lx [H1 H2]].
      apply in_map_iff in H1. destruct H1 as [c [Oc Hc]]. exists c. split; [assumption|]. eapply order_sound; eauto.
    - intros [c [Hc R]]. eapply order_list_complete; eauto. }
  assert (HM : memN p (filter (is_chained s) L) = true <-> In p L).
  { rewrite memN_In, filter_In. tauto. }
  unfold edit. assert (Ty : ctype_of (colls s) p = Some CChained).
  { unfold is_chained in Cp. destruct (ctype_of (colls s) p) as [[| | |]|]; try discriminate. reflexivity. }
  destruct k; try congruence; rewrite E; simpl;
    (destruct (memN p (filter (is_chained s) L)) eqn:M; simpl;
     [split; [intros _; apply HL; apply HM; reflexivity|reflexivity]
     |rewrite Ex, Ty; simpl; split; [discriminate|intro Hc; apply HL in Hc; apply HM in Hc; congruence]]).
Qed.

(* refusal classes of a chain edit, in the order of the code *)
Lemma edit_outcome_p : forall s k p cs, wf s ->
  snd (edit s k p cs) =
    if negb (forallb (exists_c s) cs) then Refused EMissing
    else if match k with KRemove => false | _ => is_chained s p end
            && existsb (fun c => memN p (match order (fuel_of s) s c with Some l => l | None => [] end)) cs
         then Refused ECycle
    else match ctype_of (colls s) p with
         | None => Refused EMissing
         | Some CChained => Done
         | Some _ => Refused ECollType
         end.
Proof.
  intros s k p cs Hwf. pose proof Hwf as [A [W _]]. unfold edit.
  destruct (forallb (exists_c s) cs) eqn:Ex; simpl.
  2:{ unfold expand. rewrite Ex. destruct k; simpl; reflexivity. }
  destruct (expand_ok s cs A Ex) as [L E]. rewrite E. simpl.
  assert (HM : memN p (filter (is_chained s) L) =
               is_chained s p && existsb (fun c => memN p (match order (fuel_of s) s c with Some l => l | None => [] end)) cs).
  { unfold expand in E. rewrite Ex in E. destruct (order_list (fuel_of s) s cs) as [L'|] eqn:O; [|discriminate].
    inversion E; subst. clear E.
    destruct (memN p (filter (is_chained s) L)) eqn:M; symmetry.
    - apply memN_In in M. apply filter_In in M. destruct M as [Hin Cp]. rewrite Cp. simpl.
      unfold order_list in O. destruct (opt_concat_in _ _ _ O Hin) as [lx [H1 H2]].
      apply in_map_iff in H1. destruct H1 as [c [Oc Hc]]. apply existsb_exists. exists c. split; [assumption|].
      cbv beta. rewrite Oc. apply memN_In. assumption.
    - destruct (is_chained s p) eqn:Cp; [|reflexivity]. simpl.
      destruct (existsb _ cs) eqn:Eb; [|reflexivity]. exfalso.
      apply existsb_exists in Eb. destruct Eb as [c [Hc Hm]].
      unfold order_list in O. destruct (opt_concat_some _ _ O (order (fuel_of s) s c) (in_map _ _ _ Hc)) as [lc [Elc Hincl]].
      cbv beta in Hm. rewrite Elc in Hm. apply memN_In in Hm. apply memN_false in M. apply M. apply filter_In. split; [apply Hincl; assumption|assumption]. }
  destruct k; simpl; try rewrite HM; try rewrite Ex; simpl;
    try (destruct (is_chained s p && existsb _ cs); simpl; [reflexivity|]);
    destruct (ctype_of (colls s) p) as [[| | |]|]; reflexivity.
Qed.

(* a cyclic definition (which no sequential history can produce) is where the expansion never ends *)
Definition cyc_state : st :=
  mkSt [(1%N, CChained); (2%N, CChained)] [mkRow 1 0 2; mkRow 2 0 1] [] [] [] [].
Lemma cyclic_runs_out_p : ~ acyclic (rows cyc_state) /\ expand cyc_state [1%N] = Err EFuel.
Proof.
  split; [|vm_compute; reflexivity].
  intro A. apply (A 1%N). eapply r_trans; apply r_step.
  - exists (mkRow 1 0 2). simpl. split; [left; reflexivity|split; reflexivity].
  - exists (mkRow 2 0 1). simpl. split; [right; left; reflexivity|split; reflexivity].
Qed.

(* positions drift: alternately re-prepending the two children of a chain moves the lowest position down by
   one each time; every edit is accepted and yields the documented order, and after 2 * 16385 of them the
   positions no longer fit the 16-bit column the schema declares (SQLite does not enforce the width,
   PostgreSQL does) *)
Definition drift_start : st :=
  run init [OReg 0 CRun; OReg 1 CRun; OReg 4 CChained; OEdit KRedefine 4 [0%N; 1%N]].
Definition is_done (o : outcome) : bool := match o with Done => true | _ => false end.
Definition drift (n : N) : st * bool :=
  N.iter n (fun sb => let '(s1, o1) := step (fst sb) (OEdit KPrepend 4 [1%N]) in
                      let '(s2, o2) := step s1 (OEdit KPrepend 4 [0%N]) in
                      (s2, snd sb && is_done o1 && is_done o2)) (drift_start, true).
Lemma position_drift_p :
  snd (drift 16385) = true /\ children (fst (drift 16385)) 4 = [0%N; 1%N] /\
  map rpos (rows (fst (drift 16385))) = [(-32769)%Z; (-32770)%Z].
Proof. vm_compute. repeat split. Qed.

(* setCollectionChain(flatten=True): the new definition is the flattened child list (no chain among the new
   children, so a cycle error is impossible and no cycle can arise) *)
Lemma edit_flat_order_p : forall s p cs s', edit_flat s p cs = (s', Done) ->
  exists path, flatten s cs = Ok path /\ children s' p = path /\
    (forall q, q <> p -> children s' q = children s q) /\ colls s' = colls s /\ cont s' = cont s.
Proof.
  intros s p cs s' H. unfold edit_flat in H. destruct (flatten s cs) as [path|e] eqn:F; [|discriminate].
  exists path. split; [reflexivity|]. pose proof (flatten_NoDup _ _ _ F) as ND.
  destruct (edit_orders_p _ _ _ _ _ H) as [H1 H2]. split; [|exact H2].
  rewrite H1. apply dedup_acc_nodup_id; [assumption|intros x _ []].
Qed.
Lemma leaves_not_chained : forall s l x, In x (dedup (leaves s l)) -> is_chained s x = false.
Proof. intros s l x H. apply (proj1 (dedup_In _ _)) in H. unfold leaves in H. apply filter_In in H. destruct H as [_ H]. apply negb_true_iff in H. exact H. Qed.
