(* Executable instance of Model/Datastore.v used by the correspondence (tie K) of C01.

   objects  = payload numbers; bytes = (formatter, payload, size in bytes); the size of what formatter f
   writes for payload o comes from a per-case table measured on the implementation.
   path_of  = the REGENERATED default template and sanitising tables (Gen/TemplateGen.v).
   A case is a history over two repositories A and B (B is the source/target of butler transfers) with the
   implementation's observations after every step; `chk_case` replays it on the model.  No proofs here. *)
From Coq Require Import String Ascii List Bool ZArith NArith.
From V Require Import Model.Template Model.Datastore Gen.TemplateGen Gen.IngestGuardGen.
Import ListNotations.
Open Scope string_scope.

Definition cobj := N.
Definition cbytes := (N * N * Z)%type.

Definition sz_lookup (tbl : list (N * N * Z)) (f o : N) : Z :=
  match find (fun e => N.eqb (fst (fst e)) f && N.eqb (snd (fst e)) o) tbl with
  | Some e => snd e
  | None => (-1)%Z
  end.

Definition c_enc (tbl : list (N * N * Z)) (f : N) (o : cobj) : cbytes := (f, o, sz_lookup tbl f o).
Definition c_dec (f : N) (b : cbytes) : option cobj :=
  if N.eqb (fst (fst b)) f then Some (snd (fst b)) else None.
Definition c_size (b : cbytes) : Z := snd b.

Definition fields_of (i : ident) : fields :=
  ("datasetType", i_type i) :: ("run", i_run i) :: i_data i.

Definition c_path_of (i : ident) : fresult := gen_format GEN_DEFAULT (fields_of i).

Definition c_ext (f : N) : string :=
  match f with 0%N => GEN_EXT_YAML | 1%N => GEN_EXT_JSON | _ => GEN_EXT_PICKLE end.

Definition cstate := state cobj cbytes.
Definition cop := op cobj cbytes.

(* the operation semantics compared with the implementation: the repaired `step` when the REGENERATED flag says that
   FileDatastore._finishIngest refuses held datasets before transferring anything (commit 2da36a1), the variant with
   the old destructive re-ingest otherwise (then refused_noop_impl in Props/C01.v cannot be proved) *)
Definition cstep_fixed (tbl : list (N * N * Z)) := step cobj cbytes (c_enc tbl) c_dec c_size c_path_of c_ext.
Definition cstep_unfixed (tbl : list (N * N * Z)) := step_unfixed cobj cbytes (c_enc tbl) c_dec c_size c_path_of c_ext.
Definition cstep (tbl : list (N * N * Z)) : cfg -> cstate -> cop -> cstate * outcome :=
  if GEN_INGEST_REFUSES_HELD then cstep_fixed tbl else cstep_unfixed tbl.
Definition cget := get cobj cbytes c_dec c_size.
Definition cget_file := get_file cobj cbytes c_dec c_size.

(* ---- two repositories ------------------------------------------------------------------------ *)
Inductive wop :=
| OnA (x : cop)
| OnB (x : cop)
| XferBA (id : N)        (* A.transfer_from(B, [ref], transfer="copy") *)
| XferAB (id : N).

(* Butler.transfer_from between datastores of different kinds (Butler.transfer_from, Datastore.transfer_from,
   FileDatastore / ChainedDatastore): a file datastore accepts only a file datastore as source, an in-memory
   datastore accepts nothing, a chained datastore accepts a file or a chained source (its file member receives the
   artifacts).  For any other pair: datasets the source does not hold are dropped first (skip_missing); what is
   left is imported into the registry (a conflicting identity is refused with Conflict); then the datastore refuses
   with TypeError -- a chained target only if something is left to transfer -- and everything is rolled back. *)
Definition xfer_compat (dst src : kind) : bool :=
  match dst, src with
  | KFile, KFile | KChained, KFile | KChained, KChained => true
  | KMem, KMem => true                       (* Model/Datastore.v: NotImplementedError *)
  | _, _ => false
  end.

Definition src_holds (cs : cfg) (src : cstate) (id : N) : bool :=
  match c_kind cs with
  | KFile => stored_file cobj cbytes src id
  | KMem => has_mem cobj cbytes src id
  | KChained => has_mem cobj cbytes src id || stored_file cobj cbytes src id
  end.

(* outcome of a transfer between an incompatible pair; the target state never changes *)
Definition xfer_refusal (cd cs : cfg) (dst src : cstate) (id : N) : outcome :=
  if src_holds cs src id
  then match aget N.eqb (reg src) id with
       | Some i => match import_reg (reg dst) id i with None => Refused Conflict | Some _ => Refused TypeErr end
       | None => Refused TypeErr
       end
  else match c_kind cd with KChained => Done | _ => Refused TypeErr end.

Definition xfer tbl (cd cs : cfg) (dst src : cstate) (id : N) : cstate * outcome :=
  if xfer_compat (c_kind cd) (c_kind cs)
  then cstep tbl cd dst (Transfer cobj cbytes src id)
  else (dst, xfer_refusal cd cs dst src id).

Definition wstep tbl (ca cb : cfg) (w : cstate * cstate) (x : wop) : (cstate * cstate) * outcome :=
  let (a, b) := w in
  match x with
  | OnA y => let (a', r) := cstep tbl ca a y in ((a', b), r)
  | OnB y => let (b', r) := cstep tbl cb b y in ((a, b'), r)
  | XferBA id => let (a', r) := xfer tbl ca cb a b id in ((a', b), r)
  | XferAB id => let (b', r) := xfer tbl cb ca b a id in ((a, b'), r)
  end.

(* ---- observations ---------------------------------------------------------------------------- *)
Definition err_code (e : err) : N :=
  match e with Conflict => 1 | NotFound => 2 | Integrity => 3 | DecodeErr => 4 | KeyErr => 5 | ValueErr => 6 | NotImpl => 7 | TypeErr => 8 end%N.

Definition out_code (r : outcome) : N := match r with Done => 0%N | Refused e => err_code e end.

(* result of a read: inl payload | inr error code *)
Definition res_code (r : res cobj) : N + N := match r with Got o => inl o | Fail e => inr (err_code e) end.

Definition sum_eqb (a b : N + N) : bool :=
  match a, b with inl x, inl y => N.eqb x y | inr x, inr y => N.eqb x y | _, _ => false end.

Definition optstr_eqb (a b : option string) : bool :=
  match a, b with Some x, Some y => String.eqb x y | None, None => true | _, _ => false end.

Definition optN_eqb (a b : option N) : bool :=
  match a, b with Some x, Some y => N.eqb x y | None, None => true | _, _ => false end.

(* per dataset: id, intended identity, get, get through a freshly opened Butler (if observed), relative
   artifact path from getURI (None = not stored in a file datastore), registry holds it with the intended identity *)
Record dobs := mkDobs { d_id : N; d_ident : ident; d_get : N + N; d_fresh : option (N + N); d_uri : option string; d_reg : bool }.

(* per tag lookup: tag, identity looked up, id found *)
Definition tobs := (string * ident * option N)%type.

Record robs := mkRobs { o_ds : list dobs; o_tags : list tobs; o_files : list (string * Z) }.

Fixpoint insert_sorted (p : string * Z) (l : list (string * Z)) : list (string * Z) :=
  match l with
  | [] => [p]
  | q :: r => if String.leb (fst p) (fst q) then p :: l else q :: insert_sorted p r
  end.
Definition sort_files (l : list (string * Z)) := fold_right insert_sorted [] l.

Fixpoint files_eqb (a b : list (string * Z)) : bool :=
  match a, b with
  | [], [] => true
  | (p, z) :: r, (p', z') :: r' => String.eqb p p' && Z.eqb z z' && files_eqb r r'
  | _, _ => false
  end.

Definition chk_dobs (c : cfg) (s : cstate) (d : dobs) : bool :=
  sum_eqb (res_code (cget c s (d_id d))) (d_get d)
  && match d_fresh d with
     | None => true
     | Some f => sum_eqb (res_code (cget_file s (d_id d))) f
     end
  && optstr_eqb (match c_kind c with KMem => None | _ => uri cobj cbytes s (d_id d) end) (d_uri d)
  && Bool.eqb (match aget N.eqb (reg s) (d_id d) with Some j => ident_eqb j (d_ident d) | None => false end) (d_reg d).

Definition chk_tobs (s : cstate) (t : tobs) : bool :=
  optN_eqb (find_tag cobj cbytes s (tags s) (fst (fst t)) (snd (fst t))) (snd t).

Definition chk_robs (c : cfg) (s : cstate) (o : robs) : bool :=
  forallb (chk_dobs c s) (o_ds o) && forallb (chk_tobs s) (o_tags o)
  && files_eqb (sort_files (map (fun pb => (fst pb, c_size (snd pb))) (fs s))) (sort_files (o_files o)).

(* one step of a case: operation, observed outcome code, observations of A and of B *)
Definition cstep_obs := (wop * N * robs * robs)%type.

Fixpoint chk_steps tbl (ca cb : cfg) (w : cstate * cstate) (l : list cstep_obs) : bool :=
  match l with
  | [] => true
  | (x, code, oa, ob) :: r =>
      let (w', out) := wstep tbl ca cb w x in
      N.eqb (out_code out) code && chk_robs ca (fst w') oa && chk_robs cb (snd w') ob && chk_steps tbl ca cb w' r
  end.

(* index of the first step where the model disagrees (for diagnostics) *)
Fixpoint first_bad tbl (ca cb : cfg) (w : cstate * cstate) (l : list cstep_obs) (n : N) : option N :=
  match l with
  | [] => None
  | (x, code, oa, ob) :: r =>
      let (w', out) := wstep tbl ca cb w x in
      if N.eqb (out_code out) code && chk_robs ca (fst w') oa && chk_robs cb (snd w') ob
      then first_bad tbl ca cb w' r (N.succ n) else Some n
  end.

Record ccase := mkCase { k_cfgA : cfg; k_cfgB : cfg; k_sizes : list (N * N * Z); k_steps : list cstep_obs }.

Definition w0 : cstate * cstate := (empty cobj cbytes, empty cobj cbytes).

Definition chk_case (k : ccase) : bool := chk_steps (k_sizes k) (k_cfgA k) (k_cfgB k) w0 (k_steps k).
Definition diag_case (k : ccase) : option N := first_bad (k_sizes k) (k_cfgA k) (k_cfgB k) w0 (k_steps k) 0%N.

(* model's view of a case, for replay files: what the model says after the last step *)
Definition model_paths (i : ident) (f : N) : fresult := file_path c_path_of c_ext i f.

(* template-only cases: (fields, formatter id, observed relative path or None when format raised) *)
Definition chk_template (k : list (string * string) * N * option string) : bool :=
  let '(fs, f, want) := k in
  match gen_format GEN_DEFAULT fs, want with
  | FOk p, Some w => String.eqb (p ++ c_ext f) w
  | FKeyErr, None | FOutside, None => true
  | _, _ => false
  end.

(* short constructors for generated case files *)
Definition cPut := Put cobj cbytes.
Definition cIngest := Ingest cobj cbytes.
Definition cAssoc := Associate cobj cbytes.
Definition cDisassoc := Disassociate cobj cbytes.
Definition cRemove := Remove cobj cbytes.
