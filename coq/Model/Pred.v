(* C15 -- model of lsst.daf.butler.queries.tree.Predicate's boolean structure.

   Predicate.operands is a tuple of OR-groups combined by AND:  () = true,  ((),) = false.
   A leaf is either a positive atom or LogicalNot(atom) (LogicalNotOperand excludes LogicalNot, so there
   is exactly one level of negation; `invert` toggles it).

   This file is the HAND model (used by the correspondence check, and the fall-back when the translator
   cannot regenerate Gen/PredGen.v).  The theorems of Props/C15.v are stated over the regenerated py_*
   definitions of Gen/PredGen.v, which use the types and the evaluator of this file.

   `same` flags: `_impl_and(a, b)` returns `a` itself when `a is b` (object identity).  Identity is not
   a function of the values, so it enters the model as a boolean supplied by the environment; theorems
   quantify over it under the only fact Python guarantees: identical objects are equal. *)
From Coq Require Import NArith List Bool.
From V Require Import Base.Tri.
Import ListNotations.

Definition atom := N.
Inductive lit := Pos (a : atom) | Neg (a : atom).
Definition cnf := list (list lit).

Definition invert (l : lit) : lit := match l with Pos a => Neg a | Neg a => Pos a end.

(* --- Kleene evaluation:  value = all(any(or_group) for or_group in operands) --------------------- *)
Definition lit_eval (v : atom -> tri) (l : lit) : tri :=
  match l with Pos a => v a | Neg a => tri_not (v a) end.
Definition any3 (v : atom -> tri) (g : list lit) : tri :=
  fold_right (fun l acc => tri_or (lit_eval v l) acc) FF g.
Definition eval3 (v : atom -> tri) (p : cnf) : tri :=
  fold_right (fun g acc => tri_and (any3 v g) acc) TT p.

(* --- helpers shared with the regenerated definitions ---------------------------------------------- *)
Definition nonempty {A} (l : list A) : bool := match l with [] => false | _ => true end.
(* Python `all(xs)` / `any(xs)` over a tuple of tuples: truthiness of a tuple = non-emptiness *)
Definition py_all {A} (xs : list (list A)) : bool := forallb nonempty xs.
Definition py_any {A} (xs : list (list A)) : bool := existsb nonempty xs.

(* --- hand model of the operations ----------------------------------------------------------------- *)
Definition p_impl_and (same : bool) (a b : cnf) : cnf := if same then a else a ++ b.
Definition p_impl_or (a b : cnf) : cnf := flat_map (fun x => map (fun y => x ++ y) b) a.
Definition p_const (b : bool) : cnf := if b then [] else [[]].
Definition p_collapse (ops : cnf) : cnf := if py_all ops then ops else [[]].
(* args carry the identity flag of `operands is arg.operands` at the moment of the call *)
Definition p_and (self : cnf) (args : list (bool * cnf)) : cnf :=
  p_collapse (fold_left (fun acc arg => p_impl_and (fst arg) acc (snd arg)) args self).
Definition p_or (self : cnf) (args : list cnf) : cnf := fold_left p_impl_or args self.
Definition p_not (self : cnf) : cnf :=
  fold_left (fun acc g => p_impl_or acc (map (fun l => [invert l]) g)) self [[]].

(* --- formulas built through the public interface -------------------------------------------------- *)
Inductive form :=
  | FAtom (a : atom)                       (* Predicate._from_leaf *)
  | FConst (b : bool)                      (* Predicate.from_bool *)
  | FNot (f : form)                        (* p.logical_not() *)
  | FAnd (same : bool) (f g : form)        (* p.logical_and(q); same = `p.operands is q.operands` *)
  | FOr (f g : form).                      (* p.logical_or(q) *)

Fixpoint feval3 (v : atom -> tri) (f : form) : tri :=
  match f with
  | FAtom a => v a
  | FConst b => tri_of_bool b
  | FNot f => tri_not (feval3 v f)
  | FAnd _ f g => tri_and (feval3 v f) (feval3 v g)
  | FOr f g => tri_or (feval3 v f) (feval3 v g)
  end.

Fixpoint build (f : form) : cnf :=
  match f with
  | FAtom a => [[Pos a]]
  | FConst b => p_const b
  | FNot f => p_not (build f)
  | FAnd s f g => p_and (build f) [(s, build g)]
  | FOr f g => p_or (build f) [build g]
  end.

(* n-ary right-hand sides *)
Definition and_all3 (x : tri) (ys : list tri) : tri := fold_left tri_and ys x.
Definition or_all3 (x : tri) (ys : list tri) : tri := fold_left tri_or ys x.

(* identity flags are consistent: a flag may only be true when the two operand tuples are equal *)
Fixpoint flags_ok (impl_and : bool -> cnf -> cnf -> cnf) (acc : cnf) (args : list (bool * cnf)) : Prop :=
  match args with
  | [] => True
  | (s, b) :: r => (s = true -> b = acc) /\ flags_ok impl_and (impl_and s acc b) r
  end.

(* --- decidable equalities for the checkers --------------------------------------------------------- *)
Definition lit_eqb (x y : lit) : bool :=
  match x, y with Pos a, Pos b | Neg a, Neg b => N.eqb a b | _, _ => false end.
Fixpoint list_eqb {A} (f : A -> A -> bool) (l1 l2 : list A) : bool :=
  match l1, l2 with
  | [], [] => true
  | x :: r, y :: s => f x y && list_eqb f r s
  | _, _ => false
  end.
Definition cnf_eqb : cnf -> cnf -> bool := list_eqb (list_eqb lit_eqb).

(* all 3^n Kleene assignments over atoms 0..n-1 (atoms >= n read as UU) *)
Fixpoint assignments (n : nat) : list (list tri) :=
  match n with
  | O => [[]]
  | S k => flat_map (fun t => [TT :: t; FF :: t; UU :: t]) (assignments k)
  end.
Definition assign_of (t : list tri) : atom -> tri := fun a => nth (N.to_nat a) t UU.
Definition table (n : nat) (p : cnf) : list tri := map (fun t => eval3 (assign_of t) p) (assignments n).
Definition ftable (n : nat) (f : form) : list tri := map (fun t => feval3 (assign_of t) f) (assignments n).
