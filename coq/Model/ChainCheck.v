(* Executable checkers for the correspondence run (tie K) of C03: the harness records, for every step of a
   history, what the real Butler answered; these functions say whether the model answers the same. *)
From Coq Require Import ZArith NArith List Bool.
From V Require Import Model.Chain.
Import ListNotations.

Definition err_eqb (a b : err) : bool :=
  match a, b with
  | EMissing, EMissing | ECycle, ECycle | ECollType, ECollType | EConflict, EConflict | EFk, EFk | EFuel, EFuel
  | ENotImpl, ENotImpl | ETypeErr, ETypeErr | EMissingType, EMissingType | EOther, EOther => true
  | _, _ => false
  end.
Definition outcome_eqb (a b : outcome) : bool :=
  match a, b with Done, Done => true | Refused x, Refused y => err_eqb x y | _, _ => false end.

(* a list answer or an error class *)
Inductive fres := FL (l : list N) | FE (e : err).
Definition fres_eqb (a b : fres) : bool :=
  match a, b with FL x, FL y => listN_eqb x y | FE x, FE y => err_eqb x y | _, _ => false end.
Definition of_res (r : res (list N)) : fres := match r with Ok l => FL l | Err e => FE e end.
Definition of_res_opt (r : res (option N)) : fres :=
  match r with Ok (Some k) => FL [k] | Ok None => FL [] | Err e => FE e end.

Inductive probe :=
| PChain (p : N) (r : fres)                        (* Registry.getCollectionChain(p) *)
| PFlat (ns : list N) (r : fres)                   (* collections.query(ns, flatten_chains=True) *)
| PFlatIncl (ns : list N) (r : fres)               (* ... include_chains=True *)
| PFind (api : N) (cons : list (N * N)) (ns : list N) (ty d : N) (r : fres).
   (* api 0 Butler.find_dataset, 1 Registry.findDataset   -> min-rank formulation, CALIBRATION collections skipped
          4 Butler.get                                    -> min-rank formulation, unbounded timespan for calibration types
          2 Butler.query_datasets(find_first=True)        -> window formulation
          3 Registry.queryDatasets(findFirst=True)        -> legacy formulation
      cons = the governor constraint of the query (data ID and WHERE clause; used by api 2 and 3 only: the
      single-dataset lookups derive theirs from the data ID); r = ids of the datasets returned for data ID d *)

Definition chain_of (s : st) (p : N) : fres :=
  match ctype_of (colls s) p with
  | None => FE EMissing
  | Some CChained => FL (children s p)
  | Some _ => FE ECollType
  end.

Definition model_probe (s : st) (pr : probe) : fres :=
  match pr with
  | PChain p _ => chain_of s p
  | PFlat ns _ => of_res (flatten s ns)
  | PFlatIncl ns _ => of_res (flatten_incl s ns)
  | PFind api cn ns ty d _ =>
      if N.eqb api 2 then of_res (find_window s cn ty d ns)
      else if N.eqb api 3 then of_res (find_legacy s cn ty d ns)
      else if N.eqb api 4 then of_res_opt (find_get s ty d ns)
      else of_res_opt (find_rank s ty d ns)
  end.
Definition observed (pr : probe) : fres :=
  match pr with PChain _ r | PFlat _ r | PFlatIncl _ r | PFind _ _ _ _ _ r => r end.
Definition chk_probe (s : st) (pr : probe) : bool := fres_eqb (model_probe s pr) (observed pr).

Definition row_eqb (a b : row) : bool :=
  N.eqb (rparent a) (rparent b) && Z.eqb (rpos a) (rpos b) && N.eqb (rchild a) (rchild b).
Definition rows_same (m o : list row) : bool :=
  Nat.eqb (length m) (length o) && forallb (fun r => existsb (row_eqb r) m) o.

Definition stepobs := (op * outcome * list probe * list row)%type.

(* observables: outcome of every op and every probe answer after it *)
Fixpoint chk_steps (s : st) (l : list stepobs) : bool :=
  match l with
  | [] => true
  | (o, out, prs, _) :: t =>
      let '(s', out') := step s o in
      outcome_eqb out out' && forallb (chk_probe s') prs && chk_steps s' t
  end.
Definition chk_case (l : list stepobs) : bool := chk_steps init l.

(* structural: the raw collection_chain rows (positions included) after every step *)
Fixpoint chk_rows_steps (s : st) (l : list stepobs) : bool :=
  match l with
  | [] => true
  | (o, _, _, rs) :: t => let s' := fst (step s o) in rows_same (rows s') rs && chk_rows_steps s' t
  end.
Definition chk_case_rows (l : list stepobs) : bool := chk_rows_steps init l.

(* index of the first step whose outcome or probes differ (for diagnostics) *)
Fixpoint first_bad (s : st) (i : N) (l : list stepobs) : option (N * outcome * list fres) :=
  match l with
  | [] => None
  | (o, out, prs, _) :: t =>
      let '(s', out') := step s o in
      if outcome_eqb out out' && forallb (chk_probe s') prs then first_bad s' (N.succ i) t
      else Some (i, out', map (model_probe s') prs)
  end.
