(* Model of artifact deletion and path containment in the file datastore (C09).

   State = the datastore's record table (dataset id, record path; several rows per id for zip members /
   disassembled components; a path may carry a "#fragment"; absolute record paths are files the datastore
   does not own), the ids in dataset_location (live) and in dataset_location_trash (trash), and ONE file
   map for everything on disk, keyed by the normalised component list of the location RELATIVE TO THE
   DATASTORE ROOT: a key whose first component is ".." is outside the root (sentinel area, staging area,
   direct-ingested files).

   Faithful to the code that exists, quirks included:
   * bridge.emptyTrash: `preserved` = record paths (exact strings) of trashed rows that a live row also has;
   * FileDatastore.emptyTrash: the test is `info.artifact_path in artifacts_to_keep` with artifact_path =
     text before the LAST "#"; when any trashed path contains "#" the recount
     _refs_associated_with_artifacts runs `path LIKE '<artifact>#%'` (SQL LIKE: "_" and "%" of the artifact
     text are wildcards, ASCII case-insensitive) and keys its result by the matched row's own artifact path;
   * _delete_artifact refuses absolute paths (error swallowed), a missing file is ignored;
   * where a record path lives on disk: lsst.resources.ResourcePath percent-DECODES a relative path (the
     whole string once more when it contains an escape with upper-case hex, ESCAPES_RE), a "#" in the LAST
     path component starts a URI fragment, the result is normalised -- so a record path can name a location
     outside the root although FileTemplate.format's containment check accepted it;
   * put: the formatter writes at write_loc; then FileDatastore._extractIngestInfo refuses a location outside the
     root, re-reads the location's path relative to the root as a NEW relative ResourcePath (decoded once more when it
     still contains an upper-case escape, "#" in the last component = fragment) and sizes the file THERE: not found =>
     FileNotFoundError; every failure rolls back by removing location.uri (not necessarily the file written); the
     record path is that re-read text;
   * ingest(copy|move): a dataset already held is refused first (2da36a1); the target is written with overwrite=True,
     the record path is the (once-decoded) template text; before 2da36a1 (ichk = false) a refused record insert rolled
     the transfer back (copy: target removed; move: moved back);
   * ingest_zip(copy): likewise (before 2da36a1 the zip was written first and a refused record insert removed it).
   No proofs here. *)
From Coq Require Import String Ascii List Bool NArith.
From V Require Import Model.Template.
Import ListNotations.
Open Scope string_scope.

(* ---- strings ------------------------------------------------------------------------------------- *)

(* text before the LAST occurrence of c (None when c does not occur) *)
Fixpoint cut_last (c : ascii) (s : string) : option string :=
  match s with
  | EmptyString => None
  | String d r => match cut_last c r with
                  | Some h => Some (String d h)
                  | None => if Ascii.eqb d c then Some EmptyString else None
                  end
  end.

Definition before_last (c : ascii) (s : string) : string :=
  match cut_last c s with Some h => h | None => s end.

(* StoredFileInfo.artifact_path *)
Definition artifact_of (p : string) : string := before_last "#"%char p.

(* apply f to the text after the last "/" *)
Fixpoint map_tail (f : string -> string) (s : string) : string :=
  match s with
  | EmptyString => f EmptyString
  | String c r => if has_char "/"%char s then String c (map_tail f r) else f s
  end.

(* ResourcePath(str): a "#" in the last component starts the fragment *)
Definition strip_frag (p : string) : string := map_tail (before_last "#"%char) p.

(* ResourcePath.updatedExtension: the text from the last "." of the last component is replaced *)
Definition set_ext (p ext : string) : string := map_tail (fun t => before_last "."%char t ++ ext) p.

Definition hexval (c : ascii) : option N :=
  let n := N_of_ascii c in
  if (48 <=? n)%N && (n <=? 57)%N then Some (n - 48)%N
  else if (65 <=? n)%N && (n <=? 70)%N then Some (n - 55)%N
  else if (97 <=? n)%N && (n <=? 102)%N then Some (n - 87)%N
  else None.

Definition uphex (c : ascii) : bool :=
  let n := N_of_ascii c in ((48 <=? n)%N && (n <=? 57)%N) || ((65 <=? n)%N && (n <=? 70)%N).

(* urllib.parse.unquote (ASCII results) *)
Fixpoint unq (s : string) : string :=
  match s with
  | EmptyString => EmptyString
  | String c r =>
      if Ascii.eqb c "%"%char
      then match r with
           | String a (String b r2) =>
               match hexval a, hexval b with
               | Some x, Some y => String (ascii_of_N (16 * x + y)) (unq r2)
               | _, _ => String c (unq r)
               end
           | _ => String c (unq r)
           end
      else String c (unq r)
  end.

(* lsst.resources ESCAPES_RE = %[A-F0-9]{2} *)
Fixpoint has_upper_escape (s : string) : bool :=
  match s with
  | EmptyString => false
  | String c r =>
      (Ascii.eqb c "%"%char && match r with String a (String b _) => uphex a && uphex b | _ => false end)
      || has_upper_escape r
  end.

(* ResourcePath(relative str).path : a string that "looks already encoded" is decoded (and then normalised) *)
Definition stage_a (s : string) : string := if has_upper_escape s then join_slash (norm_comps (unq s)) else s.

(* ---- locations -------------------------------------------------------------------------------------- *)
Definition lkey := list string.

Fixpoint lkey_eqb (a b : lkey) : bool :=
  match a, b with
  | [], [] => true
  | x :: r, y :: r' => String.eqb x y && lkey_eqb r r'
  | _, _ => false
  end.

(* a first component ".." = not under the root ([".."; "/"; ...] = a file-system-absolute location) *)
Definition inside (l : lkey) : bool := negb (String.eqb (hd "" l) "..").

(* where a RELATIVE path lives: root.join(path) decodes and normalises; text that decodes to a leading "/"
   replaces the root altogether *)
Definition rel_loc (p : string) : lkey :=
  let u := unq p in if is_abs u then ".." :: "/" :: norm_comps u else norm_comps u.

(* wire convention for absolute record paths: "/x/y" = <parent of the root>/x/y; the root itself is that parent's entry
   "repo", so "/repo/u/f" is the file u/f BELOW the root (a direct ingest of a file the datastore does not own but that
   lives under its root) *)
Definition abs_loc (p : string) : lkey :=
  match norm_comps p with
  | c :: rest => if String.eqb c "repo" then rest else ".." :: c :: rest
  | [] => [".."]
  end.

(* StoredFileInfo.file_location(...).uri *)
Definition loc (p : string) : lkey :=
  if is_abs p then abs_loc p else rel_loc (stage_a (strip_frag p)).

(* a template text that decodes (upper-case escape present) to an absolute path is refused by LocationFactory *)
Definition abs_after_decode (p : string) : bool := has_upper_escape p && is_abs (unq p).

(* df0ecd0: FileDatastore builds the location of a new artifact with trusted_path=False, so Location checks that the
   RESOLVED (decoded, normalised) location of the template text is under the root before anything is written.
   `chk` = that check is in force (false = the code before df0ecd0, kept for the _refuted_without_fix witnesses).
   `rchk` (step_v) = the same check on RECORD paths at use time (5539e78).
   `ichk` (step_v) = an ingest of a dataset the datastore already holds is refused BEFORE any file is transferred (2da36a1);
   false = the code before it: the target was overwritten first and the rollback of the refused insert removed it. *)
Definition checked (chk : bool) (p : string) : bool := negb chk || inside (rel_loc (stage_a p)).
Definition refuse_location (chk : bool) (p : string) : bool := abs_after_decode p || negb (checked chk p).

(* a79f022: _location_from_template -- the path that will be RECORDED for the location (location.pathInStore.path = stage_a p)
   is turned into a location once more (decoded again when an upper-case escape is left); that location must be inside the
   root and must be the location that is written, otherwise the name is refused with ValueError before anything is written.
   `wchk` = the rule is in force (false = the code before a79f022). *)
Definition write_rule (p : string) : bool :=
  let t := stage_a p in
  let r := rel_loc (stage_a t) in inside r && lkey_eqb r (rel_loc t).
Definition refuse_w (chk wchk : bool) (p : string) : bool := refuse_location chk p || (wchk && negb (write_rule p)).

(* LocationFactory.fromPath(template output) + updateExtension: text kept as pathInStore, location written *)
Definition target_text (p ext : string) : string := set_ext (stage_a p) ext.
Definition target_loc (p ext : string) : lkey := rel_loc (target_text p ext).

(* Where the FORMATTER writes on put: FormatterV2.write uses file_descriptor.location.uri.updatedExtension(ext), i.e. the
   extension is replaced on the DECODED, normalised location of the checked text (the last "." of its last component),
   whereas Location.updateExtension (target_text) cuts the still-encoded text.  The two differ when an escape decodes to
   "." ("a%2eb": the datastore sizes .../x_a.b.yaml, the formatter wrote .../x_a.yaml).  An empty location (the text
   normalises to the root itself) would name a sibling of the root: represented as outside. *)
Definition ext_last (l : lkey) (ext : string) : lkey :=
  match rev l with
  | [] => [".."; "<root>" ++ ext]
  | c :: r => (rev r ++ [(before_last "."%char c ++ ext)%string])%list
  end.
Definition write_loc (p ext : string) : lkey := ext_last (rel_loc (stage_a p)) ext.

(* ---- SQL LIKE (SQLite: "%" any run, "_" any one character, ASCII case-insensitive) ------------------- *)
Definition lower (c : ascii) : ascii :=
  let n := N_of_ascii c in if (65 <=? n)%N && (n <=? 90)%N then ascii_of_N (n + 32) else c.

Fixpoint like (pat : string) (s : string) : bool :=
  match pat with
  | EmptyString => match s with EmptyString => true | _ => false end
  | String c pr =>
      if Ascii.eqb c "%"%char
      then (fix any (t : string) : bool :=
              like pr t || match t with EmptyString => false | String _ tr => any tr end) s
      else match s with
           | EmptyString => false
           | String d sr => (Ascii.eqb c "_"%char || Ascii.eqb (lower c) (lower d)) && like pr sr
           end
  end.

(* column.startswith(prefix) without autoescape = LIKE prefix || '%' *)
Definition like_prefix (prefix s : string) : bool := like (prefix ++ "%") s.

(* ---- state ------------------------------------------------------------------------------------------ *)
Definition memN (x : N) (l : list N) : bool := existsb (N.eqb x) l.
Definition memS (x : string) (l : list string) : bool := existsb (String.eqb x) l.

Fixpoint fget (f : list (lkey * N)) (k : lkey) : option N :=
  match f with [] => None | (k', v) :: r => if lkey_eqb k' k then Some v else fget r k end.
Fixpoint fdel (f : list (lkey * N)) (k : lkey) : list (lkey * N) :=
  match f with [] => [] | (k', v) :: r => if lkey_eqb k' k then fdel r k else (k', v) :: fdel r k end.
Definition fset (f : list (lkey * N)) (k : lkey) (v : N) : list (lkey * N) := (k, v) :: fdel f k.

Record state := mkState {
  recs  : list (N * string);      (* file_datastore_records: dataset id, path *)
  live  : list N;                 (* dataset_location *)
  trash : list N;                 (* dataset_location_trash *)
  fs    : list (lkey * N)         (* every file on disk: location -> content id *)
}.

Inductive mode := Copy | Move.

Inductive op :=
| Put (id : N) (p : fresult) (ext : string) (c : N)
| Ingest (m : mode) (ids : list N) (p : fresult) (ext : string) (src : lkey)
| IngestDirect (ids : list N) (abs : string)
| IngestInPlace (ids : list N) (rel : string)
| IngestZip (members : list (N * string)) (zpath : string) (c : N)
| Trash (ids : list N)
| EmptyTrash
| Prune (ids : list N)
| RemoveRun (ids : list N)
| Ext (l : lkey) (c : option N)       (* the ENVIRONMENT creates / replaces / removes a file (not a datastore operation) *)
| Reorder (ids : list N).            (* the DATABASE returns the record rows in another order (no observable changes) *)

Inductive err := Conflict | NotFound | ValueErr | KeyErr | RuntimeErr.
Inductive outcome := Done | Refused (e : err).

Definition has_rec (s : state) (id : N) : bool := existsb (fun r => N.eqb (fst r) id) (recs s).

(* the datastore already holds (a row of) one of these ids: the INSERT is refused *)
Definition held_any (s : state) (ids : list N) : bool :=
  existsb (fun id => memN id (live s) || has_rec s id) ids.

Definition add_recs (s : state) (rows : list (N * string)) (f : list (lkey * N)) : state :=
  mkState (rows ++ recs s) (map fst rows ++ live s) (trash s) f.

Definition with_fs (s : state) (f : list (lkey * N)) : state := mkState (recs s) (live s) (trash s) f.

(* ---- emptyTrash ----------------------------------------------------------------------------------- *)
Definition trashed_recs (s : state) : list (N * string) := filter (fun r => memN (fst r) (trash s)) (recs s).
Definition live_recs (s : state) : list (N * string) := filter (fun r => memN (fst r) (live s)) (recs s).

Definition preserved (s : state) : list string :=
  map snd (filter (fun r => existsb (fun r' => String.eqb (snd r') (snd r)) (live_recs s)) (trashed_recs s)).

Definition prefixes (s : state) : list string :=
  map (fun r => artifact_of (snd r)) (filter (fun r => has_char "#"%char (snd r)) (trashed_recs s)).

Definition slow_keep (s : state) : list string :=
  map (fun r => artifact_of (snd r))
      (filter (fun r => negb (memN (fst r) (trash s))
                        && existsb (fun a => like_prefix (a ++ "#") (snd r)) (prefixes s))
              (recs s)).

Definition keep (s : state) : list string :=
  preserved s ++ (if existsb (fun r => has_char "#"%char (snd r)) (trashed_recs s) then slow_keep s else []).

(* the artifact of this trashed row is removed *)
Definition deletes (s : state) (p : string) : bool :=
  negb (memS (artifact_of p) (keep s)) && negb (is_abs p).

Fixpoint delete_all (s : state) (rows : list (N * string)) (f : list (lkey * N)) : list (lkey * N) :=
  match rows with
  | [] => f
  | r :: rest => delete_all s rest (if deletes s (snd r) then fdel f (loc (snd r)) else f)
  end.

Definition empty_trash (s : state) : state :=
  mkState (filter (fun r => negb (memN (fst r) (trash s))) (recs s))
          (live s)
          (filter (fun id => negb (has_rec s id)) (trash s))
          (delete_all s (trashed_recs s) (fs s)).

(* 5539e78: StoredFileInfo.file_location builds the location of a RELATIVE record path with trusted_path=False, so
   Location's containment check runs each time a record is turned into a location.  In emptyTrash that happens for a row
   whose artifact is about to be removed (after the keep test, before _delete_artifact), OUTSIDE the try block: the
   ValueError leaves the loop and the bridge's context manager, so no record / trash row is removed, while the artifacts
   of the rows processed before it are gone.  The order of the rows is the database's (see Reorder). *)
Definition poison (s : state) (p : string) : bool := deletes s p && negb (inside (loc p)).

Fixpoint delete_upto (s : state) (rows : list (N * string)) (f : list (lkey * N)) : list (lkey * N) * bool :=
  match rows with
  | [] => (f, true)
  | r :: rest => if poison s (snd r) then (f, false)
                 else delete_upto s rest (if deletes s (snd r) then fdel f (loc (snd r)) else f)
  end.

(* rchk = the record-location check is in force (false = the code before 5539e78) *)
Definition empty_trash_v (rchk : bool) (s : state) : state * outcome :=
  if rchk
  then match delete_upto s (trashed_recs s) (fs s) with
       | (f, true) => (mkState (filter (fun r => negb (memN (fst r) (trash s))) (recs s))
                               (live s)
                               (filter (fun id => negb (has_rec s id)) (trash s))
                               f, Done)
       | (f, false) => (with_fs s f, Refused ValueErr)
       end
  else (empty_trash s, Done).

(* the rows of `ids` first (in that order), then the rows whose relative path resolves outside the root, then the rest *)
Fixpoint pick_rows (ids : list N) (rows : list (N * string)) : list (N * string) * list (N * string) :=
  match ids with
  | [] => ([], rows)
  | id :: r => let (a, b) := partition (fun x => N.eqb (fst x) id) rows in
               let (a', b') := pick_rows r b in ((a ++ a')%list, b')
  end.
Definition outside_row (r : N * string) : bool := negb (is_abs (snd r)) && negb (inside (loc (snd r))).
Definition reorder (rows : list (N * string)) (ids : list N) : list (N * string) :=
  let (a, b) := pick_rows ids rows in (a ++ filter outside_row b ++ filter (fun r => negb (outside_row r)) b)%list.

(* bridge.moveToTrash(check(refs)) *)
Definition do_trash (s : state) (ids : list N) : state :=
  let known := filter (fun id => memN id ids) (live s) in
  mkState (recs s) (filter (fun id => negb (memN id ids)) (live s)) (known ++ trash s) (fs s).

(* ---- one operation ---------------------------------------------------------------------------------- *)
Definition step_v (chk rchk ichk wchk : bool) (s : state) (x : op) : state * outcome :=
  match x with
  | Put id fr ext c =>
      match fr with
      | FOutside => (s, Refused ValueErr)
      | FKeyErr => (s, Refused KeyErr)
      | FOk p =>
          if refuse_w chk wchk p then (s, Refused ValueErr) else
          if held_any s [id] then (s, Refused Conflict)
          else
            let l := target_loc p ext in
            let f1 := fset (fs s) (write_loc p ext) c in
            if inside l
            then let rp := join_slash l in
                 match fget f1 (loc rp) with
                 | Some _ => (add_recs s [(id, stage_a (strip_frag rp))] f1, Done)
                 | None => (with_fs s (fdel f1 l), Refused NotFound)
                 end
            else (with_fs s (fdel f1 l), Refused RuntimeErr)
      end
  | Ingest m ids fr ext src =>
      (* 2da36a1: _finishIngest first refuses datasets the datastore already holds -- before the template is formatted and
         before any file is transferred (the source has been found to exist by _prepIngest) *)
      if ichk && held_any s ids && (match fget (fs s) src with Some _ => true | None => false end)
      then (s, Refused Conflict) else
      match fr with
      | FOutside => (s, Refused ValueErr)
      | FKeyErr => (s, Refused KeyErr)
      | FOk p =>
          match fget (fs s) src with
          | None => (s, Refused NotFound)
          | Some c =>
              if refuse_w chk wchk p then (s, Refused ValueErr) else
              let l := target_loc p ext in
              if held_any s ids
              then (with_fs s (fdel (fs s) l), Refused Conflict)
              else
                let f0 := match m with Copy => fs s | Move => fdel (fs s) src end in
                (add_recs s (map (fun id => (id, target_text p ext)) ids) (fset f0 l c), Done)
          end
      end
  | IngestDirect ids a =>
      match fget (fs s) (abs_loc a) with
      | None => (s, Refused NotFound)
      | Some _ => if held_any s ids then (s, Refused Conflict)
                  else (add_recs s (map (fun id => (id, a)) ids) (fs s), Done)
      end
  | IngestInPlace ids rel =>
      let l := rel_loc (stage_a rel) in
      if negb (inside l) then (s, Refused RuntimeErr)
      else match fget (fs s) l with
           | None => (s, Refused NotFound)
           | Some _ => if held_any s ids then (s, Refused Conflict)
                       else (add_recs s (map (fun id => (id, join_slash l)) ids) (fs s), Done)
           end
  | IngestZip members z c =>
      let l := rel_loc z in
      if ichk && held_any s (map fst members) then (s, Refused Conflict) else
      if held_any s (map fst members)
      then (with_fs s (fdel (fs s) l), Refused Conflict)
      else (add_recs s (map (fun m => (fst m, z ++ "#zip-path=" ++ snd m)) members) (fset (fs s) l c), Done)
  | Trash ids => (do_trash s ids, Done)
  | EmptyTrash => empty_trash_v rchk s
  | Prune ids | RemoveRun ids => empty_trash_v rchk (do_trash s ids)
  | Ext l c => (with_fs s (match c with Some v => fset (fs s) l v | None => fdel (fs s) l end), Done)
  | Reorder ids => (mkState (reorder (recs s) ids) (live s) (trash s) (fs s), Done)
  end.

(* the code as it is *)
Definition step : state -> op -> state * outcome := step_v true true true true.

Definition run (s : state) (h : list op) : state := fold_left (fun st x => fst (step st x)) h s.

(* ---- vocabulary of the theorems ----------------------------------------------------------------------- *)

(* a live dataset has a record whose artifact lives at l *)
Definition referenced (s : state) (l : lkey) : bool :=
  existsb (fun r => lkey_eqb (loc (snd r)) l) (live_recs s).

(* guard 1: sharing of one artifact is visible to emptyTrash -- two rows of the record table that name the
   same location either carry the same path text, or are both fragment paths of one artifact text *)
Definition visible_pair (p q : string) : bool :=
  negb (lkey_eqb (loc p) (loc q))
  || String.eqb p q
  || (has_char "#"%char p && has_char "#"%char q && String.eqb (artifact_of p) (artifact_of q)).

Definition sharing_visible (s : state) : bool :=
  forallb (fun r => forallb (fun r' => visible_pair (snd r) (snd r')) (recs s)) (recs s).

(* guard 2: the operation is not an ingest of something the datastore already holds (whose rollback removes
   the artifact it has just overwritten) *)
Definition reingest (s : state) (x : op) : bool :=
  match x with
  | Ingest _ ids (FOk _) _ src => match fget (fs s) src with Some _ => held_any s ids | None => false end
  | IngestZip members _ _ => held_any s (map fst members)
  | _ => false
  end.

Definition is_ext (x : op) : bool := match x with Ext _ _ => true | _ => false end.

(* guard 3: the location the operation writes is inside the root *)
Definition target_inside (x : op) : bool :=
  match x with
  | Put _ (FOk p) ext _ | Ingest _ _ (FOk p) ext _ => inside (target_loc p ext)
  | IngestZip _ z _ => inside (rel_loc z)
  | _ => true
  end.

(* every relative record path names a location inside the root (invariant under guard 3) *)
Definition recs_inside (s : state) : bool :=
  forallb (fun r => is_abs (snd r) || inside (loc (snd r))) (recs s).

(* guard 5: on put the formatter writes where the datastore then looks (and where the record, read back, points):
   false only for names with percent-escapes that decode to "." or that are encoded three times *)
Definition put_coherent (x : op) : bool :=
  match x with
  | Put _ (FOk p) ext _ =>
      lkey_eqb (write_loc p ext) (target_loc p ext)
      && lkey_eqb (loc (join_slash (target_loc p ext))) (target_loc p ext)
  | _ => true
  end.

(* guard 6: no dataset is in dataset_location and dataset_location_trash at the same time *)
Definition live_trash_disjoint (s : state) : bool := forallb (fun id => negb (memN id (trash s))) (live s).

(* put: the checked text does not resolve to the root itself *)
Definition put_nonroot (x : op) : bool :=
  match x with Put _ (FOk p) _ _ => negb (lkey_eqb (rel_loc (stage_a p)) []) | _ => true end.

(* the record a put / an ingest creates, read back, names the location that was written *)
Definition put_record (p ext : string) : string := stage_a (strip_frag (join_slash (target_loc p ext))).
Definition ingest_leads_back (p ext : string) : bool := lkey_eqb (loc (target_text p ext)) (target_loc p ext).
Definition put_leads_back (p ext : string) : bool := lkey_eqb (loc (put_record p ext)) (target_loc p ext).

(* per-operation condition (no state involved): every record the operation can create resolves inside the root *)
Definition op_recs_ok (x : op) : bool :=
  match x with
  | Put _ (FOk p) ext _ => refuse_w true true p || negb (inside (target_loc p ext)) || inside (loc (put_record p ext))
  | Ingest _ _ (FOk p) ext _ => refuse_w true true p || inside (loc (target_text p ext))
  | IngestDirect _ a => is_abs a || inside (loc a)
  | IngestInPlace _ rel => inside (loc (join_slash (rel_loc (stage_a rel))))
  | IngestZip members z _ => forallb (fun m => inside (loc (z ++ "#zip-path=" ++ snd m))) members
  | _ => true
  end.

(* the staging file a move ingest removes at the caller's request *)
Definition moved_source (s : state) (x : op) (l : lkey) : bool :=
  match x with
  | Ingest Move ids (FOk _) _ src => lkey_eqb src l && negb (held_any s ids)
  | _ => false
  end.

(* The step from the checked text to the written text (updateExtension), on decoded components: attaching the
   extension keeps every component but the last and makes the last one an ordinary name.  Decidable; evaluated on
   every correspondence case; premise of writes_inside_root_partial. *)
Definition plain_comp (c : string) : bool :=
  negb (String.eqb c "") && negb (String.eqb c ".") && negb (String.eqb c "..").

Fixpoint is_prefix (a b : list string) : bool :=
  match a, b with
  | [], _ => true
  | x :: r, y :: r' => String.eqb x y && is_prefix r r'
  | _ :: _, [] => false
  end.

Definition ext_bridge (p ext : string) : bool :=
  let t := stage_a p in
  negb (is_abs (unq (set_ext t ext)))
  && match rev (split_slash (unq (set_ext t ext))) with
     | lst :: rinit => plain_comp lst && is_prefix (rev rinit) (split_slash (unq t))
     | [] => false
     end.

(* file-template containment: FileTemplate.format output WITHOUT its final check, for the refutation *)
Definition finish_path_unchecked (s : string) : string :=
  match norm_comps s with [] => "." | l => join_slash l end.
