(* C18 -- model of the hierarchical-key logic of lsst.daf.butler.Config (_config.py):
   _splitIntoKeys, _getKeyHierarchy, _checkNextItem/_findInHierarchy, __getitem__, __contains__,
   nameTuples(), names() (delimiter search + escaping).  Character level: a Python str is a list of
   code points (N), so that the default delimiter U+2192 and `chr(ord(d)+1)` are represented exactly.
   `str.isalnum` is a PARAMETER (`alnum`) of every function that needs it: theorems hold for every
   classification, the correspondence run supplies the classification Python gives for the characters
   of the case.  No proofs here. *)
From Coq Require Import ZArith NArith List Bool.
From Coq Require Decimal DecimalN.
Import ListNotations.
Open Scope N_scope.

Definition str := list N.
Definition BS : N := 92.   (* backslash *)
Definition CR : N := 13.   (* "\r", the placeholder _splitIntoKeys uses *)
Definition D0c : N := 8594. (* Config._D = U+2192 *)

Fixpoint seqb (a b : str) : bool :=
  match a, b with
  | [], [] => true
  | x :: a', y :: b' => (x =? y) && seqb a' b'
  | _, _ => false
  end.

(* dict keys that YAML / JSON / python literals produce: str, int, bool, None *)
Inductive key := KS (s : str) | KI (z : Z) | KB (b : bool) | KN.

(* configuration values *)
Inductive cv :=
| CNone | CBool (b : bool) | CInt (z : Z) | CFlt (q : Z) | CStr (s : str)
| CList (l : list cv) | CDict (d : list (key * cv)).

Inductive err := KeyErr | ValueErr | TypeErr | IndexErr.
Inductive res (A : Type) := Ok (a : A) | Err (e : err).
Arguments Ok {A} _.
Arguments Err {A} _.

(* ---- Python equality / hashing of dict keys: 1 == True, 0 == False ---- *)
Definition key_num (k : key) : option Z :=
  match k with KI z => Some z | KB b => Some (if b then 1%Z else 0%Z) | _ => None end.
Definition key_eq (a b : key) : bool :=
  match a, b with
  | KS x, KS y => seqb x y
  | KN, KN => true
  | _, _ => match key_num a, key_num b with Some x, Some y => Z.eqb x y | _, _ => false end
  end.
Fixpoint dget (k : key) (d : list (key * cv)) : option cv :=
  match d with [] => None | (k', v) :: r => if key_eq k k' then Some v else dget k r end.

(* ---- str(key) ---- *)
Fixpoint uint_chars (u : Decimal.uint) : str :=
  match u with
  | Decimal.Nil => []
  | Decimal.D0 u => 48 :: uint_chars u | Decimal.D1 u => 49 :: uint_chars u | Decimal.D2 u => 50 :: uint_chars u
  | Decimal.D3 u => 51 :: uint_chars u | Decimal.D4 u => 52 :: uint_chars u | Decimal.D5 u => 53 :: uint_chars u
  | Decimal.D6 u => 54 :: uint_chars u | Decimal.D7 u => 55 :: uint_chars u | Decimal.D8 u => 56 :: uint_chars u
  | Decimal.D9 u => 57 :: uint_chars u
  end.
Definition N_str (n : N) : str := uint_chars (N.to_uint n).
Definition Z_str (z : Z) : str :=
  match z with Z0 => [48] | Zpos p => N_str (Npos p) | Zneg p => 45 :: N_str (Npos p) end.
Definition key_str (k : key) : str :=
  match k with
  | KS s => s
  | KI z => Z_str z
  | KB true => [84; 114; 117; 101]
  | KB false => [70; 97; 108; 115; 101]
  | KN => [78; 111; 110; 101]
  end.

(* ---- int(str) as far as the generated probes go: ASCII whitespace, sign, digits, single underscores ---- *)
Definition is_ws (c : N) : bool := ((9 <=? c) && (c <=? 13)) || ((28 <=? c) && (c <=? 32)).
Fixpoint lstrip (s : str) : str := match s with c :: r => if is_ws c then lstrip r else s | [] => [] end.
Definition strip (s : str) : str := rev (lstrip (rev (lstrip s))).
Definition dig (c : N) (u : Decimal.uint) : option Decimal.uint :=
  match c with
  | 48 => Some (Decimal.D0 u) | 49 => Some (Decimal.D1 u) | 50 => Some (Decimal.D2 u) | 51 => Some (Decimal.D3 u)
  | 52 => Some (Decimal.D4 u) | 53 => Some (Decimal.D5 u) | 54 => Some (Decimal.D6 u) | 55 => Some (Decimal.D7 u)
  | 56 => Some (Decimal.D8 u) | 57 => Some (Decimal.D9 u) | _ => None
  end.
Fixpoint digits (s : str) (prev_digit : bool) : option Decimal.uint :=
  match s with
  | [] => if prev_digit then Some Decimal.Nil else None
  | c :: r =>
      if c =? 95 then (if prev_digit then digits r false else None)
      else match digits r true with
           | Some u => dig c u
           | None => None
           end
  end.
Definition py_int (s : str) : option Z :=
  match strip s with
  | 45 :: r => match digits r false with Some u => Some (- Z.of_N (N.of_uint u))%Z | None => None end
  | 43 :: r => match digits r false with Some u => Some (Z.of_N (N.of_uint u)) | None => None end
  | r => match digits r false with Some u => Some (Z.of_N (N.of_uint u)) | None => None end
  end.

(* int(k): Ok (Some z) | Ok None = ValueError | Err TypeErr (int(None)) *)
Definition key_int (k : key) : res (option Z) :=
  match k with
  | KS s => Ok (py_int s)
  | KI z => Ok (Some z)
  | KB b => Ok (Some (if b then 1%Z else 0%Z))
  | KN => Err TypeErr
  end.

(* seq[z] with Python's negative indices; None = IndexError *)
Definition py_index {A} (l : list A) (z : Z) : option A :=
  let n := Z.of_nat (length l) in
  if (0 <=? z)%Z && (z <? n)%Z then nth_error l (Z.to_nat z)
  else if (- n <=? z)%Z && (z <? 0)%Z then nth_error l (Z.to_nat (n + z))
  else None.

(* ---- substring test, str.replace of a 2-character pattern, str.split on one character ---- *)
Fixpoint prefixb (p s : str) : bool :=
  match p, s with
  | [], _ => true
  | a :: p', b :: s' => (a =? b) && prefixb p' s'
  | _ :: _, [] => false
  end.
Fixpoint infixb (p s : str) : bool :=
  prefixb p s || match s with [] => false | _ :: r => infixb p r end.
Fixpoint replace2 (a b t : N) (s : str) : str :=
  match s with
  | x :: ((y :: r) as tl) => if (x =? a) && (y =? b) then t :: replace2 a b t r else x :: replace2 a b t tl
  | _ => s
  end.
Fixpoint split (d : N) (s : str) : list str :=
  match s with
  | [] => [[]]
  | c :: r => if c =? d then [] :: split d r
              else match split d r with h :: t => (c :: h) :: t | [] => [[c]] end
  end.
Definition memc (c : N) (s : str) : bool := existsb (N.eqb c) s.

(* ---- _checkNextItem (create=False), for a node below or at the top level ---- *)
Definition mem_str (k : key) (l : list cv) : bool :=
  match k with
  | KS s => existsb (fun x => match x with CStr s' => seqb s s' | _ => false end) l
  | _ => false
  end.
Definition check_next (k : key) (d : cv) : res (cv * bool) :=
  match d with
  | CNone => Ok (CNone, false)
  | CDict m => match dget k m with Some v => Ok (v, true) | None => Ok (CNone, false) end
  | CList l =>
      match key_int k with
      | Err e => Err e
      | Ok (Some z) => match py_index l z with Some v => Ok (v, true) | None => Ok (CNone, false) end
      | Ok None => Ok (CNone, mem_str k l)       (* ValueError: isThere = k in d, nextVal = None *)
      end
  | CStr s =>                                     (* a str is a Sequence too *)
      match key_int k with
      | Err e => Err e
      | Ok (Some z) => match py_index s z with Some c => Ok (CStr [c], true) | None => Ok (CNone, false) end
      | Ok None => Ok (CNone, match k with KS p => infixb p s | _ => false end)
      end
  | CBool _ | CInt _ | CFlt _ => Err TypeErr      (* `k in d` on a number *)
  end.

(* _findInHierarchy: Ok None = incomplete *)
Fixpoint walk (ks : list key) (d : cv) : res (option cv) :=
  match ks with
  | [] => Ok (Some d)
  | k :: r => match check_next k d with
              | Err e => Err e
              | Ok (v, true) => walk r v
              | Ok (_, false) => Ok None
              end
  end.

(* ---- _splitIntoKeys for a str argument ---- *)
Definition unesc (d : N) (h : str) : str := map (fun c => if c =? CR then d else c) h.
Definition split_key (alnum : N -> bool) (name : str) : res (list key) :=
  match name with
  | [] => Err IndexErr                            (* key[0] on "" *)
  | d :: k =>
      if alnum d then Ok [KS name]
      else if infixb [BS; d] k then
        if infixb [BS; BS; d] k then Err ValueErr
        else if memc CR k || (d =? CR) then Err ValueErr
        else Ok (map (fun h => KS (unesc d h)) (split d (replace2 BS d CR k)))
      else Ok (map KS (split d k))
  end.

(* ---- Config.__getitem__(str), `str in Config`, Config.__getitem__(tuple) on the top-level dict ---- *)
Definition finish (r : res (option cv)) : res cv :=
  match r with Err e => Err e | Ok None => Err KeyErr | Ok (Some v) => Ok v end.
Definition walk1 (ks : list key) (top : list (key * cv)) : res (option cv) :=
  match ks with [] => Err IndexErr (* hierarchy[-1] of an empty list *) | _ => walk ks (CDict top) end.
Definition lookup (alnum : N -> bool) (top : list (key * cv)) (name : str) : res cv :=
  match dget (KS name) top with
  | Some v => Ok v
  | None => match split_key alnum name with
            | Err e => Err e
            | Ok ks => finish (walk1 ks top)
            end
  end.
Definition contains (alnum : N -> bool) (top : list (key * cv)) (name : str) : res bool :=
  match dget (KS name) top with
  | Some _ => Ok true
  | None => match split_key alnum name with
            | Err e => Err e
            | Ok ks => match walk ks (CDict top) with Err e => Err e | Ok None => Ok false | Ok (Some _) => Ok true end
            end
  end.
Definition lookup_tuple (top : list (key * cv)) (t : list key) : res cv := finish (walk1 t top).

(* ---- nameTuples(): every key path, paired with the value found there (pre-order) ---- *)
Fixpoint tuples (v : cv) : list (list key * cv) :=
  match v with
  | CDict d =>
      (fix go (d : list (key * cv)) : list (list key * cv) :=
         match d with
         | [] => []
         | (k, x) :: r => ([k], x) :: map (fun p => (k :: fst p, snd p)) (tuples x) ++ go r
         end) d
  | CList l =>
      (fix go (i : Z) (l : list cv) : list (list key * cv) :=
         match l with
         | [] => []
         | x :: r => ([KI i], x) :: map (fun p => (KI i :: fst p, snd p)) (tuples x) ++ go (i + 1)%Z r
         end) 0%Z l
  | _ => []
  end.

(* ---- names() ---- *)
Definition esc (d : N) (s : str) : str := flat_map (fun c => if c =? d then [BS; d] else [c]) s.
Fixpoint join (d : N) (parts : list str) : str :=
  match parts with
  | [] => []
  | [p] => p
  | p :: r => p ++ d :: join d r
  end.
Definition mkname (d : N) (t : list key) : str := d :: join d (map (fun k => esc d (key_str k)) t).
Definition combined (top : list (key * cv)) : str :=
  flat_map (fun p => flat_map key_str (fst p)) (tuples (CDict top)).

(* chr(ord(d)+1) until not alnum; the inner loop is cut at 256 steps (None = out of fuel, excluded by the
   theorems; from U+2192 the next 101 code points are arrows/mathematical operators, never alphanumeric) *)
Fixpoint next_delim (alnum : N -> bool) (fuel : nat) (d : N) : option N :=
  match fuel with
  | O => None
  | S f => if alnum (d + 1) then next_delim alnum f (d + 1) else Some (d + 1)
  end.
Fixpoint find_delim (alnum : N -> bool) (tries : nat) (d : N) (comb : str) : option N :=
  if negb (memc d comb) then Some d
  else match tries with
       | O => None                                  (* ValueError after 100 retries *)
       | S t => match next_delim alnum 256 d with Some d' => find_delim alnum t d' comb | None => None end
       end.

Definition names_with (d : N) (top : list (key * cv)) : list (str * cv) :=
  map (fun p => (mkname d (fst p), snd p)) (tuples (CDict top)).
(* names(): None = ValueError *)
Definition names_default (alnum : N -> bool) (top : list (key * cv)) : option (N * list (str * cv)) :=
  match find_delim alnum 100 D0c (combined top) with
  | Some d => Some (d, names_with d top)
  | None => None
  end.
(* names(delimiter=d), d a single character *)
Definition names_explicit (alnum : N -> bool) (d : N) (top : list (key * cv)) : option (list (str * cv)) :=
  if alnum d then None else Some (names_with d top).

(* ---- structural equality of values (what `==` gives on values copied out of a Config) ---- *)
Definition key_same (a b : key) : bool :=
  match a, b with
  | KS x, KS y => seqb x y | KI x, KI y => Z.eqb x y | KB x, KB y => Bool.eqb x y | KN, KN => true | _, _ => false
  end.
Fixpoint cv_eqb (a b : cv) : bool :=
  match a, b with
  | CNone, CNone => true
  | CBool x, CBool y => Bool.eqb x y
  | CInt x, CInt y => Z.eqb x y
  | CFlt x, CFlt y => Z.eqb x y
  | CStr x, CStr y => seqb x y
  | CList l1, CList l2 =>
      (fix go (l1 l2 : list cv) : bool :=
         match l1, l2 with
         | [], [] => true
         | x :: r, y :: s => cv_eqb x y && go r s
         | _, _ => false
         end) l1 l2
  | CDict d1, CDict d2 =>
      (fix go (d1 d2 : list (key * cv)) : bool :=
         match d1, d2 with
         | [], [] => true
         | (k, x) :: r, (k', y) :: s => key_same k k' && cv_eqb x y && go r s
         | _, _ => false
         end) d1 d2
  | _, _ => false
  end.
