(* C02, second layer -- the registry model of Model/Registry.v (RUN / TAGGED collections, datasets, tag rows, summaries)
   extended with
     * CHAINED collections (registerCollection(CHAINED), setCollectionChain; a chain holds nothing itself: what
       queryDatasets reports for it is the union over its flattened children, find-first = the first child that holds the key),
     * CALIBRATION collections (registerCollection(CALIBRATION), certify: rows of dataset_calibs_* with a validity range;
       certify membership is NOT a tag row),
     * removeDatasetType,
   and with the cascades these add to the operations of the first layer (a removed dataset leaves every calibration
   collection; a collection that is a child of a chain cannot be removed).
   Layering: `xstate` CONTAINS a first-layer `state` (field `base`); every first-layer operation `Base o` on a RUN / TAGGED /
   unknown collection name is executed by the first layer's `step` unchanged.  Proofs/RegistryXProofs*.v show that the
   first layer's invariants survive the new operations, so its theorems hold in the extended model too.
   Faithful to
     registry/sql_registry.py   (certify, removeDatasetType, setCollectionChain, removeCollection)
     registry/datasets/byDimensions/_manager.py (certify: type registered, isCalibration, CALIBRATION collection, two refs
                                 with one data ID in the batch, overlap query, then INSERT -- the dataset FK fails raw;
                                 remove_dataset_type: IntegrityError -> OrphanedRecordError)
     registry/datasets/byDimensions/tables.py   (calibs table: FK dataset ON DELETE CASCADE, FK collection ON DELETE CASCADE,
                                 FK dataset_type (no cascade); summary table FK dataset_type ON DELETE CASCADE)
     registry/collections/_base.py (update_chain / _modify_collection_chain / _sanity_check_collection_cycles: children
                                 resolved first (missing child), cycle, then parent looked up (missing, not CHAINED);
                                 collection_chain.child FK without cascade: a child cannot be removed)
   Dataset type `t` is a calibration dataset type iff `is_calib_type t` (the harness registers dt2 with isCalibration=True).
   A validity range is [b, b + 1 + len) over a small integer grid (never empty).
   No proofs in this file. *)
From Coq Require Import NArith List Bool.
From V Require Import Model.Registry.
Import ListNotations.
Open Scope N_scope.

Inductive xkind := CHAINED | CALIBRATION.
Inductive xerr := SqlErr | DatasetTypeErr | Orphaned | Cycle.
Inductive xout := B (o : outcome) | X (e : xerr).

(* calibration row: collection, dataset type, data id, dataset id, validity range [q_b, q_e) *)
Record crow := CRow { q_coll : N; q_type : N; q_data : N; q_id : N; q_b : N; q_e : N }.

Record xstate := XS {
  base : state;
  xcolls : list (N * xkind);          (* CHAINED and CALIBRATION collections (names disjoint from colls base) *)
  chains : list (N * list N);         (* collection_chain: parent -> children in order *)
  calibs : list crow;                 (* dataset_calibs_* *)
  xsumm_t : list (N * N);             (* summary rows of CALIBRATION collections *)
  xsumm_g : list (N * N)
}.

Definition xinit : xstate := XS init [] [] [] [] [].

Inductive xop :=
| Base (o : op)
| RegisterChained (c : N)
| RegisterCalib (c : N)
| SetChain (c : N) (children : list N)
| Certify (c : N) (refs : list ref) (b len : N)
| RemoveType (t : N).

Definition is_calib_type (t : N) : bool := t =? 2.

(* ---- lookups ---------------------------------------------------------------------------------------------- *)
Fixpoint xkind_in (l : list (N * xkind)) (c : N) : option xkind :=
  match l with
  | [] => None
  | (c', k) :: r => if c' =? c then Some k else xkind_in r c
  end.
Definition xkind_of (s : xstate) (c : N) : option xkind := xkind_in (xcolls s) c.
Definition exists_coll (s : xstate) (c : N) : bool :=
  match coll_type (base s) c, xkind_of s c with None, None => false | _, _ => true end.
Fixpoint chain_in (l : list (N * list N)) (c : N) : list N :=
  match l with
  | [] => []
  | (c', ch) :: r => if c' =? c then ch else chain_in r c
  end.
Definition chain_of (s : xstate) (c : N) : list N := chain_in (chains s) c.
Definition is_child (s : xstate) (c : N) : bool := existsb (fun p => memN c (snd p)) (chains s).
Definition with_base (s : xstate) (b : state) : xstate := XS b (xcolls s) (chains s) (calibs s) (xsumm_t s) (xsumm_g s).

(* the CHAINED collections reachable from cs (themselves included), depth-first; fuel = number of chains + 1 is enough
   for an acyclic definition *)
Fixpoint reach_chains (s : xstate) (fuel : nat) (cs : list N) : list N :=
  match fuel with
  | O => []
  | S n => flat_map (fun c => match xkind_of s c with
                              | Some CHAINED => c :: reach_chains s n (chain_of s c)
                              | _ => []
                              end) cs
  end.
(* the non-CHAINED collections a search path expands to, in search order *)
Fixpoint flatten (s : xstate) (fuel : nat) (cs : list N) : list N :=
  match fuel with
  | O => []
  | S n => flat_map (fun c => match xkind_of s c with
                              | Some CHAINED => flatten s n (chain_of s c)
                              | _ => [c]
                              end) cs
  end.
Definition fuel_of (s : xstate) : nat := S (length (chains s)).

(* first-occurrence de-duplication (CollectionWildcard.from_expression(...).require_ordered()) *)
Fixpoint dedupN (l seen : list N) : list N :=
  match l with
  | [] => []
  | x :: r => if memN x seen then dedupN r seen else x :: dedupN r (x :: seen)
  end.

(* ---- first-layer operations in the presence of the new collection kinds ------------------------------------ *)
(* a CHAINED / CALIBRATION collection is "not RUN" for insert / import and "not TAGGED" for associate / disassociate:
   the argument checks run in the same order and end in CollectionTypeError *)
Definition x_insert_refused (b : state) (t : N) : outcome :=
  if negb (has_type b t) then Err MissingDatasetType else Err CollectionTypeErr.
Definition x_import_refused (refs : list ref) : outcome :=
  match refs with [] => Ok | _ => Err CollectionTypeErr end.
Definition x_assoc_refused (b : state) (c : N) (refs : list ref) : outcome :=
  match assoc_groups b c RUN refs (types_in_order refs []) (tags b, summ_t b, summ_g b) with
  | inr e => Err e
  | inl _ => Ok
  end.

Definition gone_ids (ids : list N) (q : crow) : bool := memN (q_id q) ids.
Definition gone_run (b : state) (c : N) (q : crow) : bool :=
  match ds_find (datasets b) (q_id q) with Some x => d_run x =? c | None => false end.

Definition x_remove_collection (s : xstate) (c : N) : xstate * xout :=
  if negb (exists_coll s c) then (s, B (Err MissingCollection)) else
  if is_child s c then (s, X SqlErr) else
  match xkind_of s c with
  | Some _ =>
    (XS (base s) (filter (fun p => negb (fst p =? c)) (xcolls s)) (filter (fun p => negb (fst p =? c)) (chains s))
        (filter (fun q => negb (q_coll q =? c)) (calibs s))
        (filter (fun p => negb (fst p =? c)) (xsumm_t s)) (filter (fun p => negb (fst p =? c)) (xsumm_g s)), B Ok)
  | None =>
    let '(b', o) := step (base s) (RemoveCollection c) in
    (XS b' (xcolls s) (chains s) (filter (fun q => negb (gone_run (base s) c q)) (calibs s)) (xsumm_t s) (xsumm_g s), B o)
  end.

Definition x_base (s : xstate) (o : op) : xstate * xout :=
  match o with
  | RegisterRun c | RegisterTagged c =>
    match xkind_of s c with
    | Some _ => (s, B Ok)                (* existing record returned whatever its type *)
    | None => let '(b', r) := step (base s) o in (with_base s b', B r)
    end
  | RegisterType _ => let '(b', r) := step (base s) o in (with_base s b', B r)
  | Insert t c _ =>
    match xkind_of s c with
    | Some _ => (s, B (x_insert_refused (base s) t))
    | None => let '(b', r) := step (base s) o in (with_base s b', B r)
    end
  | Import c refs =>
    match xkind_of s c with
    | Some _ => (s, B (x_import_refused refs))
    | None => let '(b', r) := step (base s) o in (with_base s b', B r)
    end
  | Associate c refs | Disassociate c refs =>
    match xkind_of s c with
    | Some _ => (s, B (x_assoc_refused (base s) c refs))
    | None => let '(b', r) := step (base s) o in (with_base s b', B r)
    end
  | RemoveDatasets ids =>
    let '(b', r) := step (base s) o in
    (XS b' (xcolls s) (chains s) (filter (fun q => negb (gone_ids ids q)) (calibs s)) (xsumm_t s) (xsumm_g s), B r)
  | RemoveCollection c => x_remove_collection s c
  end.

(* ---- new operations ------------------------------------------------------------------------------------------ *)
Definition x_register (s : xstate) (c : N) (k : xkind) : xstate * xout :=
  if exists_coll s c then (s, B Ok) else
  (XS (base s) ((c, k) :: xcolls s) (match k with CHAINED => (c, []) :: chains s | CALIBRATION => chains s end)
      (calibs s) (xsumm_t s) (xsumm_g s), B OkNew).

Definition x_set_chain (s : xstate) (c : N) (children : list N) : xstate * xout :=
  let ch := dedupN children [] in
  if negb (forallb (exists_coll s) ch) then (s, B (Err MissingCollection)) else
  if memN c (reach_chains s (fuel_of s) ch) then (s, X Cycle) else
  if negb (exists_coll s c) then (s, B (Err MissingCollection)) else
  match xkind_of s c with
  | Some CHAINED =>
    (XS (base s) (xcolls s) ((c, ch) :: filter (fun p => negb (fst p =? c)) (chains s)) (calibs s) (xsumm_t s) (xsumm_g s), B Ok)
  | _ => (s, B (Err CollectionTypeErr))
  end.

Definition overlaps (b e : N) (q : crow) : bool := (q_b q <? e) && (b <? q_e q).
Definition cal_row (c : N) (b e : N) (f : ref) : crow := CRow c (f_type f) (f_data f) (f_id f) b e.
Fixpoint dup_data (g : list ref) (seen : list N) : bool :=
  match g with
  | [] => false
  | f :: r => if memN (f_data f) seen then true else dup_data r (f_data f :: seen)
  end.

Inductive ckind := KBase (k : ctype) | KX (k : xkind).
Definition kind_of (s : xstate) (c : N) : option ckind :=
  match xkind_of s c with
  | Some k => Some (KX k)
  | None => option_map KBase (coll_type (base s) c)
  end.

(* one manager.certify call per dataset type, in order of first occurrence *)
Fixpoint cert_groups (s : xstate) (c : N) (k : ckind) (refs : list ref) (b e : N) (ts : list N)
         (acc : list crow * list (N * N) * list (N * N)) : (list crow * list (N * N) * list (N * N)) + xout :=
  match ts with
  | [] => inl acc
  | t :: r =>
    if negb (has_type (base s) t) then inr (B (Err MissingDatasetType)) else
    if negb (is_calib_type t) then inr (X DatasetTypeErr) else
    match k with
    | KX CALIBRATION =>
      let '(cal, st, sg) := acc in
      let g := group refs t in
      if dup_data g [] then inr (B (Err Conflict)) else
      if existsb (fun q => (q_coll q =? c) && (q_type q =? t) && existsb (fun f => f_data f =? q_data q) g && overlaps b e q) cal
      then inr (B (Err Conflict)) else
      if negb (forallb (fun f => alive (base s) (f_id f)) g) then inr (X SqlErr) else
      cert_groups s c k refs b e r
        (map (cal_row c b e) g ++ cal, summ_add_rows c (map (ref_row c) g) st, summ_add_govs c (map (ref_row c) g) sg)
    | _ => inr (B (Err CollectionTypeErr))
    end
  end.

Definition x_certify (s : xstate) (c : N) (refs : list ref) (b len : N) : xstate * xout :=
  match kind_of s c with
  | None => (s, B (Err MissingCollection))
  | Some k =>
    match cert_groups s c k refs b (b + 1 + len) (types_in_order refs []) (calibs s, xsumm_t s, xsumm_g s) with
    | inr e => (s, e)
    | inl (cal, st, sg) =>
      match refs with
      | [] => (s, B Ok)
      | _ => (XS (base s) (xcolls s) (chains s) cal st sg, B Ok)
      end
    end
  end.

(* DELETE FROM dataset_type: refused (foreign keys of dataset, tags and calibs rows) while a row of that type exists;
   the summary rows of the type go by ON DELETE CASCADE; an unregistered name is a no-op *)
Definition type_in_use (s : xstate) (t : N) : bool :=
  existsb (fun x => d_type x =? t) (datasets (base s)) || existsb (fun x => r_type x =? t) (tags (base s)) ||
  existsb (fun q => q_type q =? t) (calibs s).
Definition x_remove_type (s : xstate) (t : N) : xstate * xout :=
  if negb (has_type (base s) t) then (s, B Ok) else
  if type_in_use s t then (s, X Orphaned) else
  let b := base s in
  (XS (St (colls b) (filter (fun t' => negb (t' =? t)) (dtypes b)) (datasets b) (tags b)
          (filter (fun p => negb (snd p =? t)) (summ_t b)) (summ_g b))
      (xcolls s) (chains s) (calibs s) (filter (fun p => negb (snd p =? t)) (xsumm_t s)) (xsumm_g s), B Ok).

Definition xstep (s : xstate) (o : xop) : xstate * xout :=
  match o with
  | Base o => x_base s o
  | RegisterChained c => x_register s c CHAINED
  | RegisterCalib c => x_register s c CALIBRATION
  | SetChain c children => x_set_chain s c children
  | Certify c refs b len => x_certify s c refs b len
  | RemoveType t => x_remove_type s t
  end.

Definition xexec (s : xstate) (o : xop) : xstate := fst (xstep s o).
Definition xrun (h : list xop) : xstate := fold_left xexec h xinit.

(* ---- queries --------------------------------------------------------------------------------------------------- *)
(* what a single non-CHAINED collection holds for dataset type t: (data id, dataset id); a CALIBRATION collection
   reports one entry per validity range *)
Definition holds (s : xstate) (c t : N) : list (N * N) :=
  match xkind_of s c with
  | Some CALIBRATION => map (fun q => (q_data q, q_id q)) (filter (fun q => (q_coll q =? c) && (q_type q =? t)) (calibs s))
  | Some CHAINED => []
  | None => contents (base s) c t
  end.
(* queryDatasets(t, collections=[c], findFirst=False) for ANY collection kind: the union over the flattened children *)
Definition view (s : xstate) (c t : N) : list (N * N) :=
  flat_map (fun c' => holds s c' t) (flatten s (fuel_of s) [c]).
(* find-first: the first collection of the flattened search path that holds the key *)
Fixpoint first_in (s : xstate) (cs : list N) (t d : N) : option N :=
  match cs with
  | [] => None
  | c :: r =>
    match filter (fun p => fst p =? d) (holds s c t) with
    | p :: _ => Some (snd p)
    | [] => first_in s r t d
    end
  end.
Definition view_first (s : xstate) (c t d : N) : option N := first_in s (flatten s (fuel_of s) [c]) t d.
