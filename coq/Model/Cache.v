(* C17 -- executable model of the two cache layers of daf_butler, as coded.

   PART 1  the datastore file cache (datastore/cache_manager.py: DatastoreCacheManager + CacheRegistry)
     disk      the files of one cache directory (several managers may share it)
     mgr       one manager's CacheRegistry: entries in dict insertion order + the running size `_size`
     key       file name in the cache, as a number: key = 4 * dataset + k  (k = component / extension index),
               so that `ref_of key` is what `_parse_cache_name` recovers from the name
     ctime     st_ctime of the file as recorded when the entry was registered (NOT refreshed by later scans);
               `find_in_cache` hard-links the file, which stamps the file's ctime on disk
     expire    `_expire_cache`: scan, then files / datasets / size / age as coded; runs BEFORE the insertion
     age       `age_fix = true`: delta.total_seconds() (the code as it is, /repo 9b27982);
               `age_fix = false`: delta.seconds, i.e. the age modulo one day (the code before that repair)

   PART 2  the registry caches that exist only inside `caching_context()` (registry/_caching_context.py):
     collection record cache (records by collection NAME with the `full` flag: "holds every collection", set by
     pattern / `...` lookups which then answer from the cache alone) and collection summary cache (by collection
     KEY; SQLite hands the key of a removed collection to the next one registered: new key = 1 + largest key),
     with the invalidation points as coded: a summary write clears the summary cache (/repo 72f8c65);
     setCollectionChain updates the record cache and clears the summary cache (/repo d43ed5b); removeCollection
     discards the record and clears the summary cache (/repo 65fc362).
     `chain_fix` / `rm_fix` = true is the code as it is; false is the code before d43ed5b / 65fc362;
     `rm_order` = true is removal as coded (database delete, THEN discard the cached record), false the reversed
     order (the record is gone from a `full` cache although the database refused the delete).  The non-shipped
     settings are used only by the refutation witnesses.  An operation the registry refuses answers `err_ans` and changes nothing. *)
From Coq Require Import ZArith NArith List Bool.
Import ListNotations.
Open Scope Z_scope.

(* ------------------------------------------------------------------------------------------------ *)
(* PART 1: file cache                                                                                *)
(* ------------------------------------------------------------------------------------------------ *)

Record entry := mkEntry { e_key : N; e_size : Z; e_ctime : Z }.

Definition ref_of (k : N) : N := N.div k 4.
Definition e_ref (e : entry) : N := ref_of (e_key e).

Inductive mode := MNone | MDisabled | MFiles | MDatasets | MSize | MAge.
Record cfg := mkCfg { c_mode : mode; c_thr : Z }.

Record mgr := mkMgr { entries : list entry; msize : Z }.
Definition empty_mgr : mgr := mkMgr [] 0.

Definition keys (l : list entry) : list N := map e_key l.
Definition has_key (k : N) (l : list entry) : bool := existsb (fun e => N.eqb (e_key e) k) l.
Definition find_key (k : N) (l : list entry) : option entry := find (fun e => N.eqb (e_key e) k) l.
Definition drop_key (k : N) (l : list entry) : list entry := filter (fun e => negb (N.eqb (e_key e) k)) l.
Fixpoint sum_sizes (l : list entry) : Z := match l with [] => 0 | e :: r => e_size e + sum_sizes r end.

(* CacheRegistry.__setitem__ *)
Definition reg_add (e : entry) (m : mgr) : mgr := mkMgr (entries m ++ [e]) (msize m + e_size e).
(* CacheRegistry.pop(key, None): `_decrement` clamps a negative running size to 0 *)
Definition reg_pop (k : N) (m : mgr) : mgr :=
  match find_key k (entries m) with
  | None => m
  | Some e => mkMgr (drop_key k (entries m)) (Z.max 0 (msize m - e_size e))
  end.

(* _remove_from_cache: pop the entry, delete the file (a missing file is not an error) *)
Definition remove1 (k : N) (dm : list entry * mgr) : list entry * mgr :=
  (drop_key k (fst dm), reg_pop k (snd dm)).
Definition remove_keys (ks : list N) (dm : list entry * mgr) : list entry * mgr :=
  fold_left (fun acc k => remove1 k acc) ks dm.

(* scan_cache: register files not yet known (existing entries are NOT refreshed), then forget entries
   whose file is gone *)
Definition scan_add (disk : list entry) (m : mgr) : mgr :=
  fold_left (fun acc f => if has_key (e_key f) (entries acc) then acc else reg_add f acc) disk m.
Definition scan_drop (disk : list entry) (m : mgr) : mgr :=
  fold_left (fun acc k => if has_key k disk then acc else reg_pop k acc) (keys (entries m)) m.
Definition scan (disk : list entry) (m : mgr) : mgr := scan_drop disk (scan_add disk m).

(* _sort_cache: Python's stable sort by ctime = insertion sort that keeps equal elements in order *)
Fixpoint ins_sorted (e : entry) (l : list entry) : list entry :=
  match l with
  | [] => [e]
  | x :: r => if e_ctime e <? e_ctime x then e :: l else x :: ins_sorted e r
  end.
Definition sort_entries (l : list entry) : list entry := fold_left (fun acc e => ins_sorted e acc) l [].

Fixpoint nodup_n (l : list N) : list N :=
  match l with
  | [] => []
  | x :: r => x :: filter (fun y => negb (N.eqb y x)) (nodup_n r)
  end.

(* the age of an entry as the code computes it *)
Definition age_of (age_fix : bool) (now ctime : Z) : Z :=
  if age_fix then now - ctime else (now - ctime) mod 86400.

Fixpoint size_loop (thr : Z) (ks : list N) (dm : list entry * mgr) : list entry * mgr :=
  match ks with
  | [] => dm
  | k :: r => let dm' := remove1 k dm in
              if msize (snd dm') <=? thr then dm' else size_loop thr r dm'
  end.
Fixpoint age_loop (age_fix : bool) (thr now : Z) (l : list entry) (dm : list entry * mgr) : list entry * mgr :=
  match l with
  | [] => dm
  | e :: r => if thr <? age_of age_fix now (e_ctime e) then age_loop age_fix thr now r (remove1 (e_key e) dm) else dm
  end.

Definition n_over (n : nat) (thr : Z) : nat := Z.to_nat (Z.of_nat n - thr).

(* _expire_cache *)
Definition expire (age_fix : bool) (c : cfg) (now : Z) (dm : list entry * mgr) : list entry * mgr :=
  match c_mode c with
  | MNone | MDisabled => dm
  | md =>
    let disk := fst dm in
    let m := scan disk (snd dm) in
    let sorted := sort_entries (entries m) in
    match md with
    | MFiles => remove_keys (keys (firstn (n_over (length (entries m)) (c_thr c)) sorted)) (disk, m)
    | MDatasets =>
        let refs := nodup_n (map e_ref sorted) in
        let gone := firstn (n_over (length refs) (c_thr c)) refs in
        remove_keys (keys (filter (fun e => existsb (N.eqb (e_ref e)) gone) sorted)) (disk, m)
    | MSize => if c_thr c <? msize m then size_loop (c_thr c) (keys sorted) (disk, m) else (disk, m)
    | MAge => age_loop age_fix (c_thr c) now sorted (disk, m)
    | _ => (disk, m)
    end
  end.

Inductive mop :=
| Move (k : N) (size : Z)      (* move_to_cache of a file of `size` bytes whose cache name is k *)
| Find (k : N)                 (* find_in_cache *)
| Remove (refs : list N)       (* remove_from_cache *)
| Scan.                        (* scan_cache *)

Inductive mres := RNone | RCached | RFound (size : Z) | RNotFound.

Definition disk_put (e : entry) (disk : list entry) : list entry := drop_key (e_key e) disk ++ [e].
Definition disk_touch (k : N) (now : Z) (disk : list entry) : list entry :=
  map (fun e => if N.eqb (e_key e) k then mkEntry (e_key e) (e_size e) now else e) disk.

Definition mstep (age_fix : bool) (c : cfg) (now : Z) (o : mop) (dm : list entry * mgr) : (list entry * mgr) * mres :=
  match o with
  | Move k size =>
      match c_mode c with
      | MDisabled => (dm, RNone)
      | _ =>
        let dm1 := expire age_fix c now dm in
        if has_key k (entries (snd dm1)) then (dm1, RCached)
        else let e := mkEntry k size now in
             ((disk_put e (fst dm1), reg_add e (snd dm1)), RCached)
      end
  | Find k =>
      match c_mode c with
      | MDisabled => (dm, RNotFound)
      | _ => match find_key k (fst dm) with
             | Some e => ((disk_touch k now (fst dm), snd dm), RFound (e_size e))
             | None => (dm, RNotFound)
             end
      end
  | Remove refs =>
      match entries (snd dm) with
      | [] => (dm, RNone)
      | _ => (remove_keys (keys (filter (fun e => existsb (N.eqb (e_ref e)) refs) (entries (snd dm)))) dm, RNone)
      end
  | Scan =>
      match c_mode c with
      | MDisabled => (dm, RNone)
      | _ => ((fst dm, scan (fst dm) (snd dm)), RNone)
      end
  end.

(* the world: one cache directory, two managers (two clients), a clock, interference from outside *)
Record world := mkWorld { w_disk : list entry; w_a : mgr; w_b : mgr; w_now : Z }.
Definition empty_world : world := mkWorld [] empty_mgr empty_mgr 0.

Inductive wop :=
| OpA (o : mop) | OpB (o : mop)
| Tick (dt : Z)                  (* time passes *)
| ExtDelete (k : N)              (* another process deletes a cache file *)
| ExtCreate (k : N) (size : Z).  (* another process writes a cache file *)

Definition wstep (age_fix : bool) (ca cb : cfg) (w : world) (o : wop) : world * mres :=
  match o with
  | OpA x => let '((d, m), r) := mstep age_fix ca (w_now w) x (w_disk w, w_a w) in (mkWorld d m (w_b w) (w_now w), r)
  | OpB x => let '((d, m), r) := mstep age_fix cb (w_now w) x (w_disk w, w_b w) in (mkWorld d (w_a w) m (w_now w), r)
  | Tick dt => (mkWorld (w_disk w) (w_a w) (w_b w) (w_now w + Z.max 0 dt), RNone)
  | ExtDelete k => (mkWorld (drop_key k (w_disk w)) (w_a w) (w_b w) (w_now w), RNone)
  | ExtCreate k size => (mkWorld (disk_put (mkEntry k size (w_now w)) (w_disk w)) (w_a w) (w_b w) (w_now w), RNone)
  end.

Definition wrun (age_fix : bool) (ca cb : cfg) (w : world) (h : list wop) : world :=
  fold_left (fun s o => fst (wstep age_fix ca cb s o)) h w.

(* ------------------------------------------------------------------------------------------------ *)
(* PART 2: registry caches inside caching_context()                                                  *)
(* ------------------------------------------------------------------------------------------------ *)
Open Scope N_scope.

(* tables: existing collections (name -> integer key), chains (chain name -> ordered children, all non-chains),
   summary rows (collection, dataset type), datasets (id, dataset type, run).  Rows are written here by collection
   NAME: the tables are always read afresh and name <-> key is a bijection at every moment, so only the summary
   CACHE, which outlives a removal, needs the key.  A name that has a row in `chains` is CHAINED. *)
Record tables := mkTables { ckeys : list (N * N); chains : list (N * list N); summ : list (N * N); data : list (N * N * N) }.
Definition empty_tables : tables := mkTables [] [] [] [].

(* caches: None outside a caching context.  Record cache: name -> record (None = not a chain, Some kids = chain)
   plus the `full` flag; summary cache by KEY.  A cached record's key is not stored here: a record leaves the cache
   whenever its collection is removed, so the key the tables give for a cached name is the cached one. *)
Record rcache_t := mkRC { rc_recs : list (N * option (list N)); rc_full : bool }.
Record caches := mkCaches { rcache : option rcache_t; scache : option (list (N * list N)) }.
Definition no_caches : caches := mkCaches None None.

Fixpoint lookup {A} (k : N) (l : list (N * A)) : option A :=
  match l with [] => None | (k', v) :: r => if k' =? k then Some v else lookup k r end.
Definition del_key {A} (k : N) (l : list (N * A)) : list (N * A) := filter (fun p => negb (fst p =? k)) l.
Definition set_key {A} (k : N) (v : A) (l : list (N * A)) : list (N * A) := (k, v) :: del_key k l.
Definition memN (x : N) (l : list N) : bool := existsb (N.eqb x) l.

Definition key_of (t : tables) (c : N) : option N := lookup c (ckeys t).
Definition max_key (t : tables) : N := fold_left N.max (map snd (ckeys t)) 0.
Definition is_kid (t : tables) (c : N) : bool := existsb (fun p => memN c (snd p)) (chains t).
Definition err_ans : list N := [9999].

(* summary of one non-chain collection, from the tables *)
Definition table_summary (t : tables) (c : N) : list N :=
  map snd (filter (fun p => fst p =? c) (summ t)).
Fixpoint union_n (a b : list N) : list N :=
  match b with [] => a | x :: r => if memN x a then union_n a r else union_n (a ++ [x]) r end.
Definition union_all (ls : list (list N)) : list N := fold_left union_n ls [].

Definition is_chain_b (t : tables) (c : N) : bool := match lookup c (chains t) with Some _ => true | None => false end.
Definition exists_b (t : tables) (c : N) : bool := match key_of t c with Some _ => true | None => false end.

(* the record the tables give for a name *)
Definition table_rec (t : tables) (c : N) : option (option (list N)) :=
  if exists_b t c then Some (lookup c (chains t)) else None.
Definition table_records (t : tables) : list (N * option (list N)) :=
  map (fun p => (fst p, lookup (fst p) (chains t))) (ckeys t).

(* _getByName: record cache first, then the table (and the cache is filled) *)
Definition record_of (t : tables) (cs : caches) (c : N) : option (option (list N)) * caches :=
  match rcache cs with
  | None => (table_rec t c, cs)
  | Some rc =>
      match lookup c (rc_recs rc) with
      | Some r => (Some r, cs)
      | None => match table_rec t c with
                | Some r => (Some r, mkCaches (Some (mkRC (set_key c r (rc_recs rc)) (rc_full rc))) (scache cs))
                | None => (None, cs)
                end
      end
  end.
(* _fetch_all (pattern and `...` lookups): a full cache answers alone; otherwise read every record and mark the cache full *)
Definition fetch_all (t : tables) (cs : caches) : list (N * option (list N)) * caches :=
  match rcache cs with
  | None => (table_records t, cs)
  | Some rc => if rc_full rc then (rc_recs rc, cs)
               else (table_records t, mkCaches (Some (mkRC (table_records t) true)) (scache cs))
  end.

(* the chain definition a client sees for a name *)
Definition children_of (t : tables) (cs : caches) (c : N) : option (list N) * caches :=
  let '(r, cs1) := record_of t cs c in
  (match r with Some (Some kids) => Some kids | _ => None end, cs1).

Definition cache_member (t : tables) (acc : list (N * list N)) (m : N) : list (N * list N) :=
  match key_of t m with Some km => set_key km (table_summary t m) acc | None => acc end.

(* fetch_summaries for one collection: cache hit BY KEY, else read the tables (a chain = union over its
   flattened children) and store the result *)
Definition fetch_summary (t : tables) (cs : caches) (c : N) : list N * caches :=
  match key_of t c with
  | None => (err_ans, cs)
  | Some k =>
    let hit := match scache cs with Some sc => lookup k sc | None => None end in
    match hit with
    | Some s => (s, cs)
    | None =>
        let '(kids, cs1) := children_of t cs c in
        let members := match kids with Some l => l | None => [c] end in
        let s := match kids with
                 | Some l => union_all (map (table_summary t) l)
                 | None => table_summary t c
                 end in
        let sc' := match scache cs1 with
                   | Some sc =>
                       let sc1 := fold_left (cache_member t) members sc in
                       Some (match kids with Some _ => set_key k s sc1 | None => sc1 end)
                   | None => None
                   end in
        (s, mkCaches (rcache cs1) sc')
    end
  end.

Definition datasets_in (t : tables) (ty c : N) : list N :=
  map (fun d => fst (fst d)) (filter (fun d => (snd (fst d) =? ty) && (snd d =? c)) (data t)).

(* query_datasets(ty, collections=c, find_first=False): flatten, keep the collections whose summary
   lists the dataset type, read those *)
Fixpoint query_members (t : tables) (cs : caches) (ty : N) (ms : list N) : list N * caches :=
  match ms with
  | [] => ([], cs)
  | m :: r =>
      let '(s, cs1) := fetch_summary t cs m in
      let '(rest, cs2) := query_members t cs1 ty r in
      ((if memN ty s then datasets_in t ty m else []) ++ rest, cs2)
  end.
Definition query_datasets (t : tables) (cs : caches) (ty c : N) : list N * caches :=
  match key_of t c with
  | None => (err_ans, cs)
  | Some _ =>
    let '(kids, cs1) := children_of t cs c in
    query_members t cs1 ty (match kids with Some l => l | None => [c] end)
  end.

Inductive rop :=
| Enter | Exit                         (* caching_context() entered / left *)
| Register (c : N) (chain : bool)      (* registerRun / registerCollection(TAGGED) / registerCollection(CHAINED) *)
| RemoveColl (c : N)                   (* removeCollection (datasets, summary rows, chain row cascade) *)
| SetChain (c : N) (kids : list N)     (* setCollectionChain (allowed inside a context) *)
| Put (id ty run : N)                  (* insert a dataset: data row + summary row *)
| QSummary (c : N)                     (* getCollectionSummary(c).dataset_types *)
| QData (ty c : N)                     (* query_datasets *)
| QColls (among : list N)              (* queryCollections(<pattern or ...>): `among` = the names the pattern matches *)
| QDataGlob (ty : N) (among : list N)  (* queryDatasets(ty, collections=<glob>) *)
| Refused.                             (* any other request the registry refuses (associate into a RUN, ...) *)

Definition rstate := (tables * caches)%type.
Record fixes := mkFixes { chain_fix : bool; rm_fix : bool; rm_order : bool }.
Definition as_coded : fixes := mkFixes true true true.

(* use_cache = false is the same client with caching contexts switched off (Enter is a no-op) *)
Definition rstep (fx : fixes) (use_cache : bool) (s : rstate) (o : rop) : rstate * list N :=
  let '(t, cs) := s in
  match o with
  | Enter => if use_cache
             then ((t, mkCaches (match rcache cs with None => Some (mkRC [] false) | x => x end)
                                (match scache cs with None => Some [] | x => x end)), [])
             else (s, [])
  | Exit => ((t, no_caches), [])
  | Register c chain =>
      if exists_b t c then ((t, snd (record_of t cs c)), [])
      else
        let t' := mkTables ((c, 1 + max_key t) :: ckeys t) (if chain then set_key c [] (chains t) else chains t) (summ t) (data t) in
        let rc' := match rcache cs with
                   | Some rc => Some (mkRC (set_key c (if chain then Some [] else None) (rc_recs rc)) (rc_full rc))
                   | None => None end in
        ((t', mkCaches rc' (scache cs)), [])
  | RemoveColl c =>
      let cs1 := snd (record_of t cs c) in
      let discard := fun (x : caches) =>
        mkCaches (match rcache x with Some rc => Some (mkRC (del_key c (rc_recs rc)) (rc_full rc)) | None => None end) (scache x) in
      if negb (exists_b t c) then ((t, cs1), err_ans)
      else if is_kid t c then ((t, if rm_order fx then cs1 else discard cs1), err_ans)
      else
        let t' := mkTables (del_key c (ckeys t)) (del_key c (chains t)) (del_key c (summ t))
                           (filter (fun d => negb (snd d =? c)) (data t)) in
        let cs2 := discard cs1 in
        let sc' := match scache cs2 with Some sc => if rm_fix fx then Some [] else Some sc | None => None end in
        ((t', mkCaches (rcache cs2) sc'), [])
  | SetChain c kids =>
      if is_chain_b t c && forallb (fun m => exists_b t m && negb (is_chain_b t m)) kids
      then
        let t' := mkTables (ckeys t) (set_key c kids (chains t)) (summ t) (data t) in
        let rc' := match rcache cs with Some rc => Some (mkRC (set_key c (Some kids) (rc_recs rc)) (rc_full rc)) | None => None end in
        let sc' := match scache cs with Some sc => if chain_fix fx then Some [] else Some sc | None => None end in
        ((t', mkCaches rc' sc'), [])
      else (s, err_ans)
  | Put id ty run =>
      let cs1 := snd (record_of t cs run) in
      if exists_b t run && negb (is_chain_b t run)
      then
        let t' := mkTables (ckeys t) (chains t)
                           (if existsb (fun p => (fst p =? run) && (snd p =? ty)) (summ t) then summ t else summ t ++ [(run, ty)])
                           (data t ++ [(id, ty, run)]) in
        ((t', mkCaches (rcache cs1) (match scache cs1 with Some _ => Some [] | None => None end)), [])
      else ((t, cs1), err_ans)
  | QSummary c => let '(s', cs') := fetch_summary t cs c in ((t, cs'), s')
  | QData ty c => let '(r, cs') := query_datasets t cs ty c in ((t, cs'), r)
  | QColls among =>
      let '(recs, cs1) := fetch_all t cs in
      ((t, cs1), filter (fun c => match lookup c recs with Some _ => true | None => false end) among)
  | QDataGlob ty among =>
      let '(recs, cs1) := fetch_all t cs in
      let '(r, cs2) := query_members t cs1 ty (filter (fun c => match lookup c recs with Some None => true | _ => false end) among) in
      ((t, cs2), r)
  | Refused => (s, err_ans)
  end.

Fixpoint rrun (fx : fixes) (use_cache : bool) (s : rstate) (h : list rop) : rstate * list (list N) :=
  match h with
  | [] => (s, [])
  | o :: r => let '(s1, a) := rstep fx use_cache s o in
              let '(s2, as_) := rrun fx use_cache s1 r in (s2, a :: as_)
  end.
