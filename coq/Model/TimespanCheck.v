(* Executable checkers used by the correspondence check (tie K) of C11: the harness records what the
   implementation returned and these functions say whether the model returns the same. *)
From Coq Require Import ZArith List Bool.
From V Require Import Base.Tri Model.Timespan.
Import ListNotations.
Open Scope Z_scope.

Fixpoint list_eqb {A} (f : A -> A -> bool) (l1 l2 : list A) : bool :=
  match l1, l2 with
  | [], [] => true
  | x :: r, y :: s => f x y && list_eqb f r s
  | _, _ => false
  end.

Section Hand.
  Variable MAXN : Z.
  Definition tse := ts_eqb.
  (* pair observation: [isEmpty a; overlaps; contains; lt; gt; eq], intersection, difference *)
  Definition hand_pair (a b : ts) : list bool * ts * list ts :=
    ([is_empty a; overlaps a b; contains a b; lt a b; gt a b; ts_eqb a b], inter2 MAXN a b, diff MAXN a b).
  Definition chk_pair_hand (c : ts * ts * (list bool * ts * list ts)) : bool :=
    let '(a, b, (bs, i, d)) := c in
    let '(bs', i', d') := hand_pair a b in
    list_eqb Bool.eqb bs bs' && ts_eqb i i' && list_eqb ts_eqb d d'.
  (* instant observation: [contains; overlaps; lt; gt] *)
  Definition chk_inst_hand (c : ts * Z * list bool) : bool :=
    let '(a, x, bs) := c in
    list_eqb Bool.eqb bs [contains_t a x; overlaps_t a x; lt_t a x; gt_t a x].
  Definition chk_inter_hand (c : ts * list ts * ts) : bool :=
    let '(a, bs, r) := c in ts_eqb (inter MAXN a bs) r.
  Definition chk_mk_hand (c : Z * Z * ts) : bool :=
    let '(b, e, r) := c in ts_eqb (mk MAXN b e) r.
End Hand.
