(* C16 -- the fixed vocabulary the translator harness/translators/postproc.py renders the counter logic of
   `Postprocessing.apply` (direct_query_driver/_postprocessing.py) into.  Hand written, tiny, no proofs.

   Every counter variable of `apply` holds `int | None`, modelled as `option Z`.  The state of one call is the
   pair (self._limit, the one local counter variable the function may use -- None while unbound / unused).
   A statement block is a function ppstate -> flow: it falls through, executes `return`, or executes `break`. *)
From Coq Require Import ZArith Bool.
Open Scope Z_scope.

Definition ppstate := (option Z * option Z)%type.

Inductive flow := Fall (s : ppstate) | Ret (s : ppstate) | Brk (s : ppstate).

Definition flow_state (f : flow) : ppstate := match f with Fall s | Ret s | Brk s => s end.

(* sequencing: the rest of a block runs only when the first part fell through *)
Definition bindf (f : flow) (k : ppstate -> flow) : flow :=
  match f with Fall s => k s | other => other end.

Definition set_sl (v : option Z) (s : ppstate) : ppstate := (v, snd s).     (* self._limit = v *)
Definition set_lc (v : option Z) (s : ppstate) : ppstate := (fst s, v).     (* <local> = v *)

(* Python comparisons of `int | None` with an int constant.  `None == k` is False; the ordered comparisons and the
   arithmetic are only emitted by the translator where the operand is known not to be None (else it refuses). *)
Definition oz_eqb (a : option Z) (k : Z) : bool := match a with Some x => x =? k | None => false end.
Definition oz_ltb (a : option Z) (k : Z) : bool := match a with Some x => x <? k | None => false end.
Definition oz_leb (a : option Z) (k : Z) : bool := match a with Some x => x <=? k | None => false end.
Definition oz_gtb (a : option Z) (k : Z) : bool := match a with Some x => k <? x | None => false end.
Definition oz_geb (a : option Z) (k : Z) : bool := match a with Some x => k <=? x | None => false end.
Definition oz_none (a : option Z) : bool := match a with None => true | Some _ => false end.
Definition oz_truthy (a : option Z) : bool := match a with Some x => negb (x =? 0) | None => false end.
Definition oz_add (a : option Z) (k : Z) : option Z := match a with Some x => Some (x + k) | None => None end.
