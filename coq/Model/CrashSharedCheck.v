(* C08 correspondence checkers for scenarios with SHARED artifacts (multi-ref ingest, ingest_zip, removal of some / all of
   the datasets that share one file): what a fresh Butler sees after a crash, as Model/CrashShared.v predicts it, compared
   with what the harness recorded on the real implementation.  No proofs here. *)
From Coq Require Import NArith List Bool.
From V Require Import Model.Crash Model.CrashCheck Model.CrashShared.
Import ListNotations.
Open Scope N_scope.

Definition ZIPA : N := 50.       (* the artifact key of the ingested zip; its complete content is reported as 7000 *)

Definition art_exists (s : sstate) (d : N) : bool :=
  match art_of (sb s) d with
  | Some a => match fget (Final a) (sf s) with Some _ => true | None => false end
  | None => false
  end.

Definition sobserve (univ : list N) (s : sstate) : obsT :=
  let b := sb s in
  let dsl := filter (fun d => mem d (s_ds b)) univ in
  [ dsl;
    filter (fun d => mem d (s_loc b)) univ;
    filter (fun d => mem d (s_trash b)) univ;
    flat_map (fun d => match art_of b d with Some a => [d; a] | None => [] end) univ;
    files_of Final (univ ++ [ZIPA]) (sf s);
    sortN (flat_map (fun e => match fst e with Tmp _ => [ccode (snd e)] | _ => [] end) (sf s));
    flat_map (fun d => [d; 1; b2n (has_rec b d); b2n (has_rec b d && art_exists s d)]) dsl;
    flat_map (fun d => [d; match sget s d with GotValue v => v | GotCorrupt => CORRUPT | GotMissing | NotStored => MISSING end]) dsl ].

Definition scrash_states (s0 : sstate) (o : sop) : list sstate :=
  let p := splan s0 o in map (scrash s0 p) (seq 0 (S (length p))).

Record scase := mkSCase {
  sc_pre : list sop;
  sc_pre_obs : obsT;
  sc_op : sop;
  sc_seq : list obsT;
  sc_points : list (obsT * list (list sop * obsT))
}.

Definition chk_spoint (univ : list N) (sts : list sstate) (pt : obsT * list (list sop * obsT)) : bool :=
  existsb (fun s => obs_eqb (sobserve univ s) (fst pt)
                    && forallb (fun f => obs_eqb (sobserve univ (srun s (fst f))) (snd f)) (snd pt)) sts.

Definition chk_scase (univ : list N) (c : scase) : bool :=
  let s0 := srun sinit (sc_pre c) in
  let sts := scrash_states s0 (sc_op c) in
  obs_eqb (sobserve univ s0) (sc_pre_obs c)
  && list_eqb obs_eqb (dedup (map (sobserve univ) sts)) (sc_seq c)
  && forallb (chk_spoint univ sts) (sc_points c).

Fixpoint sfirst_bad (univ : list N) (sts : list sstate) (i : N) (l : list (obsT * list (list sop * obsT))) : N :=
  match l with [] => 0 | p :: r => if chk_spoint univ sts p then sfirst_bad univ sts (N.succ i) r else 10 + i end.

Definition chk_swhere (univ : list N) (c : scase) : N :=
  let s0 := srun sinit (sc_pre c) in
  let sts := scrash_states s0 (sc_op c) in
  if negb (obs_eqb (sobserve univ s0) (sc_pre_obs c)) then 1
  else if negb (list_eqb obs_eqb (dedup (map (sobserve univ) sts)) (sc_seq c)) then 2
  else sfirst_bad univ sts 0 (sc_points c).

Definition smodel_seq (univ : list N) (c : scase) : list obsT :=
  let s0 := srun sinit (sc_pre c) in dedup (map (sobserve univ) (scrash_states s0 (sc_op c))).
Definition smodel_pre (univ : list N) (c : scase) : obsT := sobserve univ (srun sinit (sc_pre c)).
