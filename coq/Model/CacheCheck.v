(* Executable checkers for the correspondence check (tie K) of C17: the harness records what the real
   DatastoreCacheManager objects / the real registry did after every step of a history; these functions
   replay the history on the model (Model/Cache.v) and say whether every recorded observable is the same. *)
From Coq Require Import ZArith NArith List Bool.
From V Require Import Model.Cache.
Import ListNotations.
Open Scope Z_scope.

Definition entry_eqb (a b : entry) : bool :=
  N.eqb (e_key a) (e_key b) && (e_size a =? e_size b) && (e_ctime a =? e_ctime b).
(* equal as sets (keys are unique on both sides) *)
Definition entries_same (a b : list entry) : bool :=
  Nat.eqb (length a) (length b) && forallb (fun x => existsb (entry_eqb x) b) a.

Definition mres_eqb (a b : mres) : bool :=
  match a, b with
  | RNone, RNone | RCached, RCached | RNotFound, RNotFound => true
  | RFound x, RFound y => x =? y
  | _, _ => false
  end.

(* one manager as observed: file_count, cache_size, the registry's entries *)
Record mobs := mkMobs { mo_count : Z; mo_size : Z; mo_entries : list entry }.
Record wobs := mkWobs { wo_res : mres; wo_disk : list entry; wo_a : mobs; wo_b : mobs }.

Definition mgr_ok (m : mgr) (o : mobs) : bool :=
  (Z.of_nat (length (entries m)) =? mo_count o) && (msize m =? mo_size o) && entries_same (entries m) (mo_entries o).

(* 0 = agrees; otherwise 10 * (1-based step) + component (1 result, 2 disk, 3 manager A, 4 manager B) *)
Fixpoint mfirst_bad (age_fix : bool) (ca cb : cfg) (w : world) (i : N) (l : list (wop * wobs)) : N :=
  match l with
  | [] => 0%N
  | (o, ob) :: rest =>
    let '(w', r) := wstep age_fix ca cb w o in
    if negb (mres_eqb r (wo_res ob)) then (10 * i + 1)%N
    else if negb (entries_same (w_disk w') (wo_disk ob)) then (10 * i + 2)%N
    else if negb (mgr_ok (w_a w') (wo_a ob)) then (10 * i + 3)%N
    else if negb (mgr_ok (w_b w') (wo_b ob)) then (10 * i + 4)%N
    else mfirst_bad age_fix ca cb w' (N.succ i) rest
  end.

Definition chk_mgr_history (c : cfg * cfg * list (wop * wobs)) : bool :=
  let '(ca, cb, l) := c in N.eqb (mfirst_bad true ca cb empty_world 1%N l) 0%N.
(* against the code BEFORE the repair 9b27982 (used only to describe a regression) *)
Definition chk_mgr_history_unrepaired (c : cfg * cfg * list (wop * wobs)) : bool :=
  let '(ca, cb, l) := c in N.eqb (mfirst_bad false ca cb empty_world 1%N l) 0%N.

(* ---- registry caches ---- *)
Open Scope N_scope.
Definition same_set (a b : list N) : bool :=
  Nat.eqb (length a) (length b) && forallb (fun x => memN x b) a && forallb (fun x => memN x a) b.

(* 0 = agrees; otherwise 10 * step + (1 = the run inside caching contexts differs, 2 = the run without) *)
Fixpoint rfirst_bad (fx : fixes) (sc su : rstate) (i : N) (l : list (rop * list N * list N)) : N :=
  match l with
  | [] => 0
  | (o, oc, ou) :: rest =>
    let '(sc', ac) := rstep fx true sc o in
    let '(su', au) := rstep fx false su o in
    if negb (same_set ac oc) then 10 * i + 1
    else if negb (same_set au ou) then 10 * i + 2
    else rfirst_bad fx sc' su' (N.succ i) rest
  end.

(* every history starts on an empty registry: the fixture's registrations are its first operations *)
Definition rinit : rstate := (empty_tables, no_caches).
Definition chk_reg_history (l : list (rop * list N * list N)) : bool := rfirst_bad as_coded rinit rinit 1 l =? 0.
(* against the code BEFORE the repairs d43ed5b / 65fc362, and against removal in the reversed order (used only to
   describe a regression) *)
Definition chk_reg_history_no_chain_fix (l : list (rop * list N * list N)) : bool :=
  rfirst_bad (mkFixes false true true) rinit rinit 1 l =? 0.
Definition chk_reg_history_no_rm_fix (l : list (rop * list N * list N)) : bool :=
  rfirst_bad (mkFixes true false true) rinit rinit 1 l =? 0.
Definition chk_reg_history_rm_reversed (l : list (rop * list N * list N)) : bool :=
  rfirst_bad (mkFixes true true false) rinit rinit 1 l =? 0.
