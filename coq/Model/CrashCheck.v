(* C08 correspondence checkers: the observations a fresh Butler makes after a crash, as the model predicts them, compared
   with what the harness recorded on the real implementation.  No proofs here. *)
From Coq Require Import NArith List Bool.
From V Require Import Model.Crash.
Import ListNotations.
Open Scope N_scope.

(* an observation is a list of rows of numbers (sorted by construction: everything is listed along the universe) *)
Definition obsT := list (list N).

Definition PARTIAL : N := 999999.      (* a file that is not a complete artifact *)
Definition MISSING : N := 999998.      (* get -> FileNotFoundError *)
Definition CORRUPT : N := 999996.      (* get -> any other failure *)

Definition ccode (c : fcont) : N := match c with Partial => PARTIAL | Complete v => v end.
Definition b2n (b : bool) : N := if b then 1 else 0.

Fixpoint insN (x : N) (l : list N) : list N :=
  match l with [] => [x] | y :: r => if x <=? y then x :: l else y :: insN x r end.
Definition sortN (l : list N) : list N := fold_right insN [] l.

Definition files_of (mk : N -> fname) (univ : list N) (m : fsmap) : list N :=
  flat_map (fun d => match fget (mk d) m with Some c => [d; ccode c] | None => [] end) univ.

Definition observe (univ : list N) (s : state) : obsT :=
  let b := cdb s in
  let dsl := filter (fun d => mem d (d_ds b)) univ in
  [ filter (fun r => mem r (d_runs b)) [0; 1];
    dsl;
    filter (fun d => mem d (d_loc b)) univ;
    filter (fun d => mem d (d_trash b)) univ;
    filter (fun d => mem d (d_recs b)) univ;
    files_of Final univ (fs s);
    sortN (flat_map (fun e => match fst e with Tmp _ => [ccode (snd e)] | _ => [] end) (fs s));
    files_of Ext univ (fs s);
    flat_map (fun d => [d; b2n (recorded s d); b2n (knows s d); b2n (artifact s d)]) dsl;
    flat_map (fun d => [d; match get s d with GotValue v => v | GotCorrupt => CORRUPT | GotMissing | NotStored => MISSING end]) dsl ].

Fixpoint list_eqb {A} (e : A -> A -> bool) (a b : list A) : bool :=
  match a, b with
  | [], [] => true
  | x :: r, y :: t => e x y && list_eqb e r t
  | _, _ => false
  end.
Definition obs_eqb : obsT -> obsT -> bool := list_eqb (list_eqb N.eqb).

Fixpoint dedup (l : list obsT) : list obsT :=
  match l with
  | x :: ((y :: _) as r) => if obs_eqb x y then dedup r else x :: dedup r
  | _ => l
  end.

(* the interrupted call is a PROGRAM: one operation, or several performed one after another by the same process *)
Definition crash_states (s0 : state) (os : list op) : list state :=
  let p := plan_seq s0 os in map (crash s0 p) (seq 0 (S (length p))).

Record case := mkCase {
  c_pre : list op;                                    (* fault-free pre-history from the initial repository *)
  c_pre_obs : obsT;
  c_op : list op;                                     (* the interrupted call: a program of one or more operations *)
  c_seq : list obsT;                                  (* the observations at crash points 0..n, consecutive repeats removed *)
  c_points : list (obsT * list (list op * obsT))      (* per crash point: observation, and observation after each follow-up *)
}.

Definition chk_point (univ : list N) (sts : list state) (pt : obsT * list (list op * obsT)) : bool :=
  existsb (fun s => obs_eqb (observe univ s) (fst pt)
                    && forallb (fun f => obs_eqb (observe univ (run s (fst f))) (snd f)) (snd pt)) sts.

Definition chk_case (univ : list N) (c : case) : bool :=
  let s0 := run init (c_pre c) in
  let sts := crash_states s0 (c_op c) in
  obs_eqb (observe univ s0) (c_pre_obs c)
  && list_eqb obs_eqb (dedup (map (observe univ) sts)) (c_seq c)
  && forallb (chk_point univ sts) (c_points c).

(* diagnostics: 0 = agrees; 1 = pre-history; 2 = sequence of crash states; 10+i = crash point i (or its follow-ups) *)
Fixpoint first_bad (univ : list N) (sts : list state) (i : N) (l : list (obsT * list (list op * obsT))) : N :=
  match l with [] => 0 | p :: r => if chk_point univ sts p then first_bad univ sts (N.succ i) r else 10 + i end.

Definition chk_where (univ : list N) (c : case) : N :=
  let s0 := run init (c_pre c) in
  let sts := crash_states s0 (c_op c) in
  if negb (obs_eqb (observe univ s0) (c_pre_obs c)) then 1
  else if negb (list_eqb obs_eqb (dedup (map (observe univ) sts)) (c_seq c)) then 2
  else first_bad univ sts 0 (c_points c).

Definition model_seq (univ : list N) (c : case) : list obsT :=
  let s0 := run init (c_pre c) in dedup (map (observe univ) (crash_states s0 (c_op c))).

(* trace skeleton: the kinds of the plan's steps (compared with the abstracted event trace of a fault-free real run;
   a difference that leaves every crash observation unchanged is only reported as structural drift) *)
Definition stmt_code (q : stmt) : N :=
  match q with
  | InsDataset _ => 1 | InsLocation _ => 2 | InsRecords _ => 3 | DelLocation _ => 4 | InsTrash _ => 5
  | DelDataset _ => 6 | DelRun _ => 7 | DelRecords _ => 8 | DelTrash _ => 9
  end.
Definition stmt_empty (q : stmt) : bool :=
  match q with
  | InsDataset l | InsLocation l | InsRecords l | DelLocation l | InsTrash l | DelDataset l | DelRecords l | DelTrash l =>
      match l with [] => true | _ => false end
  | DelRun _ => false
  end.
Definition step_code (t : step) : list N :=
  match t with
  | SqlBegin => [20]
  | SqlStmt q => if stmt_empty q then [] else [stmt_code q]    (* a statement over no rows is not emitted *)
  | SqlCommit => [21]
  | FsWriteTmp _ Partial => []          (* one write event = two model steps *)
  | FsWriteTmp _ (Complete _) => [30]
  | FsRename _ _ => [31]
  | FsDelete _ => [32]
  end.
Definition skeleton (pre : list op) (os : list op) : list N :=
  let s0 := run init pre in flat_map step_code (plan_seq s0 os).
