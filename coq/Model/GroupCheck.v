(* Executable checkers for the correspondence run (tie K) of C12: the harness records what the real
   DimensionUniverse / DimensionGroup returned; these say whether the model returns the same. *)
From Coq Require Import String List Bool Arith.
From V Require Import Model.Universe Model.Group.
Import ListNotations.
Open Scope list_scope.

Fixpoint lists_eqb (a b : list (list string)) : bool :=
  match a, b with
  | [], [] => true
  | x :: r, y :: s => list_eqb x y && lists_eqb r s
  | _, _ => false
  end.

Fixpoint bools_eqb (a b : list bool) : bool :=
  match a, b with
  | [], [] => true
  | x :: r, y :: s => Bool.eqb x y && bools_eqb r s
  | _, _ => false
  end.

Definition opt_eqb (a b : option string) : bool :=
  match a, b with Some x, Some y => String.eqb x y | None, None => true | _, _ => false end.

Definition kind_eqb (a b : kind) : bool :=
  match a, b with
  | KGovernor, KGovernor | KSkyPix, KSkyPix | KDimension, KDimension | KCombination, KCombination => true
  | _, _ => false
  end.

Definition elem_eqb (a b : elem) : bool :=
  String.eqb (ename a) (ename b) && kind_eqb (ekind a) (ekind b) && list_eqb (ereq a) (ereq b)
  && list_eqb (eimp a) (eimp b) && Bool.eqb (ealways a) (ealways b) && opt_eqb (epop a) (epop b)
  && opt_eqb (espatial a) (espatial b) && opt_eqb (etemporal a) (etemporal b).

Fixpoint elems_eqb (a b : list elem) : bool :=
  match a, b with
  | [], [] => true
  | x :: r, y :: s => elem_eqb x y && elems_eqb r s
  | _, _ => false
  end.

(* observed universe: Some elements (in `universe.elements` order) | None (construction raised) *)
Definition chk_universe (c : rawconf * option (list elem)) : bool :=
  match build (fst c), snd c with
  | Some u, Some o => elems_eqb u o
  | None, None => true
  | _, _ => false
  end.

(* observed group: None = KeyError; Some ([names; required; implied; elements; governors; skypix;
   data_coordinate_keys], lookup_order) with lookup_order = None when the implementation did not return *)
Definition gobs := option (list (list string) * option (list string)).

Definition group_view (g : group) : list (list string) * option (list string) :=
  ([gnames g; grequired g; gimplied g; gelements g; ggovernors g; gskypix g; data_coordinate_keys g],
   match glookup g with GOk o => Some o | _ => None end).

Definition chk_gres (r : gres group) (obs : gobs) : bool :=
  match r, obs with
  | GOk g, Some (ls, lk) =>
    let (ls', lk') := group_view g in
    lists_eqb ls ls'
    && match lk, lk' with Some a, Some b => list_eqb a b | None, None => true | _, _ => false end
  | GKeyError, None => true
  | _, _ => false
  end.

Definition chk_group (c : universe * list string * gobs) : bool :=
  let '(u, i, o) := c in chk_gres (mkgroup u i) o.
Definition chk_conform (c : universe * string * gobs) : bool :=
  let '(u, n, o) := c in chk_gres (conform_str u n) o.

(* pairs: (universe, names of a, names of b, (names of a|b, names of a&b,
   [a<=b; a==b; hash a == hash b; a.isdisjoint(b)])); a and b are groups already built by the implementation,
   i.e. `DimensionGroup(universe, names, _conform=False)` = group_of_names *)
Definition chk_pair (c : universe * list string * list string * (list string * list string * list bool)) : bool :=
  let '(u, na, nb, (nu, ni, bs)) := c in
  (* gnames (gunion u a b) and gnames (ginter u a b) are these closures by definition (Proofs: gunion_names,
     ginter_names); building the full records (lookup_order ...) for every pair would only cost time *)
  match closure u (na ++ nb), closure u (filter (fun d => memb d nb) na) with
  | GOk un, GOk it =>
    list_eqb un nu && list_eqb it ni
    && bools_eqb bs [forallb (fun d => memb d nb) na; list_eqb na nb;
                     list_eqb (required_of u na) (required_of u nb); forallb (fun d => negb (memb d nb)) na]
  | _, _ => false
  end.
