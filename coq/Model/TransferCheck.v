(* Executable checkers for the correspondence check (tie K) of C19: the harness builds a source and a target repository
   from state descriptions, runs a list of export/import_ and transfer_from actions on the real Butler and records, after
   every action, the outcome class and the whole observable state of the target; these functions replay the same actions
   on the model and say where it differs. *)
From Coq Require Import NArith List Bool.
From V Require Import Model.Transfer.
Import ListNotations.
Open Scope N_scope.

Fixpoint lexb (a b : list N) : bool :=
  match a, b with
  | [], _ => true
  | _ :: _, [] => false
  | x :: r, y :: s => if x <? y then true else if y <? x then false else lexb r s
  end.
Fixpoint insl (x : list N) (l : list (list N)) : list (list N) :=
  match l with [] => [x] | y :: r => if lexb x y then x :: l else y :: insl x r end.
Definition sortl (l : list (list N)) : list (list N) := fold_right insl [] l.
Fixpoint leqb (a b : list N) : bool :=
  match a, b with [], [] => true | x :: r, y :: s => (x =? y) && leqb r s | _, _ => false end.
Fixpoint lleqb (a b : list (list N)) : bool :=
  match a, b with [], [] => true | x :: r, y :: s => leqb x y && lleqb r s | _, _ => false end.
Definition subl (a b : list (list N)) : bool := forallb (fun x => existsb (leqb x) b) a.

Definition err_code (e : err) : N :=
  match e with
  | Conflict => 2 | MissingCollection => 3 | MissingDatasetType => 4 | CollectionTypeErr => 5 | DataIdValueErr => 6
  | Cycle => 7 | SqlError => 8 | NotFound => 9 | ValueErr => 10
  end.
Definition out_code (o : outcome) : N := match o with Ok => 0 | Err e => err_code e end.
Definition kind_code (k : kind) : N := match k with RUN => 1 | TAGGED => 2 | CHAINED => 3 | CALIB => 4 end.

Definition LOST : N := 999001.
Definition UNSTORED : N := 999004.

Fixpoint enum (i : N) (l : list N) : list (N * N) :=
  match l with [] => [] | x :: r => (i, x) :: enum (N.succ i) r end.

Definition m_dims (s : state) := sortl (map (fun p => [fst p; snd p]) (dims s)).
Definition m_types (s : state) := sortl (map (fun p => [fst p; snd p]) (types s)).
Definition m_colls (s : state) := sortl (map (fun p => [fst p; kind_code (snd p)]) (colls s)).
Definition m_chains (s : state) :=
  sortl (flat_map (fun p => match lookup (fst p) (colls s) with
                            | Some CHAINED => map (fun q => [fst p; fst q; snd q]) (enum 0 (snd p))
                            | _ => [] end) (chains s)).
Definition m_dsets (s : state) := sortl (map (fun d => [d_id d; d_type d; d_data d; d_run d]) (dsets s)).
Definition m_content (s : state) :=
  sortl (map (fun d => [d_id d; match lookup (d_id d) (stored s) with
                                | None => UNSTORED | Some (None, _) => LOST | Some (Some v, _) => v end]) (dsets s)).
Definition m_tags (s : state) := sortl (map (fun p => [fst p; snd p]) (tags s)).
Definition m_calibs (s : state) := sortl (map (fun p => let '(c, n, (b, e)) := p in [c; n; b; e]) (calibs s)).

Record obs := Obs {
  o_out : N;
  o_dims : list (list N);
  o_types : list (list N);
  o_colls : list (list N);
  o_chains : list (list N);
  o_dsets : list (list N);
  o_content : list (list N);
  o_tags : list (list N);
  o_calibs : list (list N)
}.

Definition step3 (src t : state) (a : action) : state * outcome * bool :=
  match a with
  | ExIm m ids cs => (exim m ids cs src t, false)
  | Xfer m ids rt xd => transfer_from m ids rt xd src t
  end.

(* first differing field: 0 = agrees *)
Definition chk_obs (src pre s : state) (o : outcome) (typephase : bool) (b : obs) : N :=
  let k0 := if typephase
  then (if negb ((o_out b =? 2) || (o_out b =? 4)) then 1 else
        if negb (subl (m_types pre) (o_types b) && subl (o_types b) (m_types pre ++ m_types src)) then 3 else 0)
  else (if negb (out_code o =? o_out b) then 1 else
        if negb (lleqb (m_types s) (o_types b)) then 3 else 0) in
  match k0 with
  | 0 =>
    if negb (lleqb (m_dims s) (o_dims b)) then 2 else
    if negb (lleqb (m_colls s) (o_colls b)) then 4 else
    if negb (lleqb (m_chains s) (o_chains b)) then 5 else
    if negb (lleqb (m_dsets s) (o_dsets b)) then 6 else
    if negb (lleqb (m_content s) (o_content b)) then 7 else
    if negb (lleqb (m_tags s) (o_tags b)) then 8 else
    if negb (lleqb (m_calibs s) (o_calibs b)) then 9 else 0
  | k => k
  end.

Fixpoint chk_from (src t : state) (i : N) (h : list (action * obs)) : list N :=
  match h with
  | [] => []
  | (a, b) :: r =>
    let '(t', o, ph) := step3 src t a in
    match chk_obs src t t' o ph b with
    | 0 => if ph then [] else chk_from src t' (N.succ i) r   (* after a type-phase failure the registered subset is unknown *)
    | k => [i; k]
    end
  end.

Definition case := (state * state * list (action * obs))%type.
Definition chk_where (c : case) : list N := let '(src, t, h) := c in chk_from src t 0 h.
Definition chk_case (c : case) : bool := match chk_where c with [] => true | _ => false end.

(* the model's view of the initial states must match what the harness built *)
Definition chk_init (c : state * obs) : bool :=
  let '(s, b) := c in
  lleqb (m_dims s) (o_dims b) && lleqb (m_types s) (o_types b) && lleqb (m_colls s) (o_colls b) &&
  lleqb (m_chains s) (o_chains b) && lleqb (m_dsets s) (o_dsets b) && lleqb (m_content s) (o_content b) &&
  lleqb (m_tags s) (o_tags b) && lleqb (m_calibs s) (o_calibs b).

(* model trace for diagnostics / replay files *)
Definition trace (src t : state) (l : list action) : list (N * list (list N) * list (list N)) :=
  (fix go (t : state) (l : list action) :=
     match l with
     | [] => []
     | a :: r => let '(t', o, _) := step3 src t a in (out_code o, m_dsets t', m_content t') :: go t' r
     end) t l.
