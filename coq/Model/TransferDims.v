(* C19, dimension-record side of transfer_from(transfer_dimensions=True) / transfer_dimension_records_from / export+import_:
   which rows of WHICH dimension-element tables are copied for a selection of data IDs
   (DirectButler._extract_all_dimension_records_from_data_ids, RepoExportContext.saveDataIds).
   One instrument (key 0), one day_obs (key 1), physical_filter of a visit / exposure = id mod 2, group of exposure e = e.
   Element codes: 1 instrument, 2 day_obs, 3 detector, 4 group, 5 physical_filter, 6 visit_system, 7 exposure, 8 visit,
   9 visit_definition (visit, exposure), 10 visit_detector_region (visit, detector), 11 visit_system_membership
   (visit, visit_system).  A row is (code, key1, key2).
   Faithful quirks: (a) the populated-by elements of `visit` are walked in the order visit_definition,
   visit_detector_region, visit_system_membership and an element that is already among the primary records of the WHOLE
   selection is skipped (`continue`): one dataset over {visit, detector} with a region row suppresses the region rows of
   every visit of the selection; (b) export only writes the records inside the expanded data IDs (no populated-by rows).
   `brk = true` is the variant in which the skip is a `break` (the rest of the populated-by list is abandoned).
   No proofs here. *)
From Coq Require Import NArith List Bool.
Import ListNotations.
Open Scope N_scope.

Definition row := (N * N * N)%type.
Record dsrc := DS { s_vdef : list (N * N); s_vsm : list (N * N); s_vdr : list (N * N) }.
(* data id of a dataset: kind 0 {instrument, visit a, detector b}, 1 {instrument, visit a}, 2 {instrument, exposure a},
   3 (anything else) {instrument, detector a} *)
Definition did := (N * N * N)%type.

Definition memP (p : N * N) (l : list (N * N)) : bool := existsb (fun q => (fst q =? fst p) && (snd q =? snd p)) l.
Definition fil (x : N) : N := x mod 2.
Definition visit_rows (v : N) : list row := [(1, 0, 0); (2, 1, 0); (5, fil v, 0); (8, v, 0)].
Definition exp_rows (e : N) : list row := [(1, 0, 0); (2, 1, 0); (4, e, 0); (5, fil e, 0); (7, e, 0)].

(* records inside the expanded data id *)
Definition primary (s : dsrc) (x : did) : list row :=
  let '(k, a, b) := x in
  match k with
  | 0 => visit_rows a ++ [(3, b, 0)] ++ (if memP (a, b) (s_vdr s) then [(10, a, b)] else [])
  | 1 => visit_rows a
  | 2 => exp_rows a
  | _ => [(1, 0, 0); (3, a, 0)]
  end.
Definition has_region (s : dsrc) (sel : list did) : bool :=
  existsb (fun x => let '(k, a, b) := x in (k =? 0) && memP (a, b) (s_vdr s)) sel.
Definition sel_visits (sel : list did) : list N :=
  flat_map (fun x => let '(k, a, b) := x in if k <? 2 then [a] else []) sel.
Definition of_visit (v : N) (l : list (N * N)) : list (N * N) := filter (fun p => fst p =? v) l.

(* rows of the populated-by elements queried for visit v *)
Definition additional (brk : bool) (s : dsrc) (sel : list did) (v : N) : list row :=
  map (fun p => (9, fst p, snd p)) (of_visit v (s_vdef s)) ++
  (if has_region s sel then [] else map (fun p => (10, fst p, snd p)) (of_visit v (s_vdr s))) ++
  (if has_region s sel && brk then [] else map (fun p => (11, fst p, snd p)) (of_visit v (s_vsm s))).
(* expansion of the data id of such a row *)
Definition secondary (r : row) : list row :=
  let '(c, v, x) := r in
  match c with
  | 9 => visit_rows v ++ exp_rows x ++ [r]
  | 10 => visit_rows v ++ [(3, x, 0); r]
  | 11 => visit_rows v ++ [(6, x, 0); r]
  | _ => [r]
  end.

Definition xfer_rows (brk : bool) (s : dsrc) (sel : list did) : list row :=
  flat_map (primary s) sel ++ flat_map (fun v => flat_map secondary (additional brk s sel v)) (sel_visits sel).
Definition exim_rows (s : dsrc) (sel : list did) : list row := flat_map (primary s) sel.

(* ---- checker for the correspondence: (source, rows of the target before, operation, selection, rows observed after).
   operation 0 = export + import_, anything else = transfer_from / transfer_dimension_records_from *)
Definition row_eqb (a b : row) : bool :=
  let '(a1, a2, a3) := a in let '(b1, b2, b3) := b in (a1 =? b1) && (a2 =? b2) && (a3 =? b3).
Definition subset (a b : list row) : bool := forallb (fun x => existsb (row_eqb x) b) a.
Definition op_rows (op : N) (s : dsrc) (sel : list did) : list row :=
  if op =? 0 then exim_rows s sel else xfer_rows false s sel.
Definition chk_dims (c : dsrc * list row * N * list did * list row) : bool :=
  let '(s, pre, op, sel, obs) := c in
  let want := pre ++ op_rows op s sel in subset want obs && subset obs want.
