(* C18 (extension) -- more of the codec model:
   * makeCompositeDatasetType / makeCompositeRef (the registry side of the minimal form of a COMPONENT ref);
   * the NESTED pickle forms: what `__reduce__` of a data ID / dataset type / ref hands to pickle, with the inner
     objects reduced as well (the dimension group travels as its name tuple and is looked up in the universe again,
     the values travel as a bare tuple ordered like `dimensions.data_coordinate_keys`, every record travels through
     DimensionRecord.__reduce__), and what the class constructors rebuild from those arguments;
   * DimensionRecord / expanded data IDs whose region and hash fields are OPAQUE payloads (a Section with the
     sphgeom / bytes.hex codecs as variables).
   No proofs here. *)
From Coq Require Import ZArith List Bool Ascii String.
From V Require Import Model.Serial.
Import ListNotations.
Open Scope string_scope.

(* ---------- composite of a component ---------- *)
(* DatasetType.makeCompositeDatasetType: RuntimeError if not a component, ValueError without a parent storage class *)
Definition composite_dt (u : uctx) (t : dstype) : option dstype :=
  match component_of (t_name t), t_psc t with
  | Some _, Some p => mk_dt u (root_of (t_name t)) (t_grp t) p None (t_calib t)
  | _, _ => None
  end.
(* DatasetRef.makeCompositeRef: same id, run, data ID (conform=False) *)
Definition composite_ref (u : uctx) (r : dref) : option dref :=
  match composite_dt u (f_type r) with
  | Some t' => Some {| f_id := f_id r; f_run := f_run r; f_type := t'; f_coord := f_coord r |}
  | None => None
  end.

(* ---------- nested pickle forms ---------- *)
(* the three concrete classes: _RequiredTupleDataCoordinate, _FullTupleDataCoordinate, _ExpandedTupleDataCoordinate *)
Inductive coord_cls := ClsRequired | ClsFull | ClsExpanded.
Definition cls_of (c : coord) : coord_cls :=
  match c_recs c with
  | Some _ => ClsExpanded                      (* expanded(); make_empty *)
  | None => if has_full c then ClsFull else ClsRequired
  end.
Definition pk_rec := (string * list (string * fval))%type.          (* DimensionRecord.__reduce__ args *)
(* (cls, (dimensions -> names._seq, values, records)) *)
Definition pk_coord := (coord_cls * list string * list dval * option (list (string * option pk_rec)))%type.
Definition reduce_records (rs : list (string * option drec)) : list (string * option pk_rec) :=
  map (fun p => (fst p, option_map reduce_rec (snd p))) rs.
Definition reduce_coord_deep (c : coord) : pk_coord :=
  (cls_of c, reduce_grp (c_grp c), map snd (c_vals c), option_map reduce_records (c_recs c)).
Definition rebuild_records (rs : list (string * option pk_rec)) : list (string * option drec) :=
  map (fun p => (fst p, option_map rebuild_rec (snd p))) rs.
(* __init__ of the three classes: no checking except `assert hasFull()` in the expanded one; a value is found by
   position (`_data_coordinate_indices`), so the keys of the rebuilt mapping are the leading data_coordinate_keys *)
Definition rebuild_coord_deep (u : uctx) (a : pk_coord) : option coord :=
  match a with (cls, names, vals, recs) =>
    match rebuild_grp u names with
    | None => None
    | Some g =>
        let keys := (g_req g ++ g_impl g)%list in
        match cls, recs with
        | ClsExpanded, Some rs =>
            if Nat.eqb (List.length vals) (List.length keys)
            then Some {| c_grp := g; c_vals := combine keys vals; c_recs := Some (rebuild_records rs) |}
            else None                                                     (* AssertionError *)
        | ClsFull, None | ClsRequired, None => Some {| c_grp := g; c_vals := combine keys vals; c_recs := None |}
        | _, _ => None                                                    (* TypeError: wrong number of arguments *)
        end
    end
  end.
(* a variant of _ExpandedTupleDataCoordinate.__reduce__ that keeps only the records of the DIMENSIONS
   (`for name in self._dimensions.names`): used by the refutation theorem only *)
Definition reduce_coord_trimmed (c : coord) : pk_coord :=
  (cls_of c, reduce_grp (c_grp c), map snd (c_vals c),
   option_map (fun rs => reduce_records (filter (fun p => mem (fst p) (g_names (c_grp c))) rs)) (c_recs c)).

(* the __reduce__ bodies as data (regenerated from the source into Gen/SerialReduceGen.v by
   harness/translators/c18_reduce.py): the class handed to pickle and which attributes are passed, in order *)
Inductive rarg := ADims | AVals | ARecs.
Definition pk_of_args (target : coord_cls) (args : list rarg) (c : coord) : option pk_coord :=
  match args with
  | [ADims; AVals] => Some (target, reduce_grp (c_grp c), map snd (c_vals c), None)
  | [ADims; AVals; ARecs] =>
      match c_recs c with
      | Some rs => Some (target, reduce_grp (c_grp c), map snd (c_vals c), Some (reduce_records rs))
      | None => None     (* AttributeError: the basic classes have no _records slot *)
      end
  | _ => None            (* not a constructor signature: TypeError when unpickling *)
  end.

(* DatasetType.__reduce__: (name, dimensions, storageClassName, parentStorageClassName), {isCalibration} *)
Definition pk_dt := (string * list string * string * option string * bool)%type.
Definition reduce_dt_deep (t : dstype) : pk_dt := (t_name t, reduce_grp (t_grp t), t_sc t, t_psc t, t_calib t).
Definition rebuild_dt_deep (u : uctx) (a : pk_dt) : option dstype :=
  match a with (n, names, sc, psc, cal) =>
    match rebuild_grp u names with Some g => mk_dt u n g sc psc cal | None => None end
  end.
(* DatasetRef.__reduce__: (datasetType, dataId, id, run, datastore_records) -> cls(datasetType, dataId, id=, run=) *)
Definition pk_ref := (pk_dt * pk_coord * string * string)%type.
Definition reduce_ref_deep (r : dref) : pk_ref :=
  (reduce_dt_deep (f_type r), reduce_coord_deep (f_coord r), f_id r, f_run r).
Definition rebuild_ref_deep (u : uctx) (a : pk_ref) : option dref :=
  match a with (pt, pc, id, run) =>
    match rebuild_dt_deep u pt, rebuild_coord_deep u pc with
    | Some t, Some c => mk_ref id run t c
    | _, _ => None
    end
  end.

(* ---------- opaque payloads ---------- *)
Section Payload.
  Variables region bytes : Type.
  Variable region_encode : region -> bytes.          (* lsst.sphgeom.Region.encode *)
  Variable region_decode : bytes -> option region.   (* lsst.sphgeom.Region.decode *)
  Variable hex : bytes -> string.                    (* bytes.hex *)
  Variable fromhex : string -> option bytes.         (* bytes.fromhex *)

  Inductive pval :=
  | PNull | PBool (b : bool) | PInt (z : Z) | PFlt (q : Z) | PStr (s : string) | PTs (t : Z * Z)
  | PRegion (r : region) | PHash (b : bytes).
  Record prec := { p_def : string; p_fields : list (string * pval) }.
  Record pcoord := { pc_grp : grp; pc_vals : list (string * dval); pc_recs : option (list (string * option prec)) }.

  (* to_simple: `v.encode().hex()` for regions, `v.hex()` for bytes, everything else as it is *)
  Definition wire_pval (v : pval) : fval :=
    match v with
    | PNull => FNull | PBool b => FBool b | PInt z => FInt z | PFlt q => FFlt q | PStr s => FStr s | PTs t => FTs t
    | PRegion r => FRegion (hex (region_encode r)) | PHash b => FHash (hex b)
    end.
  Definition wire_rec (r : prec) : drec :=
    {| r_def := p_def r; r_fields := map (fun p => (fst p, wire_pval (snd p))) (p_fields r) |}.
  Definition wire_coord (c : pcoord) : coord :=
    {| c_grp := pc_grp c; c_vals := pc_vals c;
       c_recs := option_map (map (fun p => (fst p, option_map wire_rec (snd p)))) (pc_recs c) |}.
  Definition enc_prec (r : prec) : jv := enc_rec (wire_rec r).
  Definition enc_pcoord (minimal : bool) (c : pcoord) : jv := enc_coord minimal (wire_coord c).

  (* from_simple: validated mapping, then Region.decode(bytes.fromhex(..)) / bytes.fromhex(..) *)
  Definition load_fval (v : fval) : option pval :=
    match v with
    | FNull => Some PNull | FBool b => Some (PBool b) | FInt z => Some (PInt z) | FFlt q => Some (PFlt q)
    | FStr s => Some (PStr s) | FTs t => Some (PTs t)
    | FRegion h => match fromhex h with
                   | Some b => match region_decode b with Some r => Some (PRegion r) | None => None end
                   | None => None
                   end
    | FHash h => match fromhex h with Some b => Some (PHash b) | None => None end
    end.
  Definition load_rec (r : drec) : option prec :=
    match mapM (fun p => match load_fval (snd p) with Some v => Some (fst p, v) | None => None end) (r_fields r) with
    | Some fs => Some {| p_def := r_def r; p_fields := fs |}
    | None => None
    end.
  Definition load_orec (p : string * option drec) : option (string * option prec) :=
    match snd p with
    | None => Some (fst p, None)
    | Some r => match load_rec r with Some r' => Some (fst p, Some r') | None => None end
    end.
  Definition load_coord (c : coord) : option pcoord :=
    match c_recs c with
    | None => Some {| pc_grp := c_grp c; pc_vals := c_vals c; pc_recs := None |}
    | Some rs => match mapM load_orec rs with
                 | Some rs' => Some {| pc_grp := c_grp c; pc_vals := c_vals c; pc_recs := Some rs' |}
                 | None => None
                 end
    end.
  Definition dec_prec (u : uctx) (j : jv) : option prec :=
    match dec_rec u j with Some r => load_rec r | None => None end.
  Definition dec_pcoord (u : uctx) (j : jv) : option pcoord :=
    match dec_coord u j with Some c => load_coord c | None => None end.
End Payload.
