(* C14 model, part 1: tokens and the expression tree of
   registry/queries/expressions/parser/exprTree.py, with the two printers.

   tree mirrors the node classes one to one:
     NumericLiteral (text kept verbatim) | StringLiteral | TimeLiteral (abstract time VALUE, see tv in Parser.v)
     | RangeLiteral (start stop stride) | Identifier | BindName | UnaryOp | BinaryOp | IsIn | Parens
     | TupleNode (two items, the only arity the grammar builds) | PointNode | FunctionCall.

   print     : what Node.__str__ produces, as a token list (faithful, quirks included:
               TimeLiteral prints as a plain quoted string, BindName prints without its colon);
   print_fix : the printer a repaired __str__ would be (T'..' and :name) -- used to state the round
               trip at full strength next to the refutation for the faithful printer. *)
From Coq Require Import ZArith List Bool String Ascii.
Import ListNotations.
Open Scope string_scope.

Inductive uop := UPlus | UMinus | UNot.
Inductive bop := BOr | BAnd | BEq | BNe | BLt | BLe | BGt | BGe | BOverlaps | BAdd | BSub | BMul | BDiv | BMod.

Inductive tree :=
  | Num (s : string) | Str (s : string) | Time (v : string)
  | Range (a b : Z) (st : option Z)
  | Ident (s : string) | Bind (s : string)
  | Unary (op : uop) (t : tree)
  | Binary (l : tree) (op : bop) (r : tree)
  | IsIn (l : tree) (vs : list tree) (neg : bool)
  | Parens (t : tree)
  | Tuple (a b : tree)
  | Point (a b : tree)
  | Call (f : string) (args : list tree).

(* PLY token stream; TBad marks the position where the lexer raises (it is fetched lazily by the parser) *)
Inductive token :=
  | TNum (s : string) | TTime (s : string) | TStr (s : string) | TRange (a b : Z) (st : option Z)
  | TQId (s : string) | TId (s : string) | TBind (s : string)
  | TLP | TRP | TEQ | TNE | TLT | TLE | TGT | TGE | TADD | TSUB | TMUL | TDIV | TMOD | TCOMMA
  | TIN | TOR | TAND | TNOT | TOVERLAPS
  | TBad.

(* error classes observable at parse_expression: the parser's documented family (ParserYaccError and
   its subclasses ParseError / ParserEOFError, lexer errors are converted into it) and the ValueError that
   the POINT arity check raises from inside a grammar action *)
Inductive perr := ESyntax | EArity.
Inductive pres (A : Type) := POk (a : A) | PErr (e : perr) | PFuel.
Arguments POk {A} a.
Arguments PErr {A} e.
Arguments PFuel {A}.

Definition bop_token (o : bop) : token :=
  match o with
  | BOr => TOR | BAnd => TAND | BEq => TEQ | BNe => TNE | BLt => TLT | BLe => TLE | BGt => TGT | BGe => TGE
  | BOverlaps => TOVERLAPS | BAdd => TADD | BSub => TSUB | BMul => TMUL | BDiv => TDIV | BMod => TMOD
  end.
Definition uop_token (o : uop) : token :=
  match o with UPlus => TADD | UMinus => TSUB | UNot => TNOT end.

(* tokens of "x, y, z" *)
Fixpoint sep_by (sep : list token) (ls : list (list token)) : list token :=
  match ls with
  | [] => []
  | [x] => x
  | x :: r => x ++ sep ++ sep_by sep r
  end.

Fixpoint has_dot (s : string) : bool :=
  match s with EmptyString => false | String c r => Ascii.eqb c "."%char || has_dot r end.
(* an Identifier holds the text of a SIMPLE_IDENTIFIER or of a QUALIFIED_IDENTIFIER (one or two dots) *)
Definition ident_token (s : string) : token := if has_dot s then TQId s else TId s.

Section Print.
  (* fixed = false: faithful to __str__ ; fixed = true: repaired printer.
     tshow v: the text str(astropy Time) gives for time value v ; tunparse v: a time string that parses to v *)
  Variable fixed : bool.
  Variable tshow : string -> string.

  (* a signed numeric literal of an IN list ("-1") prints as its text; the lexer gives back SUB, NUMERIC *)
  Definition num_tokens (s : string) : list token :=
    match s with
    | String "+"%char r => [TADD; TNum r]
    | String "-"%char r => [TSUB; TNum r]
    | _ => [TNum s]
    end.

  Fixpoint print_g (t : tree) : list token :=
    match t with
    | Num s => num_tokens s
    | Str s => [TStr s]
    | Time v => if fixed then [TTime (tshow v)] else [TStr (tshow v)]
    | Range a b st => [TRange a b st]
    | Ident s => [ident_token s]
    | Bind s => if fixed then [TBind s] else [TId s]
    | Unary o x => uop_token o :: print_g x
    | Binary l o r => print_g l ++ bop_token o :: print_g r
    | IsIn l vs neg =>
        print_g l ++ (if neg then [TNOT; TIN] else [TIN]) ++ TLP :: sep_by [TCOMMA] (map print_g vs) ++ [TRP]
    | Parens x => TLP :: print_g x ++ [TRP]
    | Tuple a b => TLP :: print_g a ++ TCOMMA :: print_g b ++ [TRP]
    | Point a b => TId "POINT" :: TLP :: print_g a ++ TCOMMA :: print_g b ++ [TRP]
    | Call f args => TId f :: TLP :: sep_by [TCOMMA] (map print_g args) ++ [TRP]
    end.
End Print.

Definition print (tshow : string -> string) := print_g false tshow.
Definition print_fix (tunparse : string -> string) := print_g true tunparse.

(* ---------------------------------------------------------------- decidable equality (for the checkers) *)
Definition uop_eqb (a b : uop) : bool :=
  match a, b with UPlus, UPlus | UMinus, UMinus | UNot, UNot => true | _, _ => false end.
Definition bop_n (o : bop) : nat :=
  match o with BOr => 0 | BAnd => 1 | BEq => 2 | BNe => 3 | BLt => 4 | BLe => 5 | BGt => 6 | BGe => 7
  | BOverlaps => 8 | BAdd => 9 | BSub => 10 | BMul => 11 | BDiv => 12 | BMod => 13 end.
Definition bop_eqb (a b : bop) : bool := Nat.eqb (bop_n a) (bop_n b).
Definition optZ_eqb (a b : option Z) : bool :=
  match a, b with None, None => true | Some x, Some y => Z.eqb x y | _, _ => false end.

Fixpoint tree_eqb (x y : tree) {struct x} : bool :=
  let fix list_eqb (l1 l2 : list tree) {struct l1} : bool :=
    match l1, l2 with
    | [], [] => true
    | a :: r, b :: s => tree_eqb a b && list_eqb r s
    | _, _ => false
    end in
  match x, y with
  | Num a, Num b => String.eqb a b
  | Str a, Str b => String.eqb a b
  | Time a, Time b => String.eqb a b
  | Range a b s, Range a' b' s' => Z.eqb a a' && Z.eqb b b' && optZ_eqb s s'
  | Ident a, Ident b => String.eqb a b
  | Bind a, Bind b => String.eqb a b
  | Unary o a, Unary o' b => uop_eqb o o' && tree_eqb a b
  | Binary l o r, Binary l' o' r' => tree_eqb l l' && bop_eqb o o' && tree_eqb r r'
  | IsIn l vs n, IsIn l' vs' n' => tree_eqb l l' && list_eqb vs vs' && Bool.eqb n n'
  | Parens a, Parens b => tree_eqb a b
  | Tuple a b, Tuple a' b' => tree_eqb a a' && tree_eqb b b'
  | Point a b, Point a' b' => tree_eqb a a' && tree_eqb b b'
  | Call f xs, Call g ys => String.eqb f g && list_eqb xs ys
  | _, _ => false
  end.

Definition token_eqb (x y : token) : bool :=
  match x, y with
  | TNum a, TNum b | TTime a, TTime b | TStr a, TStr b | TQId a, TQId b | TId a, TId b | TBind a, TBind b => String.eqb a b
  | TRange a b s, TRange a' b' s' => Z.eqb a a' && Z.eqb b b' && optZ_eqb s s'
  | TLP, TLP | TRP, TRP | TEQ, TEQ | TNE, TNE | TLT, TLT | TLE, TLE | TGT, TGT | TGE, TGE | TADD, TADD | TSUB, TSUB
  | TMUL, TMUL | TDIV, TDIV | TMOD, TMOD | TCOMMA, TCOMMA | TIN, TIN | TOR, TOR | TAND, TAND | TNOT, TNOT
  | TOVERLAPS, TOVERLAPS | TBad, TBad => true
  | _, _ => false
  end.

Fixpoint tokens_eqb (l1 l2 : list token) : bool :=
  match l1, l2 with
  | [], [] => true
  | a :: r, b :: s => token_eqb a b && tokens_eqb r s
  | _, _ => false
  end.
