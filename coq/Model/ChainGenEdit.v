(* C03 -- the chain edits with the position arithmetic REGENERATED from the source (tie T):
   Gen/ChainPosGen.v is produced by harness/translators/chain_pos.py from _find_prepend_position,
   _find_extend_position and _find_position_in_collection_chain of registry/collections/_base.py.
   `apply_edit_gen` / `edit_gen` are `apply_edit` / `edit` of Model/Chain.v with the start position of the new
   rows computed by the generated definitions.  No proofs in this file. *)
From Coq Require Import ZArith NArith List Bool.
From V Require Import Model.Chain Gen.ChainPosGen.
Import ListNotations.
Open Scope Z_scope.

Definition apply_edit_gen (rs : list row) (k : kind) (p : N) (cs : list N) : list row :=
  let ks := dedup cs in
  match k with
  | KPrepend =>
      let rs1 := drop_children rs p ks in                       (* _remove_collection_chain_rows *)
      let ps := map rpos (prows rs1 p) in
      rs1 ++ enum_rows p (gen_prepend_position (minz ps) (maxz ps) (Z.of_nat (length ks))) ks
  | KExtend =>
      let rs1 := drop_children rs p ks in
      let ps := map rpos (prows rs1 p) in
      rs1 ++ enum_rows p (gen_extend_position (minz ps) (maxz ps) (Z.of_nat (length ks))) ks
  | _ => apply_edit rs k p cs
  end.

Definition edit_gen (s : st) (k : kind) (p : N) (cs : list N) : st * outcome :=
  let cyc :=
    match k with
    | KRemove => Ok false
    | _ => map_res (fun l => memN p (filter (is_chained s) l)) (expand s cs)
    end in
  match cyc with
  | Err e => (s, Refused e)
  | Ok true => (s, Refused ECycle)
  | Ok false =>
      if negb (forallb (exists_c s) cs) then (s, Refused EMissing)
      else match ctype_of (colls s) p with
           | None => (s, Refused EMissing)
           | Some CChained => (set_rows s (apply_edit_gen (rows s) k p cs), Done)
           | Some _ => (s, Refused ECollType)
           end
  end.
