(* Executable checkers for the C16 correspondence (tie K): the harness records what the real Butler returned
   and these functions say whether the model of Model/Paging.v returns the same. *)
From Coq Require Import ZArith List Bool.
From V Require Import Model.Paging.
Import ListNotations.
Open Scope Z_scope.

Fixpoint leqb {A} (f : A -> A -> bool) (l1 l2 : list A) : bool :=
  match l1, l2 with
  | [], [] => true
  | x :: r, y :: s => f x y && leqb f r s
  | _, _ => false
  end.

Definition oeqb {A} (f : A -> A -> bool) (a b : option A) : bool :=
  match a, b with None, None => true | Some x, Some y => f x y | _, _ => false end.

Definition res_opt {T} (r : res T) : option T := match r with Ok v => Some v | _ => None end.

Definition xrow := (Z * bool)%type.            (* (identity, passes the post-filter) *)
Definition xkeep (r : xrow) : bool := snd r.

(* ---- black box: iteration, count, any *)
(* observed: iteration (None = InvalidQueryError), counts and anys (None = InvalidQueryError) of one results object *)
Definition exec_case := ((Z * Z * bool * option Z) * list xrow * (option (list Z) * list (option Z) * list (option bool)))%type.

Definition model_exec (c : Z * Z * bool * option Z) (rows : list xrow) : option (list Z) * list (option Z) * list (option bool) :=
  let '(rp, f, pp, lim) := c in
  let cf := {| raw_page := rp; factor := f |} in
  (option_map (map fst) (res_opt (results_iterate cf pp xkeep lim rows)),
   [res_opt (results_count pp xkeep lim rows true true); res_opt (results_count pp xkeep lim rows true false);
    res_opt (results_count pp xkeep lim rows false false)],
   [res_opt (results_any pp xkeep lim rows true true); res_opt (results_any pp xkeep lim rows true false);
    res_opt (results_any pp xkeep lim rows false false); res_opt (results_any pp xkeep lim rows false true)]).

Definition chk_exec (k : exec_case) : bool :=
  let '(c, rows, (ids, counts, anys)) := k in
  let '(mi, mc, ma) := model_exec c rows in
  oeqb (leqb Z.eqb) ids mi && leqb (oeqb Z.eqb) counts mc && leqb (oeqb Bool.eqb) anys ma.

(* ---- structure: one entry per Postprocessing.apply call of the iteration: (limit before, rows in, rows out) *)
Fixpoint trace (active : bool) (lim : option Z) (pgs : list (list xrow)) : list (option Z * Z * Z) :=
  match pgs with
  | [] => []
  | p :: rest => let '(o, lim') := apply active xkeep lim p in (lim, zlen p, zlen o) :: trace active lim' rest
  end.

Definition model_trace (c : Z * Z * bool * option Z) (rows : list xrow) : list (option Z * Z * Z) :=
  let '(rp, f, pp, lim) := c in
  let cf := {| raw_page := rp; factor := f |} in
  let sql_rows := if pp then rows else sql_limit lim rows in
  let pplim := if pp then lim else None in
  trace pp pplim (pages_z (raw_page_size cf pplim) sql_rows).

Definition t3eqb (a b : option Z * Z * Z) : bool :=
  let '(l1, i1, o1) := a in let '(l2, i2, o2) := b in oeqb Z.eqb l1 l2 && (i1 =? i2) && (o1 =? o2).

Definition chk_trace (k : (Z * Z * bool * option Z) * list xrow * list (option Z * Z * Z)) : bool :=
  let '(c, rows, tr) := k in leqb t3eqb tr (model_trace c rows).

(* ---- Butler.query_* wrappers: (rows or None for EmptyQueryResultError, warning emitted) *)
Definition chk_butler (k : (Z * Z * bool * option Z * bool) * list xrow * (option (list Z) * bool)) : bool :=
  let '((rp, f, pp, lim, explain), rows, (got, warned)) := k in
  let cf := {| raw_page := rp; factor := f |} in
  let '(r, w) := butler_query cf pp xkeep lim explain rows in
  oeqb (leqb Z.eqb) got (option_map (map fst) (res_opt r)) && Bool.eqb warned w.

(* ---- ORDER BY: column 0 of every row is its identity *)
Definition chk_order (k : list key * list row * list Z) : bool :=
  let '(ks, rows, obs) := k in
  leqb (oeqb Z.eqb) (map (fun r => col r 0) (order_by ks rows)) (map Some obs).

(* ---- constraint spellings: [where(data_id, **kw); kwargs only; where string; data ID only] of the merged constraint *)
Definition ids_of (p : row -> bool) (rows : list row) : list (option Z) := map (fun r => col r 0) (filter p rows).

Definition chk_spell (k : list row * dataid * dataid * list (list Z)) : bool :=
  let '(rows, d, kw, obs) := k in
  let m := merge d kw in
  leqb (leqb (oeqb Z.eqb))
    (map (map Some) obs)
    [ids_of (constraint_pred d kw) rows; ids_of (kw_pred m) rows; ids_of (where_pred m) rows; ids_of (dataid_pred m) rows].
