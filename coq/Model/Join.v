(* C06 -- model of how a data-ID query relates dimensions (lsst.daf.butler.direct_query_driver: QueryJoinsAnalysis.
   iter_mandatory, DirectQueryDriver.apply_missing_dimension_joins; registry.dimensions.static: make_joins_builder
   (view-of storage, band <- physical_filter), the <element>_skypix_overlap tables written at insert / replace /
   skip_existing / sync / sync(update), _CommonSkyPixMediatedOverlapsVisitor.visit_spatial_join; queries.overlaps:
   OverlapsVisitor._add_automatic_joins; _postprocessing.Postprocessing.apply).  Executable, no proofs here
   (lemmas: Proofs/JoinProofs*.v, statements: Props/C06.v).

   asg                    assignment dimension name -> value (all key values are non-NULL in the schema: every
                          required and implied column is NOT NULL; values are small integers, the harness maps names)
   rec                    one stored record: values for required ++ implied dimensions of its element, optional region id
   db                     element name -> records (elements with their own table only)
   ovt                    element name -> rows (required key values, common-skypix pixel index)
   st                     { recs; ovl }
   jconf                  { ju : universe (C12 model); jfams : spatial families with members most-fine-grained first
                          (the YAML `topology.spatial`, taken from Gen/Universes.v); jviews : dimension -> element whose
                          table it is a view of (`implied_union_target`) }
   cols / src / has_row   which dimension keys the logical table of an element provides, which stored table it reads,
                          "the table has a row agreeing with the assignment on all its key columns"
   spec                   brute force: all assignments over the group's names (values from the active domain) such that every
                          dimension element and every relationship-defining element of the group has a matching row and,
                          when two spatial families meet, the regions of their finest members overlap (ov)
   mandatory / greedy / full_plan     the tables the driver joins
   run_plan               natural join of the planned tables (relational definition: an assignment is in the join iff
                          every joined table has an agreeing row), the common-skypix prefilter through the overlap tables,
                          the exact region test of Postprocessing.apply (a NULL region reaching it raises TypeError: QCrash)
   step / run_hist        insertDimensionData (plain / replace / skip_existing), syncDimensionData (update False / True)
   Regions are abstract: ov : N -> N -> bool (exact overlap), env : N -> list N (pixel envelope). *)
From Coq Require Import String List Bool ZArith NArith.
From V Require Import Model.Universe.
Import ListNotations.
Open Scope string_scope.
Open Scope list_scope.

Definition asg := list (string * Z).

Fixpoint aget (a : asg) (d : string) : option Z :=
  match a with
  | [] => None
  | kv :: r => if String.eqb (fst kv) d then Some (snd kv) else aget r d
  end.

Definition agree1 (r a : asg) (d : string) : bool :=
  match aget r d, aget a d with
  | Some x, Some y => Z.eqb x y
  | _, _ => false
  end.

Definition agrees (ds : list string) (r a : asg) : bool := forallb (agree1 r a) ds.

Definition restrict (ds : list string) (r : asg) : asg :=
  flat_map (fun d => match aget r d with Some v => [(d, v)] | None => [] end) ds.

(* rts: the record's timespan [begin, end) in seconds (visit / exposure / day_obs), None = NULL *)
Record rec := mkRec { rvals : asg; rregion : option N; rts : option (Z * Z) }.
Definition table := list rec.
Definition db := list (string * table).
Definition ovt := list (string * list (asg * N)).

Fixpoint tget (t : db) (e : string) : table :=
  match t with
  | [] => []
  | kv :: r => if String.eqb (fst kv) e then snd kv else tget r e
  end.

Fixpoint tset (t : db) (e : string) (v : table) : db :=
  match t with
  | [] => [(e, v)]
  | kv :: r => if String.eqb (fst kv) e then (e, v) :: r else kv :: tset r e v
  end.

Fixpoint oget (t : ovt) (e : string) : list (asg * N) :=
  match t with
  | [] => []
  | kv :: r => if String.eqb (fst kv) e then snd kv else oget r e
  end.

Fixpoint oset (t : ovt) (e : string) (v : list (asg * N)) : ovt :=
  match t with
  | [] => [(e, v)]
  | kv :: r => if String.eqb (fst kv) e then (e, v) :: r else kv :: oset r e v
  end.

Record st := mkSt { recs : db; ovl : ovt }.
Definition st0 : st := mkSt [] [].

Record jconf := mkJ {
  ju : universe;
  jfams : list (string * list string);
  jviews : list (string * string)
}.

Fixpoint sassoc (l : list (string * string)) (d : string) : option string :=
  match l with
  | [] => None
  | kv :: r => if String.eqb (fst kv) d then Some (snd kv) else sassoc r d
  end.

Definition view_of (c : jconf) (d : string) : option string := sassoc (jviews c) d.

(* the logical table of an element: a view-of dimension is SELECT DISTINCT <its column> FROM <target> *)
Definition cols (c : jconf) (e : elem) : list string :=
  match view_of c (ename e) with Some _ => [ename e] | None => deps e end.
Definition src (c : jconf) (e : elem) : string :=
  match view_of c (ename e) with Some t => t | None => ename e end.

Definition has_row (c : jconf) (d : db) (e : elem) (a : asg) : bool :=
  existsb (fun r => agrees (cols c e) (rvals r) a) (tget d (src c e)).

(* DimensionElement.defines_relationships: bool(implied) for a dimension, always_join or bool(implied) for a
   combination (a dimension never has always_join) *)
Definition defines_rel (e : elem) : bool :=
  ealways e || match eimp e with [] => false | _ :: _ => true end.

(* element of the group (DimensionGroup.elements), skypix left out: the property is about the database dimensions *)
Definition in_group (ns : list string) (e : elem) : bool :=
  forallb (fun r => memb r ns) (ereq e) && negb (is_skypix e).
Definition gelems (c : jconf) (ns : list string) : list elem := filter (in_group ns) (ju c).
Definition spec_elems (c : jconf) (ns : list string) : list elem :=
  filter (fun e => is_dimension e || defines_rel e) (gelems c ns).

(* ---- spatial families: DatabaseTopologicalFamily.choose = first member that is an element of the group ---- *)
Fixpoint choose (c : jconf) (ns : list string) (members : list string) : option elem :=
  match members with
  | [] => None
  | m :: r =>
    match find_elem (ju c) m with
    | Some e => if in_group ns e then Some e else choose c ns r
    | None => choose c ns r
    end
  end.

Definition fam_choices (c : jconf) (ns : list string) : list elem :=
  flat_map (fun f => match choose c ns (snd f) with Some e => [e] | None => [] end) (jfams c).

Inductive sp := SpNone | SpPair (a b : elem) | SpMany.

(* OverlapsVisitor._add_automatic_joins: one family = nothing to do; two = automatic join of the chosen members;
   more = InvalidQueryError *)
Definition spatial_pair (c : jconf) (ns : list string) : sp :=
  match fam_choices c ns with
  | [] => SpNone
  | [_] => SpNone
  | [a; b] => SpPair a b
  | _ => SpMany
  end.

Definition reg_match (d : db) (e : elem) (a : asg) (p : option N -> bool) : bool :=
  existsb (fun r => agrees (ereq e) (rvals r) a && p (rregion r)) (tget d (ename e)).

Definition sp_overlap (ov : N -> N -> bool) (d : db) (ea eb : elem) (a : asg) : bool :=
  reg_match d ea a (fun ox => match ox with
                              | Some x => reg_match d eb a (fun oy => match oy with Some y => ov x y | None => false end)
                              | None => false end).

Definition has_null (d : db) (e : elem) (a : asg) : bool :=
  reg_match d e a (fun o => match o with None => true | Some _ => false end).

(* ---- the specification ---- *)
Definition valid (c : jconf) (ov : N -> N -> bool) (d : db) (ns : list string) (a : asg) : bool :=
  forallb (fun e => has_row c d e a) (spec_elems c ns)
  && match spatial_pair c ns with
     | SpNone => true
     | SpPair ea eb => sp_overlap ov d ea eb a
     | SpMany => false
     end.

Fixpoint zmem (x : Z) (l : list Z) : bool :=
  match l with [] => false | y :: r => Z.eqb x y || zmem x r end.
Fixpoint znodup (l : list Z) : list Z :=
  match l with [] => [] | x :: r => if zmem x r then znodup r else x :: znodup r end.

Definition dom (d : db) (n : string) : list Z :=
  znodup (flat_map (fun kv => flat_map (fun r => match aget (rvals r) n with Some v => [v] | None => [] end) (snd kv)) d).

Fixpoint cands (d : db) (ns : list string) : list asg :=
  match ns with
  | [] => [[]]
  | n :: r => let rest := cands d r in flat_map (fun v => map (cons (n, v)) rest) (dom d n)
  end.

Definition spec (c : jconf) (ov : N -> N -> bool) (d : db) (ns : list string) : list asg :=
  filter (valid c ov d ns) (cands d ns).

(* ---- the plan ---- *)
Definition mandatory (c : jconf) (ns : list string) : list elem :=
  filter defines_rel (gelems c ns)
  ++ match spatial_pair c ns with SpPair a b => [a; b] | _ => [] end.

Definition provided (c : jconf) (plan : list elem) (d : string) : bool :=
  existsb (fun t => memb d (cols c t)) plan.
Definition covers (c : jconf) (plan : list elem) (ns : list string) : bool :=
  forallb (provided c plan) ns.

(* max(missing, key = |universe[name].dimensions.names & missing|); Python's tie-break is the set's iteration
   order (hash randomised), here: the first maximum in group order.  plan_correct holds for EVERY covering choice. *)
Definition score (c : jconf) (missing : list string) (n : string) : nat :=
  match find_elem (ju c) n with
  | Some e => length (filter (fun d => memb d missing) (deps e))
  | None => 0
  end.

Fixpoint argmax (f : string -> nat) (best : string) (l : list string) : string :=
  match l with
  | [] => best
  | x :: r => if Nat.ltb (f best) (f x) then argmax f x r else argmax f best r
  end.

Fixpoint greedy (c : jconf) (fuel : nat) (plan : list elem) (ns : list string) : list elem :=
  match fuel with
  | O => plan
  | S f =>
    match filter (fun d => negb (provided c plan d)) ns with
    | [] => plan
    | m :: rest =>
      let missing := m :: rest in
      match find_elem (ju c) (argmax (score c missing) m rest) with
      | Some e => greedy c f (plan ++ [e]) ns
      | None => plan
      end
    end
  end.

Definition full_plan (c : jconf) (ns : list string) : list elem :=
  greedy c (length ns) (mandatory c ns) ns.

(* ---- running it ---- *)
Inductive qres := QOk (rows : list asg) | QCrash | QInvalid | QIncomplete.

Definition pre (o : ovt) (ea eb : elem) (a : asg) : bool :=
  existsb (fun kp => agrees (ereq ea) (fst kp) a
                     && existsb (fun kq => N.eqb (snd kp) (snd kq) && agrees (ereq eb) (fst kq) a) (oget o (ename eb)))
          (oget o (ename ea)).

Definition joined (c : jconf) (d : db) (plan : list elem) (a : asg) : bool :=
  forallb (fun e => has_row c d e a) plan.

Definition run_plan (c : jconf) (ov : N -> N -> bool) (s : st) (plan : list elem) (ns : list string) : qres :=
  if negb (covers c plan ns) then QIncomplete
  else
    let base := filter (joined c (recs s) plan) (cands (recs s) ns) in
    match spatial_pair c ns with
    | SpNone => QOk base
    | SpMany => QInvalid
    | SpPair ea eb =>
      let sqlrows := filter (pre (ovl s) ea eb) base in
      if existsb (fun a => has_null (recs s) ea a || has_null (recs s) eb a) sqlrows then QCrash
      else QOk (filter (sp_overlap ov (recs s) ea eb) sqlrows)
    end.

Definition query (c : jconf) (ov : N -> N -> bool) (s : st) (ns : list string) : qres :=
  run_plan c ov s (full_plan c ns) ns.

(* ---- record operations ---- *)
Inductive opk := OInsert | OReplace | OSkip | OSync | OSyncUpd.
Record op := mkOp { okind : opk; oelem : string; orec : rec }.
Inductive outc := ROk | RInserted | RSame | RUpdated | RIntegrity | RConflict | RBadElem.

Definition has_table (c : jconf) (e : elem) : bool :=
  negb (is_skypix e) && match view_of c (ename e) with Some _ => false | None => true end.
Definition is_spatial (e : elem) : bool := match espatial e with Some _ => true | None => false end.
Definition is_temporal (e : elem) : bool := match etemporal e with Some _ => true | None => false end.

Definition has_all (ds : list string) (r : asg) : bool :=
  forallb (fun d => match aget r d with Some _ => true | None => false end) ds.

(* a record has exactly the key columns of its table; a non-spatial element has no region, a non-temporal one no timespan *)
Definition wf_rec (e : elem) (r : rec) : bool :=
  list_eqb (map fst (rvals r)) (deps e) && nodupb (deps e)
  && (is_spatial e || match rregion r with None => true | Some _ => false end)
  && (is_temporal e || match rts r with None => true | Some _ => false end).

(* FOREIGN KEY (required columns of d) REFERENCES d, for every dimension column d of the table that has a table *)
Definition fk_ok (c : jconf) (d : db) (e : elem) (r : asg) : bool :=
  forallb (fun n => String.eqb n (ename e)
                    || match find_elem (ju c) n with
                       | Some p => negb (has_table c p)
                                   || existsb (fun r' => agrees (ereq p) (rvals r') r) (tget d n)
                       | None => false
                       end) (deps e).

Definition same_key (e : elem) (r : asg) (r' : rec) : bool := agrees (ereq e) (rvals r') r.
Definition oreg_eqb (a b : option N) : bool :=
  match a, b with Some x, Some y => N.eqb x y | None, None => true | _, _ => false end.
Definition ots_eqb (a b : option (Z * Z)) : bool :=
  match a, b with
  | Some x, Some y => Z.eqb (fst x) (fst y) && Z.eqb (snd x) (snd y)
  | None, None => true
  | _, _ => false
  end.
(* Database.sync compares every non-key field: implied values, region, timespan *)
Definition rec_eqb (e : elem) (a b : rec) : bool :=
  agrees (eimp e) (rvals a) (rvals b) && oreg_eqb (rregion a) (rregion b) && ots_eqb (rts a) (rts b).

Definition env_rows (env : N -> list N) (e : elem) (r : rec) : list (asg * N) :=
  match rregion r with
  | Some x => map (fun p => (restrict (ereq e) (rvals r), p)) (env x)
  | None => []
  end.
Definition ovl_del (e : elem) (r : asg) (rows : list (asg * N)) : list (asg * N) :=
  filter (fun kp => negb (agrees (ereq e) (fst kp) r)) rows.

Definition add_rec (env : N -> list N) (s : st) (e : elem) (r : rec) : st :=
  mkSt (tset (recs s) (ename e) (tget (recs s) (ename e) ++ [r]))
       (if is_spatial e then oset (ovl s) (ename e) (oget (ovl s) (ename e) ++ env_rows env e r) else ovl s).

Definition put_rec (s : st) (e : elem) (r : rec) : db :=
  tset (recs s) (ename e)
       (map (fun r' => if same_key e (rvals r) r' then r else r') (tget (recs s) (ename e))).

Definition ovl_refresh (env : N -> list N) (s : st) (e : elem) (r : rec) : ovt :=
  if is_spatial e
  then oset (ovl s) (ename e) (ovl_del e (rvals r) (oget (ovl s) (ename e)) ++ env_rows env e r)
  else ovl s.

Definition step (c : jconf) (env : N -> list N) (s : st) (o : op) : st * outc :=
  match find_elem (ju c) (oelem o) with
  | None => (s, RBadElem)
  | Some e =>
    let r := orec o in
    if negb (has_table c e && wf_rec e r) then (s, RBadElem)
    else
      let existing := find (same_key e (rvals r)) (tget (recs s) (ename e)) in
      let fk := fk_ok c (recs s) e (rvals r) in
      match okind o, existing with
      | OInsert, Some _ => (s, RIntegrity)
      | OInsert, None => if fk then (add_rec env s e r, ROk) else (s, RIntegrity)
      | OReplace, None => if fk then (add_rec env s e r, ROk) else (s, RIntegrity)
      | OReplace, Some _ => if fk then (mkSt (put_rec s e r) (ovl_refresh env s e r), ROk) else (s, RIntegrity)
      | OSkip, None => if fk then (add_rec env s e r, ROk) else (s, RIntegrity)
      | OSkip, Some _ =>
        (* the main row is left alone, but the overlap rows of the GIVEN region are ensured all the same *)
        (mkSt (recs s) (if is_spatial e then oset (ovl s) (ename e) (oget (ovl s) (ename e) ++ env_rows env e r)
                        else ovl s), ROk)
      | OSync, None => if fk then (add_rec env s e r, RInserted) else (s, RIntegrity)
      | OSync, Some r' => if rec_eqb e r' r then (s, RSame) else (s, RConflict)
      | OSyncUpd, None => if fk then (add_rec env s e r, RInserted) else (s, RIntegrity)
      | OSyncUpd, Some r' =>
        if rec_eqb e r' r then (s, RSame)
        else if fk then
          (mkSt (put_rec s e r)
                (if oreg_eqb (rregion r') (rregion r) then ovl s else ovl_refresh env s e r), RUpdated)
        else (s, RIntegrity)
      end
  end.

Definition run_hist (c : jconf) (env : N -> list N) (h : list op) (s : st) : st :=
  fold_left (fun s o => fst (step c env s o)) h s.

Fixpoint run_outs (c : jconf) (env : N -> list N) (h : list op) (s : st) : list outc :=
  match h with
  | [] => []
  | o :: r => let so := step c env s o in snd so :: run_outs c env r (fst so)
  end.

Definition is_skip (o : op) : bool := match okind o with OSkip => true | _ => false end.
Definition skip_free (h : list op) : bool := forallb (fun o => negb (is_skip o)) h.

(* ---- temporal families (OverlapsVisitor, kind = "temporal") ----
   The families present in a group; an automatic temporal join would be added when exactly two are present (more:
   InvalidQueryError), exactly as for the spatial kind.  An EXPLICIT `a.timespan OVERLAPS b.timespan` between two
   elements of the same family is rejected (visit_temporal_dimension_join: "... is not necessary").  In the shipped
   universe there is a single temporal family (Props/C06.v no_temporal_join_current), so the timespans of visit /
   exposure / day_obs records never take part in a data-ID query: `query` does not read `rts`. *)
Fixpoint snodup (l : list string) : list string :=
  match l with [] => [] | x :: r => if memb x r then snodup r else x :: snodup r end.
Definition temporal_fams (c : jconf) (ns : list string) : list string :=
  snodup (flat_map (fun e => match etemporal e with Some f => [f] | None => [] end) (gelems c ns)).
Definition tjoin_needed (c : jconf) (ns : list string) : bool := Nat.leb 2 (length (temporal_fams c ns)).

Inductive tjres := TJInvalid | TJConnect | TJNotTemporal.
Definition explicit_tjoin (c : jconf) (a b : string) : tjres :=
  match find_elem (ju c) a, find_elem (ju c) b with
  | Some ea, Some eb =>
    match etemporal ea, etemporal eb with
    | Some f, Some g => if String.eqb f g then TJInvalid else TJConnect
    | _, _ => TJNotTemporal
    end
  | _, _ => TJNotTemporal
  end.

(* ---- Butler.query_dimension_records(element) / Query.dimension_records(element) ----
   The query runs over the element's minimal group (closure of its required and implied dimensions) with the element's
   own table joined in addition to the planned ones; every stored record whose data ID is among the rows comes back. *)
Inductive rres := ROkRecs (rows : list rec) | RCrash | RInvalid | RIncomplete | RNoGroup.

Definition recs_of_rows (d : db) (e : elem) (rows : list asg) : list rec :=
  filter (fun r => existsb (agrees (deps e) (rvals r)) rows) (tget d (ename e)).

Definition qrecords_with (c : jconf) (ov : N -> N -> bool) (s : st) (e : elem) (ns : list string) : rres :=
  match run_plan c ov s (full_plan c ns ++ [e]) ns with
  | QOk rows => ROkRecs (recs_of_rows (recs s) e rows)
  | QCrash => RCrash
  | QInvalid => RInvalid
  | QIncomplete => RIncomplete
  end.

Definition qrecords (c : jconf) (ov : N -> N -> bool) (s : st) (e : elem) : rres :=
  match closure (ju c) (deps e) with
  | GOk ns => qrecords_with c ov s e ns
  | _ => RNoGroup
  end.

(* ---- join operands (Query.materialize / join_data_coordinates / join_dataset_search, then .data_ids(G)) ----
   An operand is one more relation over a closed sub-group `odims`, joined on its keys.  The query then runs over
   ds = closure (G ++ odims).  OverlapsVisitor._add_join_operand_connections: the automatic spatial join is decided on
   the QUERY's dimensions ds -- the most fine-grained members of the two families in ds -- and is skipped only when
   BOTH of them are elements of the operand's group (the operand then already carries that join).  The caller projects
   the rows onto G (DISTINCT); the correspondence compares the rows' G-columns as a set. *)
Record operand := mkOpd { odims : list string; orows : list asg }.

Definition in_operand (o : operand) (a : asg) : bool := existsb (fun r => agrees (odims o) r a) (orows o).

Definition op_embeds (c : jconf) (ds : list string) (o : operand) : bool :=
  match spatial_pair c ds with
  | SpPair ea eb => in_group (odims o) ea && in_group (odims o) eb
  | _ => false
  end.

Definition mandatory_op (c : jconf) (ds : list string) (o : operand) : list elem :=
  if op_embeds c ds o then filter defines_rel (gelems c ds) else mandatory c ds.

Definition full_plan_op (c : jconf) (ds : list string) (o : operand) : list elem :=
  greedy c (length ds) (mandatory_op c ds o) ds.

(* run_plan with one more filter on the joined rows and the automatic spatial join optionally switched off *)
Definition run_plan_f (c : jconf) (ov : N -> N -> bool) (s : st) (plan : list elem) (ns : list string)
                      (f : asg -> bool) (nosp : bool) : qres :=
  if negb (covers c plan ns) then QIncomplete
  else
    let base := filter f (filter (joined c (recs s) plan) (cands (recs s) ns)) in
    match spatial_pair c ns with
    | SpNone => QOk base
    | SpMany => QInvalid
    | SpPair ea eb =>
      if nosp then QOk base
      else
        let sqlrows := filter (pre (ovl s) ea eb) base in
        if existsb (fun a => has_null (recs s) ea a || has_null (recs s) eb a) sqlrows then QCrash
        else QOk (filter (sp_overlap ov (recs s) ea eb) sqlrows)
    end.

Definition run_plan_op (c : jconf) (ov : N -> N -> bool) (s : st) (plan : list elem) (ds : list string) (o : operand) : qres :=
  run_plan_f c ov s plan ds (in_operand o) (op_embeds c ds o).

Definition query_op (c : jconf) (ov : N -> N -> bool) (s : st) (ds : list string) (o : operand) : qres :=
  run_plan_op c ov s (full_plan_op c ds o) ds o.

(* specification: the brute-force rows over ds whose projection lies in the operand; when the operand carries the
   spatial join itself, the relationships only *)
Definition valid_ns (c : jconf) (d : db) (ns : list string) (a : asg) : bool :=
  forallb (fun e => has_row c d e a) (spec_elems c ns).

Definition spec_op (c : jconf) (ov : N -> N -> bool) (d : db) (ds : list string) (o : operand) : list asg :=
  filter (in_operand o)
         (filter (if op_embeds c ds o then valid_ns c d ds else valid c ov d ds) (cands d ds)).
