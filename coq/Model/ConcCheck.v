(* C20 correspondence checkers: the harness records what the REAL clients returned under a schedule and what a fresh
   Butler saw afterwards; Coq replays the same schedule on the model (vm_compute) and compares. *)
From Coq Require Import NArith List Bool.
From V Require Import Model.Conc.
Import ListNotations.
Open Scope N_scope.

Definition err_eqb (a b : err) : bool :=
  match a, b with
  | EConflict, EConflict | EMissingColl, EMissingColl | ECollType, ECollType | ECycle, ECycle
  | ESqlIntegrity, ESqlIntegrity | ETypeError, ETypeError | EHang, EHang => true
  | _, _ => false end.
Definition outcome_eqb (a b : outcome) : bool :=
  match a, b with
  | OkU, OkU => true | OkB x, OkB y => Bool.eqb x y | Err x, Err y => err_eqb x y | _, _ => false end.
Fixpoint list_eqb {A} (e : A -> A -> bool) (l m : list A) : bool :=
  match l, m with [], [] => true | x :: r, y :: s => e x y && list_eqb e r s | _, _ => false end.
Definition seteq {A} (e : A -> A -> bool) (l m : list A) : bool :=
  Nat.eqb (length l) (length m) && forallb (fun x => existsb (e x) m) l && forallb (fun x => existsb (e x) l) m.
Definition optN_eqb (a b : option N) : bool :=
  match a, b with Some x, Some y => x =? y | None, None => true | _, _ => false end.

(* final observation: collections, chains (per CHAINED collection), per RUN (det, content or None = unreadable),
   per TAGGED (run, det), dataset types, files in the root, (trash rows, record rows, location rows) *)
Definition fobs := (list (N * ctype) * list (N * list N) * list (N * list (N * option N)) * list (N * list (N * N))
                    * list (N * N) * list path * (N * N * N))%type.

Definition chk_final (g : gstate) (f : fobs) : bool :=
  let '(cl, chn, dat, tg, dts, fl, (tr, nr, nl)) := f in
  seteq (fun a b => (fst a =? fst b) && ctype_eqb (snd a) (snd b)) (colls g) cl
  && forallb (fun e => list_eqb N.eqb (children g (fst e)) (snd e)) chn
  && forallb (fun e => match lookup (fst e) (colls g) with Some CChained => existsb (fun x => fst x =? fst e) chn | _ => false end
                       || negb (match children g (fst e) with [] => false | _ => true end)) (chains g)
  && forallb (fun e => seteq (fun a b => (fst a =? fst b) && optN_eqb (snd a) (snd b)) (run_data g (fst e)) (snd e)) dat
  && Nat.eqb (length dat) (length (filter (fun c => ctype_eqb (snd c) CRun) (colls g)))
  && forallb (fun e => seteq path_eqb (tag_data g (fst e)) (snd e)) tg
  && Nat.eqb (length tg) (length (filter (fun c => ctype_eqb (snd c) CTagged) (colls g)))
  && seteq (fun a b => (fst a =? fst b) && (N.modulo (snd a) 2 =? N.modulo (snd b) 2)) (dtypes g) dts   (* observed: name + storage class *)
  && seteq path_eqb (map fst (files g)) fl
  && (N.of_nat (length (trashl g)) =? tr) && (N.of_nat (length (recs g)) =? nr) && (N.of_nat (length (loc g)) =? nl).

Definition ccase := (list op * list (list op) * list nat * list (list outcome) * fobs)%type.

Definition chk_case (c : ccase) : bool :=
  let '(setup, progs, sched, obs, f) := c in
  let gs := run_setup setup in
  let '(g, cs) := run_all true (slots_of gs) gs (map client_of progs) sched in
  forallb (fun c => negb (live c)) cs
  && list_eqb (list_eqb outcome_eqb) (map outs cs) obs
  && chk_final g f.

(* serial reference runs of the implementation against the serial semantics of the model *)
Definition chk_serial (c : ccase) : bool :=
  let '(setup, progs, order, obs, f) := c in
  let gs := run_setup setup in
  let '(g, cs) := run_serial true (slots_of gs) gs (map client_of progs) order in
  forallb (fun c => negb (live c)) cs
  && list_eqb (list_eqb outcome_eqb) (map outs cs) obs
  && chk_final g f.

(* step structure: the sequence (client, kind of step) the scheduler saw -- structural, reported as drift only *)
Fixpoint trace_sched (fuel : nat) (g : gstate) slots (cs : list client) (sched : list nat) : list (nat * N) :=
  match fuel with
  | O => []
  | S f =>
      let k := match sched with [] => O | k :: _ => k end in
      match pick k cs with
      | None => []
      | Some i =>
          let lab := match nth_error cs i with
                     | Some c => match prog c with o :: _ => skind true o (sc c) | [] => 9 end | None => 9 end in
          let '(g', cs') := step_at true slots g cs i in
          (i, lab) :: trace_sched f g' slots cs' (tl sched)
      end
  end.
Definition kcase := (list op * list (list op) * list nat * list (nat * N))%type.
Definition chk_kinds (c : kcase) : bool :=
  let '(setup, progs, sched, obs) := c in
  let gs := run_setup setup in
  list_eqb (fun a b => Nat.eqb (fst a) (fst b) && (snd a =? snd b))
           (trace_sched 600 gs (slots_of gs) (map client_of progs) sched) obs.
