(* Executable checkers for the correspondence run (tie K) of C14: the harness records what the real lexer,
   parse_expression and Node.__str__ produced; these functions say whether the model produces the same. *)
From Coq Require Import ZArith List Bool String Ascii NArith.
From V Require Import Model.ExprTree Model.Lexer Model.Parser.
Import ListNotations.
Open Scope string_scope.

(* strings that contain non-printable characters are sent as code lists *)
Definition sb (codes : list N) : string := string_of_list_ascii (map ascii_of_N codes).

(* what parse_expression did: a tree (None for an empty expression), an exception of the parser's documented
   family, the ValueError of the POINT arity check, or anything else (never expected) *)
Inductive obs := OTree (t : option tree) | OErrParser | OErrValue | OOther.

(* time table of one case: time-literal text -> value id (None: _parseTimeString rejects the text).
   A text missing from the table yields a value that no observation contains, so it shows as a disagreement. *)
Definition tv_of (tbl : list (string * option string)) (s : string) : option string :=
  let fix go l := match l with
                  | (k, v) :: r => if String.eqb k s then v else go r
                  | [] => Some "?not-in-table"
                  end in go tbl.

Definition opt_tree_eqb (a b : option tree) : bool :=
  match a, b with None, None => true | Some x, Some y => tree_eqb x y | _, _ => false end.

Definition chk_parse (c : list N * list (string * option string) * obs) : bool :=
  let '(codes, tbl, o) := c in
  match parse_codes (tv_of tbl) codes, o with
  | POk t, OTree t' => opt_tree_eqb t t'
  | PErr ESyntax, OErrParser => true
  | PErr EArity, OErrValue => true
  | _, _ => false
  end.

(* the real lexer's token stream (TBad appended where it raised) *)
Definition chk_lex (c : list N * list token) : bool :=
  let '(codes, toks) := c in tokens_eqb (lexN codes) toks.

(* lexer and parser observation of one string in one case *)
Definition chk_lex_parse (c : list N * list (string * option string) * list token * obs) : bool :=
  let '(codes, tbl, toks, o) := c in chk_lex (codes, toks) && chk_parse (codes, tbl, o).

(* str(tree) of a tree the real parser returned, lexed by the model lexer, equals the model's print;
   tshow table: time value id -> codes of str(astropy Time) *)
Definition tshow_of (tbl : list (string * string)) (v : string) : string :=
  let fix go l := match l with
                  | (k, s) :: r => if String.eqb k v then s else go r
                  | [] => "?not-in-table"
                  end in go tbl.

Definition chk_print (c : tree * list (string * string) * list N) : bool :=
  let '(t, tbl, codes) := c in tokens_eqb (lexN codes) (print (tshow_of tbl) t).

(* token-level replay: model parse of a token list the harness built directly *)
Definition chk_parse_tokens (c : list token * list (string * option string) * obs) : bool :=
  let '(ts, tbl, o) := c in
  match parse_tokens (tv_of tbl) ts, o with
  | POk t, OTree t' => opt_tree_eqb t t'
  | PErr ESyntax, OErrParser => true
  | PErr EArity, OErrValue => true
  | _, _ => false
  end.
