(* Hand model of lsst.daf.butler.Timespan (python/lsst/daf/butler/_timespan.py): a timespan is the
   pair `nsec = (begin, end)` of integer TAI nanoseconds, every empty one canonicalised to (MAX, MIN).
   The comparison methods are ALSO regenerated from the source into Gen/TimespanGen.v; this file is the
   hand model used by other models (Calib.v) and by the correspondence check.  No proofs here. *)
From Coq Require Import ZArith List Bool.
Import ListNotations.
Open Scope Z_scope.

Definition ts := (Z * Z)%type.
Definition MINN : Z := 0.

Section WithMax.
  Variable MAXN : Z.

  (* Timespan.__init__(_nsec=(b, e)) *)
  Definition mk (b e : Z) : ts := if b >=? e then (MAXN, MINN) else (b, e).
  Definition empty_ts : ts := (MAXN, MINN).

  Definition is_empty (a : ts) : bool := fst a >=? snd a.
  Definition lt (a b : ts) : bool := (snd a <=? fst b) && (fst a <? snd b).
  Definition gt (a b : ts) : bool := (fst a >=? snd b) && (snd a >? fst b).
  Definition overlaps (a b : ts) : bool := (snd a >? fst b) && (snd b >? fst a).
  Definition contains (a b : ts) : bool := (fst a <=? fst b) && (snd a >=? snd b).
  Definition lt_t (a : ts) (x : Z) : bool := (snd a <=? x) && (fst a <? x).
  Definition gt_t (a : ts) (x : Z) : bool := (fst a >? x) && (snd a >? x).
  Definition contains_t (a : ts) (x : Z) : bool := (fst a <=? x) && (snd a >? x).
  Definition overlaps_t := contains_t.
  Definition ts_eqb (a b : ts) : bool := (fst a =? fst b) && (snd a =? snd b).

  (* Timespan.intersection(star-args): max of lowers, min of uppers, re-canonicalised by __init__;
     with no arguments it returns self unchanged *)
  Definition inter (a : ts) (bs : list ts) : ts :=
    match bs with
    | [] => a
    | _ => mk (fold_left Z.max (map fst bs) (fst a)) (fold_left Z.min (map snd bs) (snd a))
    end.
  Definition inter2 (a b : ts) : ts := inter a [b].

  (* Timespan.difference(other): 0, 1 or 2 pieces *)
  Definition diff (a b : ts) : list ts :=
    let i := inter2 a b in
    if is_empty i then [a]
    else if ts_eqb i a then []
    else (if fst i >? fst a then [mk (fst a) (fst i)] else [])
      ++ (if snd i <? snd a then [mk (snd i) (snd a)] else []).

  (* well-formed = what every constructor path produces *)
  Definition wfb (a : ts) : bool :=
    ((MINN <=? fst a) && (fst a <? snd a) && (snd a <=? MAXN)) || ts_eqb a empty_ts.
End WithMax.

Definition mem (x : Z) (a : ts) : Prop := fst a <= x < snd a.
Definition memb (x : Z) (a : ts) : bool := (fst a <=? x) && (x <? snd a).
