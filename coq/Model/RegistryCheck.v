(* Executable checkers for the correspondence check (tie K) of C02: the harness records, after every step
   of a history run on a real SQLite registry, the outcome class and what the query interfaces / the raw
   tables report; these functions replay the same history on the model and say where it differs. *)
From Coq Require Import NArith List Bool.
From V Require Import Model.Registry Model.RegistryAbs.
Import ListNotations.
Open Scope N_scope.

Fixpoint lexb (a b : list N) : bool :=   (* a <= b lexicographically *)
  match a, b with
  | [], _ => true
  | _ :: _, [] => false
  | x :: r, y :: s => if x <? y then true else if y <? x then false else lexb r s
  end.
Fixpoint ins (x : list N) (l : list (list N)) : list (list N) :=
  match l with
  | [] => [x]
  | y :: r => if lexb x y then x :: l else y :: ins x r
  end.
Definition sortl (l : list (list N)) : list (list N) := fold_right ins [] l.
Fixpoint leqb (a b : list N) : bool :=
  match a, b with
  | [], [] => true
  | x :: r, y :: s => (x =? y) && leqb r s
  | _, _ => false
  end.
Fixpoint lleqb (a b : list (list N)) : bool :=
  match a, b with
  | [], [] => true
  | x :: r, y :: s => leqb x y && lleqb r s
  | _, _ => false
  end.
Definition subl (a b : list (list N)) : bool := forallb (fun x => existsb (leqb x) b) a.

Definition out_code (o : outcome) : N :=
  match o with
  | Ok => 0 | OkNew => 1
  | Err Conflict => 2 | Err MissingCollection => 3 | Err MissingDatasetType => 4
  | Err CollectionTypeErr => 5 | Err DataIdErr => 6
  end.
Definition ct_code (k : ctype) : N := match k with RUN => 1 | TAGGED => 2 end.

Definition m_colls (s : state) := sortl (map (fun p => [fst p; ct_code (snd p)]) (colls s)).
Definition m_types (s : state) := sortl (map (fun t => [t]) (dtypes s)).
Definition m_ds (s : state) := sortl (map (fun x => [d_id x; d_type x; d_run x]) (datasets s)).
Definition m_tags (s : state) := sortl (map (fun x => [r_coll x; r_type x; r_data x; r_id x]) (tags s)).
Definition m_summ_t (s : state) := sortl (map (fun p => [fst p; snd p]) (summ_t s)).
Definition m_summ_g (s : state) := sortl (map (fun p => [fst p; snd p]) (summ_g s)).
(* what the summaries must at least contain: every (collection, type) / (collection, governor) of a tag row *)
Definition m_need_t (s : state) := map (fun x => [r_coll x; r_type x]) (tags s).
Definition m_need_g (s : state) := map (fun x => [r_coll x; gov_of (r_data x)]) (tags s).
(* union over the universe of the summary-pruned per-governor queries, as tag rows *)
Definition m_pruned (s : state) (cs ts gs : list N) : list (list N) :=
  sortl (flat_map (fun c => flat_map (fun t => flat_map (fun g =>
    map (fun p => [c; t; fst p; snd p]) (query_with_summaries s c t g)) gs) ts) cs).

(* observation after one step *)
Record obs := Obs {
  o_out : N;
  o_colls : list (list N);      (* API: [c; type code] *)
  o_types : list (list N);      (* API: [t] *)
  o_ds : list (list N);         (* raw dataset table: [id; type; run] *)
  o_raw : list (list N);        (* raw dataset_tags_* rows: [c; t; d; id] *)
  o_api : list (list N);        (* queryDatasets over every (collection, type): [c; t; d; id] *)
  o_pruned : list (list N);     (* governor-constrained (summary-pruned) queries, union *)
  o_summ_t : list (list N);     (* getCollectionSummary dataset types: [c; t] *)
  o_summ_g : list (list N)      (* getCollectionSummary governors: [c; g] *)
}.

Section Universe.
  Variables (cs ts gs : list N).

  (* first differing field of one step: 0 = agrees *)
  Definition chk_step (s : state) (o : outcome) (b : obs) : N :=
    if negb (out_code o =? o_out b) then 1 else
    if negb (lleqb (m_colls s) (o_colls b)) then 2 else
    if negb (lleqb (m_types s) (o_types b)) then 3 else
    if negb (lleqb (m_ds s) (o_ds b)) then 4 else
    if negb (lleqb (m_tags s) (o_raw b)) then 5 else
    if negb (lleqb (m_tags s) (o_api b)) then 6 else
    if negb (lleqb (m_pruned s cs ts gs) (o_pruned b)) then 7 else
    if negb (subl (m_need_t s) (o_summ_t b)) then 8 else
    if negb (subl (m_need_g s) (o_summ_g b)) then 9 else 0.

  (* the ABSTRACT specification (Model/RegistryAbs.v) replayed next to the row-level model: as long as the history is
     honest (theorem abs_commutes) its outcome and its map must be what the implementation reports too; field 10 *)
  Definition a_view (a : astate) : list (list N) :=
    sortl (flat_map (fun c => flat_map (fun t => flat_map (fun d =>
      match a_mem a c t d with Some i => [[c; t; d; i]] | None => [] end) [0; 1; 2; 3; 4; 5]) ts) cs).
  Definition a_colls (a : astate) : list (list N) :=
    sortl (flat_map (fun c => match a_coll a c with Some k => [[c; ct_code k]] | None => [] end) cs).
  Definition chk_abs_step (a : astate) (o : outcome) (b : obs) : bool :=
    (out_code o =? o_out b) && lleqb (a_view a) (o_api b) && lleqb (a_colls a) (o_colls b).

  Fixpoint chk_from2 (s : state) (a : astate) (hon : bool) (i : N) (h : list (op * obs)) : list N :=
    match h with
    | [] => []
    | (o, b) :: r =>
      let hon' := hon && honest_op s o in
      let '(s', out) := step s o in
      let '(a', aout) := astep a o in
      match chk_step s' out b with
      | 0 => if hon' && negb (chk_abs_step a' aout b) then [i; 10] else chk_from2 s' a' hon' (N.succ i) r
      | k => [i; k]
      end
    end.
  Definition chk_from (s : state) (i : N) (h : list (op * obs)) : list N := chk_from2 s (abs s) true i h.

  Definition chk_where (h : list (op * obs)) : list N := chk_from init 0 h.
  Definition chk_hist (h : list (op * obs)) : bool := match chk_where h with [] => true | _ => false end.

  (* stricter, structural: the summary tables are exactly the model's (a clean-up of stale summary rows
     would be a harmless change, so a mismatch here is only reported as structural drift) *)
  Fixpoint chk_summ_from (s : state) (h : list (op * obs)) : bool :=
    match h with
    | [] => true
    | (o, b) :: r =>
      let s' := exec s o in
      lleqb (m_summ_t s') (o_summ_t b) && lleqb (m_summ_g s') (o_summ_g b) && chk_summ_from s' r
    end.
  Definition chk_summ_exact (h : list (op * obs)) : bool := chk_summ_from init h.
End Universe.

(* how many of the compared histories are honest (domain of abs_commutes) *)
Definition is_honest (h : list (op * obs)) : bool := honest (map fst h).

(* model trace for diagnostics / replay files *)
Definition trace (h : list op) : list (N * list (list N)) :=
  (fix go (s : state) (h : list op) :=
     match h with
     | [] => []
     | o :: r => let '(s', out) := step s o in (out_code out, m_tags s') :: go s' r
     end) init h.
