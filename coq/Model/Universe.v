(* Model of a dimension universe and of DimensionGroup (lsst.daf.butler.dimensions._universe / _group).
   Executable, no proofs here (lemmas: Proofs/GroupProofs*.v, statements: Props/C12.v).

   INTERFACE (stable; C13 / C06 / C18 import this file)
   ----------------------------------------------------
   kind                         KGovernor | KSkyPix | KDimension | KCombination
   elem                         { ename; ekind; ereq; eimp; ealways; epop; espatial; etemporal }
                                ereq = names of `element.required` (a dimension's own name is its LAST entry,
                                a combination's list has no self entry), eimp = `element.implied` (direct, not
                                recursive), both in universe order, exactly as the built Python objects report.
   universe := list elem        in the universe's sort order (`DimensionUniverse.elements`)
   gres A                       GOk a | GKeyError (unknown name, Python KeyError) | GOutOfFuel
   memb x l, list_eqb, nodupb   string-list helpers
   find_elem u n                `universe[n]`               names_of u, dimension_names u, nonskypix_dimension_names u
   deps e := ereq e ++ eimp e   is_dimension e
   sort_names u l               `universe.sorted(l)` as names (members of l that are elements, universe order)
   wf_universe u : bool         names unique; every required dep is the element itself or an EARLIER element,
                                every implied dep a strictly earlier one (so: declared + acyclic)
   expand u fuel todo acc       the work-list of DimensionGroup.__new__
   closure u S : gres (list string)    dependency closure of S in universe order
   group                        { gnames; grequired; gimplied; gelements; ggovernors; gskypix; glookup }
                                glookup : gres (list string)  (GOutOfFuel <-> the Python `while` never ends)
   group_of_names u ns          the group whose (already closed, sorted) name tuple is ns (`_conform=False`)
   mkgroup u S : gres group     `DimensionGroup(universe, S)` / `universe.conform(iterable)`
   conform_str u n              `universe.conform("name")`  (= element.minimal_group)
   data_coordinate_keys g       required ++ implied
   gunion u a b, ginter u a b   `a | b`, `a & b`  (gres group)
   gsubset a b, geqb a b, gdisjoint a b, ghash a   `<=`, `==`, isdisjoint, the tuple that is hashed
   required_of / implied_of / elements_of / governors_of / skypix_of / lookup_order   the parts of mkgroup *)
From Coq Require Import String List Bool Arith.
Import ListNotations.
Open Scope string_scope.
Open Scope list_scope.

Inductive kind := KGovernor | KSkyPix | KDimension | KCombination.

Record elem := mkElem {
  ename : string;
  ekind : kind;
  ereq : list string;
  eimp : list string;
  ealways : bool;              (* alwaysJoin *)
  epop : option string;        (* populated_by (a dimension reports itself) *)
  espatial : option string;    (* name of the spatial topological family, if any *)
  etemporal : option string    (* name of the temporal topological family, if any *)
}.

Definition universe := list elem.

Inductive gres (A : Type) := GOk (a : A) | GKeyError | GOutOfFuel.
Arguments GOk {A} a.
Arguments GKeyError {A}.
Arguments GOutOfFuel {A}.

Definition gbind {A B} (r : gres A) (f : A -> gres B) : gres B :=
  match r with GOk a => f a | GKeyError => GKeyError | GOutOfFuel => GOutOfFuel end.

(* ---- string lists ---- *)
Definition memb (x : string) (l : list string) : bool := existsb (String.eqb x) l.

Fixpoint list_eqb (l1 l2 : list string) : bool :=
  match l1, l2 with
  | [], [] => true
  | x :: r, y :: s => String.eqb x y && list_eqb r s
  | _, _ => false
  end.

Fixpoint nodupb (l : list string) : bool :=
  match l with [] => true | x :: r => negb (memb x r) && nodupb r end.

Fixpoint index_of (n : string) (l : list string) : nat :=
  match l with [] => 0 | x :: r => if String.eqb x n then 0 else S (index_of n r) end.

(* ---- lookups ---- *)
Fixpoint find_elem (u : universe) (n : string) : option elem :=
  match u with
  | [] => None
  | e :: r => if String.eqb (ename e) n then Some e else find_elem r n
  end.

Definition names_of (u : universe) : list string := map ename u.
Definition deps (e : elem) : list string := ereq e ++ eimp e.
Definition is_dimension (e : elem) : bool := match ekind e with KCombination => false | _ => true end.
Definition is_skypix (e : elem) : bool := match ekind e with KSkyPix => true | _ => false end.
Definition is_governor (e : elem) : bool := match ekind e with KGovernor => true | _ => false end.
Definition dimension_names (u : universe) : list string := map ename (filter is_dimension u).
Definition nonskypix_dimension_names (u : universe) : list string :=
  map ename (filter (fun e => is_dimension e && negb (is_skypix e)) u).

(* universe.sorted(names): iterate over the universe, keep what is in the given collection *)
Definition sort_names (u : universe) (l : list string) : list string :=
  map ename (filter (fun e => memb (ename e) l) u).

(* ---- well-formedness ---- *)
Definition wf_elem (K : list string) (e : elem) : bool :=
  forallb (fun d => memb d K && Nat.leb (index_of d K) (index_of (ename e) K)) (ereq e)
  && forallb (fun d => memb d K && Nat.ltb (index_of d K) (index_of (ename e) K)) (eimp e).

Definition wf_universe (u : universe) : bool :=
  nodupb (names_of u) && forallb (wf_elem (names_of u)) u.

(* every dependency is a dimension (not a join table); not needed by the lattice theorems *)
Definition deps_are_dimensions (u : universe) : bool :=
  forallb (fun e => forallb (fun d => match find_elem u d with Some e' => is_dimension e' | None => false end) (deps e)) u.

(* ---- closure: DimensionGroup.__new__, the `while to_expand` loop ----
   to_expand.pop() takes an arbitrary member; here: the head.  Each iteration moves one NEW name into
   `acc` (to_expand and names stay disjoint), so length u iterations suffice in a wf universe. *)
Fixpoint expand (u : universe) (fuel : nat) (todo acc : list string) : gres (list string) :=
  match todo with
  | [] => GOk acc
  | d :: rest =>
    match fuel with
    | O => GOutOfFuel
    | S f =>
      match find_elem u d with
      | None => GKeyError
      | Some e =>
        let acc' := d :: acc in
        expand u f (filter (fun x => negb (memb x acc')) (deps e ++ rest)) acc'
      end
    end
  end.

(* fuel: at most length u names can be added; one more step reaches an unknown name (KeyError) *)
Definition closure (u : universe) (l : list string) : gres (list string) :=
  gbind (expand u (S (length u)) l []) (fun r => GOk (sort_names u r)).

(* ---- the parts of a group ---- *)
Definition implied_by_member (u : universe) (ns : list string) (d : string) : bool :=
  existsb (fun d2 => match find_elem u d2 with Some e2 => memb d (eimp e2) | None => false end) ns.

Definition required_of (u : universe) (ns : list string) : list string :=
  filter (fun d => negb (implied_by_member u ns d)) ns.
Definition implied_of (u : universe) (ns : list string) : list string :=
  filter (implied_by_member u ns) ns.
Definition elements_of (u : universe) (ns : list string) : list string :=
  map ename (filter (fun e => forallb (fun r => memb r ns) (ereq e)) u).
Definition has_kind (u : universe) (p : elem -> bool) (d : string) : bool :=
  match find_elem u d with Some e => p e | None => false end.
Definition governors_of (u : universe) (ns : list string) : list string := filter (has_kind u is_governor) ns.
Definition skypix_of (u : universe) (ns : list string) : list string := filter (has_kind u is_skypix) ns.

(* lookup_order: add_to_order is recursive through `element.implied`; depth fuel *)
Fixpoint add_to_order (u : universe) (fuel : nat) (n : string) (order : list string) : gres (list string) :=
  match fuel with
  | O => GOutOfFuel
  | S f =>
    match find_elem u n with
    | None => GKeyError
    | Some e =>
      if memb n order then GOk order
      else if negb (forallb (fun p => String.eqb p n || memb p order) (ereq e)) then GOk order
      else fold_left (fun acc m => gbind acc (add_to_order u f m)) (eimp e) (GOk (order ++ [n]))
    end
  end.

(* `while not done.issuperset(required): for d in required: add_to_order(d)`; a pass that adds nothing
   repeats forever in Python; at most length u passes can add something *)
Fixpoint lookup_loop (u : universe) (fuel : nat) (req order : list string) : gres (list string) :=
  if forallb (fun r => memb r order) req then GOk order
  else match fuel with
       | O => GOutOfFuel
       | S f => gbind (fold_left (fun acc d => gbind acc (add_to_order u (S (length u)) d)) req (GOk order))
                      (lookup_loop u f req)
       end.

Definition lookup_order (u : universe) (req elems : list string) : gres (list string) :=
  gbind (lookup_loop u (S (length u)) req [])
        (fun o => GOk (o ++ filter (fun x => negb (memb x o)) elems)).

Record group := mkGroup {
  gnames : list string;
  grequired : list string;
  gimplied : list string;
  gelements : list string;
  ggovernors : list string;
  gskypix : list string;
  glookup : gres (list string)
}.

Definition group_of_names (u : universe) (ns : list string) : group :=
  {| gnames := ns;
     grequired := required_of u ns;
     gimplied := implied_of u ns;
     gelements := elements_of u ns;
     ggovernors := governors_of u ns;
     gskypix := skypix_of u ns;
     glookup := lookup_order u (required_of u ns) (elements_of u ns) |}.

Definition mkgroup (u : universe) (l : list string) : gres group :=
  gbind (closure u l) (fun ns => GOk (group_of_names u ns)).

Definition conform_str (u : universe) (n : string) : gres group :=
  match find_elem u n with Some e => mkgroup u (deps e) | None => GKeyError end.

Definition data_coordinate_keys (g : group) : list string := grequired g ++ gimplied g.

(* ---- operators ---- *)
Definition gunion (u : universe) (a b : group) : gres group := mkgroup u (gnames a ++ gnames b).
Definition ginter (u : universe) (a b : group) : gres group :=
  mkgroup u (filter (fun d => memb d (gnames b)) (gnames a)).
Definition gsubset (a b : group) : bool := forallb (fun d => memb d (gnames b)) (gnames a).
Definition geqb (a b : group) : bool := list_eqb (gnames a) (gnames b).
Definition gdisjoint (a b : group) : bool := forallb (fun d => negb (memb d (gnames b))) (gnames a).
Definition ghash (a : group) : list string := grequired a.
