(* C14 model, part 4: from the parse tree to the typed expression of C05 -- the part of
   queries/_expression_strings.py `_ConversionVisitor` that is NOT type checking: literal decoding, identifier and
   bind resolution, the shapes the visitor refuses outright (range outside IN, sequence outside IN, unknown function,
   unbound name, non-time tuple bound, non-literal POINT argument, unary plus on a non-number), transparency of
   parentheses and unary plus.  The result is an `Expr.expr` (C05's AST); the type discipline of the visitor and of
   the pydantic validators is C05's `SqlExpr.conv` / `ctype`, imported unchanged.

   Identifier resolution (`interpret_identifier`, `categorizeConstant`, the bind map) is a PARAMETER:
     res   : lower-cased name -> what visitIdentifier returns (None: it raises InvalidQueryError)
     bound : lower-cased name is a key of the bind map (visitBind refuses other names)
     tns   : time value id -> TAI nanoseconds
   The harness observes `res` by calling the real visitIdentifier once per name (c14_impl.conv_batch).

   Three outcomes: TConv e (the visitor's result is represented by e), TRej (InvalidQueryError is certain), TUnsup
   (the expression leaves the fragment C05 models: POINT / region / uuid / ingest_date columns, `.begin`/`.end`
   inside an IN list; no claim).  Children are converted left to right like Node.visit does, the first TRej / TUnsup
   wins.

   Known difference between SqlExpr.conv and the code, kept OUT of the claim (has_span_eq -> NoClaim): `==`/`!=`
   between two timespans passes Comparison._validate_column_types (and then dies with an AssertionError when the
   SQL is built: known finding F-C14-timespan-eq) while conv refuses it.

   No proofs in this file. *)
From Coq Require Import ZArith List Bool String Ascii NArith.
From V Require Import Base.Tri Gen.TimespanGen Model.Expr Model.SqlExpr Model.Lexer Model.ExprTree Model.Parser.
Import ListNotations.
Open Scope string_scope.

(* ------------------------------------------------------------------ str.lower() on the ASCII names the lexer produces *)
Definition lower_char (c : ascii) : ascii := if is_upper c then ascii_of_N (cn c + 32) else c.
Definition lower (s : string) : string := string_of_list_ascii (map lower_char (list_ascii_of_string s)).

(* ------------------------------------------------------------------ visitNumericLiteral: int(text), else float(text) *)
Definition pow10 (n : nat) : Z := Z.pow 10 (Z.of_nat n).
Definition exp_value (l : list ascii) : Z :=
  match l with
  | e :: r =>
      if Ascii.eqb e "e" || Ascii.eqb e "E" then
        match r with
        | "-"%char :: ds => (- digits_val ds)%Z
        | "+"%char :: ds => digits_val ds
        | _ => digits_val r
        end
      else 0%Z
  | [] => 0%Z
  end.

(* text of a NUMERIC_LITERAL token, optionally signed (IN lists): all digits -> int, otherwise the exact rational
   value of the decimal spelling (digits [. digits] [e[+-]digits] | . digits [e..]) *)
Definition num_value (s : string) : value :=
  let l := list_ascii_of_string s in
  let '(sg, l1) := match l with
                   | "-"%char :: r => ((-1)%Z, r)
                   | "+"%char :: r => (1%Z, r)
                   | _ => (1%Z, l) end in
  let '(ip, r1) := span is_digit l1 in
  match ip, r1 with
  | _ :: _, [] => VInt (sg * digits_val ip)
  | _, _ =>
      let '(fp, r2) := match r1 with "."%char :: r' => span is_digit r' | _ => ([], r1) end in
      let mant := (sg * digits_val (ip ++ fp)%list)%Z in
      let sc := (exp_value r2 - Z.of_nat (List.length fp))%Z in
      if (0 <=? sc)%Z then VReal (mant * Z.pow 10 sc) 1 else VReal mant (Z.to_pos (Z.pow 10 (- sc)))
  end.

(* ------------------------------------------------------------------ what an identifier resolves to *)
Inductive rid :=
  | RCol (c : col) (t : ty)            (* dimension key / dimension field / dataset field of a modelled column type;
                                          a boolean column is the Predicate from_bool_expression(column) *)
  | RBegin (c : col) | REnd (c : col)  (* <timespan column>.begin / .end *)
  | RNull                              (* categorizeConstant(name) == NULL *)
  | RLit (v : value)                   (* bind name holding a scalar *)
  | RSeq (vs : list value)             (* bind name holding a list / tuple / set of literals of one type *)
  | ROther.                            (* resolves, but to something outside Expr.v (region, uuid, ingest_date, ...) *)

Inductive tres := TConv (e : expr) | TRej | TUnsup.
Inductive ires := IOk (it : item) | IRej | IUnsup.

Definition tbind (r : tres) (k : expr -> tres) : tres :=
  match r with TConv e => k e | TRej => TRej | TUnsup => TUnsup end.

Definition mk_bin (o : bop) (a b : expr) : expr :=
  match o with
  | ExprTree.BOr => EOr a b | ExprTree.BAnd => EAnd a b
  | BEq => ECmp CEq a b | BNe => ECmp CNe a b | BLt => ECmp CLt a b | BLe => ECmp CLe a b
  | BGt => ECmp CGt a b | BGe => ECmp CGe a b
  | BOverlaps => EOverlaps a b
  | BAdd => EArith OAdd a b | BSub => EArith OSub a b | BMul => EArith OMul a b
  | BDiv => EArith ODiv a b | BMod => EArith OMod a b
  end.

(* _get_float_literal_value: an int / float literal, or unary minus applied to one *)
Fixpoint is_num_lit (e : expr) : bool :=
  match e with
  | ELit (VInt _) | ELit (VReal _ _) => true
  | ENeg a => is_num_lit a
  | _ => false
  end.

(* _to_timespan_bound: a datetime literal, or NULL for an open bound *)
Definition span_bound (open : Z) (e : expr) : option Z :=
  match e with ELit (VTime z) => Some z | ENull => Some open | _ => None end.

Section OfTree.
  Variable res : string -> option rid.
  Variable bound : string -> bool.
  Variable tns : string -> Z.

  Definition lookup_ident (s : string) : option rid := res (lower s).
  (* visitBind: "Name is not in the bind map", else visitIdentifier(name) *)
  Definition lookup_bind (s : string) : option rid := if bound (lower s) then res (lower s) else None.

  Definition of_rid (r : option rid) : tres :=
    match r with
    | None => TRej
    | Some (RCol c t) => TConv (ECol c t)
    | Some (RBegin c) => TConv (EBegin (ECol c TySpan))
    | Some (REnd c) => TConv (EEnd (ECol c TySpan))
    | Some RNull => TConv ENull
    | Some (RLit v) => TConv (ELit v)
    | Some (RSeq _) => TRej            (* _Sequence: every consumer except visitIsIn's value list refuses it *)
    | Some ROther => TUnsup
    end.

  Definition item_of_rid (r : option rid) : ires :=
    match r with
    | None => IRej
    | Some (RCol c t) => IOk (ICol c t)
    | Some RNull => IOk INull
    | Some (RLit v) => IOk (ILit v)
    | Some (RSeq vs) => IOk (ISeq vs)
    | Some (RBegin _) | Some (REnd _) | Some ROther => IUnsup
    end.

  (* one element of literal_or_id_list *)
  Definition of_item (t : tree) : ires :=
    match t with
    | Num s => IOk (ILit (num_value s))
    | Str s => IOk (ILit (VStr s))
    | Time v => IOk (ILit (VTime (tns v)))
    | Range a b st => IOk (IRange a b st)
    | Ident s => item_of_rid (lookup_ident s)
    | Bind s => item_of_rid (lookup_bind s)
    | _ => IRej
    end.

  Fixpoint of_items (vs : list tree) : option (option (list item)) :=   (* None: rejected; Some None: unsupported *)
    match vs with
    | [] => Some (Some [])
    | v :: r =>
        match of_item v with
        | IRej => None
        | IUnsup => Some None
        | IOk it => match of_items r with
                    | None => None
                    | Some None => Some None
                    | Some (Some its) => Some (Some (it :: its))
                    end
        end
    end.

  Fixpoint of_tree (t : tree) : tres :=
    match t with
    | Num s => TConv (ELit (num_value s))
    | Str s => TConv (ELit (VStr s))
    | Time v => TConv (ELit (VTime (tns v)))
    | Range _ _ _ => TRej              (* _RangeLiteral: consumed by visitIsIn only, refused everywhere else *)
    | Ident s => of_rid (lookup_ident s)
    | Bind s => of_rid (lookup_bind s)
    | Unary UPlus x =>                 (* "+ is a no-op" on int / float column expressions, refused otherwise *)
        tbind (of_tree x) (fun e => match ctype e with
                                    | Some t => if numeric t then TConv e else TRej
                                    | None => TRej end)
    | Unary UMinus x => tbind (of_tree x) (fun e => TConv (ENeg e))
    | Unary UNot x => tbind (of_tree x) (fun e => TConv (ENot e))
    | Binary l o r => tbind (of_tree l) (fun a => tbind (of_tree r) (fun b => TConv (mk_bin o a b)))
    | IsIn l vs ng =>
        tbind (of_tree l) (fun a =>
          match of_items vs with
          | None => TRej
          | Some None => TUnsup
          | Some (Some its) => TConv (EIn a its ng)
          end)
    | Parens x => of_tree x
    | Tuple a b =>
        tbind (of_tree a) (fun ea => tbind (of_tree b) (fun eb =>
          match span_bound GEN_MIN ea, span_bound GEN_MAX eb with
          | Some x, Some y => let s := py_mk x y in TConv (ELit (VSpan (fst s) (snd s)))
          | _, _ => TRej
          end))
    | Point a b =>
        tbind (of_tree a) (fun ea => tbind (of_tree b) (fun eb =>
          if is_num_lit ea && is_num_lit eb then TUnsup else TRej))
    | Call _ _ => TRej                 (* "Unknown function" (POINT has its own node) *)
    end.

  (* `==` / `!=` between timespans, directly or through an IN item: accepted by the validators, refused by conv *)
  Definition is_span (e : expr) : bool := match ctype e with Some TySpan => true | _ => false end.
  Definition item_span (it : item) : bool :=
    match it with ICol _ TySpan | ILit (VSpan _ _) => true | ISeq vs => existsb (fun v => ty_eqb (ty_of v) TySpan) vs | _ => false end.
  Fixpoint has_span_eq (e : expr) : bool :=
    match e with
    | ELit _ | ENull | ECol _ _ => false
    | EBegin a | EEnd a | ENeg a | ENot a => has_span_eq a
    | EArith _ a b | EOverlaps a b | EAnd a b | EOr a b => has_span_eq a || has_span_eq b
    | ECmp o a b => (cop_is_eq o && is_span a && is_span b) || has_span_eq a || has_span_eq b
    | EIn a its _ => (is_span a && existsb item_span its) || has_span_eq a
    end.

  Inductive verdict := Accept | Reject | NoClaim.

  (* convert_expression_string_to_predicate on a tree: the visitor, then "is it a Predicate" *)
  Definition tree_verdict (t : tree) : verdict :=
    match of_tree t with
    | TRej => Reject
    | TUnsup => NoClaim
    | TConv e => match conv e with
                 | Some _ => Accept
                 | None => if has_span_eq e then NoClaim else Reject
                 end
    end.

  (* the whole path: lexer, parser, conversion.  An empty expression is Predicate.from_bool(True). *)
  Definition parsed_verdict (p : pres (option tree)) : verdict :=
    match p with
    | PErr _ => Reject                 (* "Failed to parse expression" -- every parser / lexer / arity error *)
    | PFuel => NoClaim                 (* excluded by fuel_adequate *)
    | POk None => Accept
    | POk (Some t) => tree_verdict t
    end.
  Definition where_verdict (tv : string -> option string) (s : string) : verdict := parsed_verdict (parse_string tv s).
End OfTree.
