(* Checkers of the C13 correspondence run, wave 5: like Model/DataIdCheck.v but parametric in the universe (the current one or a
   regenerated older shipped universe), over the CODE-EXACT expansion of Model/DataIdX.v (`records=`, DataCoordinate input,
   fetch key through the minimal group), plus the alternate-key rewrite. *)
From Coq Require Import String List Bool Arith ZArith.
From V Require Import Model.Universe Model.Group Model.DataId Model.DataIdX Model.DataIdCheck.
Import ListNotations.
Open Scope string_scope.
Open Scope list_scope.

Inductive xspec :=
| XStd (dims : option (list string)) (mapping kwargs defaults : amap)                     (* DataCoordinate.standardize *)
| XExp (given : recmap) (dims : option (list string)) (mapping kwargs defaults : amap)    (* Registry.expandDataId(mapping, records=) *)
| XExpDc (given : recmap) (s : xspec) (dims : option (list string)) (kwargs defaults : amap)  (* expandDataId(DataCoordinate, ...) *)
| XSub (s : xspec) (l : list string)
| XStdDc (s : xspec) (dims : option (list string)) (kwargs defaults : amap)
| XUnion (a b : xspec).

Fixpoint xbuild (u : universe) (D : db) (s : xspec) : result dataid :=
  match s with
  | XStd d m k f => standardize u d m k f
  | XExp g d m k f => expand_data_id_x u D g d m k f
  | XExpDc g s d k f => rbind (xbuild u D s) (fun x => expand_data_id_dc_x3 u D g d x k f)
  | XSub s l => rbind (xbuild u D s) (fun x => subset u x l)
  | XStdDc s d k f => rbind (xbuild u D s) (fun x => standardize_dc2 u d x k f)
  | XUnion a b => rbind (xbuild u D a) (fun x => rbind (xbuild u D b) (fun y => union u x y))
  end.

Inductive xcase :=
| XCBuild (s : xspec) (exp : result obs)
| XCPair (a b : xspec) (eq hasheq : bool) (uab uba : result obs)
| XCPairConflict (a b : xspec) (eq hasheq : bool) (names : list string)
| XCGet (s : xspec) (k : string) (exp : option value)
| XCEqMap (s : xspec) (m : amap) (exp : result bool)
| XCAlt (F : fdb) (known : amap) (by_record : list (string * amap)) (exp : option amap).
   (* _rewrite_data_id: the data ID find_dataset resolved (required items), or None = refused *)

Definition amap_sub (a b : amap) : bool :=
  forallb (fun kv => match aget b (fst kv) with Some w => value_eqb w (snd kv) | None => false end) a.

Definition chk_xcase (c : universe * db * xcase) : bool :=
  let '(u, D, c) := c in
  match c with
  | XCBuild s exp => res_matches (xbuild u D s) exp
  | XCPair a b eq hasheq uab uba =>
    match xbuild u D a, xbuild u D b with
    | Ok x, Ok y =>
      Bool.eqb (dc_eq x y) eq && Bool.eqb (dc_eq y x) eq
      && Bool.eqb (hash_eqb (dc_hash_key x) (dc_hash_key y)) hasheq
      && res_matches (union u x y) uab && res_matches (union u y x) uba
    | _, _ => false
    end
  | XCPairConflict a b eq hasheq names =>
    match xbuild u D a, xbuild u D b with
    | Ok x, Ok y =>
      Bool.eqb (dc_eq x y) eq && Bool.eqb (dc_eq y x) eq
      && Bool.eqb (hash_eqb (dc_hash_key x) (dc_hash_key y)) hasheq
      && match union u x y, union u y x with
         | Ok p, Ok q => list_eqb (gnames (dgroup p)) names && list_eqb (gnames (dgroup q)) names
         | _, _ => false
         end
    | _, _ => false
    end
  | XCGet s k exp =>
    match xbuild u D s with
    | Ok x => match dc_get x k, exp with
              | Some v, Some w => value_eqb v w
              | None, None => true
              | _, _ => false
              end
    | Err _ => false
    end
  | XCEqMap s m exp =>
    match xbuild u D s with
    | Ok x => match standardize u None m [] [], exp with
              | Ok y, Ok b => Bool.eqb (dc_eq x y) b
              | Err e, Err e' => err_eqb e e'
              | _, _ => false
              end
    | Err _ => false
    end
  | XCAlt F known by_record exp =>
    match rewrite_all u F known by_record, exp with
    | RWOk k', Some items => amap_sub items k' && amap_sub k' items
    | RWErr _, None => true
    | _, _ => false
    end
  end.
