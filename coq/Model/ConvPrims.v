(* C14 model, part 5: the vocabulary over which `Gen/ConvGen.v` -- the `match` arms of
   queries/_expression_strings.py `_ConversionVisitor`, regenerated from the source by harness/translators/conv_visitor.py
   -- is stated.

     res A        what a visitor method does: returns (Ok), raises InvalidQueryError (Invalid), raises anything else (Crash)
     vres         `_VisitorResult = Predicate | _ColExpr | _Null | _RangeLiteral | _Sequence`
     p_*          the constructors of queries/tree that the visitor calls (Predicate.compare / is_null / in_container /
                  in_range, BinaryExpression, UnaryExpression) WITH their pydantic validators.  They live outside
                  _expression_strings.py and are not regenerated: they are C05's model of the validators (SqlExpr.cmp_ok,
                  conv_item, ctype), restated as functions of the arguments the visitor passes -- Predicate.in_range takes the
                  EXCLUSIVE stop.  Tied by the conversion correspondence of every run.
     py_int/py_float  Python int(text) / float(text) on the text of a NUMERIC_LITERAL token (optionally signed, IN lists)

   No proofs in this file. *)
From Coq Require Import ZArith List Bool String Ascii NArith.
From V Require Import Base.Tri Gen.TimespanGen Model.Expr Model.SqlExpr Model.Lexer Model.ExprTree Model.Parser Model.ParserConv.
Import ListNotations.
Open Scope string_scope.

Inductive res (A : Type) := Ok (a : A) | Invalid | Crash.
Arguments Ok {A} a.
Arguments Invalid {A}.
Arguments Crash {A}.

Definition rbind {A B} (r : res A) (k : A -> res B) : res B :=
  match r with Ok a => k a | Invalid => Invalid | Crash => Crash end.

(* a list comprehension whose element expression may raise: left to right, the first exception wins *)
Fixpoint rmap {A B} (f : A -> res B) (l : list A) : res (list B) :=
  match l with
  | [] => Ok []
  | x :: r => rbind (f x) (fun y => rbind (rmap f r) (fun ys => Ok (y :: ys)))
  end.

(* items[i] : IndexError is not the documented error *)
Definition rnth {A} (l : list A) (i : nat) : res A := match nth_error l i with Some x => Ok x | None => Crash end.

Inductive vres :=
  | XPred (f : bform)                    (* Predicate *)
  | XCol (e : expr)                      (* _ColExpr(value = e); column_type = ctype e *)
  | XNull                                (* _Null *)
  | XRange (a b : Z) (st : option Z)     (* _RangeLiteral(node): start, INCLUSIVE stop, stride *)
  | XSeq (vs : list value).              (* _Sequence of literals (a bound list / tuple / set) *)

(* ------------------------------------------------------------------ column types by their Python names *)
Definition ctype_in (e : expr) (ts : list ty) : bool :=
  match ctype e with Some t => existsb (ty_eqb t) ts | None => false end.

(* expr.expression_type == "datetime": a DateTimeColumnLiteral *)
Definition is_time_lit (e : expr) : bool := match e with ELit (VTime _) => true | _ => false end.
Definition time_lit_value (e : expr) : Z := match e with ELit (VTime z) => z | _ => 0%Z end.

(* Timespan(begin, end) with None = unbounded, through the regenerated Timespan constructor *)
Definition mk_timespan (b e : option Z) : value :=
  let s := py_mk (match b with Some x => x | None => GEN_MIN end) (match e with Some y => y | None => GEN_MAX end) in
  VSpan (fst s) (snd s).

(* ------------------------------------------------------------------ queries.tree constructors with their validators *)
Inductive cmpop := COp (o : cop) | COverlaps.
(* ComparisonOperator = Literal["==", "!=", "<", ">", ">=", "<=", "overlaps"] *)
Definition cmp_of_text (s : string) : option cmpop :=
  if String.eqb s "==" then Some (COp CEq) else if String.eqb s "!=" then Some (COp CNe)
  else if String.eqb s "<" then Some (COp CLt) else if String.eqb s "<=" then Some (COp CLe)
  else if String.eqb s ">" then Some (COp CGt) else if String.eqb s ">=" then Some (COp CGe)
  else if String.eqb s "overlaps" then Some COverlaps else None.

Definition p_compare (a : expr) (op : string) (b : expr) : res bform :=
  match cmp_of_text op with
  | None => Crash
  | Some (COp o) =>
      match ctype a, ctype b with
      | Some ta, Some tb => if cmp_ok o ta tb then Ok (BLeaf (LCmp o a b)) else Invalid
      | _, _ => Invalid
      end
  | Some COverlaps =>
      match ctype a, ctype b with
      | Some TySpan, Some TySpan | Some TySpan, Some TyTime | Some TyTime, Some TySpan => Ok (BLeaf (LOverlaps a b))
      | _, _ => Invalid
      end
  end.

Definition p_is_null (a : expr) : bform := BLeaf (LIsNull a).

(* InContainer._validate *)
Definition p_in_container (a : expr) (vs : list value) : res bform :=
  match ctype a with
  | Some ta => if negb (ty_eqb ta TySpan) && forallb (fun v => ty_eqb (ty_of v) ta) vs then Ok (BLeaf (LInList a vs)) else Invalid
  | None => Invalid
  end.

(* InRange._validate: int member, step >= 1, stop >= start; stop is EXCLUSIVE (the leaf of C05 keeps the inclusive one) *)
Definition p_in_range (a : expr) (start stop step : Z) : res bform :=
  match ctype a with
  | Some ta => if ty_eqb ta TyInt && (1 <=? step)%Z && (start <=? stop)%Z then Ok (BLeaf (LInRange a start (stop - 1) step)) else Invalid
  | None => Invalid
  end.

Definition aop_of_text (s : string) : option aop :=
  if String.eqb s "+" then Some OAdd else if String.eqb s "-" then Some OSub else if String.eqb s "*" then Some OMul
  else if String.eqb s "/" then Some ODiv else if String.eqb s "%" then Some OMod else None.

(* BinaryExpression(a, b, operator) / UnaryExpression(operand, operator) and their _validate_types *)
Definition p_binexpr (a : expr) (op : string) (b : expr) : res expr :=
  match aop_of_text op with
  | None => Crash
  | Some o => match ctype (EArith o a b) with Some _ => Ok (EArith o a b) | None => Invalid end
  end.
Definition p_unexpr (op : string) (a : expr) : res expr :=
  if String.eqb op "-" then match ctype (ENeg a) with Some _ => Ok (ENeg a) | None => Invalid end else Crash.

(* _get_boolean_column_reference: the Predicate is exactly one boolean column (from_bool_expression) *)
Definition get_bool_ref (f : bform) : option expr :=
  match f with BLeaf (LBool c) => Some (ECol c TyBool) | _ => None end.

(* ------------------------------------------------------------------ int(text) / float(text) *)
Definition split_sign (l : list ascii) : Z * list ascii :=
  match l with
  | "-"%char :: r => ((-1)%Z, r)
  | "+"%char :: r => (1%Z, r)
  | _ => (1%Z, l)
  end.

(* int(text): an optional sign and a non-empty run of digits; anything else is ValueError (None) *)
Definition py_int (s : string) : option Z :=
  let '(sg, l1) := split_sign (list_ascii_of_string s) in
  match l1 with
  | [] => None
  | _ :: _ => if forallb is_digit l1 then Some (sg * digits_val l1)%Z else None
  end.

(* float(text) for digits [. digits] [e[+-]digits] | . digits [e..], optionally signed: the exact decimal value *)
Definition py_float (s : string) : value :=
  let '(sg, l1) := split_sign (list_ascii_of_string s) in
  let '(ip, r1) := span is_digit l1 in
  let '(fp, r2) := match r1 with "."%char :: r' => span is_digit r' | _ => ([], r1) end in
  let mant := (sg * digits_val (ip ++ fp)%list)%Z in
  let sc := (exp_value r2 - Z.of_nat (List.length fp))%Z in
  if (0 <=? sc)%Z then VReal (mant * Z.pow 10 sc) 1 else VReal mant (Z.to_pos (Z.pow 10 (- sc))).

(* `needle in text` for strings *)
Fixpoint str_in_at (needle : string) (s : string) (fuel : nat) : bool :=
  match fuel with
  | O => false
  | S k => String.prefix needle s || match s with EmptyString => false | String _ r => str_in_at needle r k end
  end.
Definition str_in (needle s : string) : bool := str_in_at needle s (S (String.length s)).
