(* C14 model, part 6: `tree.visit(_ConversionVisitor(...))` -- the traversal of exprTree.py (`Node.visit`: children
   left to right, then the visitor method of the node) over the visitor methods REGENERATED from the source
   (Gen/ConvGen.v).  Identifier resolution stays the parameter `res` of ParserConv.v (`visitIdentifier` is observed per name
   on every run); `visitBind` is generated and calls it.

   rep e is what the hand model (ParserConv.of_tree + C05's SqlExpr.conv / ctype) says the visitor returns for a tree that
   converts to e: _Null for NULL, the Predicate `conv e`, the _ColExpr e when e has a column type, InvalidQueryError otherwise.
   Proofs/ConvProofs.v: of_tree t = TConv e -> visit t = rep e.

   No proofs in this file. *)
From Coq Require Import ZArith List Bool String Ascii NArith.
From V Require Import Base.Tri Gen.TimespanGen Model.Expr Model.SqlExpr Model.Lexer Model.ExprTree Model.Parser Model.ParserConv
  Model.ConvPrims Gen.ConvGen.
Import ListNotations.
Open Scope string_scope.

(* what visitIdentifier returns for a resolved name (its own code is not regenerated) *)
Definition vres_of_rid (r : option rid) : res vres :=
  match r with
  | None => Invalid
  | Some (RCol c TyBool) => Ok (XPred (BLeaf (LBool c)))       (* Predicate.from_bool_expression(column) *)
  | Some (RCol c t) => Ok (XCol (ECol c t))
  | Some (RBegin c) => Ok (XCol (EBegin (ECol c TySpan)))
  | Some (REnd c) => Ok (XCol (EEnd (ECol c TySpan)))
  | Some RNull => Ok XNull
  | Some (RLit v) => Ok (XCol (ELit v))
  | Some (RSeq vs) => Ok (XSeq vs)
  | Some ROther => Crash                                       (* outside the fragment: no claim (of_tree says TUnsup) *)
  end.

Section Visit.
  Variable res : string -> option rid.
  Variable bound : string -> bool.
  Variable tns : string -> Z.

  Definition ident (s : string) : ConvPrims.res vres := vres_of_rid (res (lower s)).

  Fixpoint visit (t : tree) : ConvPrims.res vres :=
    match t with
    | Num s => gen_visitNumericLiteral s
    | Str s => gen_visitStringLiteral s
    | Time v => gen_visitTimeLiteral (tns v)
    | Range a b st => gen_visitRangeLiteral a b st
    | Ident s => ident s
    | Bind s => gen_visitBind bound ident s
    | Unary o x => rbind (visit x) (fun r => gen_visitUnaryOp o r)
    | Binary l o r => rbind (visit l) (fun a => rbind (visit r) (fun b => gen_visitBinaryOp o a b))
    | IsIn l vs ng =>
        rbind (visit l) (fun a =>
          rbind ((fix vl (ts : list tree) : ConvPrims.res (list vres) :=
                    match ts with
                    | [] => Ok []
                    | x :: r => rbind (visit x) (fun y => rbind (vl r) (fun ys => Ok (y :: ys)))
                    end) vs)
                (fun rs => gen_visitIsIn a rs ng))
    | Parens x => rbind (visit x) gen_visitParens
    | Tuple a b => rbind (visit a) (fun ra => rbind (visit b) (fun rb => gen_visitTupleNode [ra; rb]))
    | Point _ _ => Crash                                       (* visitPointNode: outside the fragment, no claim *)
    | Call f args =>
        rbind ((fix vl (ts : list tree) : ConvPrims.res (list vres) :=
                  match ts with
                  | [] => Ok []
                  | x :: r => rbind (visit x) (fun y => rbind (vl r) (fun ys => Ok (y :: ys)))
                  end) args)
              (fun rs => gen_visitFunctionCall f rs)
    end.

  (* the hand model's answer for a tree that converts to e *)
  Definition rep (e : expr) : ConvPrims.res vres :=
    match e with
    | ENull => Ok XNull
    | _ => match conv e with
           | Some f => Ok (XPred f)
           | None => match ctype e with Some _ => Ok (XCol e) | None => Invalid end
           end
    end.

  (* ... and for an IN-list item *)
  Definition item_vres (it : item) : vres :=
    match it with
    | ILit v => XCol (ELit v)
    | ICol c TyBool => XPred (BLeaf (LBool c))
    | ICol c t => XCol (ECol c t)
    | IRange a b st => XRange a b st
    | ISeq vs => XSeq vs
    | INull => XNull
    end.

  (* convert_expression_string_to_predicate after parsing: visit, then "is it a Predicate" *)
  Definition gen_accepts (t : tree) : option bool :=      (* Some true: Predicate; Some false: InvalidQueryError; None: crash *)
    match visit t with
    | Ok (XPred _) => Some true
    | Ok _ | Invalid => Some false
    | Crash => None
    end.
End Visit.
