(* C15 -- compact correspondence checkers (tie K) over the REGENERATED models.
   An observed truth table of 3^n entries is passed as ONE number (base 4, digits TT=1 FF=2 UU=3, first entry least
   significant -- injective on lists, lengths included) instead of a list literal: parsing the list literals of the
   n = 5 cases dominated the whole check.  Same comparisons as chk_*_all_gen / chk_nf_all_gen / chk_visit_table; the
   harness re-evaluates the cases these reject with the list-based checkers of Model/PredCheck*.v to classify them. *)
From Coq Require Import NArith List Bool.
From V Require Import Base.Tri Model.Pred Model.NormalForm Model.PredCheck Model.PredCheckGen Model.NormalFormCheckGen
  Model.PredVisitCheck Gen.PredGen Gen.NormalFormGen Gen.PredVisitGen.
Import ListNotations.
Open Scope N_scope.

Definition tri_digit (t : tri) : N := match t with TT => 1 | FF => 2 | UU => 3 end.
Fixpoint tri_code (l : list tri) : N :=
  match l with [] => 0 | x :: r => tri_digit x + 4 * tri_code r end.

Definition pcase2 := (nat * form * N * option cnf)%type.
Definition chk_form_fast (c : pcase2) : bool :=
  let '(n, f, tv, ops) := c in
  N.eqb (tri_code (table n (py_build f))) tv
  && match ops with Some o => cnf_eqb (py_build f) o | None => true end.

Definition scase2 := (nat * N * cnf * list (bool * cnf) * N * option cnf)%type.
Definition chk_step_fast (c : scase2) : bool :=
  let '(n, op, self, args, tv, res) := c in
  N.eqb (tri_code (table n (step_gen op self args))) tv
  && match res with Some r => cnf_eqb (step_gen op self args) r | None => true end.

Definition ncase2 := (nat * bool * ltree * N * list (list ltree) * ltree)%type.
Definition chk_nf_fast (c : ncase2) : bool :=
  let '(n, form, t, obs, nodes, tree) := c in
  match py_from_tree NF_FUEL form t with
  | Some ns => N.eqb (tri_code (ntable n form ns)) obs
               && list_eqb (list_eqb ltree_eqb) ns nodes
               && match to_tree form ns with
                  | Some t' => N.eqb (tri_code (ltable n t')) obs && ltree_eqb t' tree
                  | None => false
                  end
  | None => false
  end.

Definition vcase2 := (nat * cnf * list (atom * cnf) * bool * N)%type.
Definition chk_visit_fast (c : vcase2) : bool :=
  let '(n, p, s, none, tv) := c in
  match visit_pred s p with
  | Some r => negb none && N.eqb (tri_code (table n r)) tv
  | None => none && N.eqb (tri_code (table n p)) tv
  end.
