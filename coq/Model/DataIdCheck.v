(* Checkers used by the C13 correspondence run (harness/props/c13.py): each takes one recorded implementation
   case (inputs + what the real DataCoordinate / Registry.expandDataId returned) and says whether the model
   of Model/DataId.v, evaluated on the regenerated current universe, returns the same observables. *)
From Coq Require Import String List Bool Arith ZArith.
From V Require Import Model.Universe Model.Group Model.DataId Gen.Universes.
Import ListNotations.
Open Scope string_scope.
Open Scope list_scope.

(* how the harness built a data ID *)
Inductive idspec :=
| SStd (dims : option (list string)) (mapping kwargs defaults : amap)     (* DataCoordinate.standardize *)
| SExp (dims : option (list string)) (mapping kwargs defaults : amap)     (* Registry.expandDataId *)
| SSub (s : idspec) (l : list string)                                     (* .subset(l) of another *)
| SStdDc (s : idspec) (dims : option (list string)) (kwargs defaults : amap)   (* standardize(DataCoordinate, ...) *)
| SUnion (a b : idspec).                                                  (* a.union(b) *)

Fixpoint build (D : db) (s : idspec) : result dataid :=
  match s with
  | SStd d m k f => standardize u_current d m k f
  | SExp d m k f => expand_data_id u_current D d m k f
  | SSub s l => rbind (build D s) (fun x => subset u_current x l)
  | SStdDc s d k f => rbind (build D s) (fun x => standardize_dc u_current d x k f)
  | SUnion a b => rbind (build D a) (fun x => rbind (build D b) (fun y => union u_current x y))
  end.

(* observed data ID: names, hasFull(), hasRecords(), mapping items, visible records (key values, implied values) *)
Definition orec := option (list value * list value).
Definition obs := (list string * bool * bool * amap * option (list (string * orec)))%type.

Fixpoint amap_eqb (a b : amap) : bool :=
  match a, b with
  | [], [] => true
  | (k, v) :: r, (k', v') :: s => String.eqb k k' && value_eqb v v' && amap_eqb r s
  | _, _ => false
  end.

Definition orec_eqb (a : option record) (b : orec) : bool :=
  match a, b with
  | None, None => true
  | Some r, Some (k, i) => vals_eqb (rkey r) k && vals_eqb (rimp r) i
  | _, _ => false
  end.

Fixpoint recs_eqb (a : list (string * option record)) (b : list (string * orec)) : bool :=
  match a, b with
  | [], [] => true
  | (n, r) :: x, (n', r') :: y => String.eqb n n' && orec_eqb r r' && recs_eqb x y
  | _, _ => false
  end.

Definition obs_matches (d : dataid) (o : obs) : bool :=
  let '(names, full, hasrec, items, recs) := o in
  list_eqb (gnames (dgroup d)) names && Bool.eqb (dfull d) full && Bool.eqb (has_recs d) hasrec
  && amap_eqb (dmapping d) items
  && match visible_recs d, recs with
     | None, None => true
     | Some a, Some b => recs_eqb a b
     | _, _ => false
     end.

Definition err_eqb (a b : err) : bool :=
  match a, b with
  | EKeyError, EKeyError | EDimensionName, EDimensionName | EDataIdValue, EDataIdValue
  | EInconsistent, EInconsistent | EAttribute, EAttribute | EOutOfFuel, EOutOfFuel => true
  | _, _ => false          (* EOther (an exception class the model never predicts) matches nothing *)
  end.

Definition res_matches (r : result dataid) (o : result obs) : bool :=
  match r, o with
  | Ok d, Ok x => obs_matches d x
  | Err a, Err b => err_eqb a b
  | _, _ => false
  end.

Inductive case :=
| CBuild (s : idspec) (exp : result obs)
| CPair (a b : idspec) (eq hasheq : bool) (uab uba : result obs)
| CPairConflict (a b : idspec) (eq hasheq : bool) (names : list string)   (* operands disagree on a common key: which value
                                                   the union keeps is documented as unspecified, only ==/hash and the
                                                   union's dimensions are compared *)
| CGet (s : idspec) (k : string) (exp : option value)
| CEqMap (s : idspec) (m : amap) (exp : result bool).

Definition hash_eqb (a b : list string * list value) : bool :=
  list_eqb (fst a) (fst b) && vals_eqb (snd a) (snd b).

Definition chk_case (c : db * case) : bool :=
  let '(D, c) := c in
  match c with
  | CBuild s exp => res_matches (build D s) exp
  | CPair a b eq hasheq uab uba =>
    match build D a, build D b with
    | Ok x, Ok y =>
      Bool.eqb (dc_eq x y) eq && Bool.eqb (dc_eq y x) eq
      && Bool.eqb (hash_eqb (dc_hash_key x) (dc_hash_key y)) hasheq
      && res_matches (union u_current x y) uab && res_matches (union u_current y x) uba
    | _, _ => false
    end
  | CPairConflict a b eq hasheq names =>
    match build D a, build D b with
    | Ok x, Ok y =>
      Bool.eqb (dc_eq x y) eq && Bool.eqb (dc_eq y x) eq
      && Bool.eqb (hash_eqb (dc_hash_key x) (dc_hash_key y)) hasheq
      && match union u_current x y, union u_current y x with
         | Ok p, Ok q => list_eqb (gnames (dgroup p)) names && list_eqb (gnames (dgroup q)) names
         | _, _ => false
         end
    | _, _ => false
    end
  | CGet s k exp =>
    match build D s with
    | Ok x => match dc_get x k, exp with
              | Some v, Some w => value_eqb v w
              | None, None => true
              | _, _ => false
              end
    | Err _ => false
    end
  | CEqMap s m exp =>
    match build D s with
    | Ok x => match standardize u_current None m [] [], exp with
              | Ok y, Ok b => Bool.eqb (dc_eq x y) b
              | Err e, Err e' => err_eqb e e'
              | _, _ => false
              end
    | Err _ => false
    end
  end.

(* the facts about the regenerated universe that the model of fetch_one relies on: the minimal group of every
   element has exactly the element's own `required` names as its required part *)
Definition minimal_required_ok (u : universe) : bool :=
  forallb (fun e => match mkgroup u (deps e) with
                    | GOk g => list_eqb (grequired g) (ereq e)
                    | _ => false end) u.
