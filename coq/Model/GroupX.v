(* Runtime library for coq/Gen/GroupGen.v, the Gallina text that harness/translators/group_algo.py REGENERATES from the
   current bodies of DimensionGroup.__new__ / lookup_order / union / intersection / __eq__ / __le__ / isdisjoint /
   __hash__ (dimensions/_group.py) and DimensionUniverse.sorted (dimensions/_universe.py).

   Only the meaning of the Python *primitives* is fixed here (set / list methods, membership, comprehension
   combinators, the error monad); which primitives are called, on what, in which order, is generated.
   No proofs here (Proofs/GroupProofsX*.v).

   Python set of str  -> pyset = list string.  Iteration / pop() order of a Python set is unspecified; here: list
   order, pop = head.  Theorem `gen_new_agrees` (Props/C12.v) shows that the generated constructor returns the same
   group as the hand model whose result is order-independent (`group_canonical`).
   Raising KeyError   -> GKeyError of Model/Universe.v `gres`;  a loop that never ends -> GOutOfFuel. *)
From Coq Require Import String List Bool Arith.
From V Require Import Model.Universe.
Import ListNotations.
Open Scope string_scope.
Open Scope list_scope.

Definition pyset := list string.

(* ---- set(iterable), membership, comparisons ---- *)
Fixpoint dedup (l : list string) : list string :=          (* keeps the FIRST occurrence: dict / set insertion order *)
  match l with [] => [] | x :: r => x :: filter (fun y => negb (String.eqb y x)) (dedup r) end.
Definition set_of (l : list string) : pyset := dedup l.
Definition set_empty : pyset := [].
Definition set_truth (s : pyset) : bool := match s with [] => false | _ :: _ => true end.   (* `while s:` / `if s:` *)
Definition set_le (a b : list string) : bool := forallb (fun x => memb x b) a.              (* a <= b, a.issubset(b) *)
Definition set_issuperset (a b : list string) : bool := set_le b a.                         (* a.issuperset(b), a >= b *)
Definition set_eqb (a b : list string) : bool := set_le a b && set_le b a.                  (* Set.__eq__ *)
Definition set_isdisjoint (a b : list string) : bool := forallb (fun x => negb (memb x b)) a.

(* ---- mutators (each returns the new value of the receiver) ---- *)
Definition set_add (s : pyset) (x : string) : pyset := if memb x s then s else x :: s.
Definition set_update (s : pyset) (l : list string) : pyset := fold_left set_add l s.
Definition set_difference_update (s : pyset) (t : list string) : pyset := filter (fun x => negb (memb x t)) s.
Definition set_discard (s : pyset) (x : string) : pyset := filter (fun y => negb (String.eqb y x)) s.
(* s.pop(): None = KeyError('pop from an empty set') *)
Definition set_pop (s : pyset) : option (string * pyset) :=
  match s with [] => None | x :: r => Some (x, set_discard r x) end.

(* set(a).union( *others ) / .intersection( *others ) *)
Definition set_union_all (s : pyset) (others : list (list string)) : pyset := fold_left set_update others s.
Definition set_intersection_all (s : pyset) (others : list (list string)) : pyset :=
  fold_left (fun acc o => filter (fun x => memb x o) acc) others s.

(* ---- lists ---- *)
Definition list_append (l : list string) (x : string) : list string := l ++ [x].
Definition list_extend (l : list string) (m : list string) : list string := l ++ m.
(* keys of {k: i for i, k in enumerate(l)} in insertion order *)
Definition dict_keys_enumerate (l : list string) : list string := dedup l.

(* ---- universe views used by DimensionGroup.__new__ (built in DimensionUniverse.__init__ by isinstance filters) ---- *)
Definition governor_names (u : universe) : list string := map ename (filter is_governor u).
Definition skypix_names (u : universe) : list string := map ename (filter is_skypix u).

(* ---- the error monad ---- *)
(* `for x in l: <body>` over a state st *)
Definition for_m {A S} (l : list A) (body : A -> S -> gres S) (st : S) : gres S :=
  fold_left (fun acc x => gbind acc (body x)) l (GOk st).

(* `for x in l: if <cond x>: <found>; break` `else: <notfound>` -- the first x satisfying cond, cond may raise *)
Fixpoint find_m {A} (cond : A -> gres bool) (l : list A) : gres (option A) :=
  match l with
  | [] => GOk None
  | x :: r => gbind (cond x) (fun b => if b then GOk (Some x) else find_m cond r)
  end.

(* universe[name] *)
Definition getitem {B} (u : universe) (n : string) (k : elem -> gres B) : gres B :=
  match find_elem u n with Some e => k e | None => GKeyError end.
