(* C11, conversion clause: Model/TimeConv.v instantiated with Coq's primitive binary64 floats (hardware /
   SoftFloat IEEE 754 arithmetic, round to nearest even), and the checkers of the correspondence run:
   Python records float.hex() of every observable intermediate double and these functions compare them
   BIT FOR BIT (sign of zero included) with what the model computes.  No proofs here. *)
From Coq Require Import ZArith Bool List PrimFloat Uint63.
From V Require Import Model.TimeConv.
Import ListNotations.
Open Scope Z_scope.

Definition pf_two52 : float := 0x1p+52%float.

Definition pf_neg (x : float) : bool :=
  (x <? 0)%float || ((x =? 0)%float && (1 / x <? 0)%float).

(* m * 2^e for |m| < 2^53 (of_uint63 exact) *)
Definition pf_cst (m e : Z) : float :=
  let a := ldshiftexp (of_uint63 (Uint63.of_Z (Z.abs m))) (Uint63.of_Z (e + 2101)) in
  if m <? 0 then (- a)%float else a.

(* rint for binary64 under round-to-nearest-even: (|x| + 2^52) - 2^52, sign restored (also of zero) *)
Definition pf_rint (x : float) : float :=
  let a := abs x in
  if (pf_two52 <=? a)%float then x
  else if (a =? a)%float then
    let r := ((a + pf_two52) - pf_two52)%float in
    if pf_neg x then (- r)%float else r
  else x.

Definition pf_floor (x : float) : float :=
  let r := pf_rint x in if (x <? r)%float then (r - 1)%float else r.

(* int(x) for an integer-valued double, |x| < 2^62 *)
Definition pf_toZ (x : float) : Z :=
  let a := abs x in
  if (a <? 1)%float then 0
  else
    let '(m, e) := frshiftexp a in
    let mant := Uint63.to_Z (normfr_mantissa m) in
    let k := Uint63.to_Z e - 2101 - 53 in
    let v := if k <? 0 then Z.shiftr mant (- k) else Z.shiftl mant k in
    if (x <? 0)%float then - v else v.

Definition prim_ops : fops float :=
  mk_fops float pf_cst PrimFloat.add PrimFloat.sub PrimFloat.mul PrimFloat.div PrimFloat.opp
          pf_rint pf_floor PrimFloat.ltb PrimFloat.eqb pf_toZ.

(* bit-for-bit equality of two doubles that are not NaN *)
Definition pf_same (a b : float) : bool :=
  (a =? b)%float && Bool.eqb (pf_neg a) (pf_neg b).
Definition pf_same2 (a b : float * float) : bool :=
  pf_same (fst a) (fst b) && pf_same (snd a) (snd b).

(* clamped value as astropy_to_nsec computes it *)
Definition pf_clamp (t : float * float) : float * float := tc_clamp float prim_ops t.

(* round trip: n, observed (jd1, jd2) of nsec_to_astropy(n), observed TimeDelta(jd1, jd2, format="jd") parts,
   observed (value - epoch) parts, observed astropy_to_nsec *)
Definition chk_conv_roundtrip (c : Z * (float * float) * (float * float) * (float * float) * Z) : bool :=
  let '(n, jd, td, dl, back) := c in
  let t := tc_nsec_to_jd float prim_ops n in
  pf_same2 t jd
  && pf_same2 (tc_day_frac_div float prim_ops (fst t) (snd t) (f_one float prim_ops)) td
  && pf_same2 (tc_delta float prim_ops t) dl
  && (tc_jd_to_nsec float prim_ops t =? back)
  && (tc_roundtrip float prim_ops n =? back).

(* astropy_to_nsec alone on an arbitrary TAI (jd1, jd2): observed delta parts and result *)
Definition chk_conv_to_nsec (c : (float * float) * (float * float) * Z) : bool :=
  let '(t, dl, ns) := c in
  pf_same2 (tc_delta float prim_ops (pf_clamp t)) dl
  && (tc_jd_to_nsec float prim_ops t =? ns).

(* the astropy helpers called directly *)
Definition chk_two_sum (c : float * float * (float * float)) : bool :=
  let '(a, b, r) := c in pf_same2 (tc_two_sum float prim_ops a b) r.
Definition chk_two_product (c : float * float * (float * float)) : bool :=
  let '(a, b, r) := c in pf_same2 (tc_two_product float prim_ops a b) r.
Definition chk_split (c : float * (float * float)) : bool :=
  let '(a, r) := c in pf_same2 (tc_split float prim_ops a) r.
Definition chk_day_frac (c : float * float * option float * (float * float)) : bool :=
  let '(a, b, d, r) := c in
  pf_same2 (match d with
            | None => tc_day_frac float prim_ops a b
            | Some d => tc_day_frac_div float prim_ops a b d
            end) r.
Definition chk_rint (c : float * float) : bool := pf_same (pf_rint (fst c)) (snd c).
