(* Executable checkers for the correspondence check (tie K) of C04: the harness records what the real
   registry did after every step of a history; these functions replay the history on the model and say
   whether every recorded observable is the same. *)
From Coq Require Import ZArith NArith List Bool.
From V Require Import Gen.TimespanGen Model.Timespan Model.Calib Model.CalibPath.
Import ListNotations.
Open Scope N_scope.

(* the fixture of harness/impl/c04_impl.py *)
Definition std_init : state :=
  mkState [(0, KCalibration); (1, KCalibration); (2, KRun); (3, KTagged); (4, KRun)]
          [(0, true); (1, true); (2, false)]
          [0; 1; 2; 3; 4; 5; 6; 7; 8; 9; 10; 11; 12; 13; 14; 15; 16; 17]
          [].
(* what the lookups of the fixture see besides the calibration table: RUN 2 holds the k=0 datasets, RUN 4 the k=1
   datasets (dataset id = ty*6 + did*2 + k); CHAINED 5 = [1; 0], 6 = [0; 2] (calibration, then a run),
   8 = [5; 4; 0] (nested chain, a run in the middle, a collection that the nested chain already gave) *)
Definition std_runs : list (N * ref) :=
  flat_map (fun ty => flat_map (fun d => [(2, mkRef (ty * 6 + d * 2) ty d); (4, mkRef (ty * 6 + d * 2 + 1) ty d)]) [0; 1; 2]) [0; 1; 2].
Definition std_env : penv := mkEnv [(5, [1; 0]); (6, [0; 2]); (8, [5; 4; 0])] std_runs.

Definition err_eqb (a b : err) : bool :=
  match a, b with
  | Conflict, Conflict | MissingCollection, MissingCollection | MissingDatasetType, MissingDatasetType
  | CollectionTypeErr, CollectionTypeErr | DatasetTypeErr, DatasetTypeErr | SqlError, SqlError => true
  | _, _ => false
  end.
Definition outcome_eqb (a b : outcome) : bool :=
  match a, b with Ok, Ok => true | Err x, Err y => err_eqb x y | _, _ => false end.
Definition row_eqb (a b : crow) : bool :=
  (r_coll a =? r_coll b) && (r_ty a =? r_ty b) && (r_did a =? r_did b) && (r_ds a =? r_ds b) && py_eq (r_ts a) (r_ts b).
Definition res_eqb (a b : lookup_result) : bool :=
  match a, b with
  | Unique x, Unique y => x =? y
  | Ambiguous, Ambiguous | NotFound, NotFound => true
  | _, _ => false
  end.

(* multiset equality of row lists (the implementation's rows arrive sorted, the model's in insertion order) *)
Fixpoint remove_one (x : crow) (l : list crow) : option (list crow) :=
  match l with
  | [] => None
  | y :: r => if row_eqb x y then Some r else match remove_one x r with Some r' => Some (y :: r') | None => None end
  end.
Fixpoint rows_same (a b : list crow) : bool :=
  match a with
  | [] => match b with [] => true | _ => false end
  | x :: r => match remove_one x b with Some b' => rows_same r b' | None => false end
  end.

Record obs := mkObs {
  o_out : outcome;
  o_rows : list crow;
  o_find : list (N * N * N * TimespanGen.ts * lookup_result);         (* collection, type, data ID, probe, result *)
  o_path : list (list N * N * N * TimespanGen.ts * lookup_result);    (* search path, type, data ID, probe, result *)
  o_xpath : list (list N * N * N * TimespanGen.ts * lookup_result);   (* search path with CHAINED / RUN collections, ... *)
  o_all : list (N * N * N * TimespanGen.ts * list N)                  (* collection, type, data ID, probe, dataset of EVERY overlapping row *)
}.

Definition find_ok (s : state) (f : N * N * N * TimespanGen.ts * lookup_result) : bool :=
  let '(c, ty, d, q, r) := f in res_eqb (lookup_span s c ty d q) r.
Definition path_ok (s : state) (f : list N * N * N * TimespanGen.ts * lookup_result) : bool :=
  let '(p, ty, d, q, r) := f in res_eqb (lookup_path s p ty d q) r.

(* multiset equality of dataset-id lists *)
Fixpoint remove_oneN (x : N) (l : list N) : option (list N) :=
  match l with
  | [] => None
  | y :: r => if x =? y then Some r else match remove_oneN x r with Some r' => Some (y :: r') | None => None end
  end.
Fixpoint sameN (a b : list N) : bool :=
  match a with
  | [] => match b with [] => true | _ => false end
  | x :: r => match remove_oneN x b with Some b' => sameN r b' | None => false end
  end.
(* the new query system without find-first, `<type>.timespan OVERLAPS :ts`: one result per overlapping row *)
Definition all_ok (s : state) (f : N * N * N * TimespanGen.ts * list N) : bool :=
  let '(c, ty, d, q, l) := f in sameN (map r_ds (overlapping s c ty d q)) l.

Definition xpath_ok (s : state) (f : list N * N * N * TimespanGen.ts * lookup_result) : bool :=
  let '(p, ty, d, q, r) := f in
  match xlookup 6 std_env s p ty d q with Some r' => res_eqb r' r | None => false end.

(* 0 = agrees; otherwise 10 * (1-based step) + component (1 outcome, 2 rows, 3 find, 4 path, 5 chained/run path, 6 all overlapping rows) *)
Fixpoint first_bad (chk : bool) (s : state) (i : N) (l : list (op * obs)) : N :=
  match l with
  | [] => 0
  | (o, ob) :: rest =>
    let '(s', out) := step chk s o in
    if negb (outcome_eqb out (o_out ob)) then 10 * i + 1
    else if negb (rows_same (calibs s') (o_rows ob)) then 10 * i + 2
    else if negb (forallb (find_ok s') (o_find ob)) then 10 * i + 3
    else if negb (forallb (path_ok s') (o_path ob)) then 10 * i + 4
    else if negb (forallb (xpath_ok s') (o_xpath ob)) then 10 * i + 5
    else if negb (forallb (all_ok s') (o_all ob)) then 10 * i + 6
    else first_bad chk s' (N.succ i) rest
  end.
Definition chk_history (l : list (op * obs)) : bool := first_bad true std_init 1 l =? 0.
(* the same against the code BEFORE the repair 8f28e85 (used only to describe a regression) *)
Definition chk_history_unrepaired (l : list (op * obs)) : bool := first_bad false std_init 1 l =? 0.
