(* C14 model, part 5: Node.__str__ at CHARACTER level (exprTree.py), so that the round trip can be stated over
   strings: lex (show t) = print t.

     BinaryOp  "{lhs} {op} {rhs}"        UnaryOp "{op} {operand}"       Parens "({expr})"
     IsIn      "{lhs} [NOT ]IN ({v1}, {v2}, ...)"                       TupleNode "({a}, {b})"
     FunctionCall "{name}({a1}, {a2}, ...)"     PointNode "POINT({ra}, {dec})"
     RangeLiteral "{start}..{stop}[:{stride}]" (stride omitted when falsy)
     StringLiteral / TimeLiteral "'{value}'"   NumericLiteral / Identifier / BindName: the text itself

   fixed = false: faithful (TimeLiteral as a plain quoted string of str(astropy Time), BindName without colon);
   fixed = true : the repaired printer of print_fix (T'..' and :name).
   No proofs in this file. *)
From Coq Require Import ZArith List Bool String Ascii NArith.
From V Require Import Model.ExprTree Model.Lexer.
Import ListNotations.
Open Scope list_scope.
Open Scope char_scope.

(* Python str(int) *)
Fixpoint n_digits (fuel : nat) (n : N) (acc : chars) : chars :=
  match fuel with
  | O => acc
  | S f =>
      let d := ascii_of_N (48 + N.modulo n 10) in
      if N.ltb n 10 then d :: acc else n_digits f (N.div n 10) (d :: acc)
  end.
Definition show_N (n : N) : chars := n_digits (S (N.to_nat (N.log2 n))) n [].
Definition show_Z (z : Z) : chars :=
  match z with
  | Z0 => ["0"]
  | Zpos p => show_N (Npos p)
  | Zneg p => "-" :: show_N (Npos p)
  end.

Definition cs (s : string) : chars := list_ascii_of_string s.

Definition uop_text (o : uop) : chars :=
  match o with UPlus => ["+"] | UMinus => ["-"] | UNot => cs "NOT" end.
Definition bop_text (o : bop) : chars :=
  match o with
  | BOr => cs "OR" | BAnd => cs "AND" | BEq => cs "=" | BNe => cs "!=" | BLt => cs "<" | BLe => cs "<=" | BGt => cs ">"
  | BGe => cs ">=" | BOverlaps => cs "OVERLAPS" | BAdd => cs "+" | BSub => cs "-" | BMul => cs "*" | BDiv => cs "/"
  | BMod => cs "%"
  end.

(* ", ".join(...) *)
Fixpoint join_cs (ls : list chars) : chars :=
  match ls with
  | [] => []
  | [x] => x
  | x :: r => x ++ "," :: " " :: join_cs r
  end.

Section Show.
  Variable fixed : bool.
  Variable tshow : string -> string.

  Fixpoint show_g (t : tree) : chars :=
    match t with
    | Num s => cs s
    | Str s => "'" :: cs s ++ ["'"]
    | Time v => if fixed then "T" :: "'" :: cs (tshow v) ++ ["'"] else "'" :: cs (tshow v) ++ ["'"]
    | Range a b st =>
        show_Z a ++ "." :: "." :: show_Z b ++
        match st with Some s => if Z.eqb s 0 then [] else ":" :: show_Z s | None => [] end
    | Ident s => cs s
    | Bind s => if fixed then ":" :: cs s else cs s
    | Unary o x => uop_text o ++ " " :: show_g x
    | Binary l o r => show_g l ++ " " :: bop_text o ++ " " :: show_g r
    | IsIn l vs neg =>
        show_g l ++ " " :: (if neg then cs "NOT " else []) ++ cs "IN (" ++ join_cs (map show_g vs) ++ [")"]
    | Parens x => "(" :: show_g x ++ [")"]
    | Tuple a b => "(" :: show_g a ++ "," :: " " :: show_g b ++ [")"]
    | Point a b => cs "POINT(" ++ show_g a ++ "," :: " " :: show_g b ++ [")"]
    | Call f args => cs f ++ "(" :: join_cs (map show_g args) ++ [")"]
    end.
End Show.

Definition show (tshow : string -> string) := show_g false tshow.
Definition show_fix (tunparse : string -> string) := show_g true tunparse.

(* the lexer on a character list (lex on strings is this on list_ascii_of_string) *)
Definition lex_cs (l : chars) : list token := lex_chars (S (List.length l)) l.

(* checker for the correspondence: str(tree) of the real parser's tree, as character codes, is show tree
   (tshow table as in ParserCheck.chk_print; defined here to keep ParserCheck.v untouched) *)
Definition tshow_tbl (tbl : list (string * string)) (v : string) : string :=
  let fix go l := match l with
                  | (k, s) :: r => if String.eqb k v then s else go r
                  | [] => "?not-in-table"%string
                  end in go tbl.
Definition codes_eqb (a : chars) (b : list N) : bool :=
  (fix go (x : chars) (y : list N) : bool :=
     match x, y with
     | [], [] => true
     | c :: r, n :: s => N.eqb (N_of_ascii c) n && go r s
     | _, _ => false
     end) a b.
Definition chk_show (c : tree * list (string * string) * list N) : bool :=
  let '(t, tbl, codes) := c in codes_eqb (show (tshow_tbl tbl) t) codes.
