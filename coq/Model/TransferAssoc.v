(* C19 -- RepoExportContext._computeDatasetAssociations as the loop it is: for every dataset type, in the order in which
   the export context met the types (first saveDatasets call that contained one), the saved collections are resolved with
   collection kinds {TAGGED} plus CALIBRATION only if the type is a calibration type, and the associations of exported
   datasets of that type in those collections are collected.  `brk = true` is the variant that leaves the loop at the
   first type whose resolved collection list is empty (`break` instead of going on).  Proofs/TransferProofsA.v shows that
   the loop (brk = false) computes exactly the association lists of Model/Transfer.v `export`.  No proofs here. *)
From Coq Require Import NArith List Bool.
From V Require Import Model.Transfer.
Import ListNotations.
Open Scope N_scope.

Fixpoint first_seen (l seen : list N) : list N :=
  match l with [] => [] | x :: r => if memN x seen then first_seen r seen else x :: first_seen r (x :: seen) end.
Definition type_of (n : N) (s : state) : option N := match find_id n (dsets s) with Some d => Some (d_type d) | None => None end.
(* ids in saveDatasets order -> dataset types in context order *)
Definition type_order (order : list N) (s : state) : list N :=
  first_seen (flat_map (fun n => match type_of n s with Some ty => [ty] | None => [] end) order) [].
Definition kind_of (s : state) (c : N) : kind := match lookup c (colls s) with Some k => k | None => RUN end.
Definition kind_wanted (s : state) (ty : N) (k : kind) : bool :=
  match k with TAGGED => true | CALIB => is_calib_type ty s | _ => false end.
Definition resolved (s : state) (cnames : list N) (ty : N) : list N :=
  filter (fun c => match lookup c (colls s) with Some k => kind_wanted s ty k | None => false end) cnames.
Fixpoint queried (brk : bool) (s : state) (cnames tys : list N) : list N :=
  match tys with
  | [] => []
  | ty :: r => match resolved s cnames ty with
               | [] => if brk then [] else queried brk s cnames r
               | _ :: _ => ty :: queried brk s cnames r
               end
  end.
Definition assoc_tags (brk : bool) (s : state) (cnames xids tys : list N) : list (N * N) :=
  filter (fun p => memN (fst p) cnames && kind_eqb (kind_of s (fst p)) TAGGED && memN (snd p) xids &&
                   match type_of (snd p) s with Some ty => memN ty (queried brk s cnames tys) | None => false end) (tags s).
Definition assoc_calibs (brk : bool) (s : state) (cnames xids tys : list N) : list (N * N * (N * N)) :=
  filter (fun p => memN (fst (fst p)) cnames && kind_eqb (kind_of s (fst (fst p))) CALIB && memN (snd (fst p)) xids &&
                   match type_of (snd (fst p)) s with
                   | Some ty => is_calib_type ty s && memN ty (queried brk s cnames tys) | None => false end) (calibs s).
