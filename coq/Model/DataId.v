(* Model of data IDs (lsst.daf.butler.dimensions._coordinate.DataCoordinate: standardize, ==, hash, [], subset,
   union for the three concrete classes) and of SqlRegistry.expandDataId, over the C12 universe / group model.
   Executable, no proofs here (lemmas: Proofs/DataIdProofs*.v, statements: Props/C13.v).

   value            VInt z | VStr s | VNone       (Python int after `int(v)` coercion, str, None / SQL NULL)
   amap             association list name -> value, FIRST binding wins (so `dict(a); update(b)` is b ++ a and
                    `setdefault` of a missing key appends at the end)
   record           { rkey : values of the element's `required` dimensions, in `element.required` order;
                      rimp : values of the element's `implied` dimensions, in `element.implied` order }
   recmap           element name -> option record   (None = the Python value None: "no such row")
   dataid           { dgroup : group; dvals : the value tuple; drecs : Some records for _ExpandedTupleDataCoordinate }
                    dvals has the length of `required` (class _RequiredTupleDataCoordinate) or of
                    `data_coordinate_keys` = required ++ implied (classes _FullTuple... / _ExpandedTuple...)
   db               element name -> stored rows
   err              the exception classes: KeyError (bare), DimensionNameError, DataIdValueError,
                    InconsistentDataIdError, AttributeError, and the model-only out-of-fuel result *)
From Coq Require Import String List Bool Arith ZArith.
From V Require Import Model.Universe.
Import ListNotations.
Open Scope string_scope.
Open Scope list_scope.

Inductive value := VInt (z : Z) | VStr (s : string) | VNone.

Definition value_eqb (a b : value) : bool :=
  match a, b with
  | VInt x, VInt y => Z.eqb x y
  | VStr x, VStr y => String.eqb x y
  | VNone, VNone => true
  | _, _ => false
  end.

Fixpoint vals_eqb (a b : list value) : bool :=
  match a, b with
  | [], [] => true
  | x :: r, y :: s => value_eqb x y && vals_eqb r s
  | _, _ => false
  end.

Inductive err := EKeyError | EDimensionName | EDataIdValue | EInconsistent | EAttribute | EOutOfFuel | EOther.
Inductive result (A : Type) := Ok (a : A) | Err (e : err).
Arguments Ok {A} a.
Arguments Err {A} e.
Definition rbind {A B} (r : result A) (f : A -> result B) : result B :=
  match r with Ok a => f a | Err e => Err e end.

(* ---- association lists ---- *)
Definition amap := list (string * value).
Fixpoint aget {A} (m : list (string * A)) (k : string) : option A :=
  match m with
  | [] => None
  | (k', v) :: r => if String.eqb k' k then Some v else aget r k
  end.
Definition akeys {A} (m : list (string * A)) : list string := map fst m.
Definition has_key {A} (m : list (string * A)) (k : string) : bool :=
  match aget m k with Some _ => true | None => false end.

Fixpoint map_opt {A B} (f : A -> option B) (l : list A) : option (list B) :=
  match l with
  | [] => Some []
  | x :: r => match f x, map_opt f r with Some y, Some s => Some (y :: s) | _, _ => None end
  end.

Definition is_nil {A} (l : list A) : bool := match l with [] => true | _ => false end.

(* ---- records ---- *)
Record record := mkRecord { rkey : list value; rimp : list value }.
Definition recmap := list (string * option record).
Definition db := list (string * list record).
Definition rows (D : db) (n : string) : list record := match aget D n with Some l => l | None => [] end.

(* ---- data IDs ---- *)
Record dataid := mkDataId { dgroup : group; dvals : list value; drecs : option recmap }.

Definition dmapping (d : dataid) : amap := combine (data_coordinate_keys (dgroup d)) (dvals d).
(* DataCoordinate.__getitem__: _data_coordinate_indices[key] then the tuple index; both failures are KeyError *)
Definition dc_get (d : dataid) (k : string) : option value := aget (dmapping d) k.
Definition dfull (d : dataid) : bool := Nat.eqb (length (dvals d)) (length (data_coordinate_keys (dgroup d))).
Definition has_recs (d : dataid) : bool := match drecs d with Some _ => true | None => false end.
Definition required_values (d : dataid) : list value := firstn (length (grequired (dgroup d))) (dvals d).

(* __eq__ / __hash__ *)
Definition dc_eq (a b : dataid) : bool :=
  geqb (dgroup a) (dgroup b) && vals_eqb (required_values a) (required_values b).
Definition dc_hash_key (a : dataid) : list string * list value := (ghash (dgroup a), required_values a).

Definition make_empty (G : group) : dataid := {| dgroup := G; dvals := []; drecs := Some [] |}.
(* from_required_values / from_full_values: same representation, the class follows from the tuple length *)
Definition from_values (G : group) (vs : list value) : dataid :=
  if is_nil (gnames G) then make_empty G else {| dgroup := G; dvals := vs; drecs := None |}.

Definition conform (u : universe) (l : list string) : result group :=
  match mkgroup u l with GOk g => Ok g | GKeyError => Err EKeyError | GOutOfFuel => Err EOutOfFuel end.

(* the tail of standardize once the group and the merged mapping are known *)
Definition std_core (G : group) (m : amap) : result dataid :=
  if is_nil (gnames G) then Ok (make_empty G)
  else
    let ks := if forallb (has_key m) (gnames G) then data_coordinate_keys G else grequired G in
    match map_opt (aget m) ks with
    | Some vs => Ok (from_values G vs)
    | None => Err EDimensionName
    end.

(* Since /repo 02977ba DataCoordinate.standardize wraps both group constructions (`universe.conform(dimensions)` and
   `DimensionGroup(universe, new_mapping.keys())`) in `except KeyError -> DimensionNameError`; `subset` still lets the
   bare KeyError of `universe.conform` through (documented there as KeyError). *)
Definition conform_id (u : universe) (l : list string) : result group :=
  match mkgroup u l with GOk g => Ok g | GKeyError => Err EDimensionName | GOutOfFuel => Err EOutOfFuel end.

(* standardize(mapping, dimensions=dims, defaults=defaults, **kwargs) for a plain mapping; values are already
   coerced (numbers.Integral -> int happens at the model boundary).  `cf` = how an unknown name is reported. *)
Definition standardize_with (cf : universe -> list string -> result group)
    (u : universe) (dims : option (list string)) (mapping kwargs defaults : amap) : result dataid :=
  let m := kwargs ++ mapping in
  rbind (cf u (match dims with Some l => l | None => akeys m end))
        (fun G => std_core G (m ++ defaults)).

Definition standardize := standardize_with conform_id.
(* the code before 02977ba (bare KeyError): kept only for the `..._refuted_without_fix` witness *)
Definition standardize_bare := standardize_with conform.

(* ---- subset ---- *)
Definition values_for (d : dataid) (T : group) (ks : list string) : result dataid :=
  match map_opt (dc_get d) ks with
  | Some vs => Ok (from_values T vs)
  | None => Err EKeyError
  end.

(* .expanded(records) *)
Definition expanded_with (d : dataid) (recs : recmap) : result dataid :=
  match drecs d with
  | Some _ => Ok d
  | None =>
    if dfull d then Ok {| dgroup := dgroup d; dvals := dvals d; drecs := Some recs |}
    else match map_opt (fun n => match aget recs n with
                                 | Some (Some r) => Some (last (rkey r) VNone)
                                 | _ => None end) (gimplied (dgroup d)) with
         | Some vs => Ok {| dgroup := dgroup d; dvals := dvals d ++ vs; drecs := Some recs |}
         | None => Err EAttribute
         end
  end.

Definition subset (u : universe) (d : dataid) (l : list string) : result dataid :=
  rbind (conform u l) (fun T =>
    if geqb (dgroup d) T then Ok d
    else
      let base :=
        if dfull d || forallb (fun n => memb n (grequired (dgroup d))) (gnames T)
        then values_for d T (data_coordinate_keys T)
        else values_for d T (grequired T) in
      match drecs d with
      | Some r => rbind base (fun s => expanded_with s r)
      | None => base
      end).

(* standardize(mapping : DataCoordinate, dimensions=dims, **kwargs) *)
Definition standardize_dc (u : universe) (dims : option (list string)) (d : dataid) (kwargs defaults : amap) : result dataid :=
  match dims with
  | None =>
    if is_nil kwargs then Ok d
    else rbind (conform_id u (akeys (kwargs ++ dmapping d))) (fun G => std_core G ((kwargs ++ dmapping d) ++ defaults))
  | Some l =>
    rbind (conform_id u l) (fun G =>
      if forallb (fun k => negb (memb k (gnames G))) (akeys kwargs) then subset u d (gnames G)
      else std_core G ((kwargs ++ dmapping d) ++ defaults))
  end.

(* ---- union ---- *)
Definition restrict_recs (r : recmap) (els : list string) : option recmap :=
  map_opt (fun e => match aget r e with Some x => Some (e, x) | None => None end) els.

Definition union (u : universe) (a b : dataid) : result dataid :=
  rbind (match gunion u (dgroup a) (dgroup b) with GOk g => Ok g | GKeyError => Err EKeyError | GOutOfFuel => Err EOutOfFuel end)
  (fun G =>
    let merged := std_core G (dmapping b ++ dmapping a) in
    let plain :=
      if dfull a then
        if geqb (dgroup b) G && has_recs b then Ok b
        else if geqb (dgroup a) G && negb (has_recs b) then Ok a
        else merged
      else if geqb (dgroup b) G then Ok b else merged in
    match drecs a, drecs b with
    | Some ra, Some rb =>
      rbind plain (fun r =>
        if has_recs r then Ok r
        else match restrict_recs rb (gelements (dgroup b)), restrict_recs ra (gelements (dgroup a)) with
             | Some rb', Some ra' =>
               let records := rb' ++ ra' in
               if forallb (has_key records) (gelements (dgroup r)) then expanded_with r records else Ok r
             | _, _ => Err EKeyError
             end)
    | _, _ => plain
    end).

(* ---- expandDataId ---- *)
Definition defines_rel (e : elem) : bool :=
  match ekind e with
  | KCombination => ealways e || negb (is_nil (eimp e))
  | _ => negb (is_nil (eimp e))
  end.

(* fetch_one: a skypix record is constructed, everything else is looked up by the element's required values *)
Definition fetch (D : db) (e : elem) (kv : list value) : option record :=
  match ekind e with
  | KSkyPix => Some {| rkey := kv; rimp := [] |}
  | _ => find (fun r => vals_eqb (rkey r) kv) (rows D (ename e))
  end.

(* implied names zipped with the record's implied values; a short row reads as NULL *)
Fixpoint zip_pad (names : list string) (vals : list value) : amap :=
  match names with
  | [] => []
  | n :: ns => match vals with
               | [] => (n, VNone) :: zip_pad ns []
               | v :: vs => (n, v) :: zip_pad ns vs
               end
  end.

(* `if keys.setdefault(d, value) != value: raise InconsistentDataIdError` for each implied dimension *)
Fixpoint check_implied (keys : amap) (l : amap) : result amap :=
  match l with
  | [] => Ok keys
  | (d, v) :: r =>
    match aget keys d with
    | Some x => if value_eqb x v then check_implied keys r else Err EInconsistent
    | None => check_implied (keys ++ [(d, v)]) r
    end
  end.

Definition present (keys : amap) (k : string) : bool :=
  match aget keys k with Some VNone => false | Some _ => true | None => false end.

Definition expand_step (u : universe) (D : db) (G : group) (st : amap * recmap) (x : string) : result (amap * recmap) :=
  let '(keys, recs) := st in
  match find_elem u x with
  | None => Err EKeyError
  | Some e =>
    if is_dimension e && negb (present keys x) then Err EDimensionName
    else match map_opt (aget keys) (ereq e) with
         | None => Err EDimensionName
         | Some kv =>
           match fetch D e kv with
           | Some r => rbind (check_implied keys (zip_pad (eimp e) (rimp r)))
                             (fun keys' => Ok (keys', recs ++ [(x, Some r)]))
           | None =>
             if memb x (gnames G) then Err EDataIdValue
             else if defines_rel e then Err EInconsistent
             else Ok (keys, recs ++ [(x, None)])
           end
         end
  end.

Definition expand_loop (u : universe) (D : db) (G : group) (order : list string) (st : amap * recmap) : result (amap * recmap) :=
  fold_left (fun acc x => rbind acc (fun s => expand_step u D G s x)) order (Ok st).

Definition expand_keys (u : universe) (D : db) (G : group) (keys0 : amap) : result (amap * recmap) :=
  match glookup G with
  | GOk order => expand_loop u D G order (keys0, [])
  | GKeyError => Err EKeyError
  | GOutOfFuel => Err EOutOfFuel
  end.

(* the part of expandDataId after the first standardize *)
Definition expand (u : universe) (D : db) (d : dataid) : result dataid :=
  if has_recs d then Ok d
  else rbind (expand_keys u D (dgroup d) (dmapping d)) (fun kr =>
         rbind (std_core (dgroup d) (fst kr)) (fun s => expanded_with s (snd kr))).

Definition expand_data_id (u : universe) (D : db) (dims : option (list string)) (mapping kwargs defaults : amap) : result dataid :=
  rbind (standardize u dims mapping kwargs defaults) (expand u D).

Definition expand_data_id_bare (u : universe) (D : db) (dims : option (list string)) (mapping kwargs defaults : amap) : result dataid :=
  rbind (standardize_bare u dims mapping kwargs defaults) (expand u D).

(* the documented failure classes of expandDataId: DimensionNameError / DataIdValueError / InconsistentDataIdError *)
Definition documented (e : err) : bool :=
  match e with EDimensionName | EDataIdValue | EInconsistent => true | _ => false end.

(* what a caller can see of the attached records: one entry per element of the group *)
Definition visible_recs (d : dataid) : option (list (string * option record)) :=
  match drecs d with
  | None => None
  | Some r => Some (map (fun e => (e, match aget r e with Some x => x | None => None end)) (gelements (dgroup d)))
  end.
