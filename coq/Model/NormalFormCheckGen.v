(* C15 -- legacy correspondence checkers over the REGENERATED rules (Gen/NormalFormGen.v); see Model/PredCheck.v.
   to_tree (TreeReconstructionVisitor) stays the hand model, its source text is pinned by the translator. *)
From Coq Require Import NArith List Bool.
From V Require Import Base.Tri Model.Pred Model.NormalForm Model.PredCheck Gen.NormalFormGen.
Import ListNotations.

Definition chk_nf_table_gen (c : ncase) : bool :=
  let '(n, form, t, obs, _, _) := c in
  match py_from_tree NF_FUEL form t with
  | Some nodes => tris_eqb (ntable n form nodes) obs
                  && match to_tree form nodes with Some t' => tris_eqb (ltable n t') obs | None => false end
  | None => false
  end.
Definition chk_nf_shape_gen (c : ncase) : bool :=
  let '(_, form, t, _, nodes, tree) := c in
  match py_from_tree NF_FUEL form t with
  | Some ns => list_eqb (list_eqb ltree_eqb) ns nodes
               && match to_tree form ns with Some t' => ltree_eqb t' tree | None => false end
  | None => false
  end.
(* the regenerated model alone decides (the hand model is proved equal to it, Props/C15.v legacy_hand_model_is_generated);
   the hand-model checkers are evaluated only on the cases this rejects *)
Definition chk_nf_all_gen (c : ncase) : bool := chk_nf_table_gen c && chk_nf_shape_gen c.
