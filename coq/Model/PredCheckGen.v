(* C15 -- checkers over the REGENERATED definitions (Gen/PredGen.v); see Model/PredCheck.v. *)
From Coq Require Import NArith List Bool.
From V Require Import Base.Tri Model.Pred Model.PredCheck Gen.PredGen.
Import ListNotations.

Definition chk_form_table_gen (c : pcase) : bool :=
  let '(n, f, tv, _) := c in tris_eqb (table n (py_build f)) tv.
Definition chk_form_shape_gen (c : pcase) : bool :=
  let '(_, f, _, ops) := c in match ops with Some o => cnf_eqb (py_build f) o | None => true end.
Definition chk_form_all_gen (c : pcase) : bool :=
  chk_form_table c && chk_form_table_gen c && chk_form_shape_gen c && chk_form_shape c.
Definition step_gen (op : N) (self : cnf) (args : list (bool * cnf)) : cnf :=
  match op with
  | 0%N => py_logical_and self args
  | 1%N => py_logical_or self (map snd args)
  | _ => py_logical_not self
  end.
Definition chk_step_table_gen (c : scase) : bool :=
  let '(n, op, self, args, tv, _) := c in tris_eqb (table n (step_gen op self args)) tv.
Definition chk_step_shape_gen (c : scase) : bool :=
  let '(_, op, self, args, _, res) := c in
  match res with Some r => cnf_eqb (step_gen op self args) r | None => true end.
Definition chk_step_all_gen (c : scase) : bool :=
  chk_step_table c && chk_step_table_gen c && chk_step_shape_gen c && chk_step_shape c.

(* the regenerated model alone (the hand model is proved equal to it: Props/C15.v hand_model_is_generated,
   Proofs/PredProofs.v logical_and/or/not_shape_p); the harness evaluates the hand-model checkers only on the cases
   these reject, to tell which model disagrees *)
Definition chk_form_gen_only (c : pcase) : bool := chk_form_table_gen c && chk_form_shape_gen c.
Definition chk_step_gen_only (c : scase) : bool := chk_step_table_gen c && chk_step_shape_gen c.
