(* C03 -- hand model of CHAINED collections and ordered (find-first) dataset search.

   Anchors (python/lsst/daf/butler/...):
     registry/collections/_base.py      update_chain / prepend / extend / remove_from_collection_chain,
                                        _modify_collection_chain, _sanity_check_collection_cycles,
                                        _find_position_in_collection_chain, _find_many, resolve_wildcard
     registry/collections/synthIntKey.py  _rows_to_chains  (children = sorted by position)
     registry/sql_registry.py           findDataset (minimum rank over the fetched rows)
     direct_query_driver/_driver.py     _filter_collections (depth first, `done` set), _resolve_dataset_search
                                        (summary pruning), apply_query_find_first (ROW_NUMBER ... = 1)
     registry/queries/_query_backend.py make_dataset_search_relation (legacy; shortcut for <= 1 collection)

   Names, dataset types, data IDs and dataset ids are small numbers (N).  Chain positions are Z, computed
   exactly as the code computes them (prepend goes negative).  The contents of RUN / TAGGED collections are
   a finite table chosen by the history (C02 owns their semantics); summaries are a superset of it.
   No proofs in this file. *)
From Coq Require Import ZArith NArith List Bool.
Import ListNotations.
Open Scope Z_scope.

Inductive ctype := CRun | CTagged | CChained | CCalib.
(* ENotImpl: NotImplementedError; ETypeErr: DatasetTypeError; EMissingType: MissingDatasetTypeError;
   EOther: never produced by the model *)
Inductive err := EMissing | ECycle | ECollType | EConflict | EFk | EFuel | ENotImpl | ETypeErr | EMissingType | EOther.
Inductive outcome := Done | Refused (e : err).
Inductive res (A : Type) := Ok (a : A) | Err (e : err).
Arguments Ok {A} a.
Arguments Err {A} e.

Record row := mkRow { rparent : N; rpos : Z; rchild : N }.            (* collection_chain *)
Record ent := mkEnt { ecoll : N; ety : N; edid : N; eid : N }.        (* (collection, type, data id) -> dataset *)
Record st := mkSt {
  colls : list (N * ctype);       (* collection table *)
  rows : list row;                (* collection_chain table, in insertion order *)
  cont : list ent;                (* dataset membership, in insertion (= arbitrary fetch) order *)
  summ : list (N * N);            (* collection summary: (collection, dataset type) *)
  gsumm : list (N * N * N);       (* collection summary: (collection, governor dimension, value), one table per
                                     governor dimension in the code (collection_summary_instrument / _skymap) *)
  tys : list (N * (list N * bool))  (* dataset type -> (governor dimensions among its dimensions, isCalibration) *)
}.
Definition init : st := mkSt [] [] [] [] [] [].

(* value of governor dimension g in data ID d.  The harness encodes a data ID as
     d = 64 * (skymap index + 1, or 0 = no skymap) + 16 * instrument + detector
   governor dimension 0 = instrument, any other number = skymap.  A data ID of a dataset type only has the
   governors of that type; gval is consulted only for those (tgov). *)
Definition gval (g d : N) : N :=
  match g with 0%N => N.modulo (N.div d 16) 4 | _ => N.div d 64 end.

Fixpoint memN (x : N) (l : list N) : bool :=
  match l with [] => false | y :: t => N.eqb x y || memN x t end.
Fixpoint mem3 (x : N * N * N) (l : list (N * N * N)) : bool :=
  match l with
  | [] => false
  | y :: t => (N.eqb (fst (fst x)) (fst (fst y)) && N.eqb (snd (fst x)) (snd (fst y)) && N.eqb (snd x) (snd y)) || mem3 x t
  end.
Fixpoint lookupNN (g : N) (l : list (N * N)) : option N :=
  match l with [] => None | (h, v) :: t => if N.eqb g h then Some v else lookupNN g t end.
Fixpoint memNN (x : N * N) (l : list (N * N)) : bool :=
  match l with [] => false | y :: t => (N.eqb (fst x) (fst y) && N.eqb (snd x) (snd y)) || memNN x t end.

Fixpoint ctype_of (cs : list (N * ctype)) (n : N) : option ctype :=
  match cs with [] => None | (m, t) :: r => if N.eqb n m then Some t else ctype_of r n end.
Definition is_chained (s : st) (n : N) : bool :=
  match ctype_of (colls s) n with Some CChained => true | _ => false end.
Definition exists_c (s : st) (n : N) : bool :=
  match ctype_of (colls s) n with Some _ => true | None => false end.
Definition is_calib (s : st) (n : N) : bool :=
  match ctype_of (colls s) n with Some CCalib => true | _ => false end.

(* dataset types: their governor dimensions and the isCalibration flag *)
Fixpoint ty_of (ts : list (N * (list N * bool))) (ty : N) : option (list N * bool) :=
  match ts with [] => None | (m, x) :: r => if N.eqb ty m then Some x else ty_of r ty end.
Definition tgov (s : st) (ty : N) : list N := match ty_of (tys s) ty with Some (g, _) => g | None => [] end.
Definition is_calty (s : st) (ty : N) : bool := match ty_of (tys s) ty with Some (_, b) => b | None => false end.

(* ---- children of a chain: rows of the parent sorted by position (_rows_to_chains) ---- *)
Fixpoint ins (r : Z * N) (l : list (Z * N)) : list (Z * N) :=
  match l with
  | [] => [r]
  | x :: t => if fst r <=? fst x then r :: l else x :: ins r t
  end.
Definition sort_pos (l : list (Z * N)) : list (Z * N) := fold_right ins [] l.
Definition prows (rs : list row) (p : N) : list row := filter (fun r => N.eqb (rparent r) p) rs.
Definition pc (r : row) : Z * N := (rpos r, rchild r).
Definition children_r (rs : list row) (p : N) : list N := map snd (sort_pos (map pc (prows rs p))).
Definition children (s : st) (p : N) : list N := children_r (rows s) p.

(* ---- first-occurrence de-duplication (the `done_keys` loop of resolve_wildcard) ---- *)
Fixpoint dedup_acc (seen l : list N) : list N :=
  match l with
  | [] => []
  | x :: t => if memN x seen then dedup_acc seen t else x :: dedup_acc (x :: seen) t
  end.
Definition dedup := dedup_acc [].

(* ---- _find_many(flatten_chains=True).order(): depth first, chains included, duplicates kept.
        Fuel bounds the nesting depth; None = out of fuel (the recursive CTE of a cyclic chain never
        returns). ---- *)
Fixpoint opt_concat {A} (l : list (option (list A))) : option (list A) :=
  match l with
  | [] => Some []
  | None :: _ => None
  | Some x :: t => match opt_concat t with Some r => Some (x ++ r) | None => None end
  end.
Fixpoint order (f : nat) (s : st) (n : N) : option (list N) :=
  match f with
  | O => None
  | S f' =>
      if is_chained s n
      then match opt_concat (map (order f' s) (children s n)) with Some l => Some (n :: l) | None => None end
      else Some [n]
  end.
Definition order_list (f : nat) (s : st) (ns : list N) : option (list N) := opt_concat (map (order f s) ns).
Definition fuel_of (s : st) : nat := S (length (colls s)).

(* _find_many raises MissingCollectionError for unknown top-level names *)
Definition expand (s : st) (ns : list N) : res (list N) :=
  if forallb (exists_c s) ns
  then match order_list (fuel_of s) s ns with Some l => Ok l | None => Err EFuel end
  else Err EMissing.
Definition map_res {A B} (f : A -> B) (r : res A) : res B :=
  match r with Ok a => Ok (f a) | Err e => Err e end.
Definition leaves (s : st) (l : list N) : list N := filter (fun n => negb (is_chained s n)) l.
(* resolve_wildcard(flatten_chains=True): chains dropped, first occurrence kept
   = collections.query(flatten_chains=True) = the search path of findDataset / legacy queries *)
Definition flatten (s : st) (ns : list N) : res (list N) := map_res (fun l => dedup (leaves s l)) (expand s ns).
(* resolve_wildcard(flatten_chains=True, include_chains=True) *)
Definition flatten_incl (s : st) (ns : list N) : res (list N) := map_res dedup (expand s ns).

(* ---- DirectQueryDriver._filter_collections: depth first with a `done` set that also stops a chain from
        being expanded twice.  Returns (done', leaves in order). ---- *)
Fixpoint recB (f : nat) (s : st) (names done : list N) : option (list N * list N) :=
  match f with
  | O => None
  | S f' =>
      (fix go (names done : list N) : option (list N * list N) :=
         match names with
         | [] => Some (done, [])
         | n :: rest =>
             if memN n done then go rest done
             else if is_chained s n
             then match recB f' s (children s n) (n :: done) with
                  | None => None
                  | Some (d1, o1) =>
                      match go rest d1 with Some (d2, o2) => Some (d2, o1 ++ o2) | None => None end
                  end
             else match go rest (n :: done) with Some (d, o) => Some (d, n :: o) | None => None end
         end) names done
  end.
(* the driver first resolves all names with flatten_chains=True (that is where an unknown name or a
   cyclic chain surfaces), then runs _filter_collections *)
Definition flattenB (s : st) (ns : list N) : res (list N) :=
  match expand s ns with
  | Err e => Err e
  | Ok _ => match recB (S (fuel_of s)) s ns [] with Some (_, o) => Ok o | None => Err EFuel end
  end.

(* ---- chain edits ---- *)
Inductive kind := KRedefine | KPrepend | KExtend | KRemove.
Fixpoint enum_rows (p : N) (z : Z) (cs : list N) : list row :=
  match cs with [] => [] | c :: t => mkRow p z c :: enum_rows p (z + 1) t end.
Fixpoint minz (l : list Z) : option Z :=
  match l with [] => None | x :: t => match minz t with None => Some x | Some m => Some (Z.min x m) end end.
Fixpoint maxz (l : list Z) : option Z :=
  match l with [] => None | x :: t => match maxz t with None => Some x | Some m => Some (Z.max x m) end end.
Definition or0 (o : option Z) : Z := match o with Some z => z | None => 0 end.
(* _remove_collection_chain_rows *)
Definition drop_children (rs : list row) (p : N) (ks : list N) : list row :=
  filter (fun r => negb (N.eqb (rparent r) p && memN (rchild r) ks)) rs.
Definition apply_edit (rs : list row) (k : kind) (p : N) (cs : list N) : list row :=
  let ks := dedup cs in      (* resolve_wildcard(flatten_chains=False) de-duplicates the children *)
  match k with
  | KRedefine => filter (fun r => negb (N.eqb (rparent r) p)) rs ++ enum_rows p 0 ks
  | KPrepend =>
      let rs1 := drop_children rs p ks in
      let start := or0 (minz (map rpos (prows rs1 p))) - Z.of_nat (length ks) in
      rs1 ++ enum_rows p start ks
  | KExtend =>
      let rs1 := drop_children rs p ks in
      let start := or0 (maxz (map rpos (prows rs1 p))) + 1 in
      rs1 ++ enum_rows p start ks
  | KRemove => drop_children rs p ks
  end.
Definition set_rows (s : st) (rs : list row) : st := mkSt (colls s) rs (cont s) (summ s) (gsumm s) (tys s).

(* _modify_collection_chain: cycle check (not for remove) -> children resolved -> parent looked up and
   locked -> rows rewritten.  The order of the refusals is the order of the code. *)
Definition edit (s : st) (k : kind) (p : N) (cs : list N) : st * outcome :=
  let cyc :=
    match k with
    | KRemove => Ok false
    | _ => map_res (fun l => memN p (filter (is_chained s) l)) (expand s cs)
    end in
  match cyc with
  | Err e => (s, Refused e)
  | Ok true => (s, Refused ECycle)
  | Ok false =>
      if negb (forallb (exists_c s) cs) then (s, Refused EMissing)
      else match ctype_of (colls s) p with
           | None => (s, Refused EMissing)
           | Some CChained => (set_rows s (apply_edit (rows s) k p cs), Done)
           | Some _ => (s, Refused ECollType)
           end
  end.

(* ---- the rest of a history ---- *)
Definition lookup_ent (cn : list ent) (c ty d : N) : option N :=
  match find (fun e => N.eqb (ecoll e) c && N.eqb (ety e) ty && N.eqb (edid e) d) cn with
  | Some e => Some (eid e) | None => None end.

Inductive op :=
| OReg (n : N) (t : ctype)            (* registerCollection / registerRun *)
| ORmColl (n : N)                     (* removeCollection *)
| OSet (c ty d k : N)                 (* put into a RUN (fresh k) / associate into a TAGGED collection *)
| OEdit (k : kind) (p : N) (cs : list N)
| OType (ty : N) (gs : list N) (cal : bool)   (* registerDatasetType: governor dimensions, isCalibration *)
| OCert (c ty d k : N)                (* certify dataset k into a CALIBRATION collection, validity range unbounded *)
| OEditFlat (p : N) (cs : list N).    (* Registry.setCollectionChain(p, cs, flatten=True) *)

Definition ctype_eqb (a b : ctype) : bool :=
  match a, b with CRun, CRun | CTagged, CTagged | CChained, CChained | CCalib, CCalib => true | _, _ => false end.
Fixpoint listN_eqb (a b : list N) : bool :=
  match a, b with [] , [] => true | x :: r, y :: t => N.eqb x y && listN_eqb r t | _, _ => false end.

(* a new member row with the summary rows the insert adds: the dataset type and, for every governor dimension
   of the dataset type, the value of the data ID (CollectionSummary.add_datasets) *)
Definition add_ent (s : st) (c ty d k : N) : st :=
  mkSt (colls s) (rows s) (cont s ++ [mkEnt c ty d k])
       ((c, ty) :: summ s) (map (fun g => (c, g, gval g d)) (tgov s ty) ++ gsumm s) (tys s).

(* setCollectionChain(flatten=True): children = queryCollections(children, flattenChains=True), then update_chain *)
Definition edit_flat (s : st) (p : N) (cs : list N) : st * outcome :=
  match flatten s cs with
  | Err e => (s, Refused e)
  | Ok l => edit s KRedefine p l
  end.

Definition step (s : st) (o : op) : st * outcome :=
  match o with
  | OReg n t =>
      match ctype_of (colls s) n with
      | None => (mkSt (colls s ++ [(n, t)]) (rows s) (cont s) (summ s) (gsumm s) (tys s), Done)
      | Some _ => (s, Done)     (* CollectionManager.register returns the existing record, type not compared *)
      end
  | ORmColl n =>
      match ctype_of (colls s) n with
      | None => (s, Refused EMissing)
      | Some _ =>
          if existsb (fun r => N.eqb (rchild r) n) (rows s) then (s, Refused EFk)   (* FK collection_chain.child *)
          else (mkSt (filter (fun c => negb (N.eqb (fst c) n)) (colls s))
                     (filter (fun r => negb (N.eqb (rparent r) n)) (rows s))           (* ON DELETE CASCADE *)
                     (filter (fun e => negb (N.eqb (ecoll e) n)) (cont s))
                     (filter (fun x => negb (N.eqb (fst x) n)) (summ s))
                     (filter (fun x => negb (N.eqb (fst (fst x)) n)) (gsumm s)) (tys s), Done)
      end
  | OSet c ty d k =>
      match ty_of (tys s) ty with
      | None => (s, Refused EMissingType)          (* the dataset type is resolved first *)
      | Some _ =>
      match ctype_of (colls s) c with
      | None => (s, Refused EMissing)
      | Some CChained => (s, Refused ECollType)
      | Some CCalib => (s, Refused ECollType)      (* neither put(run=) nor associate accept a CALIBRATION collection *)
      | Some t =>
          match lookup_ent (cont s) c ty d with
          | Some k' => if N.eqb k k' && ctype_eqb t CTagged then (s, Done) else (s, Refused EConflict)
          | None => (add_ent s c ty d k, Done)
          end
      end
      end
  | OEdit k p cs => edit s k p cs
  | OType ty gs cal =>
      match ty_of (tys s) ty with
      | None => (mkSt (colls s) (rows s) (cont s) (summ s) (gsumm s) (tys s ++ [(ty, (gs, cal))]), Done)
      | Some (gs', cal') => if listN_eqb gs gs' && Bool.eqb cal cal' then (s, Done) else (s, Refused EConflict)
      end
  | OCert c ty d k =>
      match ctype_of (colls s) c with
      | None => (s, Refused EMissing)
      | Some t =>
          if negb (is_calty s ty) then (s, Refused ETypeErr)
          else if negb (ctype_eqb t CCalib) then (s, Refused ECollType)
          else match lookup_ent (cont s) c ty d with
               | Some _ => (s, Refused EConflict)      (* overlapping validity range for the same data ID *)
               | None => (add_ent s c ty d k, Done)
               end
      end
  | OEditFlat p cs => edit_flat s p cs
  end.
Definition run (s : st) (ops : list op) : st := fold_left (fun s o => fst (step s o)) ops s.

(* ---- find-first ---- *)
(* specification: the dataset of the first collection of the path that has one *)
Fixpoint first_match (cn : list ent) (ty d : N) (path : list N) : option N :=
  match path with
  | [] => None
  | c :: t => match lookup_ent cn c ty d with Some k => Some k | None => first_match cn ty d t end
  end.

(* summary pruning (CollectionSummary.is_compatible_with via filter_dataset_collections for findDataset and the
   legacy queries; DirectQueryDriver._resolve_dataset_search for the new query system).  `cons` is the constraint
   data ID: governor dimension -> value, from the data ID and the WHERE clause of the query.  A collection is
   dropped when its summary does not list the dataset type, or when for a governor dimension that is
     (a) constrained, (b) present in the collection's summary (any value), (c) a dimension of the DATASET TYPE
   the constrained value is not among the summary's values.  (c) matters: the governor summary is per collection,
   over all dataset types in it. *)
Definition has_gov (s : st) (c g : N) : bool :=
  existsb (fun x => N.eqb (fst (fst x)) c && N.eqb (snd (fst x)) g) (gsumm s).
Definition gov_ok (s : st) (cons : list (N * N)) (c g : N) : bool :=
  match lookupNN g cons with
  | None => true
  | Some v => negb (has_gov s c g) || mem3 (c, g, v) (gsumm s)
  end.
Definition keep (s : st) (cons : list (N * N)) (ty c : N) : bool :=
  memNN (c, ty) (summ s) && forallb (gov_ok s cons c) (tgov s ty).
Definition prune (s : st) (cons : list (N * N)) (ty : N) (path : list N) : list N := filter (keep s cons ty) path.
(* findDataset standardizes the data ID to the dimensions of the dataset type: its governors, fully constrained *)
Definition cons_of (s : st) (ty d : N) : list (N * N) := map (fun g => (g, gval g d)) (tgov s ty).
(* does data ID d (of dataset type ty) satisfy the constraint? *)
Definition consistent (s : st) (cons : list (N * N)) (ty d : N) : bool :=
  forallb (fun g => match lookupNN g cons with None => true | Some v => N.eqb (gval g d) v end) (tgov s ty).
(* findDataset(timespan=None): "any CALIBRATION collections matched ... will not be searched" *)
Definition skip_calib (s : st) (path : list N) : list N := filter (fun c => negb (is_calib s c)) path.
(* the rows the SQL query returns: every member row of one of the collections, in table order *)
Definition match_rows (cn : list ent) (ty d : N) (cs : list N) : list (N * N) :=
  map (fun e => (ecoll e, eid e))
      (filter (fun e => N.eqb (ety e) ty && N.eqb (edid e) d && memN (ecoll e) cs) cn).
Fixpoint rank_of (c : N) (path : list N) : N :=
  match path with [] => 0%N | x :: t => if N.eqb c x then 0%N else N.succ (rank_of c t) end.

(* 1. SqlRegistry.findDataset: scan the rows, keep the one of strictly smaller rank *)
Definition min_rank (path : list N) (rws : list (N * N)) : option N :=
  match rws with
  | [] => None
  | r0 :: rest =>
      Some (snd (fold_left (fun best r => if N.ltb (rank_of (fst r) path) (rank_of (fst best) path) then r else best)
                           rest r0))
  end.
Definition find_rank (s : st) (ty d : N) (names : list N) : res (option N) :=
  map_res (fun path => let fc := skip_calib s (prune s (cons_of s ty d) ty path) in
                       min_rank fc (match_rows (cont s) ty d fc)) (flatten s names).
(* Butler.get / DirectButler._findDatasetRef: a calibration dataset type is looked up with
   timespan = Timespan(None, None) when the data ID has no temporal dimension, so CALIBRATION collections ARE
   searched (every certification of this model is unbounded: it overlaps) *)
Definition find_get (s : st) (ty d : N) (names : list N) : res (option N) :=
  map_res (fun path => let fc0 := prune s (cons_of s ty d) ty path in
                       let fc := if is_calty s ty then fc0 else skip_calib s fc0 in
                       min_rank fc (match_rows (cont s) ty d fc)) (flatten s names).

(* 2. new query system: rank by CASE, ROW_NUMBER() OVER (PARTITION BY data id ORDER BY rank) = 1;
      no window when at most one collection survives the pruning *)
Fixpoint ins_rank (r : N * N) (l : list (N * N)) : list (N * N) :=
  match l with
  | [] => [r]
  | x :: t => if N.leb (fst r) (fst x) then r :: l else x :: ins_rank r t
  end.
Definition window (path : list N) (rws : list (N * N)) : list N :=
  match fold_right ins_rank [] (map (fun r => (rank_of (fst r) path, snd r)) rws) with
  | [] => []
  | x :: _ => [snd x]
  end.
Definition search_rows (s : st) (ty d : N) (fc : list N) : list N :=
  let rws := match_rows (cont s) ty d fc in
  if Nat.leb (length fc) 1 then map snd rws else window fc rws.
(* rows of the query for data ID d: none when d contradicts the constraint *)
Definition answer (s : st) (cons : list (N * N)) (ty d : N) (fc : list N) : list N :=
  if consistent s cons ty d then search_rows s ty d fc else [].
Definition find_window (s : st) (cons : list (N * N)) (ty d : N) (names : list N) : res (list N) :=
  map_res (fun path => answer s cons ty d (prune s cons ty path)) (flattenB s names).
(* 3. legacy relation engine: the path comes from resolve_wildcard, same pruning, same window, same shortcut.
      resolve_dataset_collections(allow_calibration_collections=False): a CALIBRATION collection that survives
      the pruning raises NotImplementedError when it was named explicitly; one reached through a chain is
      reported as "not searched" in the rejections and then searched all the same (the append sits inside
      `if rejections is not None`, and QueryBuilder.joinDataset always passes a list) *)
Definition find_legacy (s : st) (cons : list (N * N)) (ty d : N) (names : list N) : res (list N) :=
  match flatten s names with
  | Err e => Err e
  | Ok path =>
      let fc := prune s cons ty path in
      if existsb (fun c => is_calib s c && memN c names) fc then Err ENotImpl
      else Ok (answer s cons ty d fc)
  end.
