(* Same checkers over the REGENERATED definitions (this file is in Model/ but depends on Gen/; if the
   translation no longer type-checks only this file fails, the hand checkers still run). *)
From Coq Require Import ZArith List Bool.
From V Require Import Base.Tri Gen.TimespanGen Model.Timespan Model.TimespanCheck.
Import ListNotations.
Open Scope Z_scope.

Definition chk_pair_gen (c : ts * ts * (list bool * ts * list ts)) : bool :=
  let '(a, b, (bs, i, d)) := c in
  list_eqb Bool.eqb bs [py_isEmpty a; py_overlaps a b; py_contains a b; py_lt a b; py_gt a b; py_eq a b].
Definition chk_inst_gen (c : ts * Z * list bool) : bool :=
  let '(a, x, bs) := c in
  list_eqb Bool.eqb bs [py_contains_t a x; py_overlaps_t a x; py_lt_t a x; py_gt_t a x].
Definition chk_mk_gen (c : Z * Z * ts) : bool :=
  let '(b, e, r) := c in ts_eqb (py_mk b e) r.
(* SQL: what SQLite returned for the compiled column expressions; NULL -> UU *)
Definition chk_sql_pair (c : sts * sts * list tri) : bool :=
  let '(a, b, rs) := c in
  list_eqb tri_eqb rs [sql_isEmpty a; sql_overlaps a b; sql_contains a b; sql_lt a b; sql_gt a b;
                       tri_of_bool (sql_isNull a)].
Definition chk_sql_inst (c : sts * sv * list tri) : bool :=
  let '(a, x, rs) := c in
  list_eqb tri_eqb rs [sql_contains_t a x; sql_overlaps_t a x; sql_lt_t a x; sql_gt_t a x].
