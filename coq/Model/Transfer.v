(* C19 -- export / import_ / transfer_from on a small repository state (self-contained, numeric ids).

   Faithful to the code that exists (quirks included):
   * RepoExportContext: datasets de-duplicated, their dataset types, RUN collections and the dimension records of their
     data IDs are exported automatically; saved collections are ordered non-chains first (sorted), then chains in
     topological rounds (sorted inside a round); associations only of exported datasets with saved TAGGED /
     CALIBRATION collections.
   * YamlRepoImportBackend.register is NOT transactional (dataset types, then collections, then chains; stops at the first
     error and keeps what it registered; registering an existing name of another collection type is silently accepted;
     setCollectionChain REPLACES the chain).  load runs in one registry + datastore transaction: dimension records with
     skip_existing (a different record already present is silently kept), _importDatasets per dataset type and run
     (same id + same definition = no-op, any other clash = Conflict), datastore ingest of ALL datasets of the file
     (a dataset that already has a datastore record makes FileDatastore._finishIngest refuse the whole ingest with
     ConflictingDefinitionError BEFORE any file is transferred -- /repo 2da36a1; the behaviour before that commit, INSERT
     failing with an IntegrityError after every file was copied over the stored artifact so that the rollback deleted those
     artifacts, is kept as the variant `fixed = false` of load_v / import_v / exim_v), associate, certify.
   * DirectButler.transfer_from: datasets without an artifact in the source are skipped; dataset types compared /
     registered outside the transaction; dimension records (skip_existing), run registration, _importDatasets per run
     and the datastore transfer (datasets already stored in the target are skipped) inside one transaction;
     transfer="direct" between two file datastores is refused.
   No proofs here. *)
From Coq Require Import NArith List Bool.
Import ListNotations.
Open Scope N_scope.

Inductive kind := RUN | TAGGED | CHAINED | CALIB.
Definition kind_eqb (a b : kind) : bool :=
  match a, b with RUN, RUN | TAGGED, TAGGED | CHAINED, CHAINED | CALIB, CALIB => true | _, _ => false end.

Inductive err := Conflict | MissingCollection | MissingDatasetType | CollectionTypeErr | DataIdValueErr | Cycle
               | SqlError | NotFound | ValueErr.
Inductive outcome := Ok | Err (e : err).
Inductive mode := Copy | Direct.      (* Copy stands for every mode that puts an artifact at the in-store path *)

Record dset := D { d_id : N; d_type : N; d_data : N; d_run : N }.
Definition dset_eqb (a b : dset) : bool :=
  (d_id a =? d_id b) && (d_type a =? d_type b) && (d_data a =? d_data b) && (d_run a =? d_run b).
Definition same_key (a b : dset) : bool :=
  (d_type a =? d_type b) && (d_data a =? d_data b) && (d_run a =? d_run b).

(* datastore entry: content (None = the record is there but the artifact is gone) and whether the artifact lives at the
   dataset's in-store path (false = ingested with transfer="direct": the record points outside the store) *)
Definition sinfo := (option N * bool)%type.

Record state := St {
  dims : list (N * N);            (* record key -> payload *)
  types : list (N * N);           (* dataset type name -> definition code *)
  colls : list (N * kind);
  chains : list (N * list N);     (* CHAINED collection -> ordered children *)
  dsets : list dset;              (* registry rows *)
  stored : list (N * sinfo);      (* datastore records *)
  tags : list (N * N);            (* TAGGED collection, dataset id *)
  calibs : list (N * N * (N * N)) (* CALIBRATION collection, dataset id, validity range [b, e) *)
}.
Definition empty : state := St [] [] [] [] [] [] [] [].

Definition memN (x : N) (l : list N) : bool := existsb (N.eqb x) l.
Fixpoint lookup {A} (k : N) (l : list (N * A)) : option A :=
  match l with [] => None | (k', v) :: r => if k =? k' then Some v else lookup k r end.
Definition has_key {A} (k : N) (l : list (N * A)) : bool := match lookup k l with Some _ => true | None => false end.
Fixpoint set_key {A} (k : N) (v : A) (l : list (N * A)) : list (N * A) :=
  match l with [] => [(k, v)] | (k', v') :: r => if k =? k' then (k, v) :: r else (k', v') :: set_key k v r end.
Fixpoint dedup (l : list N) : list N :=
  match l with [] => [] | x :: r => if memN x r then dedup r else x :: dedup r end.
Fixpoint ins (x : N) (l : list N) : list N :=
  match l with [] => [x] | y :: r => if x <=? y then x :: l else y :: ins x r end.
Definition sortN (l : list N) : list N := fold_right ins [] l.
Definition find_id (n : N) (l : list dset) : option dset := find (fun d => d_id d =? n) l.

Definition NDET : N := 2.
Definition inst_key (d : N) : N := 100 + d / NDET.
Definition has_dims (d : N) (t : state) : bool := has_key (inst_key d) (dims t) && has_key d (dims t).
Definition is_calib_type (t : N) (s : state) : bool := match lookup t (types s) with Some 1 => true | _ => false end.
Definition ranges_overlap (a b : N * N) : bool := (fst a <? snd b) && (fst b <? snd a).

(* ------------------------------------------------------------------ export *)
Record bundle := B {
  b_dims : list (N * N);
  b_types : list (N * N);
  b_colls : list (N * kind * list N);   (* file order *)
  b_dsets : list (dset * N);            (* dataset, content; by dataset type, run, data id *)
  b_tags : list (N * N);
  b_calibs : list (N * N * (N * N))
}.

Definition names (l : list (N * list N)) : list N := map fst l.
Definition unblocked (rem : list (N * list N)) (p : N * list N) : bool :=
  negb (existsb (fun c => memN c (names rem)) (snd p)).
Fixpoint ins_chain (x : N * list N) (l : list (N * list N)) : list (N * list N) :=
  match l with [] => [x] | y :: r => if fst x <=? fst y then x :: l else y :: ins_chain x r end.
Definition sort_chains (l : list (N * list N)) := fold_right ins_chain [] l.
(* RepoExportContext._computeSortedCollections: rounds of unblocked chains; None = "Apparent cycle" *)
Fixpoint topo (fuel : nat) (rem : list (N * list N)) : option (list (N * list N)) :=
  match rem with
  | [] => Some []
  | _ :: _ =>
    match fuel with
    | O => None
    | S f =>
      match filter (unblocked rem) rem with
      | [] => None
      | u => match topo f (filter (fun p => negb (unblocked rem p)) rem) with
             | Some r => Some (sort_chains u ++ r)
             | None => None
             end
      end
    end
  end.

Definition ds_key_leb (a b : dset) : bool :=
  if d_type a <? d_type b then true else if d_type b <? d_type a then false else
  if d_run a <? d_run b then true else if d_run b <? d_run a then false else
  if d_data a <? d_data b then true else if d_data b <? d_data a then false else d_id a <=? d_id b.
Fixpoint ins_ds (x : dset) (l : list dset) : list dset :=
  match l with [] => [x] | y :: r => if ds_key_leb x y then x :: l else y :: ins_ds x r end.
Definition sort_ds (l : list dset) := fold_right ins_ds [] l.

Definition content_of (n : N) (s : state) : option N :=
  match lookup n (stored s) with Some (Some v, _) => Some v | _ => None end.
Definition is_stored (n : N) (s : state) : bool := has_key n (stored s).

Inductive xres := XOk (b : bundle) | XErr (e : err).

Definition export (ids cs : list N) (s : state) : xres :=
  let xs := sort_ds (filter (fun d => memN (d_id d) ids) (dsets s)) in
  if negb (forallb (fun n => match find_id n (dsets s) with Some _ => true | None => false end) ids) then XErr NotFound else
  if negb (forallb (fun d => match content_of (d_id d) s with Some _ => true | None => false end) xs) then XErr NotFound else
  if negb (forallb (fun c => has_key c (colls s)) cs) then XErr MissingCollection else
  let cnames := sortN (dedup (cs ++ map d_run xs)) in
  let plain := filter (fun c => match lookup c (colls s) with Some CHAINED => false | _ => true end) cnames in
  let chs := flat_map (fun c => match lookup c (colls s) with
                                | Some CHAINED => [(c, match lookup c (chains s) with Some l => l | None => [] end)]
                                | _ => [] end) cnames in
  match topo (length chs) chs with
  | None => XErr ValueErr
  | Some order =>
    let kd c := match lookup c (colls s) with Some k => k | None => RUN end in
    let dk := sortN (dedup (map (fun d => inst_key (d_data d)) xs)) ++ sortN (dedup (map d_data xs)) in
    let xids := map d_id xs in
    XOk (B (flat_map (fun k => match lookup k (dims s) with Some p => [(k, p)] | None => [] end) dk)
           (flat_map (fun t => match lookup t (types s) with Some c => [(t, c)] | None => [] end)
                     (sortN (dedup (map d_type xs))))
           (map (fun c => (c, kd c, [])) plain ++ map (fun p => (fst p, CHAINED, snd p)) order)
           (flat_map (fun d => match content_of (d_id d) s with Some v => [(d, v)] | None => [] end) xs)
           (filter (fun p => memN (fst p) cnames && kind_eqb (kd (fst p)) TAGGED && memN (snd p) xids) (tags s))
           (filter (fun p => memN (fst (fst p)) cnames && kind_eqb (kd (fst (fst p))) CALIB && memN (snd (fst p)) xids)
                   (calibs s)))
  end.

(* ------------------------------------------------------------------ registry pieces shared by import_ and transfer_from *)
Inductive res := ROk (t : state) | RErr (e : err).
Definition bind (r : res) (f : state -> res) : res := match r with ROk t => f t | RErr e => RErr e end.
Fixpoint foldr {A} (f : A -> state -> res) (l : list A) (t : state) : res :=
  match l with [] => ROk t | x :: r => bind (f x t) (foldr f r) end.

Definition with_types (t : state) v := St (dims t) v (colls t) (chains t) (dsets t) (stored t) (tags t) (calibs t).
Definition with_colls (t : state) v := St (dims t) (types t) v (chains t) (dsets t) (stored t) (tags t) (calibs t).
Definition with_chains (t : state) v := St (dims t) (types t) (colls t) v (dsets t) (stored t) (tags t) (calibs t).
Definition with_dims (t : state) v := St v (types t) (colls t) (chains t) (dsets t) (stored t) (tags t) (calibs t).
Definition with_dsets (t : state) v := St (dims t) (types t) (colls t) (chains t) v (stored t) (tags t) (calibs t).
Definition with_stored (t : state) v := St (dims t) (types t) (colls t) (chains t) (dsets t) v (tags t) (calibs t).
Definition with_tags (t : state) v := St (dims t) (types t) (colls t) (chains t) (dsets t) (stored t) v (calibs t).
Definition with_calibs (t : state) v := St (dims t) (types t) (colls t) (chains t) (dsets t) (stored t) (tags t) v.

(* registerDatasetType *)
Definition reg_type (p : N * N) (t : state) : res :=
  match lookup (fst p) (types t) with
  | None => ROk (with_types t (types t ++ [p]))
  | Some c => if c =? snd p then ROk t else RErr Conflict
  end.
(* collections.register: an existing name is accepted whatever its type *)
Definition reg_coll (c : N) (k : kind) (t : state) : state :=
  if has_key c (colls t) then t
  else let t' := with_colls t (colls t ++ [(c, k)]) in
       match k with CHAINED => with_chains t' (chains t' ++ [(c, [])]) | _ => t' end.

(* CHAINED collections reachable from a list of collections (children flattened, chains included) *)
Fixpoint reach (fuel : nat) (t : state) (cs : list N) : list N :=
  match fuel with
  | O => []
  | S f =>
    flat_map (fun c => match lookup c (colls t) with
                       | Some CHAINED => c :: reach f t (match lookup c (chains t) with Some l => l | None => [] end)
                       | _ => [] end) cs
  end.
(* setCollectionChain *)
Definition set_chain (c : N) (children : list N) (t : state) : res :=
  if negb (forallb (fun x => has_key x (colls t)) children) then RErr MissingCollection else
  if memN c (reach (S (length (colls t))) t children) then RErr Cycle else
  match lookup c (colls t) with
  | Some CHAINED => ROk (with_chains t (set_key c children (chains t)))
  | Some _ => RErr CollectionTypeErr
  | None => RErr MissingCollection
  end.

(* insertDimensionData(..., skip_existing=True) *)
Definition add_dim (p : N * N) (t : state) : state :=
  if has_key (fst p) (dims t) then t else with_dims t (dims t ++ [p]).
Definition add_dims (l : list (N * N)) (t : state) : state := fold_left (fun t p => add_dim p t) l t.

(* _importDatasets for one ref *)
Definition import_one (d : dset) (t : state) : res :=
  match lookup (d_run d) (colls t) with
  | None => RErr MissingCollection
  | Some RUN =>
    if negb (has_dims (d_data d) t) then RErr DataIdValueErr else
    if negb (has_key (d_type d) (types t)) then RErr MissingDatasetType else
    match find_id (d_id d) (dsets t) with
    | Some d' => if dset_eqb d d' then ROk t else RErr Conflict
    | None => if existsb (same_key d) (dsets t) then RErr Conflict else ROk (with_dsets t (dsets t ++ [d]))
    end
  | Some _ => RErr CollectionTypeErr
  end.

(* associate / certify for one dataset *)
Definition assoc_one (p : N * N) (t : state) : res :=
  match lookup (fst p) (colls t) with
  | None => RErr MissingCollection
  | Some TAGGED =>
    match find_id (snd p) (dsets t) with
    | None => RErr Conflict
    | Some d =>
      if existsb (fun q => (fst q =? fst p) && negb (snd q =? snd p) &&
                           match find_id (snd q) (dsets t) with
                           | Some d' => (d_type d' =? d_type d) && (d_data d' =? d_data d) | None => false end) (tags t)
      then RErr Conflict
      else if existsb (fun q => (fst q =? fst p) && (snd q =? snd p)) (tags t) then ROk t
      else ROk (with_tags t (tags t ++ [p]))
    end
  | Some _ => RErr CollectionTypeErr
  end.
Definition certify_one (p : N * N * (N * N)) (t : state) : res :=
  let '(c, n, r) := p in
  match lookup c (colls t) with
  | None => RErr MissingCollection
  | Some CALIB =>
    match find_id n (dsets t) with
    | None => RErr Conflict
    | Some d =>
      if negb (is_calib_type (d_type d) t) then RErr CollectionTypeErr else
      if existsb (fun q => let '(c', n', r') := q in
                           (c' =? c) && ranges_overlap r r' &&
                           match find_id n' (dsets t) with
                           | Some d' => (d_type d' =? d_type d) && (d_data d' =? d_data d) | None => false end) (calibs t)
      then RErr Conflict
      else ROk (with_calibs t (calibs t ++ [p]))
    end
  | Some _ => RErr CollectionTypeErr
  end.

(* ------------------------------------------------------------------ import_ *)
(* non-transactional registration: returns the state reached and the first error, if any *)
Fixpoint reg_steps {A} (f : A -> state -> res) (l : list A) (t : state) : state * option err :=
  match l with
  | [] => (t, None)
  | x :: r => match f x t with ROk t' => reg_steps f r t' | RErr e => (t, Some e) end
  end.
Definition is_chain_entry (p : N * kind * list N) : bool := kind_eqb (snd (fst p)) CHAINED.
(* a chain is registered, then its children are set: two separate, separately persistent steps *)
Definition chain_step (o : N * option (list N)) (t : state) : res :=
  match snd o with
  | None => ROk (reg_coll (fst o) CHAINED t)
  | Some ch => set_chain (fst o) ch t
  end.
Definition register (b : bundle) (t : state) : state * option err :=
  match reg_steps reg_type (b_types b) t with
  | (t1, Some e) => (t1, Some e)
  | (t1, None) =>
    let t2 := fold_left (fun t p => reg_coll (fst (fst p)) (snd (fst p)) t)
                        (filter (fun p => negb (is_chain_entry p)) (b_colls b)) t1 in
    reg_steps chain_step (flat_map (fun p => [(fst (fst p), None); (fst (fst p), Some (snd p))])
                                   (filter is_chain_entry (b_colls b))) t2
  end.

Definition bundle_ids (b : bundle) : list N := map (fun p => d_id (fst p)) (b_dsets b).
(* artifacts destroyed by the rollback of a refused ingest: every dataset of the file whose artifact was in the store *)
Definition lose (ids : list N) (st : list (N * sinfo)) : list (N * sinfo) :=
  map (fun p => match p with
                | (n, (Some v, true)) => if memN n ids then (n, (None, true)) else p
                | _ => p end) st.
Definition store_new (m : mode) (l : list (dset * N)) (t : state) : state :=
  with_stored t (stored t ++ map (fun p => (d_id (fst p), (Some (snd p), match m with Copy => true | Direct => false end))) l).

(* fixed = true: the code as it is (2da36a1); fixed = false: the code before that commit *)
Definition load_v (fixed : bool) (m : mode) (b : bundle) (t : state) : res * bool :=   (* bool: files were copied into place *)
  let t1 := add_dims (b_dims b) t in
  match foldr import_one (map fst (b_dsets b)) t1 with
  | RErr e => (RErr e, false)
  | ROk t2 =>
    if existsb (fun n => is_stored n t2) (bundle_ids b)
    then (if fixed then (RErr Conflict, false) else (RErr SqlError, true)) else
    let t3 := store_new m (b_dsets b) t2 in
    (bind (foldr assoc_one (b_tags b) t3) (foldr certify_one (b_calibs b)), true)
  end.
Definition load := load_v true.

Definition import_v (fixed : bool) (m : mode) (b : bundle) (t : state) : state * outcome :=
  match register b t with
  | (t0, Some e) => (t0, Err e)
  | (t0, None) =>
    match load_v fixed m b t0 with
    | (ROk t', _) => (t', Ok)
    | (RErr e, copied) =>
      ((match m, copied with Copy, true => with_stored t0 (lose (bundle_ids b) (stored t0)) | _, _ => t0 end), Err e)
    end
  end.
Definition import_ := import_v true.

Definition exim_v (fixed : bool) (m : mode) (ids cs : list N) (src t : state) : state * outcome :=
  match export ids cs src with
  | XErr e => (t, Err e)
  | XOk b => import_v fixed m b t
  end.
Definition exim := exim_v true.

(* ------------------------------------------------------------------ transfer_from *)
Definition chk_type (p : N * N) (t : state) : res :=
  match lookup (fst p) (types t) with
  | None => RErr MissingDatasetType
  | Some c => if c =? snd p then ROk t else RErr Conflict
  end.

Definition transfer_group (run : N) (refs : list dset) (t : state) : res :=
  let t1 := reg_coll run RUN t in
  match lookup run (colls t1) with
  | Some RUN =>
    if negb (forallb (fun d => has_dims (d_data d) t1) refs) then RErr DataIdValueErr
    else foldr import_one refs t1
  | _ => RErr CollectionTypeErr
  end.

(* returns: state, outcome, and whether the failure (if any) happened while comparing / registering dataset types
   (the order in which the implementation walks the dataset types is a set iteration order) *)
Definition transfer_from (m : mode) (ids : list N) (regtypes xdims : bool) (src t : state) : state * outcome * bool :=
  let rs := sort_ds (filter (fun d => memN (d_id d) ids && match content_of (d_id d) src with Some _ => true | None => false end)
                            (dsets src)) in
  let tys := flat_map (fun ty => match lookup ty (types src) with Some c => [(ty, c)] | None => [] end)
                      (sortN (dedup (map d_type rs))) in
  match reg_steps (if regtypes then reg_type else chk_type) tys t with
  | (t0, Some e) => (t0, Err e, true)
  | (t0, None) =>
    let dk := sortN (dedup (map (fun d => inst_key (d_data d)) rs)) ++ sortN (dedup (map d_data rs)) in
    let t1 := if xdims then add_dims (flat_map (fun k => match lookup k (dims src) with Some p => [(k, p)] | None => [] end) dk) t0
              else t0 in
    let runs := sortN (dedup (map d_run rs)) in
    match foldr (fun r => transfer_group r (filter (fun d => d_run d =? r) rs)) runs t1 with
    | RErr e => (t0, Err e, false)
    | ROk t2 =>
      match m with
      | Direct => (t0, Err ValueErr, false)
      | Copy =>
        (store_new Copy (flat_map (fun d => if is_stored (d_id d) t2 then [] else
                                            match content_of (d_id d) src with Some v => [(d, v)] | None => [] end) rs) t2,
         Ok, false)
      end
    end
  end.

(* ------------------------------------------------------------------ actions and histories *)
Inductive action :=
| ExIm (m : mode) (ids cs : list N)
| Xfer (m : mode) (ids : list N) (regtypes xdims : bool).

Definition step (src t : state) (a : action) : state * outcome :=
  match a with
  | ExIm m ids cs => exim m ids cs src t
  | Xfer m ids rt xd => fst (transfer_from m ids rt xd src t)
  end.
Definition run (src : state) (t : state) (l : list action) : state := fold_left (fun t a => fst (step src t a)) l t.
