(* C08 -- shared artifacts: ONE file that several datasets refer to (Butler.ingest of a FileDataset with several refs:
   one artifact named after the first ref, one file_datastore_records row per ref with the same path; Butler.ingest_zip:
   one zip, one row per member with path "<zip>#zip-path=<member>").  Model/Crash.v identifies dataset id and path and
   cannot express this; here records are (id, artifact) pairs.

   This model works at the level of DURABLE EFFECTS: Model/Crash.v's theorem `uncommitted_rows_invisible` shows that the
   statements of an open transaction never reach the recovered state, so an operation is the list of its durable effects
   in program order -- a COMMIT that installs new rows, and the file events -- and a crash after k effects is the fold of
   the first k.  Order of effects as in direct_butler / fileDatastore / bridge/monolithic.py:
   * ingest / ingest_zip / put: [write temp (partial, complete); rename temp -> final] (or the move of the staging file), then
     ONE commit with the dataset, dataset_location and records rows of ALL refs;
   * removal: commit (location -> trash [, dataset rows deleted]); then emptyTrash: the trash rows that still have records;
     an artifact is deleted unless a record of a dataset that is NOT in this batch still refers to it
     (MonolithicDatastoreRegistryBridge.emptyTrash `preserved` / FileDatastore.emptyTrash `artifacts_to_keep`, which
     coincide whenever every record belongs to a located or a pending dataset); a missing file is tolerated; then ONE
     commit deleting the records rows and the trash rows.
   No proofs in this file. *)
From Coq Require Import NArith List Bool.
From V Require Import Model.Crash.
Import ListNotations.
Open Scope N_scope.

Record sdb := mkSdb {
  s_ds : list N;            (* dataset rows *)
  s_loc : list N;           (* dataset_location *)
  s_trash : list N;         (* dataset_location_trash *)
  s_recs : list (N * N)     (* file_datastore_records: (dataset id, artifact) *)
}.

Record sstate := mkSs { sb : sdb; sf : fsmap }.      (* artifact a lives under `Final a`, temporary names are `Tmp t` *)

Inductive eff :=
| ECommit (b : sdb)                      (* the transaction commits: the committed rows become b *)
| EWrite (f : fname) (c : fcont)
| ERename (a b : fname)
| EAppear (f : fname) (c : fcont)        (* a complete file is moved in from outside the repository (ingest transfer="move") *)
| EDelete (f : fname).

Definition do_eff (s : sstate) (e : eff) : sstate :=
  match e with
  | ECommit b => mkSs b (sf s)
  | EWrite f c => mkSs (sb s) (fset f c (sf s))
  | ERename a b => match fget a (sf s) with Some c => mkSs (sb s) (fset b c (fdel a (sf s))) | None => s end
  | EAppear f c => mkSs (sb s) (fset f c (sf s))
  | EDelete f => mkSs (sb s) (fdel f (sf s))
  end.

Definition run_effs (s : sstate) (p : list eff) : sstate := fold_left do_eff p s.
Definition scrash (s : sstate) (p : list eff) (k : nat) : sstate := run_effs s (firstn k p).

Inductive sop :=
| SStore (move : bool) (a v : N) (l : list N)   (* one artifact a with content v for the refs l *)
| SPrune (l ord : list N)
| SUnstore (l ord : list N)
| STrash (l : list N)
| SEmptyTrash (ord : list N).

Definition has_rec (b : sdb) (d : N) : bool := existsb (fun r => fst r =? d) (s_recs b).
Definition art_of (b : sdb) (d : N) : option N :=
  match find (fun r => fst r =? d) (s_recs b) with Some r => Some (snd r) | None => None end.

(* an artifact is kept by emptyTrash when a record of a dataset outside the batch refers to it *)
Definition kept (b : sdb) (rows : list N) (a : N) : bool :=
  existsb (fun r => (snd r =? a) && negb (mem (fst r) rows)) (s_recs b).

(* ... which is how FileDatastore.emptyTrash decides for paths with a "#" fragment (zip members: it asks the records table);
   for plain paths it takes the bridge's answer: a record of a LOCATED dataset refers to the artifact.  The two agree
   whenever every record belongs to a located or a pending dataset.  Convention: artifact keys >= 50 are zips. *)
Definition kept_loc (b : sdb) (a : N) : bool :=
  existsb (fun r => (snd r =? a) && mem (fst r) (s_loc b)) (s_recs b).
Definition is_zip (a : N) : bool := 50 <=? a.
Definition keeps (b : sdb) (rows : list N) (a : N) : bool := if is_zip a then kept b rows a else kept_loc b a.

Definition del_recs (rows : list N) (rs : list (N * N)) : list (N * N) := filter (fun r => negb (mem (fst r) rows)) rs.

Definition splan_empty (b : sdb) (ord : list N) : list eff :=
  let rows := order_by ord (filter (has_rec b) (s_trash b)) in
  match rows with
  | [] => []
  | _ => flat_map (fun d => match art_of b d with
                            | Some a => if keeps b rows a then [] else [EDelete (Final a)]
                            | None => []
                            end) rows
         ++ [ECommit (mkSdb (s_ds b) (s_loc b) (reml rows (s_trash b)) (del_recs rows (s_recs b)))]
  end.

Definition sstore_ok (b : sdb) (l : list N) : bool :=
  nodupb l && forallb (fun d => negb (mem d (s_ds b))) l && match l with [] => false | _ => true end.

Definition splan (s : sstate) (o : sop) : list eff :=
  let b := sb s in
  match o with
  | SStore move a v l =>
      if sstore_ok b l then
        (if move then [EAppear (Final a) (Complete v)]
         else let t := next_tmp (sf s) in [EWrite (Tmp t) Partial; EWrite (Tmp t) (Complete v); ERename (Tmp t) (Final a)])
        ++ [ECommit (mkSdb (addl l (s_ds b)) (addl l (s_loc b)) (s_trash b) (map (fun d => (d, a)) l ++ s_recs b))]
      else []
  | SPrune l ord =>
      let t := inter l (s_ds b) in
      match t with
      | [] => splan_empty b ord
      | _ => let tl := inter t (s_loc b) in
             let b1 := mkSdb (reml t (s_ds b)) (reml tl (s_loc b)) (addl tl (s_trash b)) (s_recs b) in
             ECommit b1 :: splan_empty b1 ord
      end
  | SUnstore l ord =>
      let tl := inter (inter l (s_ds b)) (s_loc b) in
      match tl with
      | [] => splan_empty b ord
      | _ => let b1 := mkSdb (s_ds b) (reml tl (s_loc b)) (addl tl (s_trash b)) (s_recs b) in
             ECommit b1 :: splan_empty b1 ord
      end
  | STrash l =>
      let tl := inter (inter l (s_ds b)) (s_loc b) in
      match tl with
      | [] => []
      | _ => [ECommit (mkSdb (s_ds b) (reml tl (s_loc b)) (addl tl (s_trash b)) (s_recs b))]
      end
  | SEmptyTrash ord => splan_empty b ord
  end.

Definition srun_op (s : sstate) (o : sop) : sstate := run_effs s (splan s o).
Definition srun (s : sstate) (h : list sop) : sstate := fold_left srun_op h s.
Definition sinit : sstate := mkSs (mkSdb [] [] [] []) [].

(* what a fresh Butler sees *)
Definition sget (s : sstate) (d : N) : got :=
  match art_of (sb s) d with
  | Some a => match fget (Final a) (sf s) with
              | Some (Complete v) => GotValue v
              | Some Partial => GotCorrupt
              | None => GotMissing
              end
  | None => NotStored
  end.

Definition s_target (o : sop) (d : N) : bool :=
  match o with
  | SStore _ _ _ l | SPrune l _ | SUnstore l _ | STrash l => mem d l
  | SEmptyTrash _ => false
  end.
Definition s_is_removal (o : sop) : bool := match o with SStore _ _ _ _ => false | _ => true end.
