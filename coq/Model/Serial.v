(* C18 -- field-level model of the "simple"/JSON codecs (to_simple / from_simple, wire form = to_json, i.e.
   model_dump_json(exclude_defaults, exclude_unset)) and of the __reduce__ forms of
   DimensionGroup, DimensionRecord, DataCoordinate, DatasetType, DatasetRef, Timespan.
   The dimension universe is abstract: a finite `conform` table (name list -> group), record schemas, governor
   names, and (for the minimal forms) the registry's dataset types / refs.  No proofs here. *)
From Coq Require Import ZArith List Bool Ascii String.
Import ListNotations.
Open Scope string_scope.
Open Scope Z_scope.

(* ---------- JSON values ---------- *)
Inductive jv :=
| JNull | JBool (b : bool) | JInt (z : Z) | JFlt (q : Z) (* a float, in quarter units *) | JStr (s : string)
| JArr (l : list jv) | JObj (o : list (string * jv)).

Fixpoint jget (k : string) (o : list (string * jv)) : option jv :=
  match o with [] => None | (k', v) :: r => if String.eqb k k' then Some v else jget k r end.
Definition jfield (k : string) (j : jv) : option jv :=
  match j with JObj o => match jget k o with Some JNull => None | x => x end | _ => None end.

(* equality of JSON documents: arrays ordered, objects as maps *)
Fixpoint jv_eqb (a b : jv) : bool :=
  match a, b with
  | JNull, JNull => true
  | JBool x, JBool y => Bool.eqb x y
  | JInt x, JInt y => Z.eqb x y
  | JFlt x, JFlt y => Z.eqb x y
  | JStr x, JStr y => String.eqb x y
  | JArr l1, JArr l2 =>
      (fix go (l1 l2 : list jv) : bool :=
         match l1, l2 with
         | [], [] => true
         | x :: r, y :: s => jv_eqb x y && go r s
         | _, _ => false
         end) l1 l2
  | JObj o1, JObj o2 =>
      Nat.eqb (List.length o1) (List.length o2) &&
      (fix go (o1 : list (string * jv)) : bool :=
         match o1 with
         | [] => true
         | (k, v) :: r => match jget k o2 with Some v' => jv_eqb v v' | None => false end && go r
         end) o1
  | _, _ => false
  end.

(* ---------- helpers ---------- *)
Definition mem (s : string) (l : list string) : bool := existsb (String.eqb s) l.
Definition subset (a b : list string) : bool := forallb (fun x => mem x b) a.
Definition same_set (a b : list string) : bool := subset a b && subset b a.
Fixpoint slist_eqb (a b : list string) : bool :=
  match a, b with
  | [], [] => true
  | x :: a', y :: b' => String.eqb x y && slist_eqb a' b'
  | _, _ => false
  end.
Fixpoint mapM {A B} (f : A -> option B) (l : list A) : option (list B) :=
  match l with
  | [] => Some []
  | x :: r => match f x, mapM f r with Some y, Some ys => Some (y :: ys) | _, _ => None end
  end.
Fixpoint aget {A} (k : string) (l : list (string * A)) : option A :=
  match l with [] => None | (k', v) :: r => if String.eqb k k' then Some v else aget k r end.

(* ---------- Timespan ---------- *)
Definition TMIN : Z := 0.
Definition ts_mk (mx b e : Z) : Z * Z := if b <? e then (b, e) else (mx, TMIN).   (* __init__ canonicalisation *)
Definition ts_wf (mx : Z) (t : Z * Z) : Prop := (TMIN <= fst t < snd t /\ snd t <= mx) \/ t = (mx, TMIN).
Definition enc_ts (t : Z * Z) : jv := JArr [JInt (fst t); JInt (snd t)].           (* _serialize: self.nsec *)
Definition dec_ts (mx : Z) (j : jv) : option (Z * Z) :=                            (* _validate: {"nsec": value} *)
  match j with
  | JArr [JInt b; JInt e] => Some (ts_mk mx b e)
  | _ => None
  end.
(* YAML: scalar EMPTY, or mapping begin/end with None for the unbounded ends (time conversion: C11) *)
Inductive yts := YEmpty | YMap (b e : option Z).
Definition ts_is_empty (t : Z * Z) : bool := snd t <=? fst t.
Definition enc_ts_yaml (mx : Z) (t : Z * Z) : yts :=
  if ts_is_empty t then YEmpty
  else YMap (if fst t =? TMIN then None else Some (fst t)) (if snd t =? mx then None else Some (snd t)).
Definition dec_ts_yaml (mx : Z) (y : yts) : Z * Z :=
  match y with
  | YEmpty => (mx, TMIN)
  | YMap b e => ts_mk mx (match b with None => TMIN | Some x => x end) (match e with None => mx | Some x => x end)
  end.
(* __reduce__: (Timespan, (None, None, False, self.nsec)) *)
Definition reduce_ts (t : Z * Z) : Z * Z := t.
Definition rebuild_ts (mx : Z) (a : Z * Z) : Z * Z := ts_mk mx (fst a) (snd a).

(* ---------- the abstract universe ---------- *)
Record grp := { g_names : list string; g_req : list string; g_impl : list string; g_elems : list string }.
Inductive ftype := TInt | TStr | TFlt | TBool | TTs | TRegion | THash.
Inductive fval :=
| FNull | FBool (b : bool) | FInt (z : Z) | FFlt (q : Z) | FStr (s : string) | FTs (t : Z * Z)
| FRegion (hex : string) | FHash (hex : string).
Record drec := { r_def : string; r_fields : list (string * fval) }.
Inductive dval := DInt (z : Z) | DStr (s : string).
Record coord := { c_grp : grp; c_vals : list (string * dval); c_recs : option (list (string * option drec)) }.
Record dstype := { t_name : string; t_grp : grp; t_sc : string; t_psc : option string; t_calib : bool }.
Record dref := { f_id : string; f_run : string; f_type : dstype; f_coord : coord }.

Record uctx := {
  u_max : Z;                                                        (* TimeConverter().max_nsec *)
  u_conform : list (list string * grp);                             (* universe.conform on the name lists in play *)
  u_schema : list (string * list (string * (ftype * bool)));        (* element -> (field, type, nullable) in slot order *)
  u_governors : list string;
  u_types : list (string * dstype);                                 (* registry.getDatasetType *)
  u_refs : list (string * dref);                                    (* registry.getDataset *)
  u_compsc : list (string * string);                                (* "parentSC.component" -> component storage class *)
}.
Definition conform (u : uctx) (l : list string) : option grp :=
  match find (fun e => same_set l (fst e)) (u_conform u) with Some e => Some (snd e) | None => None end.

(* ---------- DimensionGroup ---------- *)
Definition enc_grp (g : grp) : jv := JArr (map JStr (g_names g)).                 (* list(self.names) *)
Definition jstrings (j : jv) : option (list string) :=
  match j with JArr l => mapM (fun x => match x with JStr s => Some s | _ => None end) l | _ => None end.
Definition dec_grp (u : uctx) (j : jv) : option grp :=
  match jstrings j with Some l => conform u l | None => None end.
(* __getnewargs__: (universe, names._seq, False): looked up by name set without conforming *)
Definition reduce_grp (g : grp) : list string := g_names g.
Definition rebuild_grp (u : uctx) (l : list string) : option grp := conform u l.

(* ---------- DimensionRecord ---------- *)
Definition enc_fval (v : fval) : jv :=
  match v with
  | FNull => JNull | FBool b => JBool b | FInt z => JInt z | FFlt q => JFlt q | FStr s => JStr s
  | FTs t => enc_ts t | FRegion h => JStr h (* region.encode().hex() *) | FHash h => JStr h (* bytes.hex() *)
  end.
Definition enc_rec (r : drec) : jv :=
  JObj [("definition", JStr (r_def r)); ("record", JObj (map (fun p => (fst p, enc_fval (snd p))) (r_fields r)))].
Definition dec_fval (mx : Z) (spec : ftype * bool) (j : jv) : option fval :=
  match j, fst spec with
  | JNull, _ => if snd spec then Some FNull else None
  | JInt z, TInt => Some (FInt z)
  | JStr s, TStr => Some (FStr s)
  | JFlt q, TFlt => Some (FFlt q)
  | JBool b, TBool => Some (FBool b)
  | _, TTs => match dec_ts mx j with Some t => Some (FTs t) | None => None end
  | JStr h, TRegion => Some (FRegion h)
  | JStr h, THash => Some (FHash h)
  | _, _ => None
  end.
Definition dec_rec (u : uctx) (j : jv) : option drec :=
  match jfield "definition" j, jfield "record" j with
  | Some (JStr d), Some (JObj o) =>
      match aget d (u_schema u) with
      | Some specs =>
          match mapM (fun sp => match jget (fst sp) o with
                                | Some x => match dec_fval (u_max u) (snd sp) x with Some v => Some (fst sp, v) | None => None end
                                | None => None   (* every schema field is required *)
                                end) specs with
          | Some fs => Some {| r_def := d; r_fields := fs |}
          | None => None
          end
      | None => None
      end
  | _, _ => None
  end.
(* __reduce__: (_reconstructDimensionRecord, (definition, {slot: value})) *)
Definition reduce_rec (r : drec) : string * list (string * fval) := (r_def r, r_fields r).
Definition rebuild_rec (a : string * list (string * fval)) : drec := {| r_def := fst a; r_fields := snd a |}.

(* ---------- DataCoordinate ---------- *)
Definition has_full (c : coord) : bool :=
  Nat.eqb (List.length (c_vals c)) (List.length (g_req (c_grp c)) + List.length (g_impl (c_grp c))).
Definition has_records (c : coord) : bool := match c_recs c with Some _ => true | None => false end.
Definition enc_dval (v : dval) : jv := match v with DInt z => JInt z | DStr s => JStr s end.
Definition enc_records (rs : list (string * option drec)) : jv :=
  JObj (flat_map (fun p => match snd p with Some r => [(fst p, enc_rec r)] | None => [] end) rs).
Definition enc_coord (minimal : bool) (c : coord) : jv :=
  JObj (("dataId", JObj (map (fun p => (fst p, enc_dval (snd p))) (c_vals c)))
        :: match (if minimal then None else c_recs c) with
           | Some rs => [("records", enc_records rs)]
           | None => []                                                (* records=None is the default: not on the wire *)
           end).
Definition dec_dval (j : jv) : option dval :=
  match j with JInt z => Some (DInt z) | JStr s => Some (DStr s) | _ => None end.
Definition pick (ks : list string) (kv : list (string * dval)) : option (list (string * dval)) :=
  mapM (fun k => match aget k kv with Some v => Some (k, v) | None => None end) ks.
(* `records` handling of from_simple, given the standardized data ID (group g, values vals, full or not).
   attach_records: the code as it is now (`if simple.records is not None:` + dict.fromkeys(elements) + update):
   every element of the group gets a key, None where no record travelled; keys that are not elements are kept. *)
Definition dec_record_items (u : uctx) (rs : list (string * jv)) : option (list (string * drec)) :=
  mapM (fun p => match dec_rec u (snd p) with Some r => Some (fst p, r) | None => None end) rs.
Definition fill_records (elems : list string) (dec : list (string * drec)) : list (string * option drec) :=
  map (fun e => (e, aget e dec)) elems
  ++ map (fun p => (fst p, Some (snd p))) (filter (fun p => negb (mem (fst p) elems)) dec).
Definition attach_records (u : uctx) (g : grp) (vals : list (string * dval)) (full : bool) (jr : option jv) : option coord :=
  match jr with
  | None => Some {| c_grp := g; c_vals := vals; c_recs := None |}
  | Some (JObj rs) =>
      if full then
        match dec_record_items u rs with
        | Some dec => Some {| c_grp := g; c_vals := vals; c_recs := Some (fill_records (g_elems g) dec) |}
        | None => None
        end
      else None   (* records on a required-only data ID: outside the image of to_simple, not modelled *)
  | Some _ => None
  end.
(* the variant before commit 0b78af8 (`if simple.records:` + only the records that travelled); kept so that the
   refutation theorem documents what a revert of the fix breaks *)
Definition attach_records_prefix (u : uctx) (g : grp) (vals : list (string * dval)) (full : bool) (jr : option jv) : option coord :=
  match jr with
  | None | Some (JObj []) => Some {| c_grp := g; c_vals := vals; c_recs := None |}
  | Some (JObj rs) =>
      if full then
        match dec_record_items u rs with
        | Some dec => Some {| c_grp := g; c_vals := vals; c_recs := Some (map (fun p => (fst p, Some (snd p))) dec) |}
        | None => None
        end
      else None
  | Some _ => None
  end.
Definition dec_coord_with (attach : uctx -> grp -> list (string * dval) -> bool -> option jv -> option coord)
                          (u : uctx) (j : jv) : option coord :=
  match jfield "dataId" j with
  | Some (JObj o) =>
      match mapM (fun p => match dec_dval (snd p) with Some v => Some (fst p, v) | None => None end) o with
      | Some kv =>
          match conform u (map fst kv) with                             (* DimensionGroup(universe, mapping.keys()) *)
          | Some g =>
              match g_names g with
              | [] => Some {| c_grp := g; c_vals := []; c_recs := Some [] |}    (* make_empty: full and expanded; expanded() returns self *)
              | _ =>
                  let full := subset (g_names g) (map fst kv) in
                  match pick (if full then g_req g ++ g_impl g else g_req g) kv with
                  | Some vals => attach u g vals full (jfield "records" j)
                  | None => None                                         (* DimensionNameError *)
                  end
              end
          | None => None
          end
      | None => None
      end
  | _ => None
  end.
Definition dec_coord : uctx -> jv -> option coord := dec_coord_with attach_records.
Definition dec_coord_prefix : uctx -> jv -> option coord := dec_coord_with attach_records_prefix.
(* documented state after a round trip: minimal drops the records (the empty data ID stays expanded); the full
   form returns the data ID as it was, None records included *)
Definition expected_coord (minimal : bool) (c : coord) : coord :=
  match g_names (c_grp c) with
  | [] => c
  | _ => {| c_grp := c_grp c; c_vals := c_vals c; c_recs := if minimal then None else c_recs c |}
  end.
(* __reduce__: (cls, (dimensions, values[, records])) -- everything, including None records *)
Definition reduce_coord (c : coord) : grp * list (string * dval) * option (list (string * option drec)) :=
  (c_grp c, c_vals c, c_recs c).
Definition rebuild_coord (a : grp * list (string * dval) * option (list (string * option drec))) : coord :=
  {| c_grp := fst (fst a); c_vals := snd (fst a); c_recs := snd a |}.
(* r.records[k]: 0 = a record, 1 = None, 2 = KeyError *)
Definition record_state (c : coord) (k : string) : N :=
  match c_recs c with
  | None => 2%N
  | Some rs => match aget k rs with Some (Some _) => 0%N | Some None => 1%N | None => 2%N end
  end.

(* ---------- DatasetType ---------- *)
Definition is_alpha_ (c : Ascii.ascii) : bool :=
  let n := Ascii.nat_of_ascii c in
  ((65 <=? n) && (n <=? 90) || (97 <=? n) && (n <=? 122) || (n =? 95))%nat.
Definition is_alnum_ (c : Ascii.ascii) : bool :=
  let n := Ascii.nat_of_ascii c in is_alpha_ c || ((48 <=? n) && (n <=? 57))%nat.
(* VALID_NAME_REGEX: dot-separated non-empty segments, each a letter or underscore followed by letters, digits,
   underscores; `start` = at the start of a segment *)
Fixpoint valid_name_from (start : bool) (s : string) : bool :=
  match s with
  | EmptyString => negb start
  | String c r =>
      if start then is_alpha_ c && valid_name_from false r
      else if Ascii.eqb c "."%char then valid_name_from true r
      else is_alnum_ c && valid_name_from false r
  end.
Definition valid_name (s : string) : bool := valid_name_from true s.
(* splitDatasetTypeName: component = everything after the first "." *)
Fixpoint component_of (s : string) : option string :=
  match s with
  | EmptyString => None
  | String c r => if Ascii.eqb c "."%char then Some r else component_of r
  end.
Fixpoint root_of (s : string) : string :=
  match s with
  | EmptyString => EmptyString
  | String c r => if Ascii.eqb c "."%char then EmptyString else String c (root_of r)
  end.
Definition opt_str (k : string) (o : option string) : list (string * jv) :=
  match o with Some s => [(k, JStr s)] | None => [] end.
Definition enc_dt (minimal : bool) (t : dstype) : jv :=
  if minimal then JObj [("name", JStr (t_name t))]
  else JObj ([("name", JStr (t_name t)); ("storageClass", JStr (t_sc t));
              ("dimensions", JArr (map JStr (g_req (t_grp t))))]            (* list(self._dimensions.required) *)
             ++ opt_str "parentStorageClass" (t_psc t)
             ++ (if t_calib t then [("isCalibration", JBool true)] else [])). (* False is the default: not on the wire *)
(* DatasetType.__init__ checks *)
Definition mk_dt (u : uctx) (name : string) (g : grp) (sc : string) (psc : option string) (calib : bool) : option dstype :=
  if negb (valid_name name) then None
  else if mem name (u_governors u) then None
  else match psc, component_of name with
       | Some _, None => None
       | None, Some _ => None
       | _, _ => Some {| t_name := name; t_grp := g; t_sc := sc; t_psc := psc; t_calib := calib |}
       end.
Definition dec_dt (u : uctx) (j : jv) : option dstype :=
  match jfield "name" j with
  | Some (JStr name) =>
      match jfield "storageClass" j with
      | None => aget name (u_types u)                                      (* minimal form: registry.getDatasetType *)
      | Some (JStr sc) =>
          match jfield "dimensions" j with
          | Some dims =>
              match dec_grp u dims with
              | Some g =>
                  let psc := match jfield "parentStorageClass" j with Some (JStr p) => Some (Some p) | None => Some None | _ => None end in
                  let cal := match jfield "isCalibration" j with Some (JBool b) => Some b | None => Some false | _ => None end in
                  match psc, cal with
                  | Some p, Some c => mk_dt u name g sc p c
                  | _, _ => None
                  end
              | None => None
              end
          | None => None                                                    (* "Dimensions must be specified" *)
          end
      | Some _ => None
      end
  | _ => None
  end.
(* __reduce__: (_unpickle_via_factory, (cls, (name, dimensions, scName, pscName), {isCalibration})) *)
Definition reduce_dt (t : dstype) := (t_name t, t_grp t, t_sc t, t_psc t, t_calib t).
Definition rebuild_dt (u : uctx) (a : string * grp * string * option string * bool) : option dstype :=
  match a with (n, g, sc, psc, cal) => mk_dt u n g sc psc cal end.

(* ---------- DatasetRef ---------- *)
Definition enc_ref (minimal : bool) (r : dref) : jv :=
  if minimal then JObj (("id", JStr (f_id r)) :: opt_str "component" (component_of (t_name (f_type r))))
  else JObj [("id", JStr (f_id r)); ("datasetType", enc_dt false (f_type r));
             ("dataId", enc_coord false (f_coord r)); ("run", JStr (f_run r))].
(* DatasetRef.__init__(conform=True): standardize(dataId, dimensions=datasetType.dimensions) returns the data ID
   itself when its dimensions are the dataset type's; other cases are outside the image of to_simple *)
Definition mk_ref (id run : string) (t : dstype) (c : coord) : option dref :=
  if slist_eqb (g_names (c_grp c)) (g_names (t_grp t))
  then Some {| f_id := id; f_run := run; f_type := t; f_coord := c |} else None.
(* makeComponentRef -> DatasetType.makeComponentDatasetType *)
Definition component_ref (u : uctx) (r : dref) (comp : string) : option dref :=
  let t := f_type r in
  match aget (t_sc t ++ "." ++ comp)%string (u_compsc u) with
  | Some csc =>
      match mk_dt u (t_name t ++ "." ++ comp)%string (t_grp t) csc (Some (t_sc t)) (t_calib t) with
      | Some t' => Some {| f_id := f_id r; f_run := f_run r; f_type := t'; f_coord := f_coord r |}
      | None => None
      end
  | None => None
  end.
Definition dec_ref (u : uctx) (j : jv) : option dref :=
  match jfield "id" j with
  | Some (JStr id) =>
      match jfield "datasetType" j, jfield "dataId" j, jfield "run" j with
      | None, None, None =>                                                  (* minimal: registry.getDataset(id) *)
          match aget id (u_refs u) with
          | Some r => match jfield "component" j with
                      | Some (JStr c) => component_ref u r c
                      | None => Some r
                      | _ => None
                      end
          | None => None
          end
      | Some jt, Some jd, Some (JStr run) =>
          match dec_dt u jt, dec_coord u jd with
          | Some t, Some c => mk_ref id run t c
          | _, _ => None
          end
      | _, _, _ => None
      end
  | _ => None
  end.
Definition expected_ref (r : dref) : dref :=
  {| f_id := f_id r; f_run := f_run r; f_type := f_type r; f_coord := expected_coord false (f_coord r) |}.
(* __reduce__: (_unpickle, (datasetType, dataId, id, run, datastore_records)) *)
Definition reduce_ref (r : dref) := (f_type r, f_coord r, f_id r, f_run r).
Definition rebuild_ref (a : dstype * coord * string * string) : option dref :=
  match a with (t, c, id, run) => mk_ref id run t c end.

(* ---------- equality and hash keys (what __eq__ compares, what __hash__ hashes) ---------- *)
Definition dval_eqb (a b : dval) : bool :=
  match a, b with DInt x, DInt y => Z.eqb x y | DStr x, DStr y => String.eqb x y | _, _ => false end.
Fixpoint dvals_eqb (a b : list (string * dval)) : bool :=
  match a, b with
  | [], [] => true
  | (k, x) :: a', (k', y) :: b' => String.eqb k k' && dval_eqb x y && dvals_eqb a' b'
  | _, _ => false
  end.
Definition req_vals (c : coord) : list (string * dval) := firstn (List.length (g_req (c_grp c))) (c_vals c).
Definition grp_eq (a b : grp) : bool := slist_eqb (g_names a) (g_names b).        (* names == names *)
Definition grp_hash_key (g : grp) : list string := g_req g.                         (* hash(self.required._seq) *)
Definition coord_eq (a b : coord) : bool := grp_eq (c_grp a) (c_grp b) && dvals_eqb (req_vals a) (req_vals b).
Definition coord_hash_key (c : coord) : list string * list (string * dval) := (grp_hash_key (c_grp c), req_vals c).
Definition ostr_eqb (a b : option string) : bool :=
  match a, b with Some x, Some y => String.eqb x y | None, None => true | _, _ => false end.
Definition dt_eq (a b : dstype) : bool :=
  String.eqb (t_name a) (t_name b) && grp_eq (t_grp a) (t_grp b) && Bool.eqb (t_calib a) (t_calib b)
  && ostr_eqb (t_psc a) (t_psc b) && String.eqb (t_sc a) (t_sc b).
Definition dt_hash_key (t : dstype) := (t_name t, grp_hash_key (t_grp t), t_sc t, t_psc t).
Definition ref_eq (a b : dref) : bool :=
  dt_eq (f_type a) (f_type b) && coord_eq (f_coord a) (f_coord b) && String.eqb (f_id a) (f_id b).
Definition ref_hash_key (r : dref) := (dt_hash_key (f_type r), coord_hash_key (f_coord r), f_id r).
