(* C15 -- correspondence checker (tie K) for SimplePredicateVisitor.apply_logical_* over the REGENERATED helpers
   (Gen/PredVisitGen.v).  The composition below is PredicateVisitor._visit_logical_and / _or / _not (queries/visitors.py,
   @final): AND over the groups of OR over the leaves, NOT applied to the visit of its operand; visiting a leaf with
   the harness's substituting visitor returns the replacement for its atom (None = unchanged). *)
From Coq Require Import NArith List Bool.
From V Require Import Base.Tri Model.Pred Model.PredCheck Gen.PredGen Gen.PredVisitGen.
Import ListNotations.

Definition sub_of (s : list (atom * cnf)) (a : atom) : option cnf :=
  match find (fun x => N.eqb (fst x) a) s with Some x => Some (snd x) | None => None end.
Definition visit_leaf (s : list (atom * cnf)) (l : lit) : option cnf :=
  match l with
  | Pos a => sub_of s a
  | Neg a => py_apply_logical_not a (sub_of s a)
  end.
Definition visit_group (s : list (atom * cnf)) (g : list lit) : option cnf :=
  py_apply_logical_or g (map (visit_leaf s) g).
(* identity flags false: a flag can only be true for equal operands, where _impl_and's two branches agree in value *)
Definition visit_pred (s : list (atom * cnf)) (p : cnf) : option cnf :=
  py_apply_logical_and p (map (fun g => match visit_group s g with Some r => Some (false, r) | None => None end) p).

(* (n atoms, operands of the visited predicate, substitution, visitor returned None, observed table of the result) *)
Definition vcase := (nat * cnf * list (atom * cnf) * bool * list tri)%type.
Definition chk_visit_table (c : vcase) : bool :=
  let '(n, p, s, none, tv) := c in
  match visit_pred s p with
  | Some r => negb none && tris_eqb (table n r) tv
  | None => none && tris_eqb (table n p) tv
  end.
