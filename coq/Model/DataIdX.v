(* Extensions of Model/DataId.v (wave 5; Model/DataId.v itself is imported by other properties and is left untouched).

   1. The `records=` argument of SqlRegistry.expandDataId and the records carried by an expanded DataCoordinate that is
      passed as `dataId`:

          records = dict(records or {})
          if isinstance(dataId, DataCoordinate) and dataId.hasRecords():
              for element_name in dataId.dimensions.elements: records[element_name] = dataId.records[element_name]
          for element_name in lookup_order:
              record = records.get(element_name, ...)
              if record is ...:   <presence check, fetch_one>     (Model/DataId.expand_step)
              if record is not None: <setdefault-check of the implied values>   else: <missing-row rules>

      A supplied record is used AS IS: its own key values are never compared with the data ID (only its implied values
      are, by the same setdefault loop), there is no presence check for the element and no fetch.  A supplied `None`
      means "no such row" and gets the missing-row treatment.

   2. DirectButler._rewrite_data_id (alternate keys / record specifiers), reduced to its core: every dimension that is
      given through record fields (`exposure.obs_id`, a `str` for an `int` key, an unrecognised keyword that is a
      metadata / unique-key field of a candidate dimension) is replaced by the primary key of THE stored row that
      matches the fields and the already known key values; zero or several matching rows are DimensionValueError; a
      dimension given both explicitly and through fields is checked against its row.  (The guessing of which dimension
      an unqualified field belongs to and the visit_system tie-break are not modelled.) *)
From Coq Require Import String List Bool Arith ZArith.
From V Require Import Model.Universe Model.DataId.
Import ListNotations.
Open Scope string_scope.
Open Scope list_scope.

(* ---------------------------------------------------------------------------------------------------------------- *)
(* 1. expandDataId with supplied records                                                                            *)
(* ---------------------------------------------------------------------------------------------------------------- *)
Definition expand_step_r (u : universe) (D : db) (G : group) (given : recmap) (st : amap * recmap) (x : string)
    : result (amap * recmap) :=
  match aget given x with
  | None => expand_step u D G st x
  | Some ro =>
    let '(keys, recs) := st in
    match find_elem u x with
    | None => Err EKeyError
    | Some e =>
      match ro with
      | Some r => rbind (check_implied keys (zip_pad (eimp e) (rimp r)))
                        (fun keys' => Ok (keys', recs ++ [(x, Some r)]))
      | None =>
        if memb x (gnames G) then Err EDataIdValue
        else if defines_rel e then Err EInconsistent
        else Ok (keys, recs ++ [(x, None)])
      end
    end
  end.

Definition expand_loop_r (u : universe) (D : db) (G : group) (given : recmap) (order : list string) (st : amap * recmap)
    : result (amap * recmap) :=
  fold_left (fun acc x => rbind acc (fun s => expand_step_r u D G given s x)) order (Ok st).

Definition expand_keys_r (u : universe) (D : db) (G : group) (given : recmap) (keys0 : amap) : result (amap * recmap) :=
  match glookup G with
  | GOk order => expand_loop_r u D G given order (keys0, [])
  | GKeyError => Err EKeyError
  | GOutOfFuel => Err EOutOfFuel
  end.

(* the part of expandDataId after the first standardize, with the supplied records *)
Definition expand_r (u : universe) (D : db) (given : recmap) (d : dataid) : result dataid :=
  if has_recs d then Ok d
  else rbind (expand_keys_r u D (dgroup d) given (dmapping d)) (fun kr =>
         rbind (std_core (dgroup d) (fst kr)) (fun s => expanded_with s (snd kr))).

(* expandDataId(mapping, dimensions=dims, records=given, **kwargs) *)
Definition expand_data_id_r (u : universe) (D : db) (given : recmap) (dims : option (list string))
    (mapping kwargs defaults : amap) : result dataid :=
  rbind (standardize u dims mapping kwargs defaults) (expand_r u D given).

(* the records an expanded DataCoordinate brings along: one entry per element of ITS group *)
Definition carried_records (d : dataid) : recmap :=
  match drecs d with
  | None => []
  | Some r => map (fun e => (e, match aget r e with Some x => x | None => None end)) (gelements (dgroup d))
  end.

(* expandDataId(dataId : DataCoordinate, dimensions=dims, records=given, **kwargs): the carried records override the
   supplied ones *)
Definition expand_data_id_dc (u : universe) (D : db) (given : recmap) (dims : option (list string)) (d : dataid)
    (kwargs defaults : amap) : result dataid :=
  rbind (standardize_dc u dims d kwargs defaults) (expand_r u D (carried_records d ++ given)).

(* ---------------------------------------------------------------------------------------------------------------- *)
(* 1b. the fetch key exactly as the code computes it                                                                *)
(* ---------------------------------------------------------------------------------------------------------------- *)
(* `fetch_one(element_name, DataCoordinate.standardize(keys, dimensions=element.minimal_group), cache)` and, inside,
   `data_id[dimension_name] for dimension_name in element.required.names`: the key values go through a data ID over the
   element's MINIMAL GROUP.  Model/DataId.expand_step reads them straight from `keys`; that is the same thing exactly
   when the minimal group's required dimensions are the element's own (Model/DataIdCheck.minimal_required_ok: true of
   the current universe and of daf_butler universes 2..7, FALSE for universes 0 and 1, where visit_definition requires
   {instrument, visit_system, exposure} and implies visit, visit implies visit_system, so its minimal group requires
   `visit`).  The `_x` functions below follow the code in every universe. *)
Definition fetch_key (u : universe) (e : elem) (keys : amap) : result (list value) :=
  match mkgroup u (deps e) with
  | GOk M =>
    rbind (std_core M keys) (fun di =>
      match map_opt (dc_get di) (ereq e) with Some kv => Ok kv | None => Err EKeyError end)
  | GKeyError => Err EKeyError
  | GOutOfFuel => Err EOutOfFuel
  end.

Definition expand_step_m (u : universe) (D : db) (G : group) (st : amap * recmap) (x : string) : result (amap * recmap) :=
  let '(keys, recs) := st in
  match find_elem u x with
  | None => Err EKeyError
  | Some e =>
    if is_dimension e && negb (present keys x) then Err EDimensionName
    else match fetch_key u e keys with
         | Err er => Err er
         | Ok kv =>
           match fetch D e kv with
           | Some r => rbind (check_implied keys (zip_pad (eimp e) (rimp r)))
                             (fun keys' => Ok (keys', recs ++ [(x, Some r)]))
           | None =>
             if memb x (gnames G) then Err EDataIdValue
             else if defines_rel e then Err EInconsistent
             else Ok (keys, recs ++ [(x, None)])
           end
         end
  end.

Definition expand_step_x (u : universe) (D : db) (G : group) (given : recmap) (st : amap * recmap) (x : string)
    : result (amap * recmap) :=
  match aget given x with
  | None => expand_step_m u D G st x
  | Some ro =>
    let '(keys, recs) := st in
    match find_elem u x with
    | None => Err EKeyError
    | Some e =>
      match ro with
      | Some r => rbind (check_implied keys (zip_pad (eimp e) (rimp r)))
                        (fun keys' => Ok (keys', recs ++ [(x, Some r)]))
      | None =>
        if memb x (gnames G) then Err EDataIdValue
        else if defines_rel e then Err EInconsistent
        else Ok (keys, recs ++ [(x, None)])
      end
    end
  end.

Definition expand_loop_x (u : universe) (D : db) (G : group) (given : recmap) (order : list string) (st : amap * recmap)
    : result (amap * recmap) :=
  fold_left (fun acc x => rbind acc (fun s => expand_step_x u D G given s x)) order (Ok st).

Definition expand_keys_x (u : universe) (D : db) (G : group) (given : recmap) (keys0 : amap) : result (amap * recmap) :=
  match glookup G with
  | GOk order => expand_loop_x u D G given order (keys0, [])
  | GKeyError => Err EKeyError
  | GOutOfFuel => Err EOutOfFuel
  end.

Definition expand_x (u : universe) (D : db) (given : recmap) (d : dataid) : result dataid :=
  if has_recs d then Ok d
  else rbind (expand_keys_x u D (dgroup d) given (dmapping d)) (fun kr =>
         rbind (std_core (dgroup d) (fst kr)) (fun s => expanded_with s (snd kr))).

Definition expand_data_id_x (u : universe) (D : db) (given : recmap) (dims : option (list string))
    (mapping kwargs defaults : amap) : result dataid :=
  rbind (standardize u dims mapping kwargs defaults) (expand_x u D given).

Definition expand_data_id_dc_x (u : universe) (D : db) (given : recmap) (dims : option (list string)) (d : dataid)
    (kwargs defaults : amap) : result dataid :=
  rbind (standardize_dc u dims d kwargs defaults) (expand_x u D (carried_records d ++ given)).

(* ---------------------------------------------------------------------------------------------------------------- *)
(* 1c. DataCoordinate arguments after /repo 822ddb5 and b51cefc                                                     *)
(* ---------------------------------------------------------------------------------------------------------------- *)
(* 822ddb5: the `mapping.subset(dimensions.names)` short-cut of standardize translates subset's KeyError into
   DimensionNameError.  (standardize_dc of Model/DataId.v is the code before that commit.) *)
Definition standardize_dc2 (u : universe) (dims : option (list string)) (d : dataid) (kwargs defaults : amap) : result dataid :=
  match dims with
  | None => standardize_dc u None d kwargs defaults
  | Some l =>
    rbind (conform_id u l) (fun G =>
      if forallb (fun k => negb (memb k (gnames G))) (akeys kwargs)
      then match subset u d (gnames G) with Err EKeyError => Err EDimensionName | r => r end
      else std_core G ((kwargs ++ dmapping d) ++ defaults))
  end.

(* b51cefc: the records attached to the argument are reused only when
   `all(standardized.mapping.get(k, v) == v for k, v in dataId.mapping.items())` *)
Definition carried_ok (d s : dataid) : bool :=
  forallb (fun kv => match dc_get s (fst kv) with Some w => value_eqb w (snd kv) | None => true end) (dmapping d).

Definition carried_records2 (d s : dataid) : recmap := if carried_ok d s then carried_records d else [].

(* expandDataId(dataId : DataCoordinate, ...) as repaired; direct-key and code-exact fetch *)
Definition expand_data_id_dc2 (u : universe) (D : db) (given : recmap) (dims : option (list string)) (d : dataid)
    (kwargs defaults : amap) : result dataid :=
  rbind (standardize_dc2 u dims d kwargs defaults) (fun s => expand_r u D (carried_records2 d s ++ given) s).

Definition expand_data_id_dc_x2 (u : universe) (D : db) (given : recmap) (dims : option (list string)) (d : dataid)
    (kwargs defaults : amap) : result dataid :=
  rbind (standardize_dc2 u dims d kwargs defaults) (fun s => expand_x u D (carried_records2 d s ++ given) s).

(* ---------------------------------------------------------------------------------------------------------------- *)
(* 1d. DataCoordinate arguments after /repo 43639c3 (the shipped model)                                             *)
(* ---------------------------------------------------------------------------------------------------------------- *)
(* 43639c3 replaces b51cefc's whole-mapping test: every record of the argument is carried again, and INSIDE the walk a carried,
   non-None record is discarded (and the element fetched like a missing one) when
       any(keys.get(k) != v for k, v in record.dataId.required.items())
   i.e. when the record's OWN required key values differ from the keys of the data ID being expanded at that point of the
   walk.  `record.dataId` is a data ID over the element's minimal group built from the record's required values. *)
Definition rec_key_items (u : universe) (e : elem) (r : record) : amap :=
  match mkgroup u (deps e) with
  | GOk M => combine (grequired M) (rkey r)
  | _ => combine (ereq e) (rkey r)
  end.

Definition carried_valid (u : universe) (e : elem) (keys : amap) (r : record) : bool :=
  forallb (fun kv => match aget keys (fst kv) with Some w => value_eqb w (snd kv) | None => false end) (rec_key_items u e r).

Definition expand_step_c (u : universe) (D : db) (G : group) (carried given : recmap) (st : amap * recmap) (x : string)
    : result (amap * recmap) :=
  match aget carried x with
  | None => expand_step_x u D G given st x
  | Some ro =>
    let '(keys, recs) := st in
    match find_elem u x with
    | None => Err EKeyError
    | Some e =>
      match ro with
      | Some r =>
        if carried_valid u e keys r
        then rbind (check_implied keys (zip_pad (eimp e) (rimp r))) (fun keys' => Ok (keys', recs ++ [(x, Some r)]))
        else expand_step_m u D G st x
      | None =>
        if memb x (gnames G) then Err EDataIdValue
        else if defines_rel e then Err EInconsistent
        else Ok (keys, recs ++ [(x, None)])
      end
    end
  end.

Definition expand_loop_c (u : universe) (D : db) (G : group) (carried given : recmap) (order : list string) (st : amap * recmap)
    : result (amap * recmap) :=
  fold_left (fun acc x => rbind acc (fun s => expand_step_c u D G carried given s x)) order (Ok st).

Definition expand_keys_c (u : universe) (D : db) (G : group) (carried given : recmap) (keys0 : amap) : result (amap * recmap) :=
  match glookup G with
  | GOk order => expand_loop_c u D G carried given order (keys0, [])
  | GKeyError => Err EKeyError
  | GOutOfFuel => Err EOutOfFuel
  end.

Definition expand_c (u : universe) (D : db) (carried given : recmap) (d : dataid) : result dataid :=
  if has_recs d then Ok d
  else rbind (expand_keys_c u D (dgroup d) carried given (dmapping d)) (fun kr =>
         rbind (std_core (dgroup d) (fst kr)) (fun s => expanded_with s (snd kr))).

(* expandDataId(dataId : DataCoordinate, dimensions=, records=given, **kwargs) as shipped since 43639c3 *)
Definition expand_data_id_dc_x3 (u : universe) (D : db) (given : recmap) (dims : option (list string)) (d : dataid)
    (kwargs defaults : amap) : result dataid :=
  rbind (standardize_dc2 u dims d kwargs defaults) (expand_c u D (carried_records d) given).

(* ---------------------------------------------------------------------------------------------------------------- *)
(* 2. alternate keys                                                                                                *)
(* ---------------------------------------------------------------------------------------------------------------- *)
(* a stored row as _rewrite_data_id sees it: the values of the dimension's required dimensions (in `required` order, the
   dimension's own primary key last), of its implied dimensions, and its other fields by name (alternate keys, metadata) *)
Record frow := mkFRow { fkey : list value; fimp : list value; ffields : amap }.
Definition fdb := list (string * list frow).
Definition frows (F : fdb) (n : string) : list frow := match aget F n with Some l => l | None => [] end.

Inductive rw_err := RWNoMatch | RWAmbiguous | RWInconsistent | RWUnknownDimension.
Inductive rw_result (A : Type) := RWOk (a : A) | RWErr (e : rw_err).
Arguments RWOk {A} a.
Arguments RWErr {A} e.

(* does the row agree with every value the data ID already has for the listed dimensions (all but `skip`); a dimension
   the data ID does not mention does not constrain *)
Fixpoint key_agrees (names : list string) (vals : list value) (skip : option string) (known : amap) : bool :=
  match names, vals with
  | n :: ns, v :: vs =>
    (if match skip with Some s => String.eqb n s | None => false end then true
     else match aget known n with Some w => value_eqb w v | None => true end) && key_agrees ns vs skip known
  | [], [] => true
  | _, _ => false
  end.

(* ... and with every field constraint *)
Definition fields_agree (r : frow) (constraints : amap) : bool :=
  forallb (fun kv => match aget (ffields r) (fst kv) with Some w => value_eqb w (snd kv) | None => false end) constraints.

(* the query for a dimension given ONLY through fields: constrained by the fields and by the data ID's values for the
   dimension's required and implied dimensions (`filtered_data_id`: keys of the minimal group; values of dimensions
   implied only transitively are not modelled) *)
Definition matching_rows (u : universe) (F : fdb) (dn : string) (constraints known : amap) : list frow :=
  match find_elem u dn with
  | None => []
  | Some e => filter (fun r => key_agrees (ereq e) (fkey r) (Some dn) known && key_agrees (eimp e) (fimp r) None known
                               && fields_agree r constraints) (frows F dn)
  end.

(* the rows an explicit value identifies: `query_dimension_records(dn, data_id={k: v for k in required})` *)
Definition explicit_rows (u : universe) (F : fdb) (dn : string) (known : amap) : list frow :=
  match find_elem u dn with
  | None => []
  | Some e => filter (fun r => key_agrees (ereq e) (fkey r) None known) (frows F dn)
  end.

(* one entry of `byRecord`: dimension dn constrained by `constraints` *)
Definition rewrite_one (u : universe) (F : fdb) (known : amap) (dn : string) (constraints : amap) : rw_result amap :=
  match find_elem u dn with
  | None => RWErr RWUnknownDimension
  | Some e =>
    if negb (is_dimension e) then RWErr RWUnknownDimension
    else if has_key known dn then
      (* explicit value as well: fetch its row and compare the fields; several rows: "let downstream complain" *)
      match explicit_rows u F dn known with
      | [] => RWErr RWNoMatch
      | [r] => if fields_agree r constraints then RWOk known else RWErr RWInconsistent
      | _ => RWOk known
      end
    else
      match matching_rows u F dn constraints known with
      | [] => RWErr RWNoMatch
      | [r] => RWOk (known ++ [(dn, last (fkey r) VNone)])
      | _ => RWErr RWAmbiguous
      end
  end.

(* all of `byRecord`, in order *)
Fixpoint rewrite_all (u : universe) (F : fdb) (known : amap) (by_record : list (string * amap)) : rw_result amap :=
  match by_record with
  | [] => RWOk known
  | (dn, cs) :: rest =>
    match rewrite_one u F known dn cs with
    | RWOk k' => rewrite_all u F k' rest
    | RWErr e => RWErr e
    end
  end.
