(* Correspondence checkers for C09 (evaluated by vm_compute on cases recorded from the real Butler). *)
From Coq Require Import String Ascii List Bool NArith.
From V Require Import Model.Template Gen.TemplateGen Model.Trash.
Import ListNotations.
Open Scope string_scope.

Definition out_code (o : outcome) : N :=
  match o with
  | Done => 0 | Refused Conflict => 1 | Refused NotFound => 2 | Refused ValueErr => 3
  | Refused KeyErr => 4 | Refused RuntimeErr => 5
  end%N.

(* observation after one operation: outcome, every file, record rows, live ids, trashed ids *)
Record obs := mkObs { o_out : N; o_files : list (lkey * N); o_recs : list (N * string); o_live : list N; o_trash : list N }.

Definition files_agree (m o : list (lkey * N)) : bool :=
  Nat.eqb (length m) (length o)
  && forallb (fun kv => match fget m (fst kv) with Some v => N.eqb v (snd kv) | None => false end) o.

Definition row_eqb (a b : N * string) : bool := N.eqb (fst a) (fst b) && String.eqb (snd a) (snd b).
Definition count {A} (eqb : A -> A -> bool) (x : A) (l : list A) : nat := length (filter (eqb x) l).
Definition bag_agree {A} (eqb : A -> A -> bool) (m o : list A) : bool :=
  Nat.eqb (length m) (length o) && forallb (fun x => Nat.eqb (count eqb x m) (count eqb x o)) o.

Definition state_agrees (s : state) (o : obs) : bool :=
  files_agree (fs s) (o_files o) && bag_agree row_eqb (recs s) (o_recs o)
  && bag_agree N.eqb (live s) (o_live o) && bag_agree N.eqb (trash s) (o_trash o).

Fixpoint chk_steps (s : state) (l : list (op * obs)) : bool :=
  match l with
  | [] => true
  | (x, o) :: r =>
      let (s', out) := step s x in
      N.eqb (out_code out) (o_out o) && state_agrees s' o && chk_steps s' r
  end.

Definition init_state (files : list (lkey * N)) : state := mkState [] [] [] files.

Definition chk_hist (c : list (lkey * N) * list (op * obs)) : bool := chk_steps (init_state (fst c)) (snd c).

(* index of the first disagreeing step and the model's view there (diagnostics only) *)
Fixpoint first_bad (n : N) (s : state) (l : list (op * obs)) : option (N * N * state) :=
  match l with
  | [] => None
  | (x, o) :: r =>
      let (s', out) := step s x in
      if N.eqb (out_code out) (o_out o) && state_agrees s' o then first_bad (N.succ n) s' r
      else Some (n, out_code out, s')
  end.

(* the guards of the theorems, evaluated along a history: (sharing_visible, target inside, recs inside,
   put coherent, live/trash disjoint) at the state BEFORE each step *)
Definition guard_ok (s : state) (x : op) : bool :=
  sharing_visible s && target_inside x && recs_inside s && put_coherent x && live_trash_disjoint s.

Fixpoint guards (s : state) (l : list op) : list (bool * bool * bool * bool * bool) :=
  match l with
  | [] => []
  | x :: r => (sharing_visible s, target_inside x, recs_inside s, put_coherent x, live_trash_disjoint s)
              :: guards (fst (step s x)) r
  end.

(* cross-check theorem <-> oracle over a WHOLE history: the flag of a step says that the property oracle (evaluated on the
   implementation's observations alone) failed at that step; every such step must have a violated guard in the model's
   state before it -- otherwise the theorems plus the correspondence would contradict the oracle *)
Fixpoint chk_xguard_steps (s : state) (l : list (op * bool)) : bool :=
  match l with
  | [] => true
  | (x, failed) :: r => (negb failed || negb (guard_ok s x)) && chk_xguard_steps (fst (step s x)) r
  end.
Definition chk_xguard (c : list (lkey * N) * list (op * bool)) : bool := chk_xguard_steps (init_state (fst c)) (snd c).

(* number of steps of a history at which every guard holds (coverage evidence) *)
Fixpoint guarded_steps (s : state) (l : list op) : N :=
  match l with
  | [] => 0%N
  | x :: r => ((if guard_ok s x then 1 else 0) + guarded_steps (fst (step s x)) r)%N
  end.

(* template + location cases: fields, extension, observed (kept text, location) or error code *)
Definition chk_path (c : fields * string * (option (string * lkey))) : bool :=
  let '(f, ext, o) := c in
  match gen_format GEN_DEFAULT f, o with
  | FOk p, None => refuse_w true true p
  | FOk p, Some (text, wh) => negb (refuse_w true true p) && ext_bridge p ext && ingest_leads_back p ext && put_leads_back p ext && String.eqb (target_text p ext) text && lkey_eqb (target_loc p ext) wh
  | FOutside, None => true
  | _, _ => false
  end.
