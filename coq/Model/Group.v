(* Model of dimension-universe CONSTRUCTION (DimensionConfig.makeBuilder, DimensionConstructionBuilder.finish,
   _ElementConfig.visit, _SkyPixSystemConfig.visit, DatabaseTopologicalFamilyConstructionVisitor.visit) from
   the raw YAML content, plus the executable specification predicates used by Props/C12.v for the shipped
   universes.  The raw configurations themselves are REGENERATED from /repo into Gen/Universes.v.

   rawconf                     what the translator extracts from a dimensions YAML file
   build : rawconf -> option universe      None = construction raises (cycle, unmet dependency, bad family ...)
   universe_of r               build r, or [] when construction fails
   all_subsets l               the 2^|l| sub-lists of l
   lookup_okb u g              lookup_order is a permutation of elements; every element comes after its required
                               dimensions; every implied dimension comes after SOME member that implies it
   lookup_strictb u g          the docstring's stronger claim: after EVERY member that implies it *)
From Coq Require Import String Ascii List Bool Arith.
From V Require Import Model.Universe.
Import ListNotations.
Open Scope string_scope.
Open Scope list_scope.

Record relem := mkRElem {
  rname : string;
  rkeys : bool;          (* has a non-empty `keys` list: a Dimension; otherwise a DimensionCombination *)
  rgov : bool;
  rreq : list string;    (* `requires` as written *)
  rimp : list string;    (* `implies` as written *)
  ralways : bool;
  rpop : option string
}.

Record rsys := mkRSys { sname : string; smin : nat; smax : nat }.

Record rawconf := mkRaw {
  rversion : nat;
  rsystems : list rsys;
  relems : list relem;
  rspatial : list (string * list string);
  rtemporal : list (string * list string)
}.

Definition digit (n : nat) : ascii := ascii_of_nat (48 + n).
Definition level_string (n : nat) : string :=
  if Nat.ltb n 10 then String (digit n) EmptyString
  else String (digit (n / 10)) (String (digit (n mod 10)) EmptyString).

(* range(min_level, max_level + 1) *)
Fixpoint levels (count start : nat) : list nat :=
  match count with O => [] | S c => start :: levels c (S start) end.

Definition sys_elems (s : rsys) : list elem :=
  map (fun l => let n := (sname s ++ level_string l)%string in
                {| ename := n; ekind := KSkyPix; ereq := [n]; eimp := []; ealways := false; epop := Some n;
                   espatial := Some (sname s); etemporal := None |})
      (levels (S (smax s) - smin s) (smin s)).

Inductive item := ISys (s : rsys) | IElem (r : relem).
Definition item_name (it : item) : string := match it with ISys s => sname s | IElem r => rname r end.
Definition item_deps (it : item) : list string := match it with ISys _ => [] | IElem r => rreq r ++ rimp r end.

Fixpoint insert_sorted (it : item) (l : list item) : list item :=
  match l with
  | [] => [it]
  | x :: r => if String.leb (item_name it) (item_name x) then it :: l else x :: insert_sorted it r
  end.
Definition sort_items (l : list item) : list item := fold_right insert_sorted [] l.

Definition built_dimension_names (built : list elem) : list string := map ename (filter is_dimension built).

(* `for dependency_name in tuple(self.requires): self.requires.update(builder.dimensions[dependency_name].required.names)` *)
Fixpoint expand_requires (built : list elem) (rq : list string) : option (list string) :=
  match rq with
  | [] => Some []
  | d :: r =>
    match find_elem (filter is_dimension built) d, expand_requires built r with
    | Some e, Some rest => Some (d :: ereq e ++ rest)
    | _, _ => None
    end
  end.

Definition visit (built : list elem) (r : relem) : option elem :=
  let n := rname r in
  if rgov r then
    Some {| ename := n; ekind := KGovernor; ereq := [n]; eimp := []; ealways := false; epop := Some n;
            espatial := None; etemporal := None |}
  else
    match expand_requires built (rreq r) with
    | None => None
    | Some reqs =>
      let required := filter (fun d => memb d reqs) (built_dimension_names built) in
      let implied := filter (fun d => memb d (rimp r)) (built_dimension_names built) in
      if rkeys r then
        if ralways r || (match rpop r with Some _ => true | None => false end) then None
        else Some {| ename := n; ekind := KDimension; ereq := required ++ [n]; eimp := implied; ealways := false;
                     epop := Some n; espatial := None; etemporal := None |}
      else
        match rreq r with
        | [] => None
        | _ :: _ =>
          match rpop r with
          | None => Some {| ename := n; ekind := KCombination; ereq := required; eimp := implied; ealways := ralways r;
                            epop := None; espatial := None; etemporal := None |}
          | Some p => if memb p (built_dimension_names built)
                      then Some {| ename := n; ekind := KCombination; ereq := required; eimp := implied;
                                   ealways := ralways r; epop := Some p; espatial := None; etemporal := None |}
                      else None
          end
        end
    end.

Definition visit_item (built : list elem) (it : item) : option (list elem) :=
  match it with
  | ISys s => Some (built ++ sys_elems s)
  | IElem r => match visit built r with Some e => Some (built ++ [e]) | None => None end
  end.

(* DimensionConstructionBuilder.finish: dependency waves, ties broken lexicographically *)
Fixpoint waves (fuel : nat) (todo : list item) (built : list elem) : option (list elem) :=
  match todo with
  | [] => Some built
  | _ :: _ =>
    match fuel with
    | O => None
    | S f =>
      let names := map item_name todo in
      let unblocked := sort_items (filter (fun it => negb (existsb (fun d => memb d names) (item_deps it))) todo) in
      match unblocked with
      | [] => None
      | _ :: _ =>
        match fold_left (fun acc it => match acc with Some b => visit_item b it | None => None end) unblocked (Some built) with
        | None => None
        | Some built' =>
          waves f (filter (fun it => negb (memb (item_name it) (map item_name unblocked))) todo) built'
        end
      end
    end
  end.

Definition family_ok (built : list elem) (f : string * list string) : bool :=
  forallb (fun m => match find_elem built m with
                    | Some e => match ekind e with KDimension | KCombination => true | _ => false end
                    | None => false end) (snd f).

Definition assign_space (fams : list (string * list string)) (n : string) : option (option string) :=
  match filter (fun f => memb n (snd f)) fams with
  | [] => Some None
  | [f] => Some (Some (fst f))
  | _ => None
  end.

Fixpoint assign_topology (sp tm : list (string * list string)) (built : list elem) : option (list elem) :=
  match built with
  | [] => Some []
  | e :: r =>
    match ekind e with
    | KSkyPix | KGovernor => match assign_topology sp tm r with Some r' => Some (e :: r') | None => None end
    | _ =>
      match assign_space sp (ename e), assign_space tm (ename e), assign_topology sp tm r with
      | Some s, Some t, Some r' =>
        Some ({| ename := ename e; ekind := ekind e; ereq := ereq e; eimp := eimp e; ealways := ealways e;
                 epop := epop e; espatial := s; etemporal := t |} :: r')
      | _, _, _ => None
      end
    end
  end.

Definition build (c : rawconf) : option universe :=
  let todo := map ISys (rsystems c) ++ map IElem (relems c) in
  match waves (S (length todo)) todo [] with
  | None => None
  | Some built =>
    if forallb (family_ok built) (rspatial c) && forallb (family_ok built) (rtemporal c)
    then assign_topology (rspatial c) (rtemporal c) built
    else None
  end.

Definition universe_of (c : rawconf) : universe := match build c with Some u => u | None => [] end.
Definition builds_wf (c : rawconf) : bool :=
  match build c with Some u => wf_universe u && deps_are_dimensions u | None => false end.

(* ---- executable specification predicates ---- *)
Fixpoint all_subsets (l : list string) : list (list string) :=
  match l with
  | [] => [[]]
  | x :: r => let s := all_subsets r in s ++ map (cons x) s
  end.

Definition before (l : list string) (a b : string) : bool := Nat.ltb (index_of a l) (index_of b l).
Definition eimp_of (u : universe) (a : string) : list string :=
  match find_elem u a with Some e => eimp e | None => [] end.

Definition lookup_okb (u : universe) (g : group) : bool :=
  match glookup g with
  | GOk o =>
    nodupb o
    && forallb (fun x => memb x (gelements g)) o && forallb (fun x => memb x o) (gelements g)
    && forallb (fun x => match find_elem u x with
                         | Some e => forallb (fun p => String.eqb p x || (memb p o && before o p x)) (ereq e)
                         | None => false end) o
    && forallb (fun d => existsb (fun a => memb d (eimp_of u a) && before o a d) (gnames g)) (gimplied g)
  | _ => false
  end.

Definition lookup_strictb (u : universe) (g : group) : bool :=
  match glookup g with
  | GOk o => forallb (fun a => forallb (fun d => before o a d) (eimp_of u a)) (gnames g)
  | _ => false
  end.

Definition group_okb (u : universe) (p : universe -> group -> bool) (S : list string) : bool :=
  match mkgroup u S with GOk g => p u g | _ => false end.
