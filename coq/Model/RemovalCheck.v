(* Executable checkers for the correspondence check (tie K) of C10: the harness records, after every step of a
   history run on a real Butler (SQLite registry + POSIX file datastore), the outcome class and what the existence /
   query interfaces, the root listing and the raw bridge tables report; these functions replay the same history on the
   model and say where it differs.  All set-valued observations are compared as sets of rows. *)
From Coq Require Import NArith List Bool.
From V Require Import Model.Removal.
Import ListNotations.
Open Scope N_scope.

Fixpoint leqb (a b : list N) : bool :=
  match a, b with
  | [], [] => true
  | x :: r, y :: s => (x =? y) && leqb r s
  | _, _ => false
  end.
Definition subl (a b : list (list N)) : bool := forallb (fun x => existsb (leqb x) b) a.
Definition seteq (a b : list (list N)) : bool := subl a b && subl b a.

Definition err_code (e : err) : N :=
  match e with
  | Conflict => 2 | MissingColl => 3 | CollType => 5 | TypeErr => 7 | Orphaned => 8 | Integrity => 9 | Cycle => 10
  end.
Definition out_code (o : outcome) : N := match o with Ok => 0 | Err e => err_code e end.
Definition kind_code (k : ckind) : N := match k with Run => 1 | Tagged => 2 | Chain => 3 | Calib => 4 end.
Definition b2n (b : bool) : N := if b then 1 else 0.

Definition m_colls (s : st) := map (fun p => [fst p; kind_code (snd p)]) (colls s).
Definition m_ds (s : st) := map (fun p => [fst p; fst (snd p)]) (ds s).
(* contents of every non-chain collection as rows [collection; dataset] *)
Definition m_members (s : st) :=
  map (fun p => [fst (snd p); fst p]) (ds s) ++ map (fun p => [fst p; snd p]) (tags s)
  ++ map (fun p => [fst (fst p); snd (fst p)]) (calibs s).
Definition m_calibs (s : st) := map (fun p => [fst (fst p); snd (fst p); fst (snd p); snd (snd p)]) (calibs s).
Definition m_loc (s : st) := map (fun d => [d]) (loc s).
Definition m_trash (s : st) := map (fun d => [d]) (trash s).
Definition m_recs (s : st) := map (fun p => [fst p; fst (snd p); snd (snd p)]) (recs s).
Definition m_files (s : st) := map (fun p => [fst p; snd p]) (files s).
Definition flags3 (f : bool * bool * bool) : list N := [b2n (fst (fst f)); b2n (snd (fst f)); b2n (snd f)].
Definition m_flags (s : st) (univ : list N) := map (fun d => d :: flags3 (exists_flags s d)) univ.
Definition m_carried (s : st) (ds_ : list N) := map (fun d => d :: flags3 (exists_flags_carried s d)) ds_.
Definition m_located (s : st) (univ : list N) := map (fun d => [d; b2n (located s d)]) univ.
(* the bulk interfaces asked about the whole universe in one call *)
Definition m_many (s : st) (univ : list N) := map (fun d => d :: flags3 (exists_many_flags s univ d)) univ.
Definition m_stored_many (s : st) (univ : list N) := map (fun d => [d; b2n (stored_many s univ d)]) univ.
(* query_datasets over every CHAINED collection: [chain; dataset] *)
Definition m_chainview (s : st) (univ : list N) :=
  flat_map (fun p => match snd p with
                     | Chain => map (fun d => [fst p; d]) (filter (chain_member (S (S (length (chains s)))) s (fst p)) univ)
                     | _ => []
                     end) (colls s).

Record obs := Obs {
  o_out : N;
  o_colls : list (list N);     (* getCollectionType over the universe: [c; kind] *)
  o_ds : list (list N);        (* raw dataset table: [id; run] *)
  o_members : list (list N);   (* query_datasets / queryDatasetAssociations of every non-chain collection: [c; id] *)
  o_calibs : list (list N);    (* queryDatasetAssociations of CALIBRATION collections: [c; id; begin; end] *)
  o_loc : list (list N);       (* raw dataset_location *)
  o_trash : list (list N);     (* raw dataset_location_trash *)
  o_recs : list (list N);      (* raw file_datastore_records: [id; run; key] of the artifact *)
  o_files : list (list N);     (* root listing: [run; key] *)
  o_flags : list (list N);     (* Butler.exists(ref) for every id of the universe: [id; RECORDED; DATASTORE; _ARTIFACT] *)
  o_located : list (list N);   (* Registry.getDatasetLocations: [id; 0/1] *)
  o_carried : list (list N);   (* Butler.exists(ref carrying datastore records) for the ids that have such a ref *)
  o_many : list (list N);      (* Butler._exists_many(all refs of the universe): [id; RECORDED; DATASTORE; _ARTIFACT] *)
  o_stored_many : list (list N); (* Butler.stored_many(all refs of the universe): [id; 0/1] *)
  o_chainview : list (list N)  (* query_datasets over every CHAINED collection: [chain; id] *)
}.

Section Universe.
  Variable univ : list N.

  (* first differing field of one step: 0 = agrees *)
  Definition chk_step (s : st) (o : outcome) (b : obs) : N :=
    if negb (out_code o =? o_out b) then 1 else
    if negb (seteq (m_colls s) (o_colls b)) then 2 else
    if negb (seteq (m_ds s) (o_ds b)) then 3 else
    if negb (seteq (m_members s) (o_members b)) then 4 else
    if negb (seteq (m_calibs s) (o_calibs b)) then 5 else
    if negb (seteq (m_loc s) (o_loc b)) then 6 else
    if negb (seteq (m_trash s) (o_trash b)) then 7 else
    if negb (seteq (m_recs s) (o_recs b)) then 8 else
    if negb (seteq (m_files s) (o_files b)) then 9 else
    if negb (seteq (m_flags s univ) (o_flags b)) then 10 else
    if negb (seteq (m_located s univ) (o_located b)) then 11 else
    if negb (seteq (m_carried s (map (fun r => match r with d :: _ => d | [] => 0 end) (o_carried b))) (o_carried b)) then 12 else
    if negb (seteq (m_many s univ) (o_many b)) then 13 else
    if negb (seteq (m_stored_many s univ) (o_stored_many b)) then 14 else
    if negb (seteq (m_chainview s univ) (o_chainview b)) then 15
    else 0.

  Fixpoint chk_from (s : st) (i : N) (h : list (op * obs)) : list N :=
    match h with
    | [] => []
    | (o, b) :: r =>
      let '(s', out) := step s o in
      match chk_step s' out b with
      | 0 => chk_from s' (N.succ i) r
      | k => [i; k]
      end
    end.

  Definition chk_where (h : list (op * obs)) : list N := chk_from init 0 h.
  Definition chk_hist (h : list (op * obs)) : bool := match chk_where h with [] => true | _ => false end.
End Universe.

(* model trace for diagnostics / replay files *)
Definition trace (h : list op) : list (N * list (list N)) :=
  (fix go (s : st) (h : list op) :=
     match h with
     | [] => []
     | o :: r => let '(s', out) := step s o in (out_code out, m_ds s' ++ [[99]] ++ m_recs s' ++ [[99]] ++ m_files s') :: go s' r
     end) init h.
