(* C07 correspondence checkers (tie K): evaluated by vm_compute on cases emitted by harness/props/c07.py.
   A case = (staged files, committed pre-history, program, hard-fault flag, observed sequence); the observed sequence is
   the list of final observations of the implementation for the fault at boundary 0, 1, 2, ... with consecutive
   duplicates collapsed, followed by the fault-free run.  The model is run for fuse = 0, 1, ... until the fuse no
   longer fires and its observations, followed by the fault-free one, are collapsed the same way (granularity of
   boundaries is therefore free -- an operation that only reads may have boundaries on one side and none on the
   other; ORDER and CONTENT of the distinct observable results are compared). *)
From Coq Require Import NArith List Bool.
From V Require Import Model.Txn.
Import ListNotations.
Open Scope N_scope.

Definition slots : list N := [0; 1; 2; 3].
Definition govs : list N := [0; 1; 2].
Definition sel (u l : list N) : list N := filter (fun d => mem d l) u.
Definition fvec (f : files) : list N := map (fun d => match fget d f with Some v => v + 1 | None => 0 end) slots.
Definition b2n (b : bool) : N := if b then 1 else 0.

Definition dimvis (s : st) : list N :=
  match dcache s with Some l => sel govs l | None => sel govs (dims (cur s)) end.

(* one observation = a list of N lists (outcome, registry through the client, raw rows, files, staging, pointer) *)
Definition obs_state (s : st) : list (list N) :=
  [ sel slots (ds (cur s)); sel slots (loc (cur s)); sel slots (recs (cur s)); [N.of_nat (length (trash (cur s)))];
    sel slots (tags (cur s)); sel slots (certs (cur s)); sel govs (dims (cur s)); dimvis s;
    fvec (fs s); fvec (ext s); [b2n (match ptr s with [] => true | _ => false end); b2n (match sql s with [] => true | _ => false end)] ].

Definition out_code (r : outcome) : N := match r with Normal => 0 | Raised false => 1 | Raised true => 2 end.

(* run the program with the fuse at j, observe; then run emptyTrash fault-free and observe again *)
Definition final (e : files) (pre : list prog) (p : prog) (h : bool) (j : option nat) : (list (list N)) * bool :=
  let s0 := run_pre shipped pre (init e) in
  (* every run of the implementation opens a fresh Butler on a copy of the repository: its dimension record cache is empty *)
  let s1 := mkst (cur s0) (sql s0) (ptr s0) (fs s0) (ext s0) None j h false in
  let (s2, r) := exec shipped p s1 in
  let fired := match j with Some _ => match fuse s2 with None => true | Some _ => false end | None => false end in
  let s3 := fst (exec shipped (POp EmptyTrash) (set_fuse None s2)) in
  ([out_code r] :: obs_state s2 ++ obs_state s3, fired).

Fixpoint leqb (a b : list N) : bool :=
  match a, b with [], [] => true | x :: a', y :: b' => (x =? y) && leqb a' b' | _, _ => false end.
Fixpoint lleqb (a b : list (list N)) : bool :=
  match a, b with [], [] => true | x :: a', y :: b' => leqb x y && lleqb a' b' | _, _ => false end.
Fixpoint llleqb (a b : list (list (list N))) : bool :=
  match a, b with [], [] => true | x :: a', y :: b' => lleqb x y && llleqb a' b' | _, _ => false end.

Fixpoint compress (l : list (list (list N))) : list (list (list N)) :=
  match l with
  | x :: ((y :: _) as r) => if lleqb x y then compress r else x :: compress r
  | _ => l
  end.

(* observations for fuse = j, j+1, ... while the fuse fires (at most n of them) *)
Fixpoint sweep (n : nat) (e : files) (pre : list prog) (p : prog) (h : bool) (j : nat) : list (list (list N)) :=
  match n with
  | O => []
  | S n' => let (o, fired) := final e pre p h (Some j) in
            if fired then o :: sweep n' e pre p h (S j) else []
  end.

Definition model_seq (e : files) (pre : list prog) (p : prog) (h : bool) : list (list (list N)) :=
  compress (sweep 400 e pre p h 0 ++ [fst (final e pre p h None)]).

Definition case := (files * list prog * prog * bool * list (list (list N)))%type.

Definition chk_case (c : case) : bool :=
  match c with (e, pre, p, h, observed) => llleqb (model_seq e pre p h) observed end.

(* number of boundaries the model sees (evidence only) *)
Definition model_boundaries (e : files) (pre : list prog) (p : prog) : nat := length (sweep 400 e pre p false 0).
