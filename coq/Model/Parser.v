(* C14 model, part 3: the parser of parserYacc.py as a fuelled precedence-climbing parser over tokens.

   The LALR grammar is ambiguous in exactly two places, and PLY resolves both with the `precedence`
   tuple: `expr : expr OR expr | expr AND expr | NOT expr` and `bit_expr : bit_expr (+|-|*|/|%) bit_expr`.
   The binding powers and associativities used here are READ from Gen/GrammarGen.precedence (row index = level),
   so the model follows the table that is in the source now.  Everything else in the grammar is unambiguous:
   bool_primary is left recursive with a `predicate` on the right (so `a = b = c` nests to the left and the
   comparison rows of the table decide nothing), `predicate` is not recursive, unary +/- take a simple_expr.

   Quirks kept: inside an IN list a signed number is ONE NumericLiteral ("-1"), elsewhere it is
   UnaryOp('-', NumericLiteral) (reduce/reduce conflict won by `literal : NUMERIC_LITERAL`); `f(,x)` parses as
   `f(x)` (expr_list : empty, then expr_list COMMA expr); POINT with a wrong number of arguments raises
   ValueError from inside the action (EArity), at the closing parenthesis, before later tokens are read.

   tv : time-literal text -> the time VALUE (None = _parseTimeString rejects it, which the action turns into
   ParseError).  astropy is external; tv is a parameter everywhere. *)
From Coq Require Import ZArith List Bool String Ascii Arith.
From V Require Import Model.ExprTree Model.Lexer Gen.GrammarGen.
Import ListNotations.
Open Scope string_scope.

(* ------------------------------------------------------------- binding powers from the generated table *)
Fixpoint mem_str (k : string) (l : list string) : bool :=
  match l with a :: r => String.eqb a k || mem_str k r | [] => false end.

Fixpoint level_from (n : nat) (tbl : list (assoc * list string)) (k : string) : option (nat * assoc) :=
  match tbl with
  | (a, names) :: r => if mem_str k names then Some (n, a) else level_from (S n) r k
  | [] => None
  end.

(* level 1 = first row (lowest); a token absent from the table has level 0 and is right associative (PLY default) *)
Definition level_of (k : string) : nat * assoc :=
  match level_from 1 GrammarGen.precedence k with Some x => x | None => (0, ARight) end.

Definition bop_name (o : bop) : string :=
  match o with
  | BOr => "OR" | BAnd => "AND" | BEq => "EQ" | BNe => "NE" | BLt => "LT" | BLe => "LE" | BGt => "GT" | BGe => "GE"
  | BOverlaps => "OVERLAPS" | BAdd => "ADD" | BSub => "SUB" | BMul => "MUL" | BDiv => "DIV" | BMod => "MOD"
  end.
Definition lvl (o : bop) : nat := fst (level_of (bop_name o)).
Definition asc (o : bop) : assoc := snd (level_of (bop_name o)).
(* minimum level accepted for the right operand of o *)
Definition rmin (o : bop) : nat := match asc o with ARight => lvl o | _ => S (lvl o) end.
Definition not_lvl : nat := fst (level_of "NOT").

Definition arith_op (t : token) : option bop :=
  match t with TADD => Some BAdd | TSUB => Some BSub | TMUL => Some BMul | TDIV => Some BDiv | TMOD => Some BMod | _ => None end.
Definition cmp_op (t : token) : option bop :=
  match t with TEQ => Some BEq | TNE => Some BNe | TLT => Some BLt | TLE => Some BLe | TGT => Some BGt | TGE => Some BGe
  | TOVERLAPS => Some BOverlaps | _ => None end.
Definition logic_op (t : token) : option bop :=
  match t with TOR => Some BOr | TAND => Some BAnd | _ => None end.

Definition R := pres (tree * list token).
Definition RL := pres (list tree * list token).

Definition bind {A B} (r : pres A) (k : A -> pres B) : pres B :=
  match r with POk a => k a | PErr e => PErr e | PFuel => PFuel end.

(* function_call(): POINT (any case) with exactly two arguments is a PointNode, with another count ValueError *)
(* PLY fetches the lookahead before it reduces `function_call` (the state is not a defaulted one), so the
   arity error is only reached when the token after the closing parenthesis can follow a simple_expr;
   otherwise the syntax (or lexer) error at that token comes first. *)
Definition follows_simple (ts : list token) : bool :=
  match ts with
  | [] => true
  | t :: _ =>
      match t with
      | TADD | TSUB | TMUL | TDIV | TMOD | TEQ | TNE | TLT | TLE | TGT | TGE | TOVERLAPS
      | TIN | TNOT | TAND | TOR | TRP | TCOMMA => true
      | _ => false
      end
  end.

Definition mk_call (f : string) (args : list tree) (rest : list token) : pres tree :=
  if String.eqb (upper f) "POINT" then
    match args with
    | [a; b] => POk (Point a b)
    | _ => if follows_simple rest then PErr EArity else PErr ESyntax
    end
  else POk (Call f args).

Section Parse.
  Variable tv : string -> option string.

  (* one item of literal_or_id_list *)
  Definition p_item (ts : list token) : R :=
    match ts with
    | TNum s :: r => POk (Num s, r)
    | TADD :: TNum s :: r => POk (Num (String "+"%char s), r)
    | TSUB :: TNum s :: r => POk (Num (String "-"%char s), r)
    | TStr s :: r => POk (Str s, r)
    | TTime s :: r => match tv s with Some v => POk (Time v, r) | None => PErr ESyntax end
    | TRange a b st :: r => POk (Range a b st, r)
    | TId s :: r => POk (Ident s, r)
    | TQId s :: r => POk (Ident s, r)
    | TBind s :: r => POk (Bind s, r)
    | _ => PErr ESyntax
    end.

  (* literal_or_id_list RPAREN, after the opening parenthesis: one or more items *)
  Fixpoint p_inlist (fuel : nat) (ts : list token) : RL :=
    match fuel with
    | O => PFuel
    | S f =>
        bind (p_item ts) (fun '(x, r) =>
          match r with
          | TRP :: r' => POk ([x], r')
          | TCOMMA :: r' => bind (p_inlist f r') (fun '(xs, r'') => POk (x :: xs, r''))
          | _ => PErr ESyntax
          end)
    end.

  Fixpoint p_simple (fuel : nat) (ts : list token) {struct fuel} : R :=
    match fuel with
    | O => PFuel
    | S f =>
        match ts with
        | TNum s :: r => POk (Num s, r)
        | TStr s :: r => POk (Str s, r)
        | TTime s :: r => match tv s with Some v => POk (Time v, r) | None => PErr ESyntax end
        | TRange a b st :: r => POk (Range a b st, r)
        | TQId s :: r => POk (Ident s, r)
        | TBind s :: r => POk (Bind s, r)
        | TId s :: TLP :: r =>
            bind (p_args f r) (fun '(args, r') => bind (mk_call s args r') (fun t => POk (t, r')))
        | TId s :: r => POk (Ident s, r)
        | TADD :: r => bind (p_simple f r) (fun '(x, r') => POk (Unary UPlus x, r'))
        | TSUB :: r => bind (p_simple f r) (fun '(x, r') => POk (Unary UMinus x, r'))
        | TLP :: r =>
            bind (p_expr f 0 r) (fun '(e, r') =>
              match r' with
              | TRP :: r'' => POk (Parens e, r'')
              | TCOMMA :: r'' =>
                  bind (p_expr f 0 r'') (fun '(e2, r3) =>
                    match r3 with TRP :: r4 => POk (Tuple e e2, r4) | _ => PErr ESyntax end)
              | _ => PErr ESyntax
              end)
        | _ => PErr ESyntax
        end
    end

  (* expr_list RPAREN after the opening parenthesis of a call *)
  with p_args (fuel : nat) (ts : list token) {struct fuel} : RL :=
    match fuel with
    | O => PFuel
    | S f =>
        match ts with
        | TRP :: r => POk ([], r)
        | TCOMMA :: _ => p_args_tail f ts          (* expr_list : empty, then COMMA expr *)
        | _ => bind (p_expr f 0 ts) (fun '(e, r) => bind (p_args_tail f r) (fun '(es, r') => POk (e :: es, r')))
        end
    end

  with p_args_tail (fuel : nat) (ts : list token) {struct fuel} : RL :=
    match fuel with
    | O => PFuel
    | S f =>
        match ts with
        | TRP :: r => POk ([], r)
        | TCOMMA :: r => bind (p_expr f 0 r) (fun '(e, r') => bind (p_args_tail f r') (fun '(es, r'') => POk (e :: es, r'')))
        | _ => PErr ESyntax
        end
    end

  (* bit_expr with every operator of level >= minp *)
  with p_bit (fuel : nat) (minp : nat) (ts : list token) {struct fuel} : R :=
    match fuel with
    | O => PFuel
    | S f => bind (p_simple f ts) (fun '(l, r) => p_bit_loop f minp l r)
    end

  with p_bit_loop (fuel : nat) (minp : nat) (l : tree) (ts : list token) {struct fuel} : R :=
    match fuel with
    | O => PFuel
    | S f =>
        match ts with
        | t :: r =>
            match arith_op t with
            | Some o =>
                if Nat.leb minp (lvl o)
                then bind (p_bit f (rmin o) r) (fun '(x, r') => p_bit_loop f minp (Binary l o x) r')
                else POk (l, ts)
            | None => POk (l, ts)
            end
        | [] => POk (l, ts)
        end
    end

  (* predicate *)
  with p_pred (fuel : nat) (ts : list token) {struct fuel} : R :=
    match fuel with
    | O => PFuel
    | S f =>
        bind (p_bit f 0 ts) (fun '(l, r) =>
          match r with
          | TIN :: TLP :: r' => bind (p_inlist f r') (fun '(vs, r'') => POk (IsIn l vs false, r''))
          | TIN :: _ => PErr ESyntax
          | TNOT :: TIN :: TLP :: r' => bind (p_inlist f r') (fun '(vs, r'') => POk (IsIn l vs true, r''))
          | TNOT :: _ => PErr ESyntax
          | _ => POk (l, r)
          end)
    end

  (* bool_primary: left-nested chain of comparisons *)
  with p_bprim (fuel : nat) (ts : list token) {struct fuel} : R :=
    match fuel with
    | O => PFuel
    | S f => bind (p_pred f ts) (fun '(l, r) => p_bprim_loop f l r)
    end

  with p_bprim_loop (fuel : nat) (l : tree) (ts : list token) {struct fuel} : R :=
    match fuel with
    | O => PFuel
    | S f =>
        match ts with
        | t :: r =>
            match cmp_op t with
            | Some o => bind (p_pred f r) (fun '(x, r') => p_bprim_loop f (Binary l o x) r')
            | None => POk (l, ts)
            end
        | [] => POk (l, ts)
        end
    end

  (* expr with every boolean operator of level >= minp *)
  with p_expr (fuel : nat) (minp : nat) (ts : list token) {struct fuel} : R :=
    match fuel with
    | O => PFuel
    | S f =>
        match ts with
        | TNOT :: r => bind (p_expr f not_lvl r) (fun '(x, r') => p_expr_loop f minp (Unary UNot x) r')
        | _ => bind (p_bprim f ts) (fun '(l, r) => p_expr_loop f minp l r)
        end
    end

  with p_expr_loop (fuel : nat) (minp : nat) (l : tree) (ts : list token) {struct fuel} : R :=
    match fuel with
    | O => PFuel
    | S f =>
        match ts with
        | t :: r =>
            match logic_op t with
            | Some o =>
                if Nat.leb minp (lvl o)
                then bind (p_expr f (rmin o) r) (fun '(x, r') => p_expr_loop f minp (Binary l o x) r')
                else POk (l, ts)
            | None => POk (l, ts)
            end
        | [] => POk (l, ts)
        end
    end.

  (* input : expr | empty *)
  Definition parse (fuel : nat) (ts : list token) : pres (option tree) :=
    match ts with
    | [] => POk None
    | _ => bind (p_expr fuel 0 ts) (fun '(t, r) => match r with [] => POk (Some t) | _ => PErr ESyntax end)
    end.

  Definition fuel_for (ts : list token) : nat := 12 * List.length ts + 20.
  Definition parse_tokens (ts : list token) : pres (option tree) := parse (fuel_for ts) ts.
  Definition parse_string (s : string) : pres (option tree) := parse_tokens (lex s).
  Definition parse_codes (codes : list N) : pres (option tree) := parse_tokens (lexN codes).
End Parse.
