(* C18 -- correspondence checkers: the harness records what the implementation produced (wire JSON from
   to_json(), the state of the object that from_json gave back, Config.names()/[]/in results) and these
   functions say whether the models in Serial.v / ConfigKey.v predict exactly that.  Evaluated by vm_compute. *)
From Coq Require Import ZArith NArith List Bool String.
From V Require Import Model.Serial Model.SerialX Model.SerialCtx Model.ConfigKey.
Import ListNotations.

(* ---------- Serial ---------- *)
Definition same_json (a : option jv) (b : jv) : bool := match a with Some x => jv_eqb x b | None => false end.

(* (max_nsec, timespan, wire, yaml form) *)
Definition yts_eqb (a b : yts) : bool :=
  let oz x y := match x, y with Some p, Some q => Z.eqb p q | None, None => true | _, _ => false end in
  match a, b with YEmpty, YEmpty => true | YMap b1 e1, YMap b2 e2 => oz b1 b2 && oz e1 e2 | _, _ => false end.
Definition zz_eqb (a b : Z * Z) : bool := Z.eqb (fst a) (fst b) && Z.eqb (snd a) (snd b).
Definition chk_ts (c : Z * (Z * Z) * jv * yts) : bool :=
  match c with (mx, t, wire, y) =>
    jv_eqb (enc_ts t) wire
    && match dec_ts mx wire with Some t' => zz_eqb t' t | None => false end
    && yts_eqb (enc_ts_yaml mx t) y && zz_eqb (dec_ts_yaml mx y) t && zz_eqb (rebuild_ts mx (reduce_ts t)) t
  end.

Definition chk_grp (c : uctx * grp * jv) : bool :=
  match c with (u, g, wire) =>
    jv_eqb (enc_grp g) wire
    && match dec_grp u wire with Some g' => jv_eqb (enc_grp g') wire && slist_eqb (g_req g') (g_req g) | None => false end
    && match rebuild_grp u (reduce_grp g) with Some g' => slist_eqb (g_names g') (g_names g) | None => false end
  end.

Definition chk_rec (c : uctx * drec * jv) : bool :=
  match c with (u, r, wire) =>
    jv_eqb (enc_rec r) wire && same_json (option_map enc_rec (dec_rec u wire)) wire
  end.

(* observed state of the object that came back: hasFull, hasRecords, records[k] state per element *)
Definition obs_state := (bool * bool * list (string * N))%type.
Definition state_ok (c : coord) (o : obs_state) : bool :=
  match o with (f, r, st) =>
    Bool.eqb (has_full c) f && Bool.eqb (has_records c) r
    && forallb (fun p => N.eqb (record_state c (fst p)) (snd p)) st
  end.
(* ---- what __reduce__ handed to pickle (observed) against reduce_*_deep; mappings compared as mappings ---- *)
Definition fval_eqb (a b : fval) : bool :=
  match a, b with
  | FNull, FNull => true
  | FBool x, FBool y => Bool.eqb x y
  | FInt x, FInt y | FFlt x, FFlt y => Z.eqb x y
  | FStr x, FStr y | FRegion x, FRegion y | FHash x, FHash y => String.eqb x y
  | FTs x, FTs y => zz_eqb x y
  | _, _ => false
  end.
Definition amap_eqb {A} (f : A -> A -> bool) (a b : list (string * A)) : bool :=
  Nat.eqb (List.length a) (List.length b)
  && forallb (fun p => match aget (fst p) b with Some v => f (snd p) v | None => false end) a.
Definition opt_eqb {A} (f : A -> A -> bool) (a b : option A) : bool :=
  match a, b with Some x, Some y => f x y | None, None => true | _, _ => false end.
Definition pkrec_eqb (a b : pk_rec) : bool := String.eqb (fst a) (fst b) && amap_eqb fval_eqb (snd a) (snd b).
Definition cls_eqb (a b : coord_cls) : bool :=
  match a, b with ClsRequired, ClsRequired | ClsFull, ClsFull | ClsExpanded, ClsExpanded => true | _, _ => false end.
Fixpoint dvall_eqb (a b : list dval) : bool :=
  match a, b with [] , [] => true | x :: a', y :: b' => dval_eqb x y && dvall_eqb a' b' | _, _ => false end.
Definition pkc_eqb (a b : pk_coord) : bool :=
  match a, b with (c1, n1, v1, r1), (c2, n2, v2, r2) =>
    cls_eqb c1 c2 && slist_eqb n1 n2 && dvall_eqb v1 v2 && opt_eqb (amap_eqb (opt_eqb pkrec_eqb)) r1 r2
  end.
Definition pkd_eqb (a b : pk_dt) : bool :=
  match a, b with (n1, g1, s1, p1, c1), (n2, g2, s2, p2, c2) =>
    String.eqb n1 n2 && slist_eqb g1 g2 && String.eqb s1 s2 && ostr_eqb p1 p2 && Bool.eqb c1 c2
  end.
Definition pkr_eqb (a b : pk_ref) : bool :=
  match a, b with (t1, c1, i1, r1), (t2, c2, i2, r2) => pkd_eqb t1 t2 && pkc_eqb c1 c2 && String.eqb i1 i2 && String.eqb r1 r2 end.

(* ..., observed __reduce__ arguments, observed state of pickle.loads(pickle.dumps(x)) *)
Definition chk_coord (c : uctx * bool * coord * jv * obs_state * pk_coord * obs_state) : bool :=
  match c with (u, minimal, x, wire, o, pk, opk) =>
    jv_eqb (enc_coord minimal x) wire
    && match dec_coord u wire with
       | Some x' => jv_eqb (enc_coord false x') (enc_coord false (expected_coord minimal x)) && state_ok x' o
                    && state_ok (expected_coord minimal x) o
       | None => false
       end
    && pkc_eqb (reduce_coord_deep x) pk
    && match rebuild_coord_deep u pk with
       | Some x' => jv_eqb (enc_coord false x') (enc_coord false x) && state_ok x' opk && state_ok x opk
       | None => false
       end
  end.

Definition chk_dt (c : uctx * bool * dstype * jv * pk_dt) : bool :=
  match c with (u, minimal, t, wire, pk) =>
    jv_eqb (enc_dt minimal t) wire
    && match dec_dt u wire with
       | Some t' => jv_eqb (enc_dt false t') (enc_dt false t) && slist_eqb (g_names (t_grp t')) (g_names (t_grp t))
       | None => false
       end
    && match rebuild_dt u (reduce_dt t) with Some t' => jv_eqb (enc_dt false t') (enc_dt false t) | None => false end
    && pkd_eqb (reduce_dt_deep t) pk
    && match rebuild_dt_deep u pk with Some t' => jv_eqb (enc_dt false t') (enc_dt false t) | None => false end
  end.

(* additionally the run of the ref that came back (not part of __eq__) *)
Definition chk_ref (c : uctx * bool * dref * jv * obs_state * string * pk_ref * obs_state) : bool :=
  match c with (u, minimal, r, wire, o, run, pk, opk) =>
    jv_eqb (enc_ref minimal r) wire
    && match dec_ref u wire with
       | Some r' =>
           let e := if minimal then r else expected_ref r in
           jv_eqb (enc_ref false r') (enc_ref false e) && state_ok (f_coord r') o && String.eqb (f_run r') run
       | None => false
       end
    && pkr_eqb (reduce_ref_deep r) pk
    && match rebuild_ref_deep u pk with
       | Some r' => jv_eqb (enc_ref false r') (enc_ref false r) && state_ok (f_coord r') opk && String.eqb (f_run r') (f_run r)
       | None => false
       end
    (* a component ref: the registry of the case holds makeCompositeRef() of it *)
    && match component_of (t_name (f_type r)) with
       | None => true
       | Some _ => match composite_ref u r, aget (f_id r) (u_refs u) with
                   | Some p, Some p' => jv_eqb (enc_ref false p) (enc_ref false p') && String.eqb (f_run p) (f_run p')
                   | _, _ => false
                   end
       end
  end.

(* ---- one persistence context: the serialized forms in the order they were read, each with what came back
        (full wire form of the result, None = from_simple raised); the model runs its memo table over the history ---- *)
Fixpoint all2 {A B} (f : A -> B -> bool) (a : list A) (b : list B) : bool :=
  match a, b with [], [] => true | x :: a', y :: b' => f x y && all2 f a' b' | _, _ => false end.
Definition chk_ctx_dt (c : uctx * list (jv * option jv)) : bool :=
  let (u, l) := c in
  all2 (fun r o => match r, snd o with Some t, Some w => jv_eqb (enc_dt false t) w | None, None => true | _, _ => false end)
       (dt_run u (map fst l)) l.
Definition chk_ctx_coord (c : uctx * list (jv * option (jv * obs_state))) : bool :=
  let (u, l) := c in
  all2 (fun r o => match r, snd o with
                   | Some x, Some (w, st) => jv_eqb (enc_coord false x) w && state_ok x st
                   | None, None => true | _, _ => false end)
       (coord_run u (map fst l)) l.
Definition chk_ctx_rec (c : uctx * list (jv * option jv)) : bool :=
  let (u, l) := c in
  all2 (fun r o => match r, snd o with Some x, Some w => jv_eqb (enc_rec x) w | None, None => true | _, _ => false end)
       (rec_run u (map fst l)) l.
Definition chk_ctx_ref (c : uctx * list (jv * option (jv * obs_state))) : bool :=
  let (u, l) := c in
  all2 (fun r o => match r, snd o with
                   | Some x, Some (w, st) => jv_eqb (enc_ref false x) w && state_ok (f_coord x) st
                   | None, None => true | _, _ => false end)
       (ref_run u (map fst l)) l.

(* ---------- Config ---------- *)
Fixpoint strs_eqb (a b : list str) : bool :=
  match a, b with [], [] => true | x :: a', y :: b' => seqb x y && strs_eqb a' b' | _, _ => false end.
Definition err_eqb (a b : err) : bool :=
  match a, b with KeyErr, KeyErr | ValueErr, ValueErr | TypeErr, TypeErr | IndexErr, IndexErr => true | _, _ => false end.
Definition rcv_eqb (a b : res cv) : bool :=
  match a, b with Ok x, Ok y => cv_eqb x y | Err x, Err y => err_eqb x y | _, _ => false end.
Definition rb_eqb (a b : res bool) : bool :=
  match a, b with Ok x, Ok y => Bool.eqb x y | Err x, Err y => err_eqb x y | _, _ => false end.
Definition in_strs (s : str) (l : list str) : bool := existsb (seqb s) l.

(* (top-level dict, alphanumeric characters of the case, explicit delimiter or None,
    names() as observed (None = it raised ValueError),
    probes: (name, c[name], name in c), tuple probes: (tuple, c[tuple])) *)
Definition cfg_case :=
  (list (key * cv) * list N * option N * option (list str) * list (str * res cv * res bool) * list (list key * res cv))%type.
Definition chk_cfg (c : cfg_case) : bool :=
  match c with (top, al, dl, onames, probes, tprobes) =>
    let alnum := fun ch => memc ch al in
    let mnames := match dl with
                  | None => option_map (fun p => map fst (snd p)) (names_default alnum top)
                  | Some d => option_map (map fst) (names_explicit alnum d top)
                  end in
    match mnames, onames with
    | None, None => true
    | Some m, Some o => Nat.eqb (List.length m) (List.length o) && forallb (fun n => in_strs n m) o && forallb (fun n => in_strs n o) m
    | _, _ => false
    end
    && forallb (fun p => match p with (n, v, b) => rcv_eqb (lookup alnum top n) v && rb_eqb (contains alnum top n) b end) probes
    && forallb (fun p => rcv_eqb (lookup_tuple top (fst p)) (snd p)) tprobes
  end.
(* the model's own statement of the property on a case: which reported names do not retrieve their value *)
Definition model_failing_names (top : list (key * cv)) (al : list N) (dl : option N) : list str :=
  let alnum := fun ch => memc ch al in
  let nv := match dl with
            | None => match names_default alnum top with Some p => snd p | None => [] end
            | Some d => names_with d top
            end in
  map fst (filter (fun p => negb (rcv_eqb (lookup alnum top (fst p)) (Ok (snd p)))) nv).
