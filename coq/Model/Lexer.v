(* C14 model, part 2: the PLY lexer of parserLex.py, character level.

   PLY builds ONE master regex: the function rules in definition order (newline, TIME_LITERAL,
   STRING_LITERAL, RANGE_LITERAL, NUMERIC_LITERAL, QUALIFIED_IDENTIFIER, SIMPLE_IDENTIFIER, BIND_NAME),
   then the string rules by decreasing regex length; Python's alternation takes the FIRST alternative that
   matches (not the longest); flags IGNORECASE | VERBOSE; characters of t_ignore (" \t") are skipped
   before every match attempt; when nothing matches t_error raises.  Each matcher below is the
   hand-compiled form of one regex of Gen/GrammarGen.lex_rules (theorem gen_lex_rules_expected pins
   the regex texts the matchers were written for).

   Alphabet: 8-bit characters; the harness maps every non-ASCII input character to byte 255 and only
   uses non-ASCII characters that are neither Unicode digits, spaces nor case-folding partners of ASCII
   letters, for which this model is exact. *)
From Coq Require Import ZArith List Bool String Ascii NArith.
From V Require Import Model.ExprTree Gen.GrammarGen.
Import ListNotations.
Open Scope char_scope.

Definition chars := list ascii.

Definition cn (c : ascii) : N := N_of_ascii c.
Definition in_range (lo hi : N) (c : ascii) : bool := (N.leb lo (cn c)) && (N.leb (cn c) hi).
Definition is_digit (c : ascii) : bool := in_range 48 57 c.
Definition is_upper (c : ascii) : bool := in_range 65 90 c.
Definition is_lower (c : ascii) : bool := in_range 97 122 c.
Definition is_alpha_ (c : ascii) : bool := is_upper c || is_lower c || Ascii.eqb c "_".
Definition is_alnum_ (c : ascii) : bool := is_alpha_ c || is_digit c.
(* \s for ASCII: space \t \n \v \f \r (and FS GS RS US, 28..31, which Python's str regex \s also accepts) *)
Definition is_space (c : ascii) : bool := Ascii.eqb c " " || in_range 9 13 c || in_range 28 31 c.
Definition is_ignore (c : ascii) : bool := Ascii.eqb c " " || Ascii.eqb c "009".
Definition is_nl (c : ascii) : bool := Ascii.eqb c "010".

Definition upper_char (c : ascii) : ascii := if is_lower c then ascii_of_N (cn c - 32) else c.
Definition upper (s : string) : string := string_of_list_ascii (map upper_char (list_ascii_of_string s)).

Fixpoint span (p : ascii -> bool) (l : chars) : chars * chars :=
  match l with
  | c :: r => if p c then let '(a, b) := span p r in (c :: a, b) else ([], l)
  | [] => ([], [])
  end.

Definition digit_val (c : ascii) : Z := Z.of_N (cn c - 48).
Definition digits_val (ds : chars) : Z := fold_left (fun acc c => (acc * 10 + digit_val c)%Z) ds 0%Z.

(* -?\d+ : value and rest *)
Definition m_int (l : chars) : option (Z * chars) :=
  let '(neg, l1) := match l with "-" :: r => (true, r) | _ => (false, l) end in
  match span is_digit l1 with
  | ([], _) => None
  | (ds, r) => Some (if neg then (- digits_val ds)%Z else digits_val ds, r)
  end.

Definition skip_space (l : chars) : chars := snd (span is_space l).

(* optional stride group: spaces, colon, spaces, a nonzero digit, digits *)
Definition m_stride (l : chars) : option Z * chars :=
  match skip_space l with
  | ":" :: r =>
      match skip_space r with
      | c :: r2 => if is_digit c && negb (Ascii.eqb c "0")
                   then let '(ds, r3) := span is_digit r2 in (Some (digits_val (c :: ds)), r3)
                   else (None, l)
      | [] => (None, l)
      end
  | _ => (None, l)
  end.

(* RANGE_LITERAL *)
Definition m_range (l : chars) : option (token * chars) :=
  match m_int l with
  | Some (a, r1) =>
      match skip_space r1 with
      | "." :: "." :: r2 =>
          match m_int (skip_space r2) with
          | Some (b, r3) => let '(st, r4) := m_stride r3 in Some (TRange a b st, r4)
          | None => None
          end
      | _ => None
      end
  | None => None
  end.

(* (e[-+]?\d+)? , IGNORECASE *)
Definition m_exp (l : chars) : chars * chars :=
  match l with
  | e :: r =>
      if Ascii.eqb e "e" || Ascii.eqb e "E" then
        let '(sg, r1) := match r with
                         | "-" :: r' => (["-"], r') | "+" :: r' => (["+"], r') | _ => ([], r) end in
        match span is_digit r1 with
        | ([], _) => ([], l)
        | (ds, r2) => (e :: sg ++ ds, r2)
        end
      else ([], l)
  | [] => ([], l)
  end.

(* NUMERIC_LITERAL: digits, optional (dot digits), optional exponent  |  dot digits, optional exponent; text kept verbatim *)
Definition m_number (l : chars) : option (token * chars) :=
  match span is_digit l with
  | (c :: ds, r) =>
      let '(frac, r1) := match r with
                         | "." :: r' => let '(fs, r'') := span is_digit r' in ("." :: fs, r'')
                         | _ => ([], r) end in
      let '(ex, r2) := m_exp r1 in
      Some (TNum (string_of_list_ascii ((c :: ds) ++ frac ++ ex)), r2)
  | ([], _) =>
      match l with
      | "." :: r =>
          match span is_digit r with
          | ([], _) => None
          | (fs, r1) => let '(ex, r2) := m_exp r1 in Some (TNum (string_of_list_ascii ("." :: fs ++ ex)), r2)
          end
      | _ => None
      end
  end.

(* [a-zA-Z_][a-zA-Z0-9_]* *)
Definition m_ident (l : chars) : option (chars * chars) :=
  match l with
  | c :: r => if is_alpha_ c then let '(cs, r') := span is_alnum_ r in Some (c :: cs, r') else None
  | [] => None
  end.

(* \.ident *)
Definition m_dot_ident (l : chars) : option (chars * chars) :=
  match l with
  | "." :: r => match m_ident r with Some (i, r') => Some ("." :: i, r') | None => None end
  | _ => None
  end.

(* QUALIFIED_IDENTIFIER: ident(\.ident){1,2} (greedy) *)
Definition m_qualified (l : chars) : option (token * chars) :=
  match m_ident l with
  | Some (i, r) =>
      match m_dot_ident r with
      | Some (d1, r1) =>
          match m_dot_ident r1 with
          | Some (d2, r2) => Some (TQId (string_of_list_ascii (i ++ d1 ++ d2)), r2)
          | None => Some (TQId (string_of_list_ascii (i ++ d1)), r1)
          end
      | None => None
      end
  | None => None
  end.

(* reserved-word lookup by upper(); reserved words come from the generated table *)
Definition kw_token (name : string) : option token :=
  if String.eqb name "IN" then Some TIN else if String.eqb name "OR" then Some TOR
  else if String.eqb name "AND" then Some TAND else if String.eqb name "NOT" then Some TNOT
  else if String.eqb name "OVERLAPS" then Some TOVERLAPS else None.

Fixpoint assoc_str (k : string) (l : list (string * string)) : option string :=
  match l with
  | (a, b) :: r => if String.eqb a k then Some b else assoc_str k r
  | [] => None
  end.

Definition classify (s : string) : token :=
  match assoc_str (upper s) GrammarGen.reserved with
  | Some ty => match kw_token ty with Some t => t | None => TBad end
  | None => TId s
  end.

(* '.*?'  : shortest run without newline up to the next quote; argument is the text after the opening quote *)
Definition m_quoted (l : chars) : option (chars * chars) :=
  let '(body, r) := span (fun c => negb (Ascii.eqb c "'") && negb (is_nl c)) l in
  match r with
  | "'" :: r' => Some (body, r')
  | _ => None
  end.

Definition m_time (l : chars) : option (token * chars) :=
  match l with
  | t :: "'" :: r =>
      if Ascii.eqb t "T" || Ascii.eqb t "t" then
        match m_quoted r with Some (b, r') => Some (TTime (string_of_list_ascii b), r') | None => None end
      else None
  | _ => None
  end.

Definition m_string (l : chars) : option (token * chars) :=
  match l with
  | "'" :: r => match m_quoted r with Some (b, r') => Some (TStr (string_of_list_ascii b), r') | None => None end
  | _ => None
  end.

Definition m_simple (l : chars) : option (token * chars) :=
  match m_ident l with
  | Some (i, r) => Some (classify (string_of_list_ascii i), r)
  | None => None
  end.

Definition m_bind (l : chars) : option (token * chars) :=
  match l with
  | ":" :: r => match m_ident r with Some (i, r') => Some (TBind (string_of_list_ascii i), r') | None => None end
  | _ => None
  end.

(* the string rules; two-character operators come first (longer regex) *)
Definition m_op (l : chars) : option (token * chars) :=
  match l with
  | "!" :: "=" :: r => Some (TNE, r)
  | "<" :: "=" :: r => Some (TLE, r)
  | ">" :: "=" :: r => Some (TGE, r)
  | "(" :: r => Some (TLP, r)
  | ")" :: r => Some (TRP, r)
  | "+" :: r => Some (TADD, r)
  | "*" :: r => Some (TMUL, r)
  | "=" :: r => Some (TEQ, r)
  | "<" :: r => Some (TLT, r)
  | ">" :: r => Some (TGT, r)
  | "-" :: r => Some (TSUB, r)
  | "/" :: r => Some (TDIV, r)
  | "%" :: r => Some (TMOD, r)
  | "," :: r => Some (TCOMMA, r)
  | _ => None
  end.

Definition orelse {A} (a : option A) (b : unit -> option A) : option A :=
  match a with Some x => Some x | None => b tt end.

(* one token at a position that is not an ignored character and not a newline *)
Definition m_token (l : chars) : option (token * chars) :=
  orelse (m_time l) (fun _ => orelse (m_string l) (fun _ => orelse (m_range l) (fun _ =>
  orelse (m_number l) (fun _ => orelse (m_qualified l) (fun _ => orelse (m_simple l) (fun _ =>
  orelse (m_bind l) (fun _ => m_op l))))))).

Fixpoint lex_chars (fuel : nat) (l : chars) : list token :=
  match fuel with
  | O => [TBad]
  | S f =>
      match l with
      | [] => []
      | c :: r =>
          if is_ignore c || is_nl c then lex_chars f r
          else match m_token l with
               | Some (t, r') => t :: lex_chars f r'
               | None => [TBad]
               end
      end
  end.

Definition lex (s : string) : list token :=
  let l := list_ascii_of_string s in lex_chars (S (List.length l)) l.

(* input as character codes (what the harness sends) *)
Definition lexN (codes : list N) : list token :=
  let l := map ascii_of_N codes in lex_chars (S (List.length l)) l.
