(* Executable checker for the conversion stage of C14, wave 6 (tie K for Gen/ConvGen.v + Model/ConvPrims.v): the
   REGENERATED visitor methods, folded over the parse tree (ConvVisit.visit), must accept / refuse what the real
   convert_expression_string_to_predicate accepted / refused, wherever they make a claim:
     Crash (POINT, region / uuid / ingest_date columns)   no claim
     `==` / `!=` between timespans                        no claim (ConvPrims.p_compare is C05's cmp_ok, which refuses it;
                                                          the real validator lets it through: known finding F-C14-timespan-eq)
   chk_conv_gen = the hand model's check (ParserConvCheck.chk_conv) && this one, with one parse per case. *)
From Coq Require Import ZArith List Bool String Ascii NArith.
From V Require Import Model.Expr Model.SqlExpr Model.Lexer Model.ExprTree Model.Parser Model.ParserCheck Model.ParserConv
  Model.ParserConvCheck Model.ConvPrims Gen.ConvGen Model.ConvVisit.
Import ListNotations.
Open Scope string_scope.

Definition span_eq_quirk (res : string -> option rid) (bound : string -> bool) (tns : string -> Z) (t : tree) : bool :=
  match of_tree res bound tns t with TConv e => has_span_eq e | _ => false end.

Definition chk_gen_tree (res : string -> option rid) (bound : string -> bool) (tns : string -> Z) (t : tree) (o : cobs) : bool :=
  match gen_accepts res bound tns t, o with
  | Some true, CAccept | Some false, CInvalid | None, _ | _, COther => true
  | Some false, CAccept => span_eq_quirk res bound tns t
  | Some true, CInvalid => false
  end.

Definition chk_conv_gen (c : conv_case) : bool :=
  let '(codes, times, tnsl, rtbl, bnd, o) := c in
  let p := parse_codes (tv_of times) codes in
  let res := res_of rtbl in let bound := bound_of bnd in let tns := tns_of tnsl in
  (match parsed_verdict res bound tns p, o with
   | Accept, CAccept | Reject, CInvalid | NoClaim, _ | _, COther => true
   | _, _ => false
   end)
  && match p with POk (Some t) => chk_gen_tree res bound tns t o | _ => true end.
