(* Executable checkers for the correspondence run (tie K) of C12, third part: the GENERATED algorithms (Gen/GroupGen.v,
   regenerated from dimensions/_group.py and _universe.py) against the implementation: constructor (+ data_coordinate_keys),
   n-ary union / intersection, comparisons.  Validates harness/translators/group_algo.py and Model/GroupX.v. *)
From Coq Require Import String List Bool Arith.
From V Require Import Model.Universe Model.Group Model.GroupX Model.GroupCheck Gen.GroupGen.
Import ListNotations.
Open Scope list_scope.

(* ---- generated algorithms vs implementation ---- *)
(* observed group as in GroupCheck.gobs; the seventh list is data_coordinate_keys *)
Definition chk_gen_group (c : universe * list string * gobs) : bool :=
  let '(u, i, o) := c in
  match gen_new u i true, o with
  | GOk (g, dck), Some (ls, lk) =>
    lists_eqb ls [gnames g; grequired g; gimplied g; gelements g; ggovernors g; gskypix g; dck]
    && match lk, glookup g with Some a, GOk b => list_eqb a b | None, GOutOfFuel => true | _, _ => false end
  | GKeyError, None => true
  | _, _ => false
  end.

(* a.union(b, c, ...) / a.intersection(b, c, ...) on groups the implementation built (`_conform=False` on their names),
   and the comparisons of a with the first of the others:
   (universe, names of a, names of the others, (names of the union, names of the intersection),
    [a == b; a <= b; a.issubset(b); a.isdisjoint(b); hash(a) == hash(b)]) *)
Definition chk_nary (c : universe * list string * list (list string) * (list string * list string) * list bool) : bool :=
  let '(u, na, nos, (nu, ni), bs) := c in
  match gen_group u na false, fold_right (fun n acc => match gen_group u n false, acc with
                                                     | GOk g, Some l => Some (g :: l) | _, _ => None end) (Some []) nos with
  | GOk a, Some others =>
    match gen_union u a others, gen_intersection u a others with
    | GOk gu, GOk gi =>
      list_eqb (gnames gu) nu && list_eqb (gnames gi) ni
      && match others with
         | b :: _ => bools_eqb bs [gen_eq a b; gen_le a b; gen_issubset a b; gen_isdisjoint a b;
                                   list_eqb (gen_hash a) (gen_hash b)]
         | [] => true
         end
    | _, _ => false
    end
  | _, _ => false
  end.
