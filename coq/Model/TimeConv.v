(* C11, conversion clause: the sequence of binary64 operations performed by

     TimeConverter.nsec_to_astropy   (python/lsst/daf/butler/time_utils.py, incl. _FastTimeUnixTai.set_jds)
     TimeConverter.astropy_to_nsec   (Time.__lt__/__gt__ clamps, Time.__sub__, TimeDelta(format="jd"),
                                      astropy.time.utils.day_frac / two_sum / two_product / split, numpy round)

   written ONCE over an abstract record of floating-point operations.  It is instantiated
     * with Coq primitive floats (Model/TimeConvPrim.v): executable, compared bit for bit with Python on every run;
     * with real numbers + Flocq's round-to-nearest-even in binary64 (Proofs/TimeConvR.v): the theorems.
   So the proofs are about literally the same term the correspondence check runs.  No proofs here. *)
From Coq Require Import ZArith.
Open Scope Z_scope.

Record fops (F : Type) : Type := mk_fops {
  fcst : Z -> Z -> F;        (* fcst m e = m * 2^e, used for exactly representable values only *)
  fadd : F -> F -> F;
  fsub : F -> F -> F;
  fmul : F -> F -> F;
  fdiv : F -> F -> F;
  fopp : F -> F;
  frint : F -> F;            (* numpy.round / rint: nearest integer, ties to even *)
  ffloor : F -> F;
  flt : F -> F -> bool;
  feq : F -> F -> bool;
  ftoZ : F -> Z              (* int(x) of an integer-valued double *)
}.
Arguments fcst {F}. Arguments fadd {F}. Arguments fsub {F}. Arguments fmul {F}. Arguments fdiv {F}.
Arguments fopp {F}. Arguments frint {F}. Arguments ffloor {F}. Arguments flt {F}. Arguments feq {F}. Arguments ftoZ {F}.

(* constants of the code *)
Definition TC_NS_PER_S : Z := 1000000000.
Definition TC_S_PER_DAY : Z := 86400.
Definition TC_NPD : Z := 86400000000000.        (* TimeConverter._NSEC_PER_DAY *)
Definition TC_EPOCH_JD1 : Z := 2440588.          (* 1970-01-01 00:00:00 TAI = JD (2440588.0, -0.5) *)
Definition TC_MAX_JD1 : Z := 2488070.            (* 2100-01-01 00:00:00 TAI = JD (2488070.0, -0.5) *)
Definition TC_MAX_NSEC : Z := 4102444800000000000.
Definition TC_SPLITTER : Z := 134217729.         (* 2**27 + 1 in astropy.time.utils.split *)

Section Pipeline.
  Variable F : Type.
  Variable ops : fops F.

  Definition fz (m : Z) : F := fcst ops m 0.
  Definition f_half : F := fcst ops 1 (-1).
  Definition f_mhalf : F := fcst ops (-1) (-1).
  Definition f_zero : F := fz 0.
  Definition f_one : F := fz 1.

  (* astropy.time.utils.two_sum *)
  Definition tc_two_sum (a b : F) : F * F :=
    let x := fadd ops a b in
    let eb := fsub ops x a in
    let ea := fsub ops x eb in
    let eb' := fsub ops b eb in
    let ea' := fsub ops a ea in
    (x, fadd ops ea' eb').

  (* astropy.time.utils.split *)
  Definition tc_split (a : F) : F * F :=
    let c := fmul ops (fz TC_SPLITTER) a in
    let abig := fsub ops c a in
    let ah := fsub ops c abig in
    let al := fsub ops a ah in
    (ah, al).

  (* astropy.time.utils.two_product *)
  Definition tc_two_product (a b : F) : F * F :=
    let x := fmul ops a b in
    let '(ah, al) := tc_split a in
    let '(bh, bl) := tc_split b in
    let y1 := fmul ops ah bh in
    let y := fsub ops x y1 in
    let y2 := fmul ops al bh in
    let y := fsub ops y y2 in
    let y3 := fmul ops ah bl in
    let y := fsub ops y y3 in
    let y4 := fmul ops al bl in
    let y := fsub ops y4 y in
    (x, y).

  (* numpy.sign *)
  Definition tc_sign (x : F) : F :=
    if flt ops f_zero x then f_one else if flt ops x f_zero then fz (-1) else f_zero.

  (* day_frac, the `if divisor is not None` block, applied to (sum12, err12) *)
  Definition tc_day_frac_divide (d : F) (se : F * F) : F * F :=
    let '(sum12, err12) := se in
    let q1 := fdiv ops sum12 d in
    let '(p1, p2) := tc_two_product q1 d in
    let '(d1, d2) := tc_two_sum sum12 (fopp ops p1) in
    let d2 := fadd ops d2 err12 in
    let d2 := fsub ops d2 p2 in
    let q2 := fdiv ops (fadd ops d1 d2) d in
    tc_two_sum q1 q2.

  (* day_frac from `day = np.round(sum12)` to the end *)
  Definition tc_day_frac_core (se : F * F) : F * F :=
    let '(sum12, err12) := se in
    let day := frint ops sum12 in
    let '(frac, check) := tc_two_sum (fsub ops sum12 day) err12 in
    let excess :=
      if negb (feq ops (fmul ops frac (tc_sign check)) f_half)
      then frint ops frac
      else frint ops (fadd ops frac (fmul ops (fz 2) check)) in
    let day := fadd ops day excess in
    let frac := fsub ops sum12 day in
    let frac := fadd ops frac err12 in
    (day, frac).

  Definition tc_day_frac (v1 v2 : F) : F * F := tc_day_frac_core (tc_two_sum v1 v2).
  Definition tc_day_frac_div (v1 v2 d : F) : F * F :=
    tc_day_frac_core (tc_day_frac_divide d (tc_two_sum v1 v2)).

  (* `while jd2 > 0.5: jd2 -= 1.0; jd1 += 1.0` of _FastTimeUnixTai.set_jds (fuel 4; never entered, see theorems) *)
  Fixpoint tc_norm (fuel : nat) (jd1 jd2 : F) : F * F :=
    match fuel with
    | O => (jd1, jd2)
    | S k => if flt ops f_half jd2 then tc_norm k (fadd ops jd1 f_one) (fsub ops jd2 f_one) else (jd1, jd2)
    end.

  (* TimeConverter.nsec_to_astropy: the (jd1, jd2) of the returned Time.
     divmod(time_nsec, 10**9) is integer arithmetic; float(jd1) and divmod(float, 86400) act on
     integer-valued doubles below 2^53 and are exact, so they are modelled on Z. *)
  Definition tc_nsec_to_jd (n : Z) : F * F :=
    let s := n / TC_NS_PER_S in
    let r := n mod TC_NS_PER_S in
    let val2 := fdiv ops (fz r) (fz TC_NS_PER_S) in          (* jd2 / 1_000_000_000, int / int *)
    let whole_days := s / TC_S_PER_DAY in
    let seconds := fz (s mod TC_S_PER_DAY) in
    let seconds := fadd ops seconds val2 in
    let jd1 := fadd ops (fz TC_EPOCH_JD1) (fz whole_days) in
    let jd2 := fadd ops f_mhalf (fdiv ops seconds (fz TC_S_PER_DAY)) in
    tc_norm 4 jd1 jd2.

  (* Time._time_comparison: op((self.jd1 - other.jd1) + (self.jd2 - other.jd2), 0.0) *)
  Definition tc_cmp_val (t o : F * F) : F :=
    fadd ops (fsub ops (fst t) (fst o)) (fsub ops (snd t) (snd o)).

  (* Time.__lt__ *)
  Definition tc_time_lt (t o : F * F) : bool := flt ops (tc_cmp_val t o) f_zero.

  Definition tc_epoch : F * F := (fz TC_EPOCH_JD1, f_mhalf).
  Definition tc_max_time : F * F := (fz TC_MAX_JD1, f_mhalf).

  (* value - self.epoch : Time.__sub__ = TimeDelta(jd1, jd2, format="jd") [day_frac(.., divisor=1.0)],
     component-wise subtraction, day_frac *)
  Definition tc_delta (t : F * F) : F * F :=
    let '(a1, a2) := tc_day_frac_div (fst t) (snd t) f_one in
    tc_day_frac (fsub ops a1 (fst tc_epoch)) (fsub ops a2 (snd tc_epoch)).

  (* astropy_to_nsec: `if value < self.epoch: value = self.epoch elif value > self.max_time: value = self.max_time` *)
  Definition tc_clamp (t : F * F) : F * F :=
    if flt ops (tc_cmp_val t tc_epoch) f_zero then tc_epoch
    else if flt ops f_zero (tc_cmp_val t tc_max_time) then tc_max_time
    else t.

  (* jd1, extra_jd2 = divmod(delta.jd1, 1);
     int(jd1) * NSEC_PER_DAY + int(round((delta.jd2 + extra_jd2) * NSEC_PER_DAY)) *)
  Definition tc_delta_to_nsec (d : F * F) : Z :=
    let '(d1, d2) := d in
    let jd1 := ffloor ops d1 in
    let extra := fsub ops d1 jd1 in
    ftoZ ops jd1 * TC_NPD + ftoZ ops (frint ops (fmul ops (fadd ops d2 extra) (fz TC_NPD))).

  (* TimeConverter.astropy_to_nsec on a TAI time given by its (jd1, jd2) *)
  Definition tc_jd_to_nsec (t : F * F) : Z := tc_delta_to_nsec (tc_delta (tc_clamp t)).

  Definition tc_roundtrip (n : Z) : Z := tc_jd_to_nsec (tc_nsec_to_jd n).
End Pipeline.
