(* C05 correspondence checker for the LEGACY interfaces (Registry.queryDataIds / queryDimensionRecords / queryDatasets).

   A case has the shape of ExprCheck.case: (candidate rows, key columns, expression, observed) with observed = None when
   the interface raised (any error class: UserExpressionError, ExpressionTypeError, KeyError '%', AssertionError,
   ProgrammingError ...) and Some keys otherwise.  chk_legacy: the model of the legacy path (Model/ExprLegacy.v: normal
   form + CheckVisitor, PredicateConversionVisitor, daf_relation SQL) refuses exactly when the implementation raises and
   otherwise returns exactly the observed keys, INCLUDING the rows lost to the governor pruning of the dataset search
   (rows carry their RUN in column 50; `runs` = governor values in each RUN's collection summary). *)
From Coq Require Import ZArith List Bool String.
From V Require Import Base.Tri Model.Expr Model.SqlExpr Model.ExprCheck Model.ExprLegacy.
Import ListNotations.
Open Scope Z_scope.

(* the fixture's dimension universe: key columns as in ExprCheck.key_cols; every dimension except `band` (13) is governed
   by `instrument` (column 0) *)
Definition l_governed (c : col) : bool := negb (N.eqb c 13).
Definition l_gov : col := 0%N.
Definition runcol : col := 50%N.

(* join feasibility (ColumnError "Cannot join dimension element ..."): a record FIELD (non-key column) can be used only
   if its element's own key is among the requested dimensions or is itself referenced by the expression (key
   references extend the query's dimensions, field references do not).  Which joins are possible is C06's subject; it is here
   only so that the refusal is predicted.  owner: detector fields 2-5 -> 1, visit fields 11, 15-20 -> 10, exposure
   fields 31-41 -> 30 *)
Definition owner (c : col) : option col :=
  if (N.leb 2 c && N.leb c 5)%bool then Some 1%N
  else if (N.eqb c 11 || (N.leb 15 c && N.leb c 20))%bool then Some 10%N
  else if (N.leb 31 c && N.leb c 41)%bool then Some 30%N
  else None.
(* the columns that survive into the converted Predicate: an IN whose items are all EMPTY bound containers becomes the
   literal False (Predicate.logical_or() of nothing) and its member disappears *)
Definition empty_seq (it : item) : bool := match it with ISeq [] => true | _ => false end.
Fixpoint lpred_cols (e : expr) : list col :=
  match e with
  | EIn a its _ => if forallb empty_seq its then [] else cols_of a ++ flat_map item_cols its
  | ENot a => lpred_cols a
  | EAnd a b | EOr a b => lpred_cols a ++ lpred_cols b
  | _ => cols_of e
  end.
Definition joinable (kc : list col) (e : expr) : bool :=
  forallb (fun c => match owner c with Some k => existsb (N.eqb k) (kc ++ lpred_cols e) | None => true end) (lpred_cols e).

Definition legacy_compile (known : list value) := lcompile iskey l_governed l_gov known.
Definition legacy_gov := lgov iskey l_gov.
Definition legacy_rows (runs : list (string * list value)) (e : expr) (rows : list row) : list row :=
  filter (fun r => lprune_row runs (legacy_gov e) (assoc runcol r)) rows.

Definition known_of (runs : list (string * list value)) : list value := flat_map snd runs.

Definition chk_legacy (runs : list (string * list value)) (c : case) : bool :=
  let '(rows, kc, e, obs) := c in
  match (if joinable kc e then legacy_compile (known_of runs) e else None), obs with
  | None, None => true
  | Some q, Some ks => keys_same (run_sql q kc (legacy_rows runs e rows)) ks
  | _, _ => false
  end.

(* on the fragment of legacy_agrees (lsql alone: the check stage does not change the SQL; Coq-evaluated on the concrete case: a cross-check of the theorem's hypotheses on real
   expressions, not a proof): accepted + well-typed + no NULL comparison + stride guard on every row  =>  the legacy SQL
   keeps exactly the rows on which the documented meaning is TRUE *)
Definition chk_legacy_doc (c : case) : bool :=
  let '(rows, kc, e, obs) := c in
  match lsql e with
  | Some q =>
      if well_typed e && no_null_cmp e && forallb (fun r => env_ok (env_of r) e && stride_ok (env_of r) e) rows then
        forallb (fun r => Bool.eqb (keeps (env_of r) q) (tri_is_true (deval (env_of r) e))) rows
      else true
  | None => true
  end.
Definition chk_legacy_both (runs : list (string * list value)) (c : case) : bool := chk_legacy runs c && chk_legacy_doc c.
