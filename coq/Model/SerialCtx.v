(* C18 (extension 2) -- the per-context memo tables of from_simple (PersistenceContextVars): a table is a map from the
   key AS CODED to the object built first under that key; inside `PersistenceContextVars().run(...)` every from_simple
   first looks its key up.  A generic table (Section Memo) and its instances:
     loadedTypes      key (simple.name, simple.storageClass or "")                         DatasetType.from_simple
     dataCoordinates  key (frozenset(simple.dataId.items()), simple.records is not None)   DataCoordinate.from_simple
     dimensionRecords key (simple.definition, frozenset(simple.record.items()))            DimensionRecord.from_simple
     datasetRefs      key simple.id.int; stores the COMPOSITE ref; a hit re-derives the component and overrides the
                      storage class from the serialized dataset type                       DatasetRef.from_simple
   Each decoder is taken atomically (the tables nested inside DataCoordinate / DatasetRef.from_simple are not threaded
   through; the harness compares model and implementation on per-kind contexts).  No proofs here. *)
From Coq Require Import ZArith List Bool String.
From V Require Import Model.Serial Model.SerialX.
Import ListNotations.
Open Scope string_scope.

Section Memo.
  Variables J K V : Type.
  Variable key : J -> K.
  Variable keqb : K -> K -> bool.
  Variable dec : J -> option V.         (* from_simple with no active context *)
  Variable cacheable : J -> bool.       (* the miss path reaches `cache[key] = obj` *)
  Variable put : J -> V -> V.           (* what is stored *)
  Variable get : J -> V -> option V.    (* what a hit returns for THIS serialized form; None = falls through to the miss path *)

  Fixpoint mfind (k : K) (c : list (K * V)) : option V :=
    match c with [] => None | (k', v) :: r => if keqb k k' then Some v else mfind k r end.
  Definition mmiss (c : list (K * V)) (j : J) : option V * list (K * V) :=
    match dec j with
    | Some v => (Some v, if cacheable j then (key j, put j v) :: c else c)
    | None => (None, c)
    end.
  Definition mstep (c : list (K * V)) (j : J) : option V * list (K * V) :=
    match mfind (key j) c with
    | Some w => match get j w with Some r => (Some r, c) | None => mmiss c j end
    | None => mmiss c j
    end.
  (* one context: the table starts empty and lives across the whole history *)
  Fixpoint mrun (c : list (K * V)) (js : list J) : list (option V) :=
    match js with [] => [] | j :: r => let (o, c') := mstep c j in o :: mrun c' r end.
End Memo.

(* ---------- the keys as coded ---------- *)
Definition jstr_or_empty (o : option jv) : string := match o with Some (JStr s) => s | _ => "" end.
Definition pair_seqb (a b : string * string) : bool := String.eqb (fst a) (fst b) && String.eqb (snd a) (snd b).
Definition dt_key (j : jv) : string * string := (jstr_or_empty (jfield "name" j), jstr_or_empty (jfield "storageClass" j)).
(* the variant of seed C18c: keyed on the PARENT storage class *)
Definition dt_key_psc (j : jv) : string * string := (jstr_or_empty (jfield "name" j), jstr_or_empty (jfield "parentStorageClass" j)).
Definition dt_cacheable (j : jv) : bool := match jfield "storageClass" j with Some _ => true | None => false end.  (* minimal form returns early *)

Definition jobj_or_null (o : option jv) : jv := match o with Some x => x | None => JNull end.
Definition jvb_eqb (a b : jv * bool) : bool := jv_eqb (fst a) (fst b) && jv_eqb (fst b) (fst a) && Bool.eqb (snd a) (snd b).
Definition coord_key (j : jv) : jv * bool :=
  (jobj_or_null (jfield "dataId" j), match jfield "records" j with Some _ => true | None => false end).
Definition jvjv_eqb (a b : jv * jv) : bool :=
  jv_eqb (fst a) (fst b) && jv_eqb (snd a) (snd b) && jv_eqb (snd b) (snd a).
Definition rec_key (j : jv) : jv * jv := (jobj_or_null (jfield "definition" j), jobj_or_null (jfield "record" j)).

Definition idv {A} (_ : jv) (v : A) : A := v.
Definition hit_same {A} (_ : jv) (v : A) : option A := Some v.
Definition always (_ : jv) : bool := true.

Definition dt_run (u : uctx) : list jv -> list (option dstype) :=
  mrun jv (string * string) dstype dt_key pair_seqb (dec_dt u) dt_cacheable idv hit_same [].
Definition dt_run_psc (u : uctx) : list jv -> list (option dstype) :=
  mrun jv (string * string) dstype dt_key_psc pair_seqb (dec_dt u) dt_cacheable idv hit_same [].
Definition coord_run (u : uctx) : list jv -> list (option coord) :=
  mrun jv (jv * bool) coord coord_key jvb_eqb (dec_coord u) always idv hit_same [].
Definition rec_run (u : uctx) : list jv -> list (option drec) :=
  mrun jv (jv * jv) drec rec_key jvjv_eqb (dec_rec u) always idv hit_same [].

(* datasetRefs: the composite is stored; a hit needs the serialized dataset type (name for the component, storage class
   for overrideStorageClass, whose convertibility check is NOT modelled: a different storage class is taken as accepted) *)
Definition ref_key (j : jv) : string := jstr_or_empty (jfield "id" j).
Definition ref_put (u : uctx) (_ : jv) (r : dref) : dref :=
  match component_of (t_name (f_type r)) with
  | Some _ => match composite_ref u r with Some p => p | None => r end
  | None => r
  end.
Definition override_sc (sc : string) (r : dref) : dref :=
  let t := f_type r in
  {| f_id := f_id r; f_run := f_run r; f_coord := f_coord r;
     f_type := {| t_name := t_name t; t_grp := t_grp t; t_sc := sc; t_psc := t_psc t; t_calib := t_calib t |} |}.
Definition ref_get (u : uctx) (j : jv) (cached : dref) : option dref :=
  match jfield "datasetType" j with
  | Some jt =>
      match jfield "name" jt, jfield "storageClass" jt with
      | Some (JStr n), Some (JStr sc) =>
          match component_of n with
          | Some c => option_map (override_sc sc) (component_ref u cached c)
          | None => Some (override_sc sc cached)
          end
      | _, _ => None
      end
  | None => None
  end.
Definition ref_run (u : uctx) : list jv -> list (option dref) :=
  mrun jv string dref ref_key String.eqb (dec_ref u) always (ref_put u) (ref_get u) [].
