(* C07 -- transaction model: Butler.transaction() = registry transaction (SAVEPOINT when nested, as repaired by
   22b8a1d) + datastore transaction (undo log stack, pointer restored on every exit path, as repaired by 6c1e934),
   the dimension record cache reset on rollback (97d3978), operations as sequences of I/O / SQL boundaries, and
   fault injection: the k-th boundary reached raises instead of doing its work (`fuse`).

   Faithful to the code that exists, quirks included:
   * exit order of Butler.transaction: the datastore transaction exits FIRST (commit = hand the log to the parent,
     or forget it at the outermost level), THEN the registry COMMIT / RELEASE boundary is reached;
   * a nested registry transaction without savepoint is a no-op unless an enclosing one is a savepoint;
   * Datastore.trash(refs) and the artifact deletion of emptyTrash swallow ordinary exceptions (ignore_errors=True);
   * emptyTrash looks only at trash rows that still have a datastore record; it deletes the records and the trash
     rows in one registry transaction (as repaired by e615ec5).

   No proofs here.  Slots / governors / contents are small N; files are association lists slot -> content. *)
From Coq Require Import NArith List Bool.
Import ListNotations.
Open Scope N_scope.

Definition files := list (N * N).
Fixpoint fget (d : N) (f : files) : option N :=
  match f with [] => None | (k, v) :: r => if k =? d then Some v else fget d r end.
Definition frm (d : N) (f : files) : files := filter (fun kv => negb (fst kv =? d)) f.
Definition fset (d v : N) (f : files) : files := (d, v) :: frm d f.

Definition mem (d : N) (l : list N) : bool := existsb (N.eqb d) l.
Definition rm (d : N) (l : list N) : list N := filter (fun k => negb (k =? d)) l.
Definition add (d : N) (l : list N) : list N := if mem d l then l else d :: l.

(* registry + datastore tables *)
(* xf: datasets registered by transfer_from (they carry the dataset id of the SOURCE repository: transferring them again is a no-op) *)
Record db := mkdb { ds : list N; loc : list N; recs : list N; trash : list N; tags : list N; certs : list N; dims : list N; xf : list N }.

Inductive frame := FReal (snap : db) | FSave (snap : db) | FNoop.
Inductive undo := URm (d : N) | UBack (d v : N).

Record st := mkst {
  cur : db;                      (* what this client's connection sees *)
  sql : list frame;              (* open registry transaction blocks, innermost first *)
  ptr : list (list undo);        (* Datastore._transaction and its .parent chain; [] = None; newest entry first *)
  fs : files;                    (* artifacts under the datastore root *)
  ext : files;                   (* staging area outside the root (sources of ingest) *)
  dcache : option (list N);      (* dimension record cache: None or a snapshot of the governor table *)
  fuse : option nat;             (* Some k: the k-th boundary from now raises *)
  hard : bool;                   (* the injected fault is a BaseException (not caught by `except Exception`) *)
  cfault : bool                  (* sticky: the fault fired at a COMMIT / RELEASE boundary *)
}.

Definition set_cur x s := mkst x (sql s) (ptr s) (fs s) (ext s) (dcache s) (fuse s) (hard s) (cfault s).
Definition set_sql x s := mkst (cur s) x (ptr s) (fs s) (ext s) (dcache s) (fuse s) (hard s) (cfault s).
Definition set_ptr x s := mkst (cur s) (sql s) x (fs s) (ext s) (dcache s) (fuse s) (hard s) (cfault s).
Definition set_fs x s := mkst (cur s) (sql s) (ptr s) x (ext s) (dcache s) (fuse s) (hard s) (cfault s).
Definition set_ext x s := mkst (cur s) (sql s) (ptr s) (fs s) x (dcache s) (fuse s) (hard s) (cfault s).
Definition set_dcache x s := mkst (cur s) (sql s) (ptr s) (fs s) (ext s) x (fuse s) (hard s) (cfault s).
Definition set_fuse x s := mkst (cur s) (sql s) (ptr s) (fs s) (ext s) (dcache s) x (hard s) (cfault s).
Definition set_cfault x s := mkst (cur s) (sql s) (ptr s) (fs s) (ext s) (dcache s) (fuse s) (hard s) x.

Definition up_ds f (d : db) := mkdb (f (ds d)) (loc d) (recs d) (trash d) (tags d) (certs d) (dims d) (xf d).
Definition up_loc f (d : db) := mkdb (ds d) (f (loc d)) (recs d) (trash d) (tags d) (certs d) (dims d) (xf d).
Definition up_recs f (d : db) := mkdb (ds d) (loc d) (f (recs d)) (trash d) (tags d) (certs d) (dims d) (xf d).
Definition up_trash f (d : db) := mkdb (ds d) (loc d) (recs d) (f (trash d)) (tags d) (certs d) (dims d) (xf d).
Definition up_tags f (d : db) := mkdb (ds d) (loc d) (recs d) (trash d) (f (tags d)) (certs d) (dims d) (xf d).
Definition up_certs f (d : db) := mkdb (ds d) (loc d) (recs d) (trash d) (tags d) (f (certs d)) (dims d) (xf d).
Definition up_dims f (d : db) := mkdb (ds d) (loc d) (recs d) (trash d) (tags d) (certs d) (f (dims d)) (xf d).
Definition up_xf f (d : db) := mkdb (ds d) (loc d) (recs d) (trash d) (tags d) (certs d) (dims d) (f (xf d)).
Definition on_cur (f : db -> db) (s : st) : st := set_cur (f (cur s)) s.

(* the repairs (the fifth: 2da36a1, FileDatastore refuses the ingest of a dataset it already holds before any file is
   transferred), switchable so that "reverting a fix breaks a theorem" can be stated *)
Record cfg := mkcfg { fix_ptr : bool; fix_sp : bool; fix_dc : bool; fix_et : bool; fix_ri : bool }.
Definition shipped := mkcfg true true true true true.

(* ------------------------------------------------------------------------------------------------------ *)
Inductive outcome := Normal | Raised (h : bool).      (* h = true: BaseException *)
Definition act := st -> st * outcome.

Definition tick (s : st) : st * bool :=
  match fuse s with
  | Some O => (set_fuse None s, true)
  | Some (S n) => (set_fuse (Some n) s, false)
  | None => (s, false)
  end.

Definition ret : act := fun s => (s, Normal).
Definition raise : act := fun s => (s, Raised false).
Definition bind (m1 m2 : act) : act := fun s => match m1 s with (s', Normal) => m2 s' | r => r end.
Notation "a ;; b" := (bind a b) (at level 61, right associativity).
Definition upd (f : st -> st) : act := fun s => (f s, Normal).
Definition guard (b : st -> bool) : act := fun s => if b s then (s, Normal) else (s, Raised false).
(* a boundary: either the fault fires here, or the work m is done *)
Definition ev (m : act) : act := fun s => let (s', b) := tick s in if b then (s', Raised (hard s')) else m s'.
(* a boundary whose ordinary failure is absorbed by a fallback that completes the same work (os.rename -> copy) *)
Definition ev_absorb (m : act) : act :=
  fun s => let (s', b) := tick s in if b && hard s' then (s', Raised true) else m s'.
(* `except Exception: <go on>` *)
Definition swallow (m : act) : act := fun s => match m s with (s', Raised false) => (s', Normal) | r => r end.

Definition is_save (f : frame) := match f with FSave _ => true | _ => false end.
Definition reset_dc (b : bool) (s : st) := if b then set_dcache None s else s.

Definition rollback_reg (s : st) : st :=
  match sql s with
  | FReal d :: r => set_cur d (set_sql r s)
  | FSave d :: r => set_cur d (set_sql r s)
  | FNoop :: r => set_sql r s
  | [] => s
  end.
Definition pop_reg (s : st) : st := set_sql (tl (sql s)) s.

(* Database._transaction(savepoint=sp); dc = the block goes through SqlRegistry.transaction with the cache reset *)
Definition with_reg (sp dc : bool) (m : act) : act := fun s =>
  let fr := match sql s with
            | [] => FReal (cur s)
            | _ => if sp || existsb is_save (sql s) then FSave (cur s) else FNoop
            end in
  let noop := match fr with FNoop => true | _ => false end in
  let (s0, b) := if noop then (s, false) else tick s in          (* BEGIN / SAVEPOINT boundary *)
  if b then (reset_dc dc s0, Raised (hard s0)) else
  match m (set_sql (fr :: sql s0) s0) with
  | (s2, Normal) =>
      if noop then (pop_reg s2, Normal) else
      let (s3, b3) := tick s2 in                                  (* COMMIT / RELEASE boundary *)
      if b3 then
        match fr with
        | FReal _ => (set_cfault true (reset_dc dc (rollback_reg s3)), Raised (hard s3))    (* COMMIT fails: rolled back *)
        | _ => (set_cfault true (reset_dc dc (pop_reg s3)), Raised (hard s3))
            (* RELEASE SAVEPOINT fails: SQLAlchemy marks the nested transaction inactive and the following
               rollback() emits nothing -- the block raises but its statements stay in the enclosing transaction *)
        end
      else (pop_reg s3, Normal)
  | (s2, Raised h) => (reset_dc dc (rollback_reg s2), Raised h)
  end.

Definition run_undo (s : st) (u : undo) : st :=
  match u with
  | URm d => set_fs (frm d (fs s)) s
  | UBack d _ =>
      (* os.rename / shutil.move of whatever is at the artifact's path back to the source path; when the artifact is no
         longer there (a removal inside the same block has already deleted it) the move fails, DatastoreTransaction.rollback
         swallows the error, and the staged file is lost *)
      match fget d (fs s) with
      | Some w => set_ext (fset d w (ext s)) (set_fs (frm d (fs s)) s)
      | None => s
      end
  end.

(* Datastore.transaction() *)
Definition with_ds (c : cfg) (m : act) : act := fun s =>
  match m (set_ptr ([] :: ptr s) s) with
  | (s2, Normal) =>
      (match ptr s2 with
       | l :: p :: r => set_ptr ((l ++ p) :: r) s2       (* commit: parent._log.extend(child._log) *)
       | _ => set_ptr [] s2                               (* outermost: forget the events *)
       end, Normal)
  | (s2, Raised h) =>
      (match ptr s2 with
       | l :: r => set_ptr (if fix_ptr c then r else [] :: r) (fold_left run_undo l s2)
       | [] => s2
       end, Raised h)
  end.

Definition reg_undo (u : undo) : act := fun s =>
  match ptr s with
  | l :: r => (set_ptr ((u :: l) :: r) s, Normal)
  | [] => (s, Raised false)              (* "Attempting to write artifact without transaction enabled" *)
  end.

Definition butler_txn (c : cfg) (m : act) : act := with_reg (fix_sp c) (fix_dc c) (with_ds c m).

(* the dimension record cache is loaded on first use: when it is empty the implementation issues a batch of SELECTs (one
   boundary here; a fault there changes nothing and leaves the cache unloaded), when it is loaded nothing is read *)
Definition load_dc : act := fun s =>
  match dcache s with
  | None => ev (upd (fun s0 => set_dcache (Some (dims (cur s0))) s0)) s
  | Some _ => (s, Normal)
  end.

(* ------------------------------------------------------------------------------------------------------ *)
Inductive mode := Copy | Move.
Inductive op :=
  | Put (d v : N) | Ingest (m : mode) (d : N) | Assoc (d : N) | Untag (d : N) | Cert (d : N)
  | InsDim (g : N) | Expand (g : N) | Purge (d : N) | Unstore (d : N) | EmptyTrash | Transfer (d : N) | ImportDs (d : N).

Definition has_ds d (s : st) := mem d (ds (cur s)).
Definition stored_rows d := upd (on_cur (fun x => up_recs (add d) (up_loc (add d) x))).

Definition do_put (c : cfg) (d v : N) : act :=
  butler_txn c (
    load_dc ;;
    ev (guard (fun s => negb (has_ds d s))) ;; upd (on_cur (up_ds (add d))) ;;      (* registry.insertDatasets *)
    with_ds c (                                                                       (* FileDatastore.put *)
      reg_undo (URm d) ;;
      ev ret ;;                                                                       (* serialise + temporary file *)
      ev_absorb (upd (fun s => set_fs (fset d v (fs s)) s)) ;;                        (* move into place *)
      ev ret ;;                                                                       (* temporary file clean-up *)
      ev (stored_rows d))).                                                           (* dataset_location + records *)

Definition transfer (m : mode) (d : N) : act := fun s =>
  match fget d (ext s) with
  | None => (s, Raised false)
  | Some v =>
      match m with
      | Copy => (ev ret ;; ev (upd (fun s => set_fs (fset d v (fs s)) s)) ;; reg_undo (URm d)) s
      | Move => (ev_absorb (upd (fun s => set_ext (frm d (ext s)) (set_fs (fset d v (fs s)) s))) ;; reg_undo (UBack d v)) s
      end
  end.

(* FileDatastore._refuse_datasets_already_stored at the top of _finishIngest (2da36a1): dataset_location rows (bridge.check) and
   file_datastore_records rows are looked up -- two SELECTs, one boundary here -- and the ingest is refused with
   ConflictingDefinitionError if any exist: inside the datastore transaction, BEFORE any file is touched or undo registered *)
Definition held (d : N) (s : st) : bool := mem d (loc (cur s)) || mem d (recs (cur s)).
Definition refuse_held (c : cfg) (d : N) : act := if fix_ri c then ev (guard (fun s => negb (held d s))) else ret.

Definition do_ingest (c : cfg) (m : mode) (d : N) : act :=
  butler_txn c (
    load_dc ;;                                                                        (* data ID expansion loads the cache *)
    ev (guard (fun s => negb (has_ds d s))) ;; upd (on_cur (up_ds (add d))) ;;      (* registry._importDatasets *)
    guard (fun s => match fget d (ext s) with Some _ => true | None => false end) ;; (* _prepIngest existence check *)
    with_ds c (refuse_held c d ;; transfer m d ;; ev (stored_rows d))).               (* _finishIngest *)

(* Datastore.trash([ref]): bridge.moveToTrash inside an (often no-op) nested transaction; errors swallowed *)
Definition do_trash (c : cfg) (d : N) : act :=
  with_ds c (swallow (
    ev ret ;;                                                       (* bridge.check: which refs have a location row *)
    (fun s => if mem d (loc (cur s))
              then with_reg false false (ev (upd (on_cur (up_loc (rm d)))) ;; ev (upd (on_cur (up_trash (add d))))) s
              else (s, Normal)))).

Fixpoint del_files (l : list N) : act :=
  match l with
  | [] => ret
  | t :: r => (fun s => let (s', b) := tick s in
                         if b then (if hard s' then (s', Raised true) else del_files r s')      (* error ignored *)
                         else del_files r (set_fs (frm t (fs s')) s'))
  end.

Definition do_empty_trash (c : cfg) : act :=
  with_ds c (
    ev (fun s =>
      let tg := filter (fun t => mem t (recs (cur s))) (trash (cur s)) in            (* trash rows JOIN records *)
      (del_files tg ;;
       (fun s1 => if match tg with [] => true | _ => false end then (s1, Normal) else
          (* e615ec5: records rows and trash rows are deleted in ONE registry transaction (before: two commits) *)
          (if fix_et c
           then with_reg false false (ev (upd (on_cur (up_recs (fun l => filter (fun k => negb (mem k tg)) l)))) ;;
                                      ev (upd (on_cur (up_trash (fun l => filter (fun k => negb (mem k tg)) l)))))
           else (with_reg false false (ev (upd (on_cur (up_recs (fun l => filter (fun k => negb (mem k tg)) l))))) ;;
                 with_reg false false (ev (upd (on_cur (up_trash (fun l => filter (fun k => negb (mem k tg)) l))))))) s1)) s)).

Definition remove_ds d := upd (on_cur (fun x => up_xf (rm d) (up_certs (rm d) (up_tags (rm d) (up_ds (rm d) x))))).

Definition do_purge (c : cfg) (d : N) : act :=
  ev (guard (has_ds d)) ;;                                                           (* the caller resolves the ref *)
  with_ds c (with_reg false (fix_dc c) (
    do_trash c d ;;
    ev (guard (fun s => negb (mem d (loc (cur s))))) ;; remove_ds d)) ;;            (* OrphanedRecordError if still located *)
  do_empty_trash c.

Definition do_unstore (c : cfg) (d : N) : act :=
  ev (guard (has_ds d)) ;;
  with_ds c (with_reg false (fix_dc c) (do_trash c d)) ;;
  do_empty_trash c.

(* Butler.transfer_from(source_butler, [ref], transfer="copy"): the source repository holds a dataset for every slot
   (content src_content d); registry._importDatasets is a no-op for a dataset id that is already there, a conflict for
   the same data ID under another id; FileDatastore.transfer_from (@transactional) skips a dataset that already has a
   record, otherwise copies to a temporary name, renames into place, registers the undo, cleans up, inserts the rows *)
Definition src_content (d : N) : N := 200 + d.

Definition do_transfer (c : cfg) (d : N) : act :=
  butler_txn c (
    load_dc ;;
    ev (guard (fun s => negb (has_ds d s) || mem d (xf (cur s)))) ;;
    upd (on_cur (fun x => up_xf (add d) (up_ds (add d) x))) ;;
    with_ds c (fun s => if mem d (recs (cur s)) then (s, Normal) else
      (ev ret ;; ev (upd (fun s => set_fs (fset d (src_content d) (fs s)) s)) ;; reg_undo (URm d) ;; ev ret ;;
       ev (stored_rows d)) s)).

(* Butler.import_(directory=<source root>, filename=<export file holding the dataset of slot d>, transfer="copy"):
   registry._importDatasets as for transfer_from (same dataset id = no-op, same data ID under another id = conflict);
   then FileDatastore.ingest (@transactional): the artifact is copied to a temporary name and renamed into place -- an
   existing file is overwritten --, the undo is registered, and INSERT dataset_location / file_datastore_records FAIL when
   the dataset is already located / recorded: the rollback then deleted the artifact that was there before -- until 2da36a1
   (refuse_held: the re-import is now refused before any file is touched; the old behaviour is the variant fix_ri = false). *)
Definition do_import (c : cfg) (d : N) : act :=
  butler_txn c (
    load_dc ;;
    ev (guard (fun s => negb (has_ds d s) || mem d (xf (cur s)))) ;;
    upd (on_cur (fun x => up_xf (add d) (up_ds (add d) x))) ;;
    with_ds c (refuse_held c d ;;
               ev ret ;; ev (upd (fun s => set_fs (fset d (src_content d) (fs s)) s)) ;; reg_undo (URm d) ;; ev ret ;;
               ev (guard (fun s => negb (mem d (loc (cur s))) && negb (mem d (recs (cur s)))) ;; stored_rows d))).

Definition exec_op (c : cfg) (o : op) : act :=
  match o with
  | Put d v => do_put c d v
  | Ingest m d => do_ingest c m d
  | Assoc d => ev (guard (has_ds d)) ;; with_reg false false (ev (upd (on_cur (up_tags (add d)))))
  | Untag d => ev (guard (has_ds d)) ;; with_ds c (with_reg false (fix_dc c) (ev (upd (on_cur (up_tags (rm d))))))
  | Cert d => ev (guard (has_ds d)) ;;
              with_reg false false (ev (guard (fun s => negb (mem d (certs (cur s))))) ;; upd (on_cur (up_certs (add d))))
  | InsDim g => upd (set_dcache None) ;;
                with_reg false false (ev (guard (fun s => negb (mem g (dims (cur s))))) ;; upd (on_cur (up_dims (add g))))
  | Expand g => load_dc ;; guard (fun s => match dcache s with Some l => mem g l | None => false end)
  | Purge d => do_purge c d
  | Unstore d => do_unstore c d
  | EmptyTrash => do_empty_trash c
  | Transfer d => do_transfer c d
  | ImportDs d => do_import c d
  end.

Inductive prog := POp (o : op) | PBlock (ps : list prog) | PTry (p : prog) | PFail.

Fixpoint exec (c : cfg) (p : prog) : act :=
  match p with
  | POp o => exec_op c o
  | PFail => raise
  | PTry q => swallow (exec c q)
  | PBlock ps =>
      butler_txn c ((fix seq (l : list prog) : act :=
                       match l with [] => ret | q :: r => exec c q ;; seq r end) ps)
  end.

Fixpoint seqp (c : cfg) (l : list prog) : act := match l with [] => ret | q :: r => exec c q ;; seqp c r end.

(* a committed pre-history: each program run fault-free at top level, failures ignored *)
Fixpoint run_pre (c : cfg) (l : list prog) (s : st) : st :=
  match l with [] => s | p :: r => run_pre c r (fst (exec c p s)) end.

Definition db0 := mkdb [] [] [] [] [] [] [] [].
Definition init (e : files) : st := mkst db0 [] [] [] e None None false false.
