(* Executable checkers that evaluate the REGENERATED Postprocessing.apply (Gen/PostprocGen.v in the skeleton of
   Model/PagingPP.v) on the recorded observations: same case types as Model/PagingCheck.v.  On the unchanged tree they
   agree with chk_exec / chk_trace by theorem postproc_refines_model; on a changed tree they say whether the translator
   renders what the changed code does (they should then agree with the implementation while chk_exec does not). *)
From Coq Require Import ZArith List Bool.
From V Require Import Model.Paging Model.PagingCheck Model.PagingPPBase Gen.PostprocGen Model.PagingPP.
Import ListNotations.
Open Scope Z_scope.

Definition gres {T} (lim : option Z) (r : res T) : res T := if limit_accepted lim then r else ErrInvalidQuery.

Definition gmodel_exec (c : Z * Z * bool * option Z) (rows : list xrow) : option (list Z) * list (option Z) * list (option bool) :=
  let '(rp, f, pp, lim) := c in
  let cf := {| raw_page := rp; factor := f |} in
  (option_map (map fst) (res_opt (gres lim (Ok (giterate cf pp xkeep lim rows)))),
   [res_opt (gres lim (gcount pp xkeep lim rows true true)); res_opt (gres lim (gcount pp xkeep lim rows true false));
    res_opt (gres lim (gcount pp xkeep lim rows false false))],
   [res_opt (gres lim (gany pp xkeep lim rows true true)); res_opt (gres lim (gany pp xkeep lim rows true false));
    res_opt (gres lim (gany pp xkeep lim rows false false)); res_opt (gres lim (gany pp xkeep lim rows false true))]).

Definition chk_gexec (k : exec_case) : bool :=
  let '(c, rows, (ids, counts, anys)) := k in
  let '(mi, mc, ma) := gmodel_exec c rows in
  oeqb (leqb Z.eqb) ids mi && leqb (oeqb Z.eqb) counts mc && leqb (oeqb Bool.eqb) anys ma.

Fixpoint gtrace (active : bool) (lim : option Z) (pgs : list (list xrow)) : list (option Z * Z * Z) :=
  match pgs with
  | [] => []
  | p :: rest => let '(o, lim') := gapply active false xkeep lim p in (lim, zlen p, zlen o) :: gtrace active lim' rest
  end.

Definition gmodel_trace (c : Z * Z * bool * option Z) (rows : list xrow) : list (option Z * Z * Z) :=
  let '(rp, f, pp, lim) := c in
  let cf := {| raw_page := rp; factor := f |} in
  let sql_rows := if pp then rows else sql_limit lim rows in
  let pplim := if pp then lim else None in
  gtrace pp pplim (pages_z (raw_page_size cf pplim) sql_rows).

Definition chk_gtrace (k : (Z * Z * bool * option Z) * list xrow * list (option Z * Z * Z)) : bool :=
  let '(c, rows, tr) := k in leqb t3eqb tr (gmodel_trace c rows).
