(* Executable checker for the Butler-level correspondence of C17 (tie K): the harness runs one history on two real Butler
   clients sharing a cache directory (file cache configured) and again with both caches disabled, and records after every
   step the result, the cache directory (name, size) and both managers' file_count / cache_size / registry entries;
   this replays the history on Model/CacheButler.v. *)
From Coq Require Import ZArith NArith List Bool.
From V Require Import Model.Cache Model.CacheButler.
Import ListNotations.
Open Scope Z_scope.

Definition pair_eqb (a b : N * Z) : bool := N.eqb (fst a) (fst b) && (snd a =? snd b).
Fixpoint plist_eqb (a b : list (N * Z)) : bool :=
  match a, b with
  | [], [] => true
  | x :: r, y :: s => pair_eqb x y && plist_eqb r s
  | _, _ => false
  end.
Definition pset_same (a b : list (N * Z)) : bool :=
  Nat.eqb (length a) (length b) && forallb (fun x => existsb (pair_eqb x) b) a.
Definition ks (l : list entry) : list (N * Z) := map (fun e => (e_key e, e_size e)) l.

Definition bres_eqb (a b : bres) : bool :=
  match a, b with
  | BOk, BOk | BRefused, BRefused | BNotFound, BNotFound | BIntegrity, BIntegrity => true
  | BContent x, BContent y => plist_eqb x y
  | _, _ => false
  end.

Record bmobs := mkBmobs { bm_count : Z; bm_size : Z; bm_entries : list (N * Z) }.
Record bobs := mkBobs { bo_res : bres; bo_disk : list (N * Z); bo_a : bmobs; bo_b : bmobs; bo_unc : bres }.

Definition bmgr_ok (m : mgr) (o : bmobs) : bool :=
  (Z.of_nat (length (entries m)) =? bm_count o) && (msize m =? bm_size o) && pset_same (ks (entries m)) (bm_entries o).

(* 0 = agrees; otherwise 10 * (1-based step) + component
   (1 result, 2 cache directory, 3 manager A, 4 manager B, 5 result of the run with the caches disabled) *)
Fixpoint bfirst_bad (ca cb : cfg) (sc su : bstate) (i : N) (l : list (bop * bobs)) : N :=
  match l with
  | [] => 0%N
  | (o, ob) :: rest =>
    let '(sc', rc) := bstep true ca cb sc o in
    let '(su', ru) := bstep true cfg_off cfg_off su o in
    if negb (bres_eqb rc (bo_res ob)) then (10 * i + 1)%N
    else if negb (pset_same (ks (w_disk (b_w sc'))) (bo_disk ob)) then (10 * i + 2)%N
    else if negb (bmgr_ok (w_a (b_w sc')) (bo_a ob)) then (10 * i + 3)%N
    else if negb (bmgr_ok (w_b (b_w sc')) (bo_b ob)) then (10 * i + 4)%N
    else if negb (bres_eqb ru (bo_unc ob)) then (10 * i + 5)%N
    else bfirst_bad ca cb sc' su' (N.succ i) rest
  end.

Definition chk_butler_history (c : cfg * cfg * list (bop * bobs)) : bool :=
  let '(ca, cb, l) := c in N.eqb (bfirst_bad ca cb empty_b empty_b 1%N l) 0%N.
