(* C05 model, part 1: the where-expression language and its DOCUMENTED meaning.

   expr is the parse tree of registry/queries/expressions/parser (C14's Model/ExprTree.v `tree`) after the two
   context-dependent steps that queries/_expression_strings.py performs while visiting it:
     * literals are decoded (NumericLiteral text -> int / float, TimeLiteral -> TAI nanoseconds, a (t1, t2) tuple ->
       Timespan; unary plus and parentheses are transparent),
     * identifiers are resolved by interpret_identifier to a column (small numeric id + declared column type) and
       bind names are replaced by their values (a scalar -> literal, a list/tuple/set -> ISeq).
   ExprTree.tree itself is NOT used: it keeps literal text and identifier spellings, which carry no meaning for this
   property; the resolution table is built by the harness from the dimension universe.

   Values: ints, reals as exact rationals n/d (the harness only produces reals whose double arithmetic is exact or is
   compared far from a rounding boundary), strings, times (ns), timespans (begin, end; canonical empty = (MAX, MIN) as
   in C11), booleans.  A row `env` maps a column to `option value`, None = SQL NULL.

   dval = the documented meaning (doc/lsst.daf.butler/queries.rst): a subset of the SQL expression language, so
   comparisons / arithmetic / AND / OR / NOT follow SQL three-valued logic; `x IN (items)` is membership in the union
   of the items, a range literal a..b:s being "equivalent to the sequence of integers a, a+s, ... <= b (but not to
   intervals of floats)"; `= NULL` / `!= NULL` / a NULL item test for NULL ("we don't have an IS operator").
   `/` is division (not truncated: neither queries.rst nor the implementation truncates), `%` is the SQL remainder
   (sign of the dividend), both NULL for a zero divisor (SQLite; PostgreSQL raises - not modelled).

   No proofs in this file. *)
From Coq Require Import ZArith List Bool String Ascii.
From V Require Import Base.Tri Gen.TimespanGen.
Import ListNotations.
Open Scope Z_scope.

Inductive ty := TyInt | TyReal | TyStr | TyTime | TySpan | TyBool.
Definition col := N.

Inductive value :=
  | VInt (z : Z) | VReal (n : Z) (d : positive) | VStr (s : string) | VTime (z : Z) | VSpan (b e : Z) | VBool (b : bool).
Definition nv := option value.
Definition env := col -> nv.

Inductive aop := OAdd | OSub | OMul | ODiv | OMod.
Inductive cop := CEq | CNe | CLt | CLe | CGt | CGe.

(* items of an IN list: the grammar allows literals, identifiers and bind names only *)
Inductive item :=
  | ILit (v : value)
  | ICol (c : col) (t : ty)
  | IRange (a b : Z) (st : option Z)
  | ISeq (vs : list value)
  | INull.

Inductive expr :=
  | ELit (v : value)
  | ENull
  | ECol (c : col) (t : ty)
  | EBegin (e : expr) | EEnd (e : expr)
  | ENeg (e : expr)
  | EArith (o : aop) (a b : expr)
  | ECmp (o : cop) (a b : expr)
  | EOverlaps (a b : expr)
  | EIn (e : expr) (its : list item) (neg : bool)
  | ENot (e : expr) | EAnd (a b : expr) | EOr (a b : expr).

(* ------------------------------------------------------------------ types of values *)
Definition ty_eqb (a b : ty) : bool :=
  match a, b with
  | TyInt, TyInt | TyReal, TyReal | TyStr, TyStr | TyTime, TyTime | TySpan, TySpan | TyBool, TyBool => true
  | _, _ => false
  end.
Definition ty_of (v : value) : ty :=
  match v with VInt _ => TyInt | VReal _ _ => TyReal | VStr _ => TyStr | VTime _ => TyTime | VSpan _ _ => TySpan | VBool _ => TyBool end.

(* ------------------------------------------------------------------ SQL scalar primitives (shared by both semantics) *)
Definition num (v : value) : option (Z * positive) :=
  match v with VInt z => Some (z, 1%positive) | VReal n d => Some (n, d) | _ => None end.
Definition is_int (v : value) : bool := match v with VInt _ => true | _ => false end.

(* SQLite CAST(x AS INTEGER): truncation towards zero *)
Definition trunc (q : Z * positive) : Z := Z.quot (fst q) (Zpos (snd q)).

Definition arith (o : aop) (x y : nv) : nv :=
  match x, y with
  | Some vx, Some vy =>
      match num vx, num vy with
      | Some (n1, d1), Some (n2, d2) =>
          let both_int := is_int vx && is_int vy in
          match o with
          | OAdd => Some (if both_int then VInt (n1 + n2) else VReal (n1 * Zpos d2 + n2 * Zpos d1) (d1 * d2))
          | OSub => Some (if both_int then VInt (n1 - n2) else VReal (n1 * Zpos d2 - n2 * Zpos d1) (d1 * d2))
          | OMul => Some (if both_int then VInt (n1 * n2) else VReal (n1 * n2) (d1 * d2))
          | ODiv =>   (* SQLAlchemy 2 renders true division: a / (b + 0.0) for integers *)
              match n2 with
              | Z0 => None
              | Zpos p => Some (VReal (n1 * Zpos d2) (d1 * p))
              | Zneg p => Some (VReal (- (n1 * Zpos d2)) (d1 * p))
              end
          | OMod =>   (* SQLite: both operands are cast to INTEGER, remainder has the sign of the dividend *)
              let a := trunc (n1, d1) in let b := trunc (n2, d2) in
              if b =? 0 then None else Some (if both_int then VInt (Z.rem a b) else VReal (Z.rem a b) 1)
          end
      | _, _ => None
      end
  | _, _ => None
  end.

Definition neg (x : nv) : nv :=
  match x with
  | Some (VInt z) => Some (VInt (- z))
  | Some (VReal n d) => Some (VReal (- n) d)
  | _ => None
  end.

(* byte-wise string order (SQLite BINARY collation; the fixture uses ASCII only) *)
Fixpoint str_cmp (a b : string) : comparison :=
  match a, b with
  | EmptyString, EmptyString => Eq
  | EmptyString, _ => Lt
  | _, EmptyString => Gt
  | String x r, String y s =>
      match N.compare (N_of_ascii x) (N_of_ascii y) with Eq => str_cmp r s | c => c end
  end.

(* three-way comparison of two non-NULL values of comparable type *)
Definition vcmp (x y : value) : option comparison :=
  match num x, num y with
  | Some (n1, d1), Some (n2, d2) => Some (Z.compare (n1 * Zpos d2) (n2 * Zpos d1))
  | _, _ =>
      match x, y with
      | VStr a, VStr b => Some (str_cmp a b)
      | VTime a, VTime b => Some (Z.compare a b)
      | VBool a, VBool b => Some (if Bool.eqb a b then Eq else if a then Gt else Lt)
      | VSpan a b, VSpan c d => if (a =? c) && (b =? d) then Some Eq else None
      | _, _ => None
      end
  end.
Definition cop_holds (o : cop) (c : comparison) : bool :=
  match o, c with
  | CEq, Eq | CLe, Eq | CGe, Eq | CNe, Lt | CNe, Gt | CLt, Lt | CLe, Lt | CGt, Gt | CGe, Gt => true
  | _, _ => false
  end.
Definition cmp3 (o : cop) (x y : nv) : tri :=
  match x, y with
  | Some a, Some b => match vcmp a b with Some c => tri_of_bool (cop_holds o c) | None => UU end
  | _, _ => UU
  end.

Definition is_null (x : nv) : bool := match x with None => true | Some _ => false end.

(* booleans as nullable values *)
Definition nv_of_tri (t : tri) : nv := match t with TT => Some (VBool true) | FF => Some (VBool false) | UU => None end.
Definition tri_of_nv (x : nv) : tri := match x with Some (VBool true) => TT | Some (VBool false) => FF | _ => UU end.

(* ------------------------------------------------------------------ documented meaning *)
(* x is a member of the integer sequence a, a+s, a+2s, ... <= b  (s >= 1) *)
Definition in_seqb (x a b s : Z) : bool := (a <=? x) && (x <=? b) && ((x - a) mod s =? 0).
(* the sequence written out (used to state what in_seqb means; fuel = number of elements) *)
Fixpoint seq_from (a s : Z) (n : nat) : list Z := match n with O => [] | S k => a :: seq_from (a + s) s k end.
Definition range_seq (a b s : Z) : list Z := if b <? a then [] else seq_from a s (Z.to_nat ((b - a) / s + 1)).

Definition stride_of (st : option Z) : Z := match st with None => 1 | Some s => s end.

(* the value, if it is a whole number *)
Definition whole (v : value) : option Z :=
  match v with
  | VInt z => Some z
  | VReal n d => if n mod Zpos d =? 0 then Some (n / Zpos d) else None
  | _ => None
  end.

Definition d_item (rho : env) (x : nv) (it : item) : tri :=
  match it with
  | ILit v => cmp3 CEq x (Some v)
  | ICol c _ => cmp3 CEq x (rho c)
  | IRange a b st =>
      match x with
      | None => UU
      | Some v => match whole v with Some z => tri_of_bool (in_seqb z a b (stride_of st)) | None => FF end
      end
  | ISeq vs => fold_right (fun v acc => tri_or (cmp3 CEq x (Some v)) acc) FF vs
  | INull => tri_of_bool (is_null x)
  end.

Definition span_of (x : nv) : option (Z * Z) := match x with Some (VSpan b e) => Some (b, e) | _ => None end.

Definition d_overlaps (x y : nv) : tri :=
  match x, y with
  | Some (VSpan a b), Some (VSpan c d) => tri_of_bool (py_overlaps (a, b) (c, d))
  | Some (VSpan a b), Some (VTime t) => tri_of_bool (py_contains_t (a, b) t)
  | Some (VTime t), Some (VSpan a b) => tri_of_bool (py_contains_t (a, b) t)
  | _, _ => UU
  end.

Definition is_ENull (e : expr) : bool := match e with ENull => true | _ => false end.
Definition is_ECol (e : expr) : bool := match e with ECol _ _ => true | _ => false end.

Fixpoint dval (rho : env) (e : expr) : nv :=
  match e with
  | ELit v => Some v
  | ENull => None
  | ECol c _ => rho c
  | EBegin a => match dval rho a with Some (VSpan b _) => Some (VTime b) | _ => None end
  | EEnd a => match dval rho a with Some (VSpan _ e) => Some (VTime e) | _ => None end
  | ENeg a => neg (dval rho a)
  | EArith o a b => arith o (dval rho a) (dval rho b)
  | ECmp o a b =>
      if is_ENull b then
        match o with
        | CEq => Some (VBool (is_null (dval rho a)))
        | CNe => Some (VBool (negb (is_null (dval rho a))))
        | _ => None
        end
      else if is_ENull a then
        match o with
        | CEq => Some (VBool (is_null (dval rho b)))
        | CNe => Some (VBool (negb (is_null (dval rho b))))
        | _ => None
        end
      else nv_of_tri (cmp3 o (dval rho a) (dval rho b))
  | EOverlaps a b => nv_of_tri (d_overlaps (dval rho a) (dval rho b))
  | EIn a its ng =>
      let x := dval rho a in
      let t := fold_right (fun it acc => tri_or (d_item rho x it) acc) FF its in
      nv_of_tri (if ng then tri_not t else t)
  | ENot a => nv_of_tri (tri_not (tri_of_nv (dval rho a)))
  | EAnd a b => nv_of_tri (tri_and (tri_of_nv (dval rho a)) (tri_of_nv (dval rho b)))
  | EOr a b => nv_of_tri (tri_or (tri_of_nv (dval rho a)) (tri_of_nv (dval rho b)))
  end.

(* the truth value of a where-clause on a row *)
Definition deval (rho : env) (e : expr) : tri := tri_of_nv (dval rho e).

(* ------------------------------------------------------------------ documented typing *)
(* TyQuot is not a column type: it is the documented type "number, possibly fractional" of an integer expression that
   contains `/`.  The implementation calls such an expression `int` (BinaryExpression.column_type = a.column_type). *)
Inductive dty := DInt | DQuot | DReal | DStr | DTime | DSpan | DBool.
Definition dty_of_ty (t : ty) : dty :=
  match t with TyInt => DInt | TyReal => DReal | TyStr => DStr | TyTime => DTime | TySpan => DSpan | TyBool => DBool end.
Definition dty_eqb (a b : dty) : bool :=
  match a, b with
  | DInt, DInt | DQuot, DQuot | DReal, DReal | DStr, DStr | DTime, DTime | DSpan, DSpan | DBool, DBool => true
  | _, _ => false
  end.
(* the implementation's column_type of a documented type *)
Definition erase (d : dty) : ty :=
  match d with DInt | DQuot => TyInt | DReal => TyReal | DStr => TyStr | DTime => TyTime | DSpan => TySpan | DBool => TyBool end.
Definition intlike (d : dty) : bool := match d with DInt | DQuot => true | _ => false end.

(* value lists: numbers and strings.  `time IN (t1, t2)` is documented as containment in the time range [t1, t2),
   which is NOT what a value list means; it is kept out of the well-typed fragment (see time_in_refuted) *)
Definition listable (d : dty) : bool := match d with DInt | DQuot | DReal | DStr => true | _ => false end.
Definition item_ok (member : dty) (it : item) : bool :=
  match it with
  | ILit v => ty_eqb (ty_of v) (erase member) && listable member
  | ICol _ t => ty_eqb t (erase member) && listable member
  | IRange a b st => dty_eqb member DInt && (1 <=? stride_of st) && (a <=? b + 1)
  | ISeq vs => forallb (fun v => ty_eqb (ty_of v) (erase member)) vs && listable member
  | INull => true
  end.

Definition ordered (t : ty) : bool := match t with TyInt | TyReal | TyStr | TyTime => true | _ => false end.
Definition cop_is_eq (o : cop) : bool := match o with CEq | CNe => true | _ => false end.

Fixpoint typeof (e : expr) : option dty :=
  match e with
  | ELit v => match v with VBool _ => None | _ => Some (dty_of_ty (ty_of v)) end
  | ENull => None
  | ECol _ t => Some (dty_of_ty t)
  | EBegin a | EEnd a => match typeof a with Some DSpan => Some DTime | _ => None end
  | ENeg a => match typeof a with Some DInt => Some DInt | Some DQuot => Some DQuot | Some DReal => Some DReal | _ => None end
  | EArith o a b =>
      match typeof a, typeof b with
      | Some ta, Some tb =>
          if intlike ta && intlike tb then
            match o with
            | ODiv => Some DQuot
            | OMod => if dty_eqb ta DInt && dty_eqb tb DInt then Some DInt else None
            | _ => if dty_eqb ta DInt && dty_eqb tb DInt then Some DInt else Some DQuot
            end
          else if dty_eqb ta DReal && dty_eqb tb DReal then
            match o with OMod => None | _ => Some DReal end
          else None
      | _, _ => None
      end
  | ECmp o a b =>
      if is_ENull b then
        match typeof a with
        | Some ta => if cop_is_eq o && (negb (dty_eqb ta DBool) || is_ECol a) then Some DBool else None
        | None => None
        end
      else if is_ENull a then
        match typeof b with
        | Some tb => if cop_is_eq o && (negb (dty_eqb tb DBool) || is_ECol b) then Some DBool else None
        | None => None
        end
      else
        match typeof a, typeof b with
        | Some ta, Some tb =>
            if ty_eqb (erase ta) (erase tb) && negb (dty_eqb ta DBool) && negb (dty_eqb ta DSpan)
               && (cop_is_eq o || ordered (erase ta))
            then Some DBool else None
        | _, _ => None
        end
  | EOverlaps a b =>
      match typeof a, typeof b with
      | Some DSpan, Some DSpan | Some DSpan, Some DTime | Some DTime, Some DSpan => Some DBool
      | _, _ => None
      end
  | EIn a its _ =>
      match typeof a with
      | Some ta => if negb (dty_eqb ta DBool) && forallb (item_ok ta) its then Some DBool else None
      | None => None
      end
  | ENot a => match typeof a with Some DBool => Some DBool | _ => None end
  | EAnd a b | EOr a b => match typeof a, typeof b with Some DBool, Some DBool => Some DBool | _, _ => None end
  end.

(* the row agrees with the declared column types wherever the expression looks *)
Definition col_ok (rho : env) (c : col) (t : ty) : bool :=
  match rho c with None => true | Some v => ty_eqb (ty_of v) t end.
Definition item_env_ok (rho : env) (it : item) : bool :=
  match it with ICol c t => col_ok rho c t | _ => true end.
Fixpoint env_ok (rho : env) (e : expr) : bool :=
  match e with
  | ELit _ | ENull => true
  | ECol c t => col_ok rho c t
  | EBegin a | EEnd a | ENeg a | ENot a => env_ok rho a
  | EArith _ a b | ECmp _ a b | EOverlaps a b | EAnd a b | EOr a b => env_ok rho a && env_ok rho b
  | EIn a its _ => env_ok rho a && forallb (item_env_ok rho) its
  end.

(* every `.begin` / `.end` in the expression is applied to a timespan that is not NULL on this row *)
Fixpoint bounds_ok (rho : env) (e : expr) : bool :=
  match e with
  | ELit _ | ENull | ECol _ _ => true
  | EBegin a | EEnd a => negb (is_null (dval rho a)) && bounds_ok rho a
  | ENeg a | ENot a => bounds_ok rho a
  | EArith _ a b | ECmp _ a b | EOverlaps a b | EAnd a b | EOr a b => bounds_ok rho a && bounds_ok rho b
  | EIn a _ _ => bounds_ok rho a
  end.
