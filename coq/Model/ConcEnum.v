(* C20 -- exhaustive exploration of the interleaving model for small programs: every interleaving (not: every schedule
   list) of the clients' steps, the serial orders, and the classification of a result against them.  Used by the
   completeness theorems of Proofs/ConcProofsD.v: which refusals / states that NO serial order produces exist at all. *)
From Coq Require Import NArith List Bool Arith.
From V Require Import Model.Conc Model.ConcCheck.
Import ListNotations.
Open Scope N_scope.

Fixpoint explore (fuel : nat) (slots : list (path * N)) (g : gstate) (cs : list client) : list (gstate * list client) :=
  match fuel with
  | O => [(g, cs)]
  | S f => match live_idx 0 cs with
           | [] => [(g, cs)]
           | l => flat_map (fun i => let '(g', cs') := step_at true slots g cs i in explore f slots g' cs') l
           end
  end.
Fixpoint explore_serial (fuel : nat) (slots : list (path * N)) (g : gstate) (cs : list client) : list (gstate * list client) :=
  match fuel with
  | O => [(g, cs)]
  | S f => match live_idx 0 cs with
           | [] => [(g, cs)]
           | l => flat_map (fun i => let '(g', cs') := astep_at true slots g cs i in explore_serial f slots g' cs') l
           end
  end.

Definition pairN_eqb (a b : N * N) := (fst a =? fst b) && (snd a =? snd b).
(* what a fresh Butler can tell apart *)
Definition obs_eqb (g h : gstate) : bool :=
  seteq (fun a b => (fst a =? fst b) && ctype_eqb (snd a) (snd b)) (colls g) (colls h)
  && forallb (fun c => list_eqb N.eqb (children g (fst c)) (children h (fst c))) (colls g)
  && seteq (fun a b => (d_run a =? d_run b) && (d_det a =? d_det b) && optN_eqb (read_ds g a) (read_ds h b)) (dsets g) (dsets h)
  && forallb (fun c => seteq pairN_eqb (tag_data g (fst c)) (tag_data h (fst c))) (colls g)
  && seteq (fun a b => pairN_eqb (fst a) (fst b) && (snd a =? snd b)) (files g) (files h)
  && Nat.eqb (length (trashl g)) (length (trashl h)) && Nat.eqb (length (recs g)) (length (recs h))
  && Nat.eqb (length (loc g)) (length (loc h))
  && seteq pairN_eqb (dtypes g) (dtypes h).
Definition outs_eqb (a b : list (list outcome)) := list_eqb (list_eqb outcome_eqb) a b.
Definition res_eqb (a b : gstate * list client) := outs_eqb (map outs (snd a)) (map outs (snd b)) && obs_eqb (fst a) (fst b).

Definition is_err (o : outcome) := match o with Err _ => true | _ => false end.
Definition reduce (ps : list (list op)) (os : list (list outcome)) : list (list op) :=
  map (fun po => map fst (filter (fun x => negb (is_err (snd x))) (combine (fst po) (snd po)))) (combine ps os).
Definition readable (g : gstate) : bool :=
  forallb (fun d => match read_ds g d with Some v => v =? d_v d | None => false end) (dsets g).

Fixpoint dedup {A} (e : A -> A -> bool) (l : list A) : list A :=
  match l with [] => [] | x :: r => if existsb (e x) r then dedup e r else x :: dedup e r end.

(* 0 = equals a serial order; 1 = equals a serial order of the programs WITHOUT the calls that failed (refused under
   race); 2 = neither; + 10 when a visible dataset is unreadable *)
Definition classify (slots : list (path * N)) (g0 : gstate) (ps : list (list op)) (serial : list (gstate * list client))
           (r : gstate * list client) : N :=
  let os := map outs (snd r) in
  let u := if readable (fst r) then 0 else 10 in
  if existsb (res_eqb r) serial then u
  else
    let ok := map (filter (fun o => negb (is_err o))) os in
    if existsb is_err (concat os) &&
       existsb (fun s => outs_eqb (map outs (snd s)) ok && obs_eqb (fst s) (fst r))
               (explore_serial 40 slots g0 (map client_of (reduce ps os)))
    then 1 + u else 2 + u.

(* the distinct non-serial results of a program set: (class, per-client outcomes) *)
Definition nonserial (slots : list (path * N)) (g0 : gstate) (ps : list (list op)) : list (N * list (list outcome)) :=
  let serial := dedup res_eqb (explore_serial 40 slots g0 (map client_of ps)) in
  flat_map (fun r => match classify slots g0 ps serial r with 0 => [] | k => [(k, map outs (snd r))] end)
           (explore 60 slots g0 (map client_of ps)).

(* ---- the mechanisms (each is a known finding); a failed call `o` with error `e`, and a call `o2` of ANOTHER client *)
Definition reg_name_type (o : op) : option (N * ctype) :=
  match o with RegRun n => Some (n, CRun) | RegColl n t => Some (n, t) | _ => None end.
Definition mech (o : op) (e : err) (o2 : op) : bool :=
  match o, e with
  | RegRun n, EConflict | RegColl n _, EConflict =>            (* register-race: two types for one name *)
      match reg_name_type o, reg_name_type o2 with
      | Some (a, t), Some (b, t') => (a =? b) && negb (ctype_eqb t t') | _, _ => false end
  | RegRun n, ESqlIntegrity =>                                  (* removed-halfway *)
      match o2 with RmColl m | RemoveRun m => n =? m | _ => false end
  | Put run _ _, EConflict =>                                   (* regrun-halfway *)
      match o2 with RegRun m => run =? m | _ => false end
  | RemoveRun n, ESqlIntegrity =>                               (* put after removeRuns' query *)
      match o2 with Put run _ _ => run =? n | _ => false end
  | _, _ => false
  end.
Definition is_put (o : op) := match o with Put _ _ _ => true | _ => false end.
Definition is_removal (o : op) := match o with Prune _ | RemoveRun _ | EmptyTrash => true | _ => false end.

Fixpoint others {A} (i : nat) (l : list A) : list A :=
  match l, i with [], _ => [] | _ :: r, O => r | x :: r, S j => x :: others j r end.
Fixpoint idx {A} (i : nat) (l : list A) : list (nat * A) := match l with [] => [] | x :: r => (i, x) :: idx (S i) r end.

Definition explained (ps : list (list op)) (c : N * list (list outcome)) : bool :=
  if 10 <=? fst c then existsb is_put (concat ps) && existsb is_removal (concat ps)      (* emptyTrash vs put on one path *)
  else existsb (fun ipo =>
         existsb (fun oe => match snd oe with
                            | Err e => existsb (mech (fst oe) e) (concat (others (fst ipo) ps))
                            | _ => false end)
                 (combine (fst (snd ipo)) (snd (snd ipo))))
       (idx 0 (combine ps (snd c))).

Definition all_explained (slots : list (path * N)) (g0 : gstate) (pss : list (list (list op))) : bool :=
  forallb (fun ps => forallb (explained ps) (nonserial slots g0 ps)) pss.
