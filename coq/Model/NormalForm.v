(* C15 -- model of registry/queries/expressions/normalForm.py (legacy query system).

   ltree      the part of the parser tree that matters: atoms (any node without AND/OR/NOT above it),
              NOT, AND/OR (o = true is AND, as LogicalBinaryOperator.AND = True), Parens.
   wrap       TransformationWrapper: Opaque | LogicalNot(Opaque) | LogicalBinaryOperation.
   wrap_of    TransformationVisitor (NOT is pushed to the atoms at construction by `not_`).
   allows / satisfies / normalize (+ the three _normalizeDispatch* rules, merged in `dispatch`)
   flatten, from_tree (NormalFormExpression.fromTree -> _nodes), to_tree (TreeReconstructionVisitor).

   normalize is not structurally recursive (the dispatch rules re-normalise freshly built operations), so it
   takes fuel; None = out of fuel, or the `assert` of _normalizeDispatchBinary failed.  Proofs/NormalFormProofs.v
   shows that enough fuel always exists (so neither happens).  form : bool, true = CONJUNCTIVE. *)
From Coq Require Import NArith List Bool.
From V Require Import Base.Tri Model.Pred.
Import ListNotations.

Inductive ltree :=
  | LAtom (a : atom)
  | LNot (t : ltree)
  | LBin (l : ltree) (o : bool) (r : ltree)
  | LParens (t : ltree).

Inductive wrap :=
  | Opaque (a : atom)
  | WNot (a : atom)
  | WBin (l : wrap) (o : bool) (r : wrap).

Definition bop3 (o : bool) : tri -> tri -> tri := if o then tri_and else tri_or.

Fixpoint leval3 (v : atom -> tri) (t : ltree) : tri :=
  match t with
  | LAtom a => v a
  | LNot t => tri_not (leval3 v t)
  | LBin l o r => bop3 o (leval3 v l) (leval3 v r)
  | LParens t => leval3 v t
  end.

Fixpoint weval3 (v : atom -> tri) (w : wrap) : tri :=
  match w with
  | Opaque a => v a
  | WNot a => tri_not (v a)
  | WBin l o r => bop3 o (weval3 v l) (weval3 v r)
  end.

Fixpoint not_ (w : wrap) : wrap :=
  match w with
  | Opaque a => WNot a
  | WNot a => Opaque a
  | WBin l o r => WBin (not_ l) (negb o) (not_ r)
  end.

Fixpoint wrap_of (t : ltree) : wrap :=
  match t with
  | LAtom a => Opaque a
  | LNot t => not_ (wrap_of t)
  | LBin l o r => WBin (wrap_of l) o (wrap_of r)
  | LParens t => wrap_of t
  end.

(* NormalForm.allows(inner=, outer=):  inner == outer or outer is self.outer *)
Definition allows (form inner outer : bool) : bool := Bool.eqb inner outer || Bool.eqb outer form.

(* _satisfiesDispatch / ...Atomic / ...Binary merged: `o` applied to (l, r), both already satisfying *)
Definition sat_dispatch (form : bool) (l : wrap) (o : bool) (r : wrap) : bool :=
  match l, r with
  | WBin _ lo _, WBin _ ro _ => allows form lo o && allows form ro o
  | WBin _ lo _, _ => allows form lo o
  | _, WBin _ ro _ => allows form ro o
  | _, _ => true
  end.

Fixpoint satisfies (form : bool) (w : wrap) : bool :=
  match w with
  | WBin l o r => satisfies form l && satisfies form r && sat_dispatch form l o r
  | _ => true
  end.

(* lhs._normalizeDispatch(operator, rhs, form); `rec` = normalize with the remaining fuel *)
Definition dispatch (rec : wrap -> option wrap) (form : bool) (L : wrap) (o : bool) (R : wrap) : option wrap :=
  let bin2 (x : wrap) (op : bool) (y : wrap) : option wrap :=
    match rec x, rec y with Some x', Some y' => Some (WBin x' op y') | _, _ => None end in
  match L, R with
  | WBin ll lo lr, WBin rl ro rr =>
      (* R._normalizeDispatchBinary(outer=o, lhs=ll, inner=lo, rhs=lr) *)
      if allows form lo o then
        if allows form ro o then Some (WBin L o R)
        else bin2 (WBin L o rl) ro (WBin L o rr)
      else
        if allows form ro o then bin2 (WBin ll o R) lo (WBin lr o R)
        else if allows form lo ro then
          match rec (WBin ll o rl), rec (WBin ll o rr), rec (WBin lr o rl), rec (WBin lr o rr) with
          | Some a, Some b, Some c, Some d => Some (WBin (WBin a lo b) ro (WBin c lo d))
          | _, _, _, _ => None
          end
        else None (* AssertionError *)
  | WBin ll lo lr, _ =>
      (* atomic R: TransformationWrapper._normalizeDispatchBinary *)
      if allows form lo o then Some (WBin L o R)
      else bin2 (WBin ll o R) lo (WBin lr o R)
  | _, WBin rl ro rr =>
      (* atomic L: R._normalizeDispatchAtomic(o, L) *)
      if allows form ro o then Some (WBin L o R)
      else bin2 (WBin L o rl) ro (WBin L o rr)
  | _, _ => Some (WBin L o R)
  end.

Fixpoint normalize (fuel : nat) (form : bool) (w : wrap) : option wrap :=
  match fuel with
  | O => None
  | S n =>
      match w with
      | WBin l o r =>
          if satisfies form w then Some w
          else match normalize n form l, normalize n form r with
               | Some L, Some R => dispatch (normalize n form) form L o R
               | _, _ => None
               end
      | _ => Some w
      end
  end.

Fixpoint flatten (op : bool) (w : wrap) : list wrap :=
  match w with
  | WBin l o r => if Bool.eqb op o then flatten op l ++ flatten op r else [w]
  | _ => [w]
  end.

(* unwrap of what remains after both flattenings (Parens are only for printing) *)
Fixpoint unwrap (w : wrap) : ltree :=
  match w with
  | Opaque a => LAtom a
  | WNot a => LNot (LAtom a)
  | WBin l o r => LBin (unwrap l) o (unwrap r)
  end.

(* NormalFormExpression.fromTree(...)._nodes *)
Definition nodes_of (form : bool) (w : wrap) : list (list ltree) :=
  map (fun x => map unwrap (flatten (negb form) x)) (flatten form w).
Definition from_tree (fuel : nat) (form : bool) (t : ltree) : option (list (list ltree)) :=
  match normalize fuel form (wrap_of t) with
  | Some w => Some (nodes_of form w)
  | None => None
  end.

(* TreeReconstructionVisitor._visitSequence: right-nested chain; the sequences are never empty *)
Fixpoint chain (op : bool) (first : ltree) (rest : list ltree) : ltree :=
  match rest with
  | [] => first
  | x :: r => LBin first op (chain op x r)
  end.
Definition seq_tree (op : bool) (l : list ltree) : option ltree :=
  match l with [] => None (* ValueError: not enough values to unpack *) | x :: r => Some (chain op x r) end.
Definition visit_inner (form : bool) (g : list ltree) : option ltree :=
  match seq_tree (negb form) g with
  | Some t => Some (match g with _ :: _ :: _ => LParens t | _ => t end)
  | None => None
  end.
Fixpoint all_some {A} (l : list (option A)) : option (list A) :=
  match l with
  | [] => Some []
  | Some x :: r => match all_some r with Some r' => Some (x :: r') | None => None end
  | None :: _ => None
  end.
Definition to_tree (form : bool) (nodes : list (list ltree)) : option ltree :=
  match all_some (map (visit_inner form) nodes) with
  | Some gs => match seq_tree form gs with
               | Some (LParens t) => Some t
               | x => x
               end
  | None => None
  end.

(* value of the nested node list: outer operator over inner operator; empty sequences are the units *)
Definition unit3 (o : bool) : tri := if o then TT else FF.
Definition nodes_eval3 (v : atom -> tri) (form : bool) (nodes : list (list ltree)) : tri :=
  fold_right (fun g acc => bop3 form (fold_right (fun t a => bop3 (negb form) (leval3 v t) a) (unit3 (negb form)) g) acc)
             (unit3 form) nodes.

(* the shape NormalForm documents: a branch is an atom or NOT atom (NOT moved inside, no AND/OR left) *)
Definition is_branch (t : ltree) : bool :=
  match t with LAtom _ | LNot (LAtom _) => true | _ => false end.
Definition nodes_normal (nodes : list (list ltree)) : bool :=
  nonempty nodes && forallb (fun g => nonempty g && forallb is_branch g) nodes.

Fixpoint wsize (w : wrap) : nat :=
  match w with WBin l _ r => S (wsize l + wsize r) | _ => 1 end.

(* decidable equality for checkers *)
Fixpoint ltree_eqb (x y : ltree) : bool :=
  match x, y with
  | LAtom a, LAtom b => N.eqb a b
  | LNot s, LNot t => ltree_eqb s t
  | LBin l o r, LBin l' o' r' => ltree_eqb l l' && Bool.eqb o o' && ltree_eqb r r'
  | LParens s, LParens t => ltree_eqb s t
  | _, _ => false
  end.
Definition ltable (n : nat) (t : ltree) : list tri := map (fun a => leval3 (assign_of a) t) (assignments n).
Definition ntable (n : nat) (form : bool) (nodes : list (list ltree)) : list tri :=
  map (fun a => nodes_eval3 (assign_of a) form nodes) (assignments n).
