(* Executable checkers for the correspondence run (tie K) of C06: the harness records what the implementation
   did (per-operation outcome, final dimension tables, final <element>_skypix_overlap tables, rows returned by the
   data-ID queries) and these functions say whether the model does the same.  Geometry (exact overlap of two
   regions, common-skypix envelope of a region) is computed by lsst.sphgeom in the harness and handed over as data. *)
From Coq Require Import String List Bool ZArith NArith.
From V Require Import Model.Universe Model.Group Gen.Universes Model.Join.
Import ListNotations.
Open Scope string_scope.
Open Scope list_scope.

(* the configuration of the CURRENT universe: elements and spatial families are regenerated from dimensions.yaml
   (Gen/Universes.v); the view-of map is checked against `element.implied_union_target` by the harness on every run *)
Definition jc_current : jconf := mkJ u_current (rspatial raw_current) [("band", "physical_filter")].

Definition mk_ov (pairs : list (N * N)) (x y : N) : bool :=
  existsb (fun p => (N.eqb (fst p) x && N.eqb (snd p) y) || (N.eqb (fst p) y && N.eqb (snd p) x)) pairs.

Fixpoint mk_env (l : list (N * list N)) (x : N) : list N :=
  match l with
  | [] => []
  | kv :: r => if N.eqb (fst kv) x then snd kv else mk_env r x
  end.

(* env_sound on the finite geometry handed over: two overlapping regions share a pixel *)
Definition env_soundb (regions : list N) (ov : N -> N -> bool) (env : N -> list N) : bool :=
  forallb (fun x => forallb (fun y => negb (ov x y) || existsb (fun p => existsb (N.eqb p) (env y)) (env x)) regions) regions.

Definition outc_code (o : outc) : N :=
  match o with
  | ROk => 0 | RInserted => 1 | RSame => 2 | RUpdated => 3 | RIntegrity => 4 | RConflict => 5 | RBadElem => 6
  end%N.

Fixpoint zlist_eqb (a b : list Z) : bool :=
  match a, b with
  | [], [] => true
  | x :: r, y :: s => Z.eqb x y && zlist_eqb r s
  | _, _ => false
  end.
Fixpoint nlist_eqb (a b : list N) : bool :=
  match a, b with
  | [], [] => true
  | x :: r, y :: s => N.eqb x y && nlist_eqb r s
  | _, _ => false
  end.

Definition set_eqb {A} (eqb : A -> A -> bool) (l1 l2 : list A) : bool :=
  forallb (fun x => existsb (eqb x) l2) l1 && forallb (fun x => existsb (eqb x) l1) l2.

(* a row as the values of the given columns, in that order; a missing column shows as -1 *)
Definition row_vals (ds : list string) (a : asg) : list Z :=
  map (fun d => match aget a d with Some v => v | None => (-1)%Z end) ds.

Definition orow_eqb (a b : list Z * N) : bool := zlist_eqb (fst a) (fst b) && N.eqb (snd a) (snd b).
Definition rrow := (list Z * option N * option (Z * Z))%type.
Definition rrow_eqb (a b : rrow) : bool :=
  zlist_eqb (fst (fst a)) (fst (fst b)) && oreg_eqb (snd (fst a)) (snd (fst b)) && ots_eqb (snd a) (snd b).
Definition rrow_of (ds : list string) (r : rec) : rrow := (row_vals ds (rvals r), rregion r, rts r).

(* ---- history case: (ops, observed outcome codes, observed tables, observed overlap tables) ---- *)
Definition elem_deps (c : jconf) (n : string) : list string :=
  match find_elem (ju c) n with Some e => deps e | None => [] end.
Definition elem_req (c : jconf) (n : string) : list string :=
  match find_elem (ju c) n with Some e => ereq e | None => [] end.

Definition hcase := (list op * list N * list (string * list rrow) * list (string * list (list Z * N)))%type.

Definition chk_hist (c : jconf) (env : N -> list N) (hc : hcase) : bool :=
  let '(h, outs, tabs, ovs) := hc in
  let s := run_hist c env h st0 in
  nlist_eqb (map outc_code (run_outs c env h st0)) outs
  && forallb (fun nt => set_eqb rrow_eqb
                          (map (rrow_of (elem_deps c (fst nt))) (tget (recs s) (fst nt)))
                          (snd nt)) tabs
  && forallb (fun nt => set_eqb orow_eqb
                          (map (fun kp => (row_vals (elem_req c (fst nt)) (fst kp), snd kp)) (oget (ovl s) (fst nt)))
                          (snd nt)) ovs.

(* ---- query case: (state, group names, observation) ; observation: 0 = rows, 1 = crash (TypeError in the
        region test), 2 = InvalidQueryError ---- *)
Definition qcase := (st * list string * (N * list (list Z)))%type.

(* Fast evaluation of the same join for the correspondence run: candidates are built dimension by dimension (last
   dimension of the list innermost) and a planned table is applied as soon as all of its key columns are assigned,
   instead of filtering the full product at the end.  `chk_fast` compares it with `query` itself on the cases that are
   small enough for the brute-force definition. *)
Definition complete_at (c : jconf) (assigned : list string) (t : elem) : bool :=
  forallb (fun d => memb d assigned) (cols c t)
  && match assigned with n :: _ => memb n (cols c t) | [] => false end.

Fixpoint fcands (c : jconf) (d : db) (plan : list elem) (ns : list string) : list asg :=
  match ns with
  | [] => [[]]
  | n :: r =>
    let now := filter (complete_at c (n :: r)) plan in
    let rest := fcands c d plan r in
    filter (fun a => forallb (fun t => has_row c d t a) now)
           (flat_map (fun v => map (cons (n, v)) rest) (dom d n))
  end.

(* the prefilter, evaluated per side first: the pixels of the rows agreeing with the assignment, then their intersection
   (Proofs/JoinProofsX3.v fpre_pre: equal to Join.pre) *)
Definition fpre (o : ovt) (ea eb : elem) (a : asg) : bool :=
  let pa := map snd (filter (fun kp => agrees (ereq ea) (fst kp) a) (oget o (ename ea))) in
  let pb := map snd (filter (fun kq => agrees (ereq eb) (fst kq) a) (oget o (ename eb))) in
  existsb (fun p => existsb (N.eqb p) pb) pa.

Definition frun_plan (c : jconf) (ov : N -> N -> bool) (s : st) (plan : list elem) (ns : list string) : qres :=
  if negb (covers c plan ns) then QIncomplete
  else
    let base := fcands c (recs s) plan (rev ns) in
    match spatial_pair c ns with
    | SpNone => QOk base
    | SpMany => QInvalid
    | SpPair ea eb =>
      let sqlrows := filter (fpre (ovl s) ea eb) base in
      if existsb (fun a => has_null (recs s) ea a || has_null (recs s) eb a) sqlrows then QCrash
      else QOk (filter (sp_overlap ov (recs s) ea eb) sqlrows)
    end.

Definition fquery (c : jconf) (ov : N -> N -> bool) (s : st) (ns : list string) : qres :=
  frun_plan c ov s (full_plan c ns) ns.

Definition chk_query (c : jconf) (ov : N -> N -> bool) (qc : qcase) : bool :=
  let '(s, ns, (code, rows)) := qc in
  match fquery c ov s ns with
  | QOk l => N.eqb code 0 && set_eqb zlist_eqb (map (row_vals ns) l) rows
  | QCrash => N.eqb code 1
  | QInvalid => N.eqb code 2
  | QIncomplete => false
  end.

Definition qres_eqb (ns : list string) (a b : qres) : bool :=
  match a, b with
  | QOk l, QOk m => set_eqb zlist_eqb (map (row_vals ns) l) (map (row_vals ns) m)
  | QCrash, QCrash => true
  | QInvalid, QInvalid => true
  | QIncomplete, QIncomplete => true
  | _, _ => false
  end.

(* fast evaluator = the model's `query`, and = the model's `spec` when the query returns rows *)
Definition chk_fast (c : jconf) (ov : N -> N -> bool) (qc : qcase) : bool :=
  let '(s, ns, _) := qc in
  qres_eqb ns (fquery c ov s ns) (query c ov s ns).

(* the model's own specification evaluated on the same state: used to cross-check plan against spec on every case *)
Definition chk_spec (c : jconf) (ov : N -> N -> bool) (qc : qcase) : bool :=
  let '(s, ns, (code, rows)) := qc in
  negb (N.eqb code 0) || set_eqb zlist_eqb (map (row_vals ns) (spec c ov (recs s) ns)) rows.

(* ---- configuration cases: what the implementation's universe reports vs the model's configuration ---- *)
Fixpoint slist_eqb (a b : list string) : bool :=
  match a, b with
  | [], [] => true
  | x :: r, y :: s => String.eqb x y && slist_eqb r s
  | _, _ => false
  end.

(* (element, defines_relationships, has_own_table, view-of target or "", spatial family or "", members of that family
   most-fine-grained first) *)
Definition ecase := (string * bool * bool * string * string * list string)%type.

Definition chk_elem (c : jconf) (ec : ecase) : bool :=
  let '(n, dr, own, vw, fam, members) := ec in
  match find_elem (ju c) n with
  | None => false
  | Some e =>
    Bool.eqb (defines_rel e) dr && Bool.eqb (has_table c e) own
    && String.eqb (match view_of c n with Some t => t | None => "" end) vw
    && String.eqb (match espatial e with Some f => f | None => "" end) fam
    && match espatial e with
       | Some f => existsb (fun fm => String.eqb (fst fm) f && slist_eqb (snd fm) members) (jfams c)
       | None => true
       end
  end.

(* ---- record queries: (state, element, observation); observation code 0 = rows, 1 = crash, 2 = invalid ---- *)
Definition rcase := (st * string * (N * list rrow))%type.

Definition fqrecords (c : jconf) (ov : N -> N -> bool) (s : st) (e : elem) : rres :=
  match closure (ju c) (deps e) with
  | GOk ns =>
    match frun_plan c ov s (full_plan c ns ++ [e]) ns with
    | QOk rows => ROkRecs (recs_of_rows (recs s) e rows)
    | QCrash => RCrash
    | QInvalid => RInvalid
    | QIncomplete => RIncomplete
    end
  | _ => RNoGroup
  end.

Definition chk_records (c : jconf) (ov : N -> N -> bool) (rc : rcase) : bool :=
  let '(s, n, (code, rows)) := rc in
  match find_elem (ju c) n with
  | None => false
  | Some e =>
    match fqrecords c ov s e with
    | ROkRecs l => N.eqb code 0 && set_eqb rrow_eqb (map (rrow_of (deps e)) l) rows
    | RCrash => N.eqb code 1
    | RInvalid => N.eqb code 2
    | _ => false
    end
  end.

Definition rres_eqb (e : elem) (a b : rres) : bool :=
  match a, b with
  | ROkRecs l, ROkRecs m => set_eqb rrow_eqb (map (rrow_of (deps e)) l) (map (rrow_of (deps e)) m)
  | RCrash, RCrash => true
  | RInvalid, RInvalid => true
  | _, _ => false
  end.

(* the pruned evaluation against the model's definition `qrecords` *)
Definition chk_rfast (c : jconf) (ov : N -> N -> bool) (rc : rcase) : bool :=
  let '(s, n, _) := rc in
  match find_elem (ju c) n with
  | None => false
  | Some e => rres_eqb e (fqrecords c ov s e) (qrecords c ov s e)
  end.

(* ---- temporal configuration: (element, temporal family or "") and explicit temporal joins (a, b, observed code:
        2 = InvalidQueryError "not necessary", 0 = accepted) ---- *)
Definition chk_telem (c : jconf) (tc : string * string) : bool :=
  match find_elem (ju c) (fst tc) with
  | None => false
  | Some e => String.eqb (match etemporal e with Some f => f | None => "" end) (snd tc)
  end.

Definition chk_tjoin (c : jconf) (tc : string * string * N) : bool :=
  let '(a, b, code) := tc in
  match explicit_tjoin c a b with
  | TJInvalid => N.eqb code 2
  | TJConnect => N.eqb code 0
  | TJNotTemporal => false
  end.

(* ---- queries with a join operand: (state, G, ds = closure (G ++ operand dims), operand dims, kind, given rows,
        observation).  kind 0: a materialization of the query over the operand's dims (the model computes its rows
        itself); kind 1: uploaded data IDs / a dataset search (rows given) ---- *)
Definition ocase := (st * list string * list string * list string * N * list asg * (N * list (list Z)))%type.

Definition frun_plan_f (c : jconf) (ov : N -> N -> bool) (s : st) (plan : list elem) (ns : list string)
                       (f : asg -> bool) (nosp : bool) : qres :=
  if negb (covers c plan ns) then QIncomplete
  else
    let base := filter f (fcands c (recs s) plan (rev ns)) in
    match spatial_pair c ns with
    | SpNone => QOk base
    | SpMany => QInvalid
    | SpPair ea eb =>
      if nosp then QOk base
      else
        let sqlrows := filter (fpre (ovl s) ea eb) base in
        if existsb (fun a => has_null (recs s) ea a || has_null (recs s) eb a) sqlrows then QCrash
        else QOk (filter (sp_overlap ov (recs s) ea eb) sqlrows)
    end.

Definition fquery_op (c : jconf) (ov : N -> N -> bool) (s : st) (ds : list string) (o : operand) : qres :=
  frun_plan_f c ov s (full_plan_op c ds o) ds (in_operand o) (op_embeds c ds o).

Definition operand_of (c : jconf) (ov : N -> N -> bool) (s : st) (ons : list string) (kind : N) (rows : list asg) : option operand :=
  if N.eqb kind 0 then match fquery c ov s ons with QOk l => Some (mkOpd ons l) | _ => None end
  else Some (mkOpd ons rows).

Definition chk_opquery (c : jconf) (ov : N -> N -> bool) (oc : ocase) : bool :=
  let '(s, ns, ds, ons, kind, rows, (code, obs)) := oc in
  (* ds must be the dependency closure of the requested and the operand's dimensions (C12 model) *)
  match closure (ju c) (ns ++ ons) with GOk ds' => slist_eqb ds ds' | _ => false end &&
  match operand_of c ov s ons kind rows with
  | None => N.eqb code 1            (* the materialization itself raised *)
  | Some o =>
    match fquery_op c ov s ds o with
    | QOk l => N.eqb code 0 && set_eqb zlist_eqb (map (row_vals ns) l) obs
    | QCrash => N.eqb code 1
    | QInvalid => N.eqb code 2
    | QIncomplete => false
    end
  end.

(* the pruned evaluation against the definition query_op *)
Definition chk_opfast (c : jconf) (ov : N -> N -> bool) (oc : ocase) : bool :=
  let '(s, ns, ds, ons, kind, rows, _) := oc in
  match operand_of c ov s ons kind rows with
  | None => true
  | Some o => qres_eqb ds (fquery_op c ov s ds o) (query_op c ov s ds o)
  end.
