(* Model of lsst.daf.butler.datastore.file_templates.FileTemplate.format at character level.

   A template string is pre-parsed (by Python's string.Formatter().parse, exactly as the code does) into
   segments (literal text, alternates "a|b.c", optional "?", keep-slash "/"); everything that happens to
   the *values* and to the assembled path is modelled here on `string`:

     value.replace(" ", "_"); value.replace("/", "_") unless the "/" specifier is present;
     optional missing field: the field AND the literal before it vanish unless the literal contains "/";
     head, tail = os.path.split(output); tail.replace(".", "_").replace("#", "HASH");
     os.path.normpath; absolute -> relative to "/"; refuse a result that is ".." or starts with "../".

   The three replacement tables are parameters: the tie regenerates them (and the default template) from
   the source into Gen/TemplateGen.v.  No proofs here. *)
From Coq Require Import String Ascii List Bool.
Import ListNotations.
Open Scope string_scope.

Definition table := list (ascii * string).
Definition fields := list (string * string).

Fixpoint tbl_get (t : table) (c : ascii) : option string :=
  match t with
  | [] => None
  | (k, v) :: r => if Ascii.eqb k c then Some v else tbl_get r c
  end.

(* character-wise substitution (the code's chained str.replace calls; equivalent because no replacement
   text contains a character that a later replace looks for -- the translator checks that) *)
Fixpoint subst (t : table) (s : string) : string :=
  match s with
  | EmptyString => EmptyString
  | String c r => match tbl_get t c with
                  | Some v => v ++ subst t r
                  | None => String c (subst t r)
                  end
  end.

Fixpoint fget (fs : fields) (k : string) : option string :=
  match fs with
  | [] => None
  | (k', v) :: r => if String.eqb k' k then Some v else fget r k
  end.

Fixpoint has_char (c : ascii) (s : string) : bool :=
  match s with
  | EmptyString => false
  | String d r => if Ascii.eqb c d then true else has_char c r
  end.

(* text before the first "." : "detector.full_name" -> "detector" *)
Fixpoint primary (s : string) : string :=
  match s with
  | EmptyString => EmptyString
  | String c r => if Ascii.eqb c "."%char then EmptyString else String c (primary r)
  end.

Record seg := mkSeg { s_lit : string; s_alts : list string; s_opt : bool; s_keep : bool }.
Definition template := (list seg * string)%type.     (* segments, trailing literal *)

Fixpoint choose (alts : list string) (fs : fields) : option string :=
  match alts with
  | [] => None
  | a :: r => match fget fs (primary a) with Some _ => Some a | None => choose r fs end
  end.

Definition pick (alts : list string) (fs : fields) : string :=
  match alts with
  | [a] => a                                      (* no "|" : the name is used as is *)
  | _ => match choose alts fs with Some a => a | None => hd "" alts end
  end.

Inductive fresult := FOk (p : string) | FKeyErr | FOutside.

Section Format.
  Variable tv ts tt : table.     (* value table (" "), slash table ("/"), tail table (".", "#") *)

  Definition sanitize (keep : bool) (v : string) : string :=
    let v1 := subst tv v in if keep then v1 else subst ts v1.

  Fixpoint format_raw (segs : list seg) (fs : fields) (acc : string) : option string :=
    match segs with
    | [] => Some acc
    | sg :: r =>
        match fget fs (pick (s_alts sg) fs) with
        | Some v => format_raw r fs (acc ++ s_lit sg ++ sanitize (s_keep sg) v)
        | None => if s_opt sg
                  then format_raw r fs (acc ++ (if has_char "/"%char (s_lit sg) then s_lit sg else ""))
                  else None
        end
    end.

  (* everything up to and including the last "/" unchanged, the rest through the tail table *)
  Fixpoint fix_tail (s : string) : string :=
    match s with
    | EmptyString => EmptyString
    | String c r => if has_char "/"%char s then String c (fix_tail r) else subst tt s
    end.
End Format.

(* ---- os.path.normpath + relpath(path, "/") + the containment check ---------------------------- *)

Fixpoint split_slash (s : string) : list string :=
  match s with
  | EmptyString => [EmptyString]
  | String c r =>
      if Ascii.eqb c "/"%char then EmptyString :: split_slash r
      else match split_slash r with
           | h :: t => String c h :: t
           | [] => [String c EmptyString]
           end
  end.

Definition is_abs (s : string) : bool :=
  match s with String c _ => Ascii.eqb c "/"%char | EmptyString => false end.

(* stack is kept reversed (top first) *)
Definition norm_step (abs : bool) (stack : list string) (c : string) : list string :=
  if String.eqb c "" || String.eqb c "." then stack
  else if String.eqb c ".." then
         match stack with
         | [] => if abs then [] else [".."]
         | top :: rest => if String.eqb top ".." then ".." :: stack else rest
         end
  else c :: stack.

Definition norm_comps (s : string) : list string :=
  rev (fold_left (norm_step (is_abs s)) (split_slash s) []).

Fixpoint join_slash (l : list string) : string :=
  match l with
  | [] => EmptyString
  | [a] => a
  | a :: r => a ++ "/" ++ join_slash r
  end.

Definition finish_path (s : string) : fresult :=
  match norm_comps s with
  | [] => FOk "."
  | c :: r => if String.eqb c ".." then FOutside else FOk (join_slash (c :: r))
  end.

Definition format (tv ts tt : table) (t : template) (fs : fields) : fresult :=
  match format_raw tv ts (fst t) fs "" with
  | None => FKeyErr
  | Some raw => finish_path (fix_tail tt (raw ++ snd t))
  end.
