(* C20 -- interleaving model of several Butler clients on one repository (SQLite registry + file datastore).

   One op = one public API call.  An op executes as a sequence of STEPS; a step is what the cooperative
   scheduler of harness/impl/c20_impl.py runs atomically: one outermost registry transaction block (SQLite
   BEGIN IMMEDIATE = global write lock, so a block is atomic), one maximal run of reads outside a block, or one
   datastore file operation outside a block.  Between steps any other client may run.  `fixed = true` is the code
   as it is (chain cycle check inside the locked block, fbfd646); `fixed = false` is the variant with the check
   before the block.  Names are small numbers; a file path is (run, detector) -- the default file template has no
   dataset id in it, so a new dataset with the key of a removed one gets the SAME path. *)
From Coq Require Import NArith List Bool.
Import ListNotations.
Open Scope N_scope.

Inductive ctype := CRun | CTagged | CChained.
Definition ctype_eqb (a b : ctype) : bool :=
  match a, b with CRun, CRun | CTagged, CTagged | CChained, CChained => true | _, _ => false end.

Inductive err := EConflict | EMissingColl | ECollType | ECycle | ESqlIntegrity | ETypeError | EHang.
Inductive outcome := OkU | OkB (b : bool) | Err (e : err).

Definition path := (N * N)%type.
Definition path_eqb (p q : path) : bool := (fst p =? fst q) && (snd p =? snd q).

Record dset := mkD { d_id : N; d_run : N; d_det : N; d_v : N }.

Record gstate := mkG {
  colls : list (N * ctype);          (* collection table *)
  chains : list (N * list N);        (* collection_chain rows, per parent, in position order *)
  dsets : list dset;                 (* dataset rows (all of dataset type "dt") *)
  tags : list (N * N);               (* (tagged collection, dataset id) *)
  loc : list N;                      (* dataset_location *)
  trashl : list N;                   (* dataset_location_trash *)
  recs : list (N * path);            (* file_datastore_records: dataset id -> path *)
  files : list (path * N);           (* the datastore root: path -> content *)
  dtypes : list (N * N);             (* dataset types: name -> storage-class variant *)
  next : N;                          (* source of fresh dataset ids (never observed) *)
  runs : list N;                     (* rows of the `run` table: a RUN collection is usable only once its run row exists *)
  gtabs : list N                     (* dimension groups whose dynamic tag tables exist (created by the first dataset type over them) *)
}.

Definition g0 : gstate := mkG [] [] [] [] [] [] [] [] [(0, 0)] 1 [] [].

Definition memN (x : N) (l : list N) : bool := existsb (N.eqb x) l.
Fixpoint lookup {A} (k : N) (l : list (N * A)) : option A :=
  match l with [] => None | (k', v) :: r => if k =? k' then Some v else lookup k r end.
Fixpoint plookup {A} (k : path) (l : list (path * A)) : option A :=
  match l with [] => None | (k', v) :: r => if path_eqb k k' then Some v else plookup k r end.
Definition remove_key {A} (k : N) (l : list (N * A)) := filter (fun x => negb (fst x =? k)) l.
Definition premove {A} (k : path) (l : list (path * A)) := filter (fun x => negb (path_eqb (fst x) k)) l.
Definition diffN (l m : list N) := filter (fun x => negb (memN x m)) l.
Definition interN (l m : list N) := filter (fun x => memN x m) l.

Definition children (g : gstate) (c : N) : list N := match lookup c (chains g) with Some l => l | None => [] end.
Definition set_children (g : gstate) (c : N) (l : list N) : list (N * list N) :=
  match l with [] => remove_key c (chains g) | _ => (c, l) :: remove_key c (chains g) end.
Definition is_child (g : gstate) (n : N) : bool := existsb (fun e => memN n (snd e)) (chains g).

(* _sanity_check_collection_cycles: flatten the new children, look for the parent among the CHAINED ones *)
Fixpoint reach (fuel : nat) (g : gstate) (todo : list N) (target : N) : option bool :=
  match fuel with
  | O => None
  | S f => match todo with
           | [] => Some false
           | c :: r => if c =? target then Some true else reach f g (children g c ++ r) target
           end
  end.
Definition REACH_FUEL : nat := 200.

Definition has_key (g : gstate) (run det : N) : bool :=
  existsb (fun d => (d_run d =? run) && (d_det d =? det)) (dsets g).
Definition dset_of (g : gstate) (id : N) : option dset := find (fun d => d_id d =? id) (dsets g).
Definition ids_in_run (g : gstate) (run : N) : list N := map d_id (filter (fun d => d_run d =? run) (dsets g)).

Inductive refspec := RKey (run det : N) | ROwn.

Inductive op :=
| RegRun (n : N) | RegColl (n : N) (t : ctype) | RmColl (n : N)
| Put (run det v : N) | Assoc (tag : N) (rs : list refspec) | Prune (rs : list refspec)
| RemoveRun (n : N) | EmptyTrash
| SetChain (c : N) (ch : list N) | Prepend (c : N) (ch : list N) | Extend (c : N) (ch : list N) | Unchain (c : N) (ch : list N)
| RegDT (n v : N)
| RegDTG (n v : N).   (* dataset type over a dimension group not yet saved by this client; v = variant + 2 * (group + 1) *)

(* per-op scratch of a client: phase, ids read earlier, trash rows read earlier, files still to delete, flag *)
Record scratch := mkS { ph : nat; ids : list N; rows : list (N * path); todo : list path; flag : bool }.
Definition s0 : scratch := mkS 0 [] [] [] false.
Definition at_ph (k : nat) (s : scratch) : scratch := mkS k (ids s) (rows s) (todo s) (flag s).

Inductive nxt := Cont (s : scratch) | Done (r : outcome) (own' : list N).

(* a reference names a dataset the SET-UP program stored (table fixed when the clients start; inside the set-up program
   itself the table is still growing, so the current datasets are consulted) or the client's own earlier puts *)
Definition resolve (slots : list (path * N)) (g : gstate) (own : list N) (rs : list refspec) : list N :=
  flat_map (fun r => match r with
                     | RKey run det => match plookup (run, det) slots with
                                       | Some i => [i]
                                       | None => map d_id (filter (fun d => (d_run d =? run) && (d_det d =? det)) (dsets g)) end
                     | ROwn => own end) rs.

(* ---- emptyTrash: read trash rows + preserved paths; delete files one by one; delete records and trash rows (one block) *)
Definition ET_READ := 10%nat. Definition ET_FILES := 11%nat. Definition ET_RECS := 12%nat.

Definition with_files (g : gstate) f := mkG (colls g) (chains g) (dsets g) (tags g) (loc g) (trashl g) (recs g) f (dtypes g) (next g) (runs g) (gtabs g).
Definition with_recs (g : gstate) r := mkG (colls g) (chains g) (dsets g) (tags g) (loc g) (trashl g) r (files g) (dtypes g) (next g) (runs g) (gtabs g).
Definition with_trashl (g : gstate) t := mkG (colls g) (chains g) (dsets g) (tags g) (loc g) t (recs g) (files g) (dtypes g) (next g) (runs g) (gtabs g).
Definition with_colls (g : gstate) c := mkG c (chains g) (dsets g) (tags g) (loc g) (trashl g) (recs g) (files g) (dtypes g) (next g) (runs g) (gtabs g).
Definition with_chains (g : gstate) c := mkG (colls g) c (dsets g) (tags g) (loc g) (trashl g) (recs g) (files g) (dtypes g) (next g) (runs g) (gtabs g).
Definition with_runs (g : gstate) r := mkG (colls g) (chains g) (dsets g) (tags g) (loc g) (trashl g) (recs g) (files g) (dtypes g) (next g) r (gtabs g).
Definition with_gtabs (g : gstate) t := mkG (colls g) (chains g) (dsets g) (tags g) (loc g) (trashl g) (recs g) (files g) (dtypes g) (next g) (runs g) t.
Definition with_dtypes (g : gstate) d := mkG (colls g) (chains g) (dsets g) (tags g) (loc g) (trashl g) (recs g) (files g) d (next g) (runs g) (gtabs g).

Definition et_step (g : gstate) (own : list N) (s : scratch) : gstate * nxt :=
  match ph s with
  | 10%nat =>
      let rws := filter (fun r => memN (fst r) (trashl g)) (recs g) in
      let keep := fun p => existsb (fun r => path_eqb (snd r) p && memN (fst r) (loc g)) (recs g) in
      match rws with
      | [] => (g, Done OkU own)
      | _ => let td := map snd (filter (fun r => negb (keep (snd r))) rws) in
             (g, Cont (mkS (match td with [] => ET_RECS | _ => ET_FILES end) [] rws td false))
      end
  | 11%nat =>
      match todo s with
      | [] => (g, Cont (at_ph ET_RECS s))
      | p :: rest => (with_files g (premove p (files g)),
                      Cont (mkS (match rest with [] => ET_RECS | _ => ET_FILES end) [] (rows s) rest false))
      end
  | _ => (* e615ec5: the records and the trash rows are deleted in ONE block *)
      (with_trashl (with_recs g (filter (fun r => negb (memN (fst r) (map fst (rows s)))) (recs g)))
                   (diffN (trashl g) (map fst (rows s))), Done OkU own)
  end.

(* ---- pieces of the registry *)
Definition trash_move (g : gstate) (is : list N) : gstate :=
  let moved := interN is (loc g) in
  mkG (colls g) (chains g) (dsets g) (tags g) (diffN (loc g) moved) (trashl g ++ moved) (recs g) (files g) (dtypes g) (next g) (runs g) (gtabs g).
Definition drop_dsets (g : gstate) (is : list N) : gstate :=
  mkG (colls g) (chains g) (filter (fun d => negb (memN (d_id d) is)) (dsets g))
      (filter (fun t => negb (memN (snd t) is)) (tags g)) (loc g) (trashl g) (recs g) (files g) (dtypes g) (next g) (runs g) (gtabs g).

(* registry.removeCollection inside a block: None = refused with that error, state untouched *)
Definition remove_coll (g : gstate) (n : N) : gstate + err :=
  match lookup n (colls g) with
  | None => inr EMissingColl
  | Some t =>
      if is_child g n then inr ESqlIntegrity
      else if existsb (fun i => memN i (loc g)) (ids_in_run g n) then inr ESqlIntegrity
      else let g1 := drop_dsets g (ids_in_run g n) in
           inl (mkG (remove_key n (colls g1)) (remove_key n (chains g1)) (dsets g1)
                    (filter (fun x => negb (fst x =? n)) (tags g1)) (loc g1) (trashl g1) (recs g1) (files g1) (dtypes g1) (next g1) (filter (fun x => negb (x =? n)) (runs g1)) (gtabs g1))
  end.

Definition sync_coll (g : gstate) (n : N) (t : ctype) : gstate * (bool + err) :=
  match lookup n (colls g) with
  | None => (with_colls g (colls g ++ [(n, t)]), inl true)
  | Some t' => if ctype_eqb t t' then (g, inl false) else (g, inr EConflict)
  end.

Inductive cedit := CSet | CPre | CExt | CDel.
Definition new_children (e : cedit) (old ch : list N) : list N :=
  match e with
  | CSet => ch
  | CPre => ch ++ diffN old ch
  | CExt => diffN old ch ++ ch
  | CDel => diffN old ch
  end.
Definition chain_check (g : gstate) (e : cedit) (c : N) (ch : list N) : option err :=
  if existsb (fun x => match lookup x (colls g) with None => true | Some _ => false end) ch then Some EMissingColl
  else match e with
       | CDel => None
       | _ => match reach REACH_FUEL g ch c with
              | None => Some EHang | Some true => Some ECycle | Some false => None end
       end.
Definition chain_write (g : gstate) (e : cedit) (c : N) (ch : list N) : gstate + err :=
  match lookup c (colls g) with
  | None => inr EMissingColl
  | Some CChained =>
      if existsb (fun x => match lookup x (colls g) with None => true | Some _ => false end) ch then inr ESqlIntegrity
      else inl (with_chains g (set_children g c (new_children e (children g c) ch)))
  | Some _ => inr ECollType
  end.
Definition chain_step (fixed : bool) (g : gstate) (own : list N) (e : cedit) (c : N) (ch : list N) (s : scratch) : gstate * nxt :=
  if fixed then
    match chain_check g e c ch with
    | Some x => (g, Done (Err x) own)
    | None => match chain_write g e c ch with inl g' => (g', Done OkU own) | inr x => (g, Done (Err x) own) end
    end
  else
    match ph s with
    | O => match chain_check g e c ch with
           | Some x => (g, Done (Err x) own)
           | None => (g, Cont (at_ph 1 s)) end
    | _ => match chain_write g e c ch with inl g' => (g', Done OkU own) | inr x => (g, Done (Err x) own) end
    end.

Definition mstep (fixed : bool) (slots : list (path * N)) (g : gstate) (own : list N) (o : op) (s : scratch) : gstate * nxt :=
  match o with
  | RegRun n =>
      match ph s with
      | O => match lookup n (colls g) with Some _ => (g, Done (OkB false) own) | None => (g, Cont (at_ph 1 s)) end
      | 1%nat => match sync_coll g n CRun with
                 | (g', inl b) => (g', Cont (mkS 2 [] [] [] b))
                 | (_, inr x) => (g, Done (Err x) own) end
      | _ => (* third block: Database.sync of the run row (FOREIGN KEY to the collection row) *)
             match lookup n (colls g) with
             | Some _ => ((if memN n (runs g) then g else with_runs g (n :: runs g)), Done (OkB (flag s)) own)
             | None => (g, Done (Err ESqlIntegrity) own) end
      end
  | RegColl n t =>
      match ph s with
      | O => match lookup n (colls g) with Some _ => (g, Done (OkB false) own) | None => (g, Cont (at_ph 1 s)) end
      | _ => match sync_coll g n t with
             | (g', inl b) => (g', Done (OkB b) own)
             | (_, inr x) => (g, Done (Err x) own) end
      end
  | RmColl n => match remove_coll g n with inl g' => (g', Done OkU own) | inr x => (g, Done (Err x) own) end
  | Put run det v =>
      match lookup run (colls g) with
      | None => (g, Done (Err EMissingColl) own)
      | Some CRun =>
          (* no run row yet (another client's registerRun is between its blocks): the dataset row's FOREIGN KEY to the
             run table fails; insertDatasets reports it as ConflictingDefinitionError *)
          if negb (memN run (runs g)) then (g, Done (Err EConflict) own)
          else if has_key g run det then (g, Done (Err EConflict) own)
          else let i := next g in
               (mkG (colls g) (chains g) (dsets g ++ [mkD i run det v]) (tags g) (loc g ++ [i]) (trashl g)
                    (recs g ++ [(i, (run, det))]) (((run, det), v) :: premove (run, det) (files g)) (dtypes g) (N.succ i) (runs g) (gtabs g),
                Done OkU (own ++ [i]))
      | Some _ => (g, Done (Err ECollType) own)
      end
  | Assoc tag rs =>
      let is := resolve slots g own rs in
      match lookup tag (colls g) with
      | None => (g, Done (Err EMissingColl) own)
      | Some CTagged =>
          let bad := fun i => match dset_of g i with
                              | None => true
                              | Some d => existsb (fun t => (fst t =? tag) && negb (snd t =? i) &&
                                                     match dset_of g (snd t) with Some d' => d_det d' =? d_det d | None => false end) (tags g)
                              end in
          if existsb bad is then (g, Done (Err EConflict) own)
          else (mkG (colls g) (chains g) (dsets g)
                    (tags g ++ map (fun i => (tag, i)) (filter (fun i => negb (existsb (fun t => (fst t =? tag) && (snd t =? i)) (tags g))) is))
                    (loc g) (trashl g) (recs g) (files g) (dtypes g) (next g) (runs g) (gtabs g), Done OkU own)
      | Some _ => (g, Done (Err ECollType) own)
      end
  | Prune rs =>
      match ph s with
      | O => let is := resolve slots g own rs in
             (drop_dsets (trash_move g is) is, Cont (at_ph ET_READ s0))
      | _ => et_step g own s
      end
  | RemoveRun n =>
      match ph s with
      | O => match lookup n (colls g) with
             | None => (g, Done (Err EMissingColl) own)
             | Some CRun => (g, Cont (at_ph 2 s))
             | Some _ => (g, Done (Err ETypeError) own) end
      | 2%nat => (g, Cont (mkS 3 (ids_in_run g n) [] [] false))   (* a vanished run simply has no datasets *)
      | 3%nat => match remove_coll (trash_move g (ids s)) n with
                 | inl g' => (g', Cont (at_ph ET_READ s0))
                 | inr x => (g, Done (Err x) own) end
      | _ => et_step g own s
      end
  | EmptyTrash => match ph s with O => et_step g own (at_ph ET_READ s) | _ => et_step g own s end
  | SetChain c ch => chain_step fixed g own CSet c ch s
  | Prepend c ch => chain_step fixed g own CPre c ch s
  | Extend c ch => chain_step fixed g own CExt c ch s
  | Unchain c ch => chain_step fixed g own CDel c ch s
  | RegDT n v =>
      let chk := fun (g : gstate) => match lookup n (dtypes g) with
                                     | Some v' => Some (if v =? v' then OkB false else Err EConflict) | None => None end in
      match ph s with
      | O => match chk g with Some r => (g, Done r own) | None => (g, Cont (at_ph 1 s)) end
      | _ => match chk g with
             | Some r => (g, Done r own)
             | None => (with_dtypes g (dtypes g ++ [(n, v)]), Done (OkB true) own) end
      end
  | RegDTG n v =>
      (* read (compare if the name exists) ; block: save the dimension group (get-or-create of its key, re-read inside
         the lock -- see dg_step below; no observable) ; block: create the dynamic tables ; block: sync the dataset type *)
      let chk := fun (g : gstate) => match lookup n (dtypes g) with
                                     | Some v' => Some (if v =? v' then OkB false else Err EConflict) | None => None end in
      match ph s with
      | O => match chk g with Some r => (g, Done r own) | None => (g, Cont (at_ph 1 s)) end
      | 1%nat => (g, Cont (at_ph (if memN (N.div v 2) (gtabs g) then 3 else 2) s))   (* tables there already: no creation block *)
      | 2%nat => ((if memN (N.div v 2) (gtabs g) then g else with_gtabs g (N.div v 2 :: gtabs g)), Cont (at_ph 3 s))
      | _ => match chk g with
             | Some r => (g, Done r own)
             | None => (with_dtypes g (dtypes g ++ [(n, v)]), Done (OkB true) own) end
      end
  end.

(* kind of the step about to run: 0 transaction block, 1 reads outside a block, 2 file operation *)
Definition skind (fixed : bool) (o : op) (s : scratch) : N :=
  let et := fun k => match k with 10%nat => 1 | 11%nat => 2 | _ => 0 end in
  match o with
  | Prune _ => match ph s with O => 0 | k => et k end
  | RemoveRun _ => match ph s with O | 2%nat | 3%nat => 0 | k => et k end
  | EmptyTrash => match ph s with O => 1 | k => et k end
  | RegDT _ _ | RegDTG _ _ => match ph s with O => 1 | _ => 0 end
  | SetChain _ _ | Prepend _ _ | Extend _ _ | Unchain _ _ => 0
  | _ => 0
  end.

(* ---- clients and schedules *)
Record client := mkC { prog : list op; sc : scratch; own : list N; outs : list outcome }.
Definition client_of (p : list op) : client := mkC p s0 [] [].
Definition live (c : client) : bool := match prog c with [] => false | _ => true end.

Definition cstep (fixed : bool) (slots : list (path * N)) (g : gstate) (c : client) : gstate * client :=
  match prog c with
  | [] => (g, c)
  | o :: rest => match mstep fixed slots g (own c) o (sc c) with
                 | (g', Cont s') => (g', mkC (prog c) s' (own c) (outs c))
                 | (g', Done r own') => (g', mkC rest s0 own' (outs c ++ [r]))
                 end
  end.

Fixpoint live_idx (i : nat) (cs : list client) : list nat :=
  match cs with [] => [] | c :: r => if live c then i :: live_idx (S i) r else live_idx (S i) r end.
Fixpoint upd {A} (i : nat) (x : A) (l : list A) : list A :=
  match l, i with [], _ => [] | _ :: r, O => x :: r | y :: r, S j => y :: upd j x r end.

(* entry k of a schedule picks the (k mod #live)-th live client *)
Definition pick (k : nat) (cs : list client) : option nat :=
  match live_idx 0 cs with [] => None | l => Some (nth (Nat.modulo k (length l)) l O) end.

Definition step_at (fixed : bool) slots (g : gstate) (cs : list client) (i : nat) : gstate * list client :=
  match nth_error cs i with
  | None => (g, cs)
  | Some c => let '(g', c') := cstep fixed slots g c in (g', upd i c' cs)
  end.

Fixpoint run_sched (fixed : bool) slots (g : gstate) (cs : list client) (sched : list nat) : gstate * list client :=
  match sched with
  | [] => (g, cs)
  | k :: r => match pick k cs with
              | None => (g, cs)
              | Some i => let '(g', cs') := step_at fixed slots g cs i in run_sched fixed slots g' cs' r
              end
  end.

(* when the schedule is exhausted the lowest-numbered live client runs *)
Fixpoint drain (fuel : nat) (fixed : bool) slots (g : gstate) (cs : list client) : gstate * list client :=
  match fuel with
  | O => (g, cs)
  | S f => match pick 0 cs with
           | None => (g, cs)
           | Some i => let '(g', cs') := step_at fixed slots g cs i in drain f fixed slots g' cs'
           end
  end.
Definition DRAIN_FUEL : nat := 400.
Definition run_all (fixed : bool) slots g cs sched :=
  let '(g', cs') := run_sched fixed slots g cs sched in drain DRAIN_FUEL fixed slots g' cs'.

(* ---- serial reference: one pick = one whole op of that client, run to completion *)
Fixpoint finish_op (fuel : nat) (fixed : bool) slots (g : gstate) (c : client) (n : nat) : gstate * client :=
  match fuel with
  | O => (g, c)
  | S f => if Nat.eqb (length (prog c)) n then
             let '(g', c') := cstep fixed slots g c in
             if Nat.eqb (length (prog c')) n then finish_op f fixed slots g' c' n else (g', c')
           else (g, c)
  end.
Definition OP_FUEL : nat := 100.
Definition astep (fixed : bool) slots (g : gstate) (c : client) : gstate * client :=
  finish_op OP_FUEL fixed slots g c (length (prog c)).
Definition astep_at (fixed : bool) slots (g : gstate) (cs : list client) (i : nat) : gstate * list client :=
  match nth_error cs i with
  | None => (g, cs)
  | Some c => let '(g', c') := astep fixed slots g c in (g', upd i c' cs)
  end.
Fixpoint run_serial (fixed : bool) slots (g : gstate) (cs : list client) (order : list nat) : gstate * list client :=
  match order with
  | [] => (g, cs)
  | k :: r => match pick k cs with
              | None => (g, cs)
              | Some i => let '(g', cs') := astep_at fixed slots g cs i in run_serial fixed slots g' cs' r
              end
  end.

(* the set-up program: one client, serial, from the empty repository; slots = every dataset it stored *)
Definition run_setup (ops : list op) : gstate :=
  fst (drain DRAIN_FUEL true [] g0 [client_of ops]).
Definition slots_of (g : gstate) : list (path * N) := map (fun d => ((d_run d, d_det d), d_id d)) (dsets g).

(* ---- what a fresh Butler sees at the end *)
Definition read_ds (g : gstate) (d : dset) : option N :=
  match lookup (d_id d) (recs g) with Some p => plookup p (files g) | None => None end.
Definition run_data (g : gstate) (run : N) : list (N * option N) :=
  map (fun d => (d_det d, read_ds g d)) (filter (fun d => d_run d =? run) (dsets g)).
Definition tag_data (g : gstate) (tag : N) : list (N * N) :=
  flat_map (fun t => if fst t =? tag then match dset_of g (snd t) with Some d => [(d_run d, d_det d)] | None => [] end else []) (tags g).

(* ---- the dimension-group key: get-or-create arbitrated ONLY by "lock, then re-read" (the tables have no uniqueness
        constraint over the set of names).  inside = true: _DimensionGroupStorage.save as it is (refresh inside the locked
        block: one step); inside = false: the variant that refreshes before taking the lock (snapshot; then the block) *)
Definition dgtab := list (N * N).                         (* (key, dimension group) *)
Record dgclient := mkDG { dg_group : N; dg_snap : option dgtab; dg_done : bool }.
Definition dg_known (t : dgtab) (grp : N) : bool := existsb (fun e => snd e =? grp) t.
Definition dg_insert (t : dgtab) (grp : N) : dgtab := t ++ [(N.of_nat (length t), grp)].
Definition dg_step (inside : bool) (t : dgtab) (c : dgclient) : dgtab * dgclient :=
  if dg_done c then (t, c)
  else if inside then ((if dg_known t (dg_group c) then t else dg_insert t (dg_group c)), mkDG (dg_group c) None true)
  else match dg_snap c with
       | None => (t, mkDG (dg_group c) (Some t) false)
       | Some snap => ((if dg_known snap (dg_group c) then t else dg_insert t (dg_group c)), mkDG (dg_group c) None true)
       end.
Fixpoint dg_run (inside : bool) (t : dgtab) (cs : list dgclient) (sched : list nat) : dgtab * list dgclient :=
  match sched with
  | [] => (t, cs)
  | k :: r => match nth_error cs (Nat.modulo k (Nat.max 1 (length cs))) with
              | None => (t, cs)
              | Some c => let '(t', c') := dg_step inside t c in
                          dg_run inside t' (upd (Nat.modulo k (Nat.max 1 (length cs))) c' cs) r
              end
  end.
