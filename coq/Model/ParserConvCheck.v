(* Executable checker for the conversion stage of C14 (tie K): the harness records what the real
   convert_expression_string_to_predicate did with a string (accepted / InvalidQueryError / another exception) and
   what the real visitIdentifier returned for every name in it; chk_conv says whether the model's verdict
   (lexer, parser, of_tree, C05's conv) agrees. *)
From Coq Require Import ZArith List Bool String Ascii NArith.
From V Require Import Model.Expr Model.SqlExpr Model.Lexer Model.ExprTree Model.Parser Model.ParserCheck Model.ParserConv.
Import ListNotations.
Open Scope string_scope.

Inductive cobs := CAccept | CInvalid | COther.

(* resolution table of one case; a name that is not in the table counts as unknown (InvalidQueryError) *)
Definition res_of (tbl : list (string * option rid)) (s : string) : option rid :=
  let fix go l := match l with
                  | (k, v) :: r => if String.eqb k s then v else go r
                  | [] => None
                  end in go tbl.
Definition bound_of (l : list string) (s : string) : bool := existsb (String.eqb s) l.
Definition tns_of (tbl : list (string * Z)) (v : string) : Z :=
  let fix go l := match l with
                  | (k, z) :: r => if String.eqb k v then z else go r
                  | [] => 0%Z
                  end in go tbl.

Definition conv_case := (list N * list (string * option string) * list (string * Z) * list (string * option rid) * list string * cobs)%type.

Definition case_verdict (c : conv_case) : verdict :=
  let '(codes, times, tnsl, rtbl, bnd, _) := c in
  parsed_verdict (res_of rtbl) (bound_of bnd) (tns_of tnsl) (parse_codes (tv_of times) codes).

(* an exception other than InvalidQueryError is the oracle's business (it is a violation whatever the model says) *)
Definition chk_conv (c : conv_case) : bool :=
  let '(_, _, _, _, _, o) := c in
  match case_verdict c, o with
  | Accept, CAccept | Reject, CInvalid | NoClaim, _ | _, COther => true
  | _, _ => false
  end.

(* evidence: on how many cases does the model make a claim *)
Definition chk_conv_claims (c : conv_case) : bool :=
  match case_verdict c with NoClaim => false | _ => true end.
Definition chk_conv_accepts (c : conv_case) : bool :=
  match case_verdict c with Accept => true | _ => false end.

(* numeric literal values: the harness sends the text, whether int(text) succeeds, and the exact decimal value n/d that
   was written (Python Fraction(text)); the real visitNumericLiteral value is compared with the same n/d by the oracle *)
Definition value_is (v : value) (isint : bool) (n : Z) (d : positive) : bool :=
  match v with
  | VInt z => isint && (z =? n)%Z && (d =? 1)%positive
  | VReal a b => negb isint && (a * Zpos d =? n * Zpos b)%Z
  | _ => false
  end.
Definition chk_num (c : list N * bool * Z * positive) : bool :=
  let '(codes, isint, n, d) := c in value_is (num_value (sb codes)) isint n d.
