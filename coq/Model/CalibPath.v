(* C04 (extension) -- findDataset(timespan=) over an ORDERED SEARCH PATH that may contain CHAINED collections,
   several CALIBRATION collections and RUN collections:
     python/lsst/daf/butler/registry/sql_registry.py          SqlRegistry.findDataset  (the best-rank / tie loop)
     python/lsst/daf/butler/registry/collections/_base.py     resolve_wildcard  (depth-first flattening + first-occurrence dedup)
     python/lsst/daf/butler/registry/datasets/byDimensions/_manager.py   make_relation (tags subquery UNION calibs subquery;
                                                               a RUN / TAGGED row carries the literal timespan (-inf, +inf))

   `lookup_rows` is `Calib.lookup_path` over an arbitrary row list (`lookup_path s = lookup_rows (calibs s)` by
   conversion, lemma lookup_path_rows).  `lookup_first` / `first_rows` are the SPECIFICATION the property text asks
   for: walk the path in order, the first collection that has an overlapping row decides (one row: that dataset, two
   or more: ambiguity), later collections are never consulted.  No proofs here. *)
From Coq Require Import ZArith NArith List Bool.
From V Require Import Gen.TimespanGen Model.Timespan Model.Calib.
Import ListNotations.
Open Scope N_scope.

(* ---- the one-pass scan of findDataset over (rank, row) pairs, generic in the row type ---- *)
Definition best_stepA {A} (acc : N * A * bool) (x : N * A) : N * A * bool :=
  let '(brank, brow, tie) := acc in
  if fst x <? brank then (fst x, snd x, false)
  else if fst x =? brank then (brank, brow, true)
  else acc.
Definition scan {A} (f : A -> N) (l : list (N * A)) : lookup_result :=
  match l with
  | [] => NotFound
  | x :: rest =>
    let '(_, brow, tie) := fold_left best_stepA rest (fst x, snd x, false) in
    if tie then Ambiguous else Unique (f brow)
  end.

(* the SELECT over the searched collections: every row of a searched collection with the dataset type, the data ID
   and a timespan overlapping the probe, tagged with the rank of its collection (first occurrence in the path) *)
Definition path_rows_of (rows : list crow) (path : list N) (i0 : N) (ty d : N) (q : TimespanGen.ts) : list (N * crow) :=
  flat_map (fun r => match rank_of (r_coll r) path i0 with
                     | Some i => if (r_ty r =? ty) && (r_did r =? d) && py_overlaps (r_ts r) q then [(i, r)] else []
                     | None => []
                     end) rows.
Definition lookup_rows (rows : list crow) (path : list N) (ty d : N) (q : TimespanGen.ts) : lookup_result :=
  scan r_ds (path_rows_of rows path 0 ty d q).

(* ---- specification: the first collection of the path with an overlapping row decides ---- *)
Definition coll_rows (rows : list crow) (c ty d : N) (q : TimespanGen.ts) : list crow :=
  filter (fun r => key_match c ty d r && py_overlaps (r_ts r) q) rows.
Definition span_of (l : list crow) : lookup_result :=
  match l with [] => NotFound | [r] => Unique (r_ds r) | _ => Ambiguous end.
Fixpoint first_rows (rows : list crow) (path : list N) (ty d : N) (q : TimespanGen.ts) : lookup_result :=
  match path with
  | [] => NotFound
  | c :: p => match coll_rows rows c ty d q with
              | [] => first_rows rows p ty d q
              | l => span_of l
              end
  end.
(* the same over a registry state, phrased with the single-collection lookup *)
Fixpoint lookup_first (s : state) (path : list N) (ty d : N) (q : TimespanGen.ts) : lookup_result :=
  match path with
  | [] => NotFound
  | c :: p => match lookup_span s c ty d q with
              | NotFound => lookup_first s p ty d q
              | r => r
              end
  end.

(* ---- the loop of seed C04b ("nothing can outrank the first collection": break as soon as a rank-0 row displaces a
        worse one) -- used only by the refutation theorem early_exit_refuted ---- *)
Fixpoint scan_break_loop {A} (l : list (N * A)) (acc : N * A * bool) : N * A * bool :=
  match l with
  | [] => acc
  | x :: rest =>
    let '(brank, brow, tie) := acc in
    if fst x <? brank then (if fst x =? 0 then (fst x, snd x, false) else scan_break_loop rest (fst x, snd x, false))
    else if fst x =? brank then scan_break_loop rest (brank, brow, true)
    else scan_break_loop rest acc
  end.
Definition scan_break {A} (f : A -> N) (l : list (N * A)) : lookup_result :=
  match l with
  | [] => NotFound
  | x :: rest => let '(_, brow, tie) := scan_break_loop rest (fst x, snd x, false) in
                 if tie then Ambiguous else Unique (f brow)
  end.

(* ---- search paths with CHAINED and RUN collections ---- *)
(* what a lookup sees besides the calibration table: the chain definitions and which dataset lives in which RUN *)
Record penv := mkEnv {
  e_chains : list (N * list N);     (* CHAINED collection -> children, in order *)
  e_runs : list (N * ref)           (* (RUN collection, dataset): the dataset's row in the tags table *)
}.

(* CollectionManager._find_many(flatten_chains=True): depth-first, children in order.  The registry refuses to create a
   cyclic chain, so recursion ends; `None` = out of fuel (excluded by the theorems' hypotheses). *)
Fixpoint flatten (fuel : nat) (ch : list (N * list N)) (path : list N) : option (list N) :=
  match fuel with
  | O => None
  | S f =>
    fold_right (fun c acc =>
      match acc with
      | None => None
      | Some r => match lookup c ch with
                  | None => Some (c :: r)
                  | Some kids => match flatten f ch kids with None => None | Some k => Some (k ++ r) end
                  end
      end) (Some []) path
  end.
(* resolve_wildcard: `if record.key not in done_keys` -- the first occurrence is kept *)
Fixpoint dedup (seen : list N) (l : list N) : list N :=
  match l with
  | [] => []
  | c :: r => if memN c seen then dedup seen r else c :: dedup (c :: seen) r
  end.

(* rows of the tags subquery for the RUN collections: a live dataset, timespan literal Timespan(None, None) *)
Definition run_rows (e : penv) (s : state) : list crow :=
  flat_map (fun x => if memN (f_ds (snd x)) (dsets s)
                     then [mkRow (fst x) (f_ty (snd x)) (f_did (snd x)) (f_ds (snd x)) (GEN_MIN, GEN_MAX)] else [])
           (e_runs e).
Definition all_rows (e : penv) (s : state) : list crow := run_rows e s ++ calibs s.

(* findDataset(type, dataId, collections=path, timespan=q) with chains and runs in the path *)
Definition xlookup (fuel : nat) (e : penv) (s : state) (path : list N) (ty d : N) (q : TimespanGen.ts) : option lookup_result :=
  match flatten fuel (e_chains e) path with
  | None => None
  | Some p => Some (lookup_rows (all_rows e s) (dedup [] p) ty d q)
  end.

(* queryDatasetAssociations(type, collections, collectionTypes={CALIBRATION}): the rows of the same interval map *)
Definition associations (s : state) (cs : list N) (ty : N) : list crow :=
  filter (fun r => memN (r_coll r) cs && (r_ty r =? ty)) (calibs s).
