(* C16 -- `Postprocessing.apply` and the driver's raw-page loop AS CODED: the control skeleton of the generator is
   written here once (Section Skel), its counter logic is the code regenerated from /repo on every run
   (Gen/PostprocGen.v, translator harness/translators/postproc.py).  Executable definitions only.

   Skeleton = what the translator checks the source to be:
       if <inactive>: yield from rows; return
       <pre>                                        Ret: the generator ends here
       for row in rows:
           <row_start>                              Ret / Brk: stop, this row is not looked at
           if <filter>: continue                    keep r = false
           <before_yield>                           Ret / Brk: stop, this row is not yielded
           yield row
           <yielded>                                Ret: stop;  Brk: leave the loop
       <post>                                       only after the loop ended or broke -- NOT after a return
   The local counter variable dies with the call: only self._limit (fst of the state) reaches the next page.
   The generator is assumed to be consumed completely (the page converters build a list from it). *)
From Coq Require Import ZArith List Bool.
From V Require Import Model.Paging Model.PagingPPBase Gen.PostprocGen.
Import ListNotations.
Open Scope Z_scope.

Section Skel.
  Context {A : Type}.
  Variable f_inactive : bool -> bool -> bool.
  Variables f_pre f_row_start f_before_yield f_yielded f_post : ppstate -> flow.

  Definition sk_after_loop (s : ppstate) : ppstate := flow_state (f_post s).

  Fixpoint sk_rows (keep : A -> bool) (s : ppstate) (rows : list A) : list A * ppstate :=
    match rows with
    | [] => ([], sk_after_loop s)
    | r :: rest =>
        match f_row_start s with
        | Ret s' => ([], s')
        | Brk s' => ([], sk_after_loop s')
        | Fall s1 =>
            if keep r then
              match f_before_yield s1 with
              | Ret s' => ([], s')
              | Brk s' => ([], sk_after_loop s')
              | Fall s2 =>
                  match f_yielded s2 with
                  | Ret s' => ([r], s')
                  | Brk s' => ([r], sk_after_loop s')
                  | Fall s3 => let '(o, s') := sk_rows keep s3 rest in (r :: o, s')
                  end
              end
            else sk_rows keep s1 rest
        end
    end.

  (* one call: t = bool(self), c = self.check_validity_match_count; returns the yielded rows and self._limit afterwards *)
  Definition sk_apply (t c : bool) (keep : A -> bool) (lim : option Z) (rows : list A) : list A * option Z :=
    if f_inactive t c then (rows, lim)
    else match f_pre (lim, None) with
         | Fall s => let '(o, s') := sk_rows keep s rows in (o, fst s')
         | Ret s | Brk s => ([], fst s)
         end.

  (* _Cursor.next / DirectQueryDriver._read_results: one apply per raw page, same Postprocessing object, until the
     partition iterator is exhausted *)
  Fixpoint sk_pages (t c : bool) (keep : A -> bool) (lim : option Z) (pgs : list (list A)) : list (list A) * option Z :=
    match pgs with
    | [] => ([], lim)
    | p :: rest => let '(o, lim') := sk_apply t c keep lim p in
                   let '(os, lim'') := sk_pages t c keep lim' rest in (o :: os, lim'')
    end.
End Skel.

(* ---- instantiated with the regenerated counter logic ------------------------------------------------------- *)
Section G.
  Context {A : Type}.

  Definition gapply_rows : (A -> bool) -> ppstate -> list A -> list A * ppstate :=
    sk_rows pp_row_start pp_before_yield pp_yielded pp_post.
  Definition gapply : bool -> bool -> (A -> bool) -> option Z -> list A -> list A * option Z :=
    sk_apply pp_inactive pp_pre pp_row_start pp_before_yield pp_yielded pp_post.
  Definition gpages : bool -> bool -> (A -> bool) -> option Z -> list (list A) -> list (list A) * option Z :=
    sk_pages pp_inactive pp_pre pp_row_start pp_before_yield pp_yielded pp_post.

  Definition grun_pages t c keep lim pgs : list (list A) := fst (gpages t c keep lim pgs).
  Definition gfinal_limit t c keep lim pgs : option Z := snd (gpages t c keep lim pgs).

  (* DirectQueryDriver.execute (limit to SQL or to the Postprocessing object, raw page size) around the coded loop *)
  Definition gexecute (c : cfg) (pp : bool) (keep : A -> bool) (lim : option Z) (rows : list A) : list (list A) :=
    let sql_rows := if pp then rows else sql_limit lim rows in
    let pplim := if pp then lim else None in
    grun_pages pp false keep pplim (pages_z (raw_page_size c pplim) sql_rows).

  Definition giterate c pp keep lim rows : list A := concat (gexecute c pp keep lim rows).

  (* DirectQueryDriver.count: `for _ in postprocessing.apply(results): n += 1` over the whole result *)
  Definition gcount (pp : bool) (keep : A -> bool) (lim : option Z) (rows : list A) (exact discard : bool) : res Z :=
    if pp && exact then
      if negb discard then ErrInvalidQuery
      else Ok (zlen (fst (gapply true false keep lim rows)))
    else Ok (match lim with Some k => Z.min (zlen rows) k | None => zlen rows end).

  (* DirectQueryDriver.any: `for _ in postprocessing.apply(result): return True` on a fresh object (no limit) *)
  Definition gany_driver (pp : bool) (keep : A -> bool) (rows : list A) (exec exact : bool) : res bool :=
    if negb exec then (if exact then ErrInvalidQuery else Ok true)
    else if pp && exact then Ok (negb (is_nil (fst (gapply true false keep None rows))))
    else Ok (negb (is_nil rows)).

  (* QueryResultsBase.any *)
  Definition gany (pp : bool) (keep : A -> bool) (lim : option Z) (rows : list A) (exec exact : bool) : res bool :=
    match lim with Some 0 => Ok false | _ => gany_driver pp keep rows exec exact end.
End G.

(* ---- the two seeded variants of the counter (hand copied from seeded/C16a, seeded/C16b; used only for the
   `..._variant_refuted` theorems that show what the write-back is needed for) -------------------------------- *)
Definition v_pre (s : ppstate) : flow :=
  bindf (if oz_eqb (fst s) 0 then Ret s else Fall s) (fun s => let s := set_lc (fst s) s in Fall s).
Definition v_fall (s : ppstate) : flow := Fall s.
(* C16b: counter in a local, written back after the loop only *)
Definition vb_yielded (s : ppstate) : flow :=
  if negb (oz_none (snd s)) then (let s := set_lc (oz_add (snd s) (-1)) s in if oz_eqb (snd s) 0 then Ret s else Fall s) else Fall s.
Definition vb_post (s : ppstate) : flow := let s := set_sl (snd s) s in Fall s.
(* C16a: counter in a local, self._limit written only when it reaches 0 *)
Definition va_yielded (s : ppstate) : flow :=
  if negb (oz_none (snd s)) then
    (let s := set_lc (oz_add (snd s) (-1)) s in if oz_eqb (snd s) 0 then (let s := set_sl (Some 0) s in Ret s) else Fall s)
  else Fall s.

Definition vb_pages {A} (keep : A -> bool) (lim : option Z) (pgs : list (list A)) : list (list A) :=
  fst (sk_pages (fun t c => negb (t || c)) v_pre v_fall v_fall vb_yielded vb_post true false keep lim pgs).
Definition va_pages {A} (keep : A -> bool) (lim : option Z) (pgs : list (list A)) : list (list A) :=
  fst (sk_pages (fun t c => negb (t || c)) v_pre v_fall v_fall va_yielded v_fall true false keep lim pgs).
