(* C10 -- removal and existence reports.  Executable model of the parts of DirectButler / SqlRegistry /
   MonolithicDatastoreRegistryBridge / FileDatastore that decide what pruneDatasets, removeRuns, registry.removeDatasets,
   Datastore.trash / emptyTrash do and what Butler.exists / stored / getDatasetLocations report.

   Small numeric ids.  A dataset id d is chosen by the operation (Butler.put(obj, DatasetRef(..., id))).
   A "key" k stands for (dataset type, data ID).  An artifact is named by the pair (run, key) of the dataset it was
   written for (the default file template is a function of run, dataset type and data ID).

   Tables:
     colls   collection               name -> kind
     chains  collection_chain         parent -> children           (only decides whether a RUN can be removed)
     ds      dataset                  id -> (run, key)
     tags    dataset_tags_*           rows (TAGGED collection, id)      [RUN membership is the run column of ds]
     calibs  dataset_calibs_*         rows (CALIBRATION collection, id, begin, end)
     loc     dataset_location         ids                  (FOREIGN KEY -> dataset, no cascade: OrphanedRecordError)
     trash   dataset_location_trash   ids                  (no foreign key)
     recs    file_datastore_records   id -> artifact       (no foreign key)
     files   the datastore root       artifacts present

   No proofs in this file. *)
From Coq Require Import NArith List Bool.
Import ListNotations.
Open Scope N_scope.

Inductive ckind := Run | Tagged | Chain | Calib.
Definition ckind_eqb (a b : ckind) : bool :=
  match a, b with Run, Run | Tagged, Tagged | Chain, Chain | Calib, Calib => true | _, _ => false end.

Inductive err := Conflict | MissingColl | CollType | TypeErr | Orphaned | Integrity | Cycle.
Inductive outcome := Ok | Err (e : err).

Definition art := (N * N)%type.                      (* (run, key) *)
Definition art_eqb (a b : art) : bool := (fst a =? fst b) && (snd a =? snd b).

Record st := mk {
  colls  : list (N * ckind);
  chains : list (N * list N);
  ds     : list (N * art);
  tags   : list (N * N);
  calibs : list (N * N * (N * N));
  loc    : list N;
  trash  : list N;
  recs   : list (N * art);
  files  : list art
}.

Definition init : st := mk [] [] [] [] [] [] [] [] [].

(* ---------- small set / map helpers ---------- *)
Definition memN (x : N) (l : list N) : bool := existsb (N.eqb x) l.
Definition memA (p : art) (l : list art) : bool := existsb (art_eqb p) l.
Definition addN (x : N) (l : list N) : list N := if memN x l then l else x :: l.
Definition addA (p : art) (l : list art) : list art := if memA p l then l else p :: l.
Fixpoint dedup (l : list N) : list N :=
  match l with [] => [] | x :: r => if memN x r then dedup r else x :: dedup r end.
Fixpoint nodupb (l : list N) : bool :=
  match l with [] => true | x :: r => negb (memN x r) && nodupb r end.

Definition ctype (s : st) (c : N) : option ckind :=
  match find (fun p => fst p =? c) (colls s) with Some p => Some (snd p) | None => None end.
Definition ds_get (s : st) (d : N) : option art :=
  match find (fun p => fst p =? d) (ds s) with Some p => Some (snd p) | None => None end.
Definition has_ds (s : st) (d : N) : bool := existsb (fun p => fst p =? d) (ds s).
Definition has_rec (s : st) (d : N) : bool := existsb (fun p => fst p =? d) (recs s).
Definition rec_path (s : st) (d : N) : option art :=
  match find (fun p => fst p =? d) (recs s) with Some p => Some (snd p) | None => None end.
Definition key_of (s : st) (d : N) : option N :=
  match ds_get s d with Some a => Some (snd a) | None => None end.
Definition is_child (s : st) (c : N) : bool := existsb (fun p => memN c (snd p)) (chains s).
Definition children_in (ch : list (N * list N)) (c : N) : list N :=
  match find (fun p => fst p =? c) ch with Some p => snd p | None => [] end.
Definition children (s : st) (c : N) : list N := children_in (chains s) c.
(* is `target` equal to `from` or below it in the chain definitions (fuel = 1 + number of chain definitions is enough
   while the definitions are acyclic, which this very check maintains; acyclicity itself is property C03) *)
Fixpoint reaches (fuel : nat) (ch : list (N * list N)) (from target : N) : bool :=
  match fuel with
  | O => false
  | S f => (from =? target) || existsb (fun x => reaches f ch x target) (children_in ch from)
  end.

(* ---------- collection contents as the query interfaces report them ---------- *)
(* a dataset is in its RUN, in the TAGGED collections that have a tag row for it, in the CALIBRATION collections that
   have a validity row for it; a CHAINED collection shows the union of its (flattened) children *)
Definition member_of (s : st) (c d : N) : bool :=
  match ds_get s d with Some a => fst a =? c | None => false end
  || existsb (fun p => (fst p =? c) && (snd p =? d)) (tags s)
  || existsb (fun p => (fst (fst p) =? c) && (snd (fst p) =? d)) (calibs s).
Fixpoint chain_member (fuel : nat) (s : st) (c d : N) : bool :=
  match fuel with
  | O => false
  | S f => member_of s c d || existsb (fun x => chain_member f s x d) (children s c)
  end.

(* ---------- what the existence interfaces report ---------- *)
(* Butler.exists(ref) / _exists_many with a plain ref: RECORDED = registry.getDataset finds it;
   DATASTORE = the records table has rows for it; _ARTIFACT = rows exist and the file they name is there.
   Butler.stored / stored_many = the third.  Registry.getDatasetLocations = a dataset_location row. *)
Definition artifact_present (s : st) (d : N) : bool :=
  match rec_path s d with Some p => memA p (files s) | None => false end.
Definition exists_flags (s : st) (d : N) : bool * bool * bool :=
  (has_ds s d, has_rec s d, artifact_present s d).
Definition stored (s : st) (d : N) : bool := artifact_present s d.
Definition located (s : st) (d : N) : bool := memN d (loc s).
(* Butler.exists(ref) where ref CARRIES datastore records (get_dataset(id, datastore_records=True) taken while the
   dataset was stored): FileDatastore.knows() trusts the records on the ref, FileDatastore.exists() does not. *)
Definition exists_flags_carried (s : st) (d : N) : bool * bool * bool :=
  (has_ds s d, true, artifact_present s d).

(* ---------- the bulk interfaces: Butler.stored_many(refs) / Butler._exists_many(refs) ----------
   FileDatastore._mexists: the records of the requested ids are fetched; _process_mexists_records builds
   location_map : artifact -> dataset ids, checks every artifact once and hands the result to the ids the map lists
   for it (all records of a dataset must exist); a requested id that got no result is "not known -> False".
   `owners p` is what location_map holds for artifact p.  Since /repo 245923d it is the list of ALL requested ids whose
   record names p (`owners_all`); before that commit it was a dict artifact -> ONE id (`owners_one`: whichever record
   was iterated last won; here the first of the table order, the choice does not matter for what is proved). *)
Definition req_recs (s : st) (l : list N) : list (N * art) := filter (fun r => memN (fst r) l) (recs s).
Definition mexists_with (owners : art -> list N) (s : st) (l : list N) (d : N) : bool :=
  let ps := filter (fun p => memN d (owners p)) (map snd (req_recs s l)) in
  match ps with [] => false | _ => forallb (fun p => memA p (files s)) ps end.
Definition owners_all (s : st) (l : list N) (p : art) : list N :=
  map fst (filter (fun r => art_eqb (snd r) p) (req_recs s l)).
Definition owners_one (s : st) (l : list N) (p : art) : list N :=
  match filter (fun r => art_eqb (snd r) p) (req_recs s l) with [] => [] | r :: _ => [fst r] end.
Definition stored_many (s : st) (l : list N) (d : N) : bool := mexists_with (owners_all s l) s l d.
Definition stored_many_single_map (s : st) (l : list N) (d : N) : bool := mexists_with (owners_one s l) s l d.
(* _exists_many: RECORDED per ref from registry.getDataset, DATASTORE from knows_these (records of the requested ids),
   _ARTIFACT from mexists *)
Definition exists_many_flags (s : st) (l : list N) (d : N) : bool * bool * bool :=
  (has_ds s d, memN d l && has_rec s d, stored_many s l d).

(* ---------- datastore primitives ---------- *)
(* FileDatastore.trash(list) -> bridge.moveToTrash(check(refs)): rows of dataset_location move to the trash table *)
Definition trash_refs (l : list N) (s : st) : st :=
  let moved := filter (fun d => memN d (loc s)) (dedup l) in
  mk (colls s) (chains s) (ds s) (tags s) (calibs s)
     (filter (fun d => negb (memN d moved)) (loc s))
     (fold_right addN (trash s) moved)
     (recs s) (files s).

(* FileDatastore.emptyTrash + bridge.emptyTrash: rows = records JOIN trash; preserved = artifacts named both by a
   trashed and by a located record; every other artifact of a trashed record is deleted; then the records rows and the
   trash rows of those datasets are deleted.  (A trash row without records is never seen by the join and stays.) *)
Definition empty_trash (s : st) : st :=
  let trows := filter (fun r => memN (fst r) (trash s)) (recs s) in
  let live_paths := map snd (filter (fun r => memN (fst r) (loc s)) (recs s)) in
  let doomed := filter (fun p => negb (memA p live_paths)) (map snd trows) in
  mk (colls s) (chains s) (ds s) (tags s) (calibs s) (loc s)
     (filter (fun d => negb (has_rec s d)) (trash s))
     (filter (fun r => negb (memN (fst r) (trash s))) (recs s))
     (filter (fun p => negb (memA p doomed)) (files s)).

(* FileDatastore.forget: bridge.forget (location rows) + delete of the records rows; artifacts stay *)
Definition forget_refs (l : list N) (s : st) : st :=
  mk (colls s) (chains s) (ds s) (tags s) (calibs s)
     (filter (fun d => negb (memN d l)) (loc s)) (trash s)
     (filter (fun r => negb (memN (fst r) l)) (recs s)) (files s).

(* ---------- registry primitives ---------- *)
(* registry.removeDatasets: DELETE FROM dataset; tags / calibs rows cascade; a dataset_location row refuses *)
Definition reg_remove (l : list N) (s : st) : option st :=
  if existsb (fun d => memN d (loc s)) l then None else
  Some (mk (colls s) (chains s)
           (filter (fun p => negb (memN (fst p) l)) (ds s))
           (filter (fun p => negb (memN (snd p) l)) (tags s))
           (filter (fun p => negb (memN (snd (fst p)) l)) (calibs s))
           (loc s) (trash s) (recs s) (files s)).

Definition disassoc (cs l : list N) (s : st) : st :=
  mk (colls s) (chains s) (ds s)
     (filter (fun p => negb (memN (fst p) cs && memN (snd p) l)) (tags s))
     (calibs s) (loc s) (trash s) (recs s) (files s).

Definition run_members (s : st) (rs : list N) : list N :=
  map fst (filter (fun p => memN (fst (snd p)) rs) (ds s)).

(* registry.removeCollection(run): refused while a chain names it or a member is still located; members cascade *)
Definition remove_run (s : st) (r : N) : st + err :=
  match ctype s r with
  | None => inr MissingColl
  | Some _ =>
    if is_child s r then inr Integrity else
    let members := run_members s [r] in
    if existsb (fun d => memN d (loc s)) members then inr Integrity else
    inl (mk (filter (fun p => negb (fst p =? r)) (colls s)) (chains s)
            (filter (fun p => negb (memN (fst p) members)) (ds s))
            (filter (fun p => negb (memN (snd p) members)) (tags s))
            (filter (fun p => negb (memN (snd (fst p)) members)) (calibs s))
            (loc s) (trash s) (recs s) (files s))
  end.
Fixpoint remove_runs (s : st) (rs : list N) : st + err :=
  match rs with
  | [] => inl s
  | r :: rest => match remove_run s r with inl s' => remove_runs s' rest | inr e => inr e end
  end.

(* first pass of removeRuns / of pruneDatasets(disassociate): every name must exist and have the wanted kind *)
Fixpoint check_kinds (s : st) (k : ckind) (cs : list N) : option err :=
  match cs with
  | [] => None
  | c :: r => match ctype s c with
              | None => Some MissingColl
              | Some k' => if ckind_eqb k k' then check_kinds s k r else Some TypeErr
              end
  end.

(* ---------- operations ---------- *)
Inductive op :=
| RegColl (c : N) (k : ckind)
| SetChain (c : N) (children : list N)
| Put (d r k : N)
| Tag (c : N) (l : list N)
| Certify (c d b e : N)
| Prune (l : list N) (disassociate unstore purge : bool) (tgs : list N)
| RemoveRuns (rs : list N) (unstore : bool)
| ExtDelete (r k : N)
| Trash (l : list N)
| EmptyTrash
| RegRemove (l : list N)
| Trash1 (d : N)
| Ingest (d1 d2 r k : N)
| Xfer (d r k : N).

Definition store (s : st) (d r k : N) (newrow : bool) : st :=
  mk (colls s) (chains s) (if newrow then (d, (r, k)) :: ds s else ds s) (tags s) (calibs s)
     (d :: loc s) (trash s) ((d, (r, k)) :: recs s) (addA (r, k) (files s)).

Definition unwrite (s : st) (p : art) : st :=
  mk (colls s) (chains s) (ds s) (tags s) (calibs s) (loc s) (trash s) (recs s) (filter (fun q => negb (art_eqb q p)) (files s)).

(* Datastore.trash called on its own (outside a registry transaction): bridge.moveToTrash deletes the location rows and inserts
   them into dataset_location_trash inside ONE database transaction; when a moved id already has a (stale) trash row the insert hits
   the primary key, the transaction is rolled back and the error is swallowed (ignore_errors=True): nothing happens.  (Inside
   pruneDatasets / removeRuns the same failure does not undo the delete -- the outer registry transaction continues --, which is
   what trash_refs describes for a single moved row.) *)
Definition ds_trash (l : list N) (s : st) : st :=
  if existsb (fun d => memN d (loc s) && memN d (trash s)) l then s else trash_refs l s.

(* Butler.ingest(FileDataset(path, refs=[ref1, ref2]), transfer="copy"): ONE file for TWO datasets of the same run and dataset
   type.  The second data ID is the "sibling" of the first inside its dataset type (a key is 3 * type + detector). *)
Definition sib (k : N) : N := 3 * (k / 3) + (k + 1) mod 3.
(* registry half (_importDatasets) for one ref: an id the registry has must have the same definition, a new id must not take the
   (run, type, data ID) of another dataset *)
Definition imp_ok (s : st) (d : N) (a : art) : bool :=
  match ds_get s d with
  | Some a' => art_eqb a' a
  | None => negb (existsb (fun p => art_eqb (snd p) a) (ds s))
  end.
Definition add_row (s : st) (d : N) (a : art) (rows : list (N * art)) : list (N * art) :=
  if has_ds s d then rows else (d, a) :: rows.

(* Butler.transfer_from(source, [ref], transfer="copy") of ONE dataset (id d, run r, key k) from a second repository: one
   transaction.  The run is registered when missing (only when the call succeeds); the registry half is _importDatasets as for put /
   ingest; the datastore half (FileDatastore.transfer_from) SKIPS a dataset the records table already has (also a pending one, also
   one whose artifact is missing); otherwise the artifact is copied to the same path, the records row is written with
   DatabaseInsertMode.REPLACE and the location row with bridge.ensure -- so it also works for an id the registry already knows. *)
Definition xfer (s : st) (d r k : N) : st * outcome :=
  if negb (imp_ok s d (r, k)) then (s, Err Conflict) else
  let cs := match ctype s r with None => (r, Run) :: colls s | Some _ => colls s end in
  let rows := add_row s d (r, k) (ds s) in
  if has_rec s d then (mk cs (chains s) rows (tags s) (calibs s) (loc s) (trash s) (recs s) (files s), Ok)
  else (mk cs (chains s) rows (tags s) (calibs s) (addN d (loc s)) (trash s) ((d, (r, k)) :: recs s) (addA (r, k) (files s)), Ok).

(* associate: one row per dataset; a different dataset with the same key already in the collection is a conflict *)
Fixpoint tag_all (s : st) (c : N) (l : list N) (acc : list (N * N)) : option (list (N * N)) :=
  match l with
  | [] => Some acc
  | d :: r =>
    match key_of s d with
    | None => None
    | Some k =>
      if existsb (fun p => (fst p =? c) && negb (snd p =? d) &&
                           match key_of s (snd p) with Some k' => k' =? k | None => false end) acc
      then None
      else tag_all s c r (if existsb (fun p => (fst p =? c) && (snd p =? d)) acc then acc else (c, d) :: acc)
    end
  end.

Definition step (s : st) (o : op) : st * outcome :=
  match o with
  | RegColl c k =>
    match ctype s c with
    | Some _ => (s, Ok)      (* registerCollection of an existing name returns False whatever its type *)
    | None => (mk ((c, k) :: colls s) (chains s) (ds s) (tags s) (calibs s) (loc s) (trash s) (recs s) (files s), Ok)
    end
  | SetChain c ch =>
    (* _modify_collection_chain: unknown child -> cycle (only possible for a CHAINED parent) -> unknown parent -> parent not CHAINED *)
    if negb (forallb (fun x => match ctype s x with Some _ => true | None => false end) ch) then (s, Err MissingColl) else
    match ctype s c with
    | None => (s, Err MissingColl)
    | Some Chain =>
      if existsb (fun x => reaches (S (length (chains s))) (chains s) x c) ch then (s, Err Cycle)
      else (mk (colls s) ((c, ch) :: filter (fun p => negb (fst p =? c)) (chains s)) (ds s) (tags s) (calibs s)
               (loc s) (trash s) (recs s) (files s), Ok)
    | Some _ => (s, Err CollType)
    end
  | Put d r k =>
    (* _importDatasets resolves the run first; then an id the registry already has must have the same definition
       (no-op) else it is a conflict; then the datastore must not know the id *)
    match ctype s r with
    | None => (s, Err MissingColl)
    | Some Run =>
      match ds_get s d with
      | Some a =>
        if negb (art_eqb a (r, k)) then (s, Err Conflict)
        else if has_rec s d then (s, Err Conflict)                  (* Butler.put: datastore.knows(ref) -> refused before writing *)
        else if memN d (loc s) then (unwrite s (r, k), Err Conflict) (* location row without records (only after the stale-trash-row
                                                                        defect): the artifact is written, bridge.insert hits the
                                                                        UNIQUE constraint, the rollback deletes the artifact *)
        else (store s d r k false, Ok)
      | None =>
        if existsb (fun p => art_eqb (snd p) (r, k)) (ds s) then (s, Err Conflict)
        else if has_rec s d || memN d (loc s) then (s, Err Conflict)
        else (store s d r k true, Ok)
      end
    | Some _ => (s, Err CollType)
    end
  | Tag c l =>
    match ctype s c with
    | None => (s, Err MissingColl)
    | Some Tagged =>
      match tag_all s c l (tags s) with
      | Some t => (mk (colls s) (chains s) (ds s) t (calibs s) (loc s) (trash s) (recs s) (files s), Ok)
      | None => (s, Err Conflict)
      end
    | Some _ => (s, Err CollType)
    end
  | Certify c d b e =>
    match ctype s c with
    | None => (s, Err MissingColl)
    | Some Calib =>
      match key_of s d with
      | None => (s, Err Integrity)       (* FOREIGN KEY dataset_calibs -> dataset: a raw IntegrityError *)
      | Some k =>
        if existsb (fun p => (fst (fst p) =? c) &&
                             match key_of s (snd (fst p)) with Some k' => k' =? k | None => false end &&
                             (fst (snd p) <? e) && (b <? snd (snd p))) (calibs s)
        then (s, Err Conflict)
        else (mk (colls s) (chains s) (ds s) (tags s) ((c, d, (b, e)) :: calibs s) (loc s) (trash s) (recs s) (files s), Ok)
      end
    | Some _ => (s, Err CollType)
    end
  | Prune l disassociate unstore purge tgs =>
    let go :=
      let s1 := if unstore then trash_refs l s else s in
      let r2 := if purge then reg_remove l s1
                else if disassociate then Some (disassoc tgs l s1) else Some s1 in
      match r2 with
      | None => (s, Err Orphaned)
      | Some s2 => (if unstore then empty_trash s2 else s2, Ok)
      end in
    if purge then (if negb disassociate then (s, Err TypeErr) else if negb unstore then (s, Err TypeErr) else go)
    else if disassociate then
      match tgs with
      | [] => (s, Err TypeErr)
      | _ => match check_kinds s Tagged tgs with Some e => (s, Err e) | None => go end
      end
    else go
  | RemoveRuns rs unstore =>
    match check_kinds s Run rs with
    | Some e => (s, Err e)
    | None =>
      let members := run_members s rs in
      let s1 := if unstore then trash_refs members s else forget_refs members s in
      match remove_runs s1 rs with
      | inr e => (s, Err e)
      | inl s2 => (if unstore then empty_trash s2 else s2, Ok)
      end
    end
  | ExtDelete r k =>
    (mk (colls s) (chains s) (ds s) (tags s) (calibs s) (loc s) (trash s) (recs s)
        (filter (fun p => negb (art_eqb p (r, k))) (files s)), Ok)
  | Trash l => (ds_trash l s, Ok)
  | EmptyTrash => (empty_trash s, Ok)
  | RegRemove l =>
    match reg_remove l s with Some s' => (s', Ok) | None => (s, Err Orphaned) end
  | Trash1 d =>
    (* Datastore.trash(ref) with a single ref: the records are looked up and the artifact is checked first; an unknown dataset
       or a missing artifact is a warning and nothing happens *)
    (if artifact_present s d then ds_trash [d] s else s, Ok)
  | Ingest d1 d2 r k =>
    (* the whole of Butler.ingest is one transaction.  Registry half first (run, then the two refs); then the datastore half:
       FileDatastore._refuse_datasets_already_stored (since /repo 2da36a1) refuses with ConflictingDefinitionError when one of
       the ids has a dataset_location row or a file_datastore_records row, BEFORE any file is transferred: nothing changes.
       Else the file is copied to the place the template gives the FIRST ref (overwriting), one records row per ref naming
       that artifact, one location row per ref.  (Before 2da36a1: `ingest_before_fix` below.) *)
    match ctype s r with
    | None => (s, Err MissingColl)
    | Some Run =>
      if d1 =? d2 then (s, Err Conflict)
      else if negb (imp_ok s d1 (r, k) && imp_ok s d2 (r, sib k)) then (s, Err Conflict)
      else if has_rec s d1 || memN d1 (loc s) || (has_rec s d2 || memN d2 (loc s)) then (s, Err Conflict)
      else (mk (colls s) (chains s) (add_row s d1 (r, k) (add_row s d2 (r, sib k) (ds s))) (tags s) (calibs s)
               (d1 :: d2 :: loc s) (trash s) ((d1, (r, k)) :: (d2, (r, k)) :: recs s) (addA (r, k) (files s)), Ok)
    | Some _ => (s, Err CollType)
    end
  | Xfer d r k =>
    match ctype s r with
    | None | Some Run => xfer s d r k
    | Some _ => (s, Err CollType)
    end
  end.

(* The datastore half of the same ingest BEFORE /repo 2da36a1 (kept for the `_refuted_without_fix` witness only): no pre-check; the
   file was copied over the target first, the insert of the records / location rows failed for an id the datastore knew, the database
   was rolled back AND THE COPIED FILE WAS REMOVED -- also when it had replaced an artifact that was there before. *)
Definition ingest_before_fix (s : st) (d1 d2 r k : N) : st * outcome :=
  match step s (Ingest d1 d2 r k) with
  | (s', Err Conflict) =>
    match ctype s r with
    | Some Run =>
      if negb (d1 =? d2) && (imp_ok s d1 (r, k) && imp_ok s d2 (r, sib k))
         && (has_rec s d1 || memN d1 (loc s) || (has_rec s d2 || memN d2 (loc s)))
      then (unwrite s (r, k), Err Conflict) else (s', Err Conflict)
    | _ => (s', Err Conflict)
    end
  | x => x
  end.

Definition exec (s : st) (o : op) : st := fst (step s o).
Definition run_hist (h : list op) : st := fold_left exec h init.
