(* C16 -- model of result ordering, limits, paging, counts (DirectQueryDriver.execute / _Cursor /
   Postprocessing.apply / count / any, Butler.query_* limit handling, convert_where_args).
   Executable definitions only; proofs live in Proofs/PagingProofs.v.

   A query is abstracted to `rows`: the rows the SQL statement yields WITHOUT a LIMIT clause, in the
   order the SQL statement yields them (ORDER BY already applied, see order_by below), and `keep`: the
   Python-side post-filter (region overlap).  `pp` says whether the Postprocessing object is truthy
   (has spatial filtering), which decides where the limit is implemented. *)
From Coq Require Import ZArith List Bool.
Import ListNotations.
Open Scope Z_scope.

Inductive res (T : Type) := Ok (v : T) | ErrInvalidQuery | ErrEmpty.
Arguments Ok {T} v.
Arguments ErrInvalidQuery {T}.
Arguments ErrEmpty {T}.

Definition zlen {A} (l : list A) : Z := Z.of_nat (length l).

Definition is_nil {A} (l : list A) : bool := match l with [] => true | _ => false end.

(* the specification-side notion: the first `lim` rows (lim >= 0), everything for None *)
Definition firstn_opt {A} (lim : option Z) (l : list A) : list A :=
  match lim with None => l | Some k => firstn (Z.to_nat k) l end.

Section Paging.
  Context {A : Type}.

  (* ---- cursor.partitions(): chunks of n rows; fuel = number of rows (each page of a non-empty rest
     consumes at least one row when n >= 1) *)
  Fixpoint pages_fuel (fuel n : nat) (l : list A) : list (list A) :=
    match fuel with
    | O => []
    | S f => match l with
             | [] => []
             | _ => firstn n l :: pages_fuel f n (skipn n l)
             end
    end.
  Definition pages (n : nat) (l : list A) : list (list A) := pages_fuel (length l) n l.

  (* yield_per as SQLAlchemy treats it (observed, exercised by the correspondence): 0 behaves as 1,
     a negative value yields no partition at all *)
  Definition pages_z (n : Z) (l : list A) : list (list A) :=
    if n <? 0 then [] else pages (Z.to_nat (Z.max 1 n)) l.

  (* ---- Postprocessing.apply, the filtering loop with the in-place decremented limit *)
  Fixpoint apply_rows (keep : A -> bool) (lim : option Z) (rows : list A) : list A * option Z :=
    match rows with
    | [] => ([], lim)
    | r :: rest =>
        if keep r then
          match lim with
          | None => let '(o, l') := apply_rows keep None rest in (r :: o, l')
          | Some k => let k' := k - 1 in
                      if k' =? 0 then ([r], Some 0)
                      else let '(o, l') := apply_rows keep (Some k') rest in (r :: o, l')
          end
        else apply_rows keep lim rest
    end.

  (* `active` = bool(self) or check_validity_match_count *)
  Definition apply (active : bool) (keep : A -> bool) (lim : option Z) (rows : list A) : list A * option Z :=
    if negb active then (rows, lim)
    else match lim with
         | Some 0 => ([], lim)
         | _ => apply_rows keep lim rows
         end.

  (* _Cursor.next over all raw pages with the one shared Postprocessing object *)
  Fixpoint run_pages (active : bool) (keep : A -> bool) (lim : option Z) (pgs : list (list A)) : list (list A) :=
    match pgs with
    | [] => []
    | p :: rest => let '(o, lim') := apply active keep lim p in o :: run_pages active keep lim' rest
    end.

  (* SQL LIMIT (SQLite: a negative LIMIT means no limit) *)
  Definition sql_limit (lim : option Z) (rows : list A) : list A :=
    match lim with
    | None => rows
    | Some k => if k <? 0 then rows else firstn (Z.to_nat k) rows
    end.

  Record cfg := { raw_page : Z; factor : Z }.

  Definition raw_page_size (c : cfg) (pplim : option Z) : Z :=
    match pplim with Some k => Z.min (factor c * k) (raw_page c) | None => raw_page c end.

  (* DirectQueryDriver.execute: the result pages *)
  Definition execute (c : cfg) (pp : bool) (keep : A -> bool) (lim : option Z) (rows : list A) : list (list A) :=
    let sql_rows := if pp then rows else sql_limit lim rows in
    let pplim := if pp then lim else None in
    run_pages pp keep pplim (pages_z (raw_page_size c pplim) sql_rows).

  Definition iterate c pp keep lim rows : list A := concat (execute c pp keep lim rows).

  (* DirectQueryDriver.count *)
  Definition count (pp : bool) (keep : A -> bool) (lim : option Z) (rows : list A) (exact discard : bool) : res Z :=
    if pp && exact then
      if negb discard then ErrInvalidQuery
      else Ok (zlen (fst (apply true keep lim rows)))
    else Ok (match lim with Some k => Z.min (zlen rows) k | None => zlen rows end).

  (* DirectQueryDriver.any / Query.any on the un-sliced query: never sees the result spec, hence no limit
     argument.  This was also what result objects answered before repair 84ff715 (the pre-fix variant). *)
  Definition any_driver (pp : bool) (keep : A -> bool) (rows : list A) (exec exact : bool) : res bool :=
    if negb exec then (if exact then ErrInvalidQuery else Ok true)
    else if pp && exact then Ok (existsb keep rows)
    else Ok (negb (is_nil rows)).

  (* QueryResultsBase.any (84ff715): results sliced down to no rows have none, whatever the flags *)
  Definition any (pp : bool) (keep : A -> bool) (lim : option Z) (rows : list A) (exec exact : bool) : res bool :=
    match lim with
    | Some 0 => Ok false
    | _ => any_driver pp keep rows exec exact
    end.

  (* QueryResultsBase.limit (dc45863): a negative limit is refused when the results object is sliced, so
     iteration / count / any of such an object are never reached.  `iterate` and `count` with a raw
     negative limit remain the pre-fix behaviour of the driver. *)
  Definition limit_accepted (lim : option Z) : bool := match lim with Some k => 0 <=? k | None => true end.

  Definition results_iterate (c : cfg) pp keep lim rows : res (list A) :=
    if limit_accepted lim then Ok (iterate c pp keep lim rows) else ErrInvalidQuery.
  Definition results_count pp keep lim rows (exact discard : bool) : res Z :=
    if limit_accepted lim then count pp keep lim rows exact discard else ErrInvalidQuery.
  Definition results_any pp keep lim rows (exec exact : bool) : res bool :=
    if limit_accepted lim then any pp keep lim rows exec exact else ErrInvalidQuery.

  (* Butler.query_data_ids / query_datasets / query_dimension_records: negative limit = "warn if more" *)
  Definition butler_query (c : cfg) (pp : bool) (keep : A -> bool) (limit : option Z) (explain : bool) (rows : list A)
    : res (list A) * bool :=
    let '(qlim, warnflag) :=
      match limit with
      | Some l => if l <? 0 then (Some (Z.abs l + 1), true) else (Some l, false)
      | None => (None, false)
      end in
    let got := iterate c pp keep qlim rows in
    let hit := warnflag && match qlim with Some q => zlen got =? q | None => false end in
    let got' := if hit then removelast got else got in
    let lim_nonzero := match limit with Some 0 => false | _ => true end in
    if explain && lim_nonzero && is_nil got' then (ErrEmpty, hit) else (Ok got', hit).
End Paging.

(* ---------------------------------------------------------------------------------------------
   ORDER BY: rows are lists of nullable integer columns; a key is (column, descending?).
   SQLite: NULL sorts before every value ascending (hence after every value descending). *)
Definition row := list (option Z).
Definition key := (nat * bool)%type.

Definition col (r : row) (i : nat) : option Z := nth i r None.

Definition cmp_oz (a b : option Z) : comparison :=
  match a, b with
  | None, None => Eq
  | None, Some _ => Lt
  | Some _, None => Gt
  | Some x, Some y => x ?= y
  end.

Definition cmp_key (k : key) (r s : row) : comparison :=
  let c := cmp_oz (col r (fst k)) (col s (fst k)) in if snd k then CompOpp c else c.

Fixpoint cmp_keys (ks : list key) (r s : row) : comparison :=
  match ks with
  | [] => Eq
  | k :: rest => match cmp_key k r s with Eq => cmp_keys rest r s | c => c end
  end.

Definition le_keys (ks : list key) (r s : row) : bool :=
  match cmp_keys ks r s with Gt => false | _ => true end.

Definition eq_keys (ks : list key) (r s : row) : bool :=
  match cmp_keys ks r s with Eq => true | _ => false end.

Fixpoint insert_by (ks : list key) (x : row) (l : list row) : list row :=
  match l with
  | [] => [x]
  | y :: r => if le_keys ks x y then x :: y :: r else y :: insert_by ks x r
  end.

(* stable: rows that compare equal keep their input order *)
Definition order_by (ks : list key) (rows : list row) : list row := fold_right (insert_by ks) [] rows.

(* ---------------------------------------------------------------------------------------------
   Constraints: data ID / keyword arguments / where-string (convert_where_args). *)
Definition dataid := list (nat * Z).

(* dict.update for one item *)
Fixpoint upd (d : dataid) (k : nat) (v : Z) : dataid :=
  match d with
  | [] => [(k, v)]
  | (k', v') :: r => if Nat.eqb k k' then (k, v) :: r else (k', v') :: upd r k v
  end.

(* data_id_dict.update(arg.mapping) ...; data_id_dict.update(kwargs): later wins *)
Definition merge (d kw : dataid) : dataid := fold_left (fun acc kv => upd acc (fst kv) (snd kv)) kw d.

(* SQL three-valued logic as option bool (None = NULL/unknown) *)
Definition and3 (a b : option bool) : option bool :=
  match a, b with
  | Some false, _ | _, Some false => Some false
  | Some true, Some true => Some true
  | _, _ => None
  end.

Inductive wexpr := WTrue | WEq (c : nat) (v : Z) | WAnd (a b : wexpr).

Fixpoint weval (e : wexpr) (r : row) : option bool :=
  match e with
  | WTrue => Some true
  | WEq c v => match col r c with Some x => Some (x =? v) | None => None end
  | WAnd a b => and3 (weval a r) (weval b r)
  end.

(* a row is selected by WHERE iff the predicate is TRUE (not NULL) *)
Definition where_sel (e : wexpr) (r : row) : bool := match weval e r with Some true => true | _ => false end.

(* the predicate convert_where_args builds from the merged data ID: True AND k1 == v1 AND k2 == v2 ... *)
Definition where_of (d : dataid) : wexpr := fold_left (fun e kv => WAnd e (WEq (fst kv) (snd kv))) d WTrue.

(* the same constraint spelled by the user as a where string "k1 = v1 AND k2 = v2 ..." (right nested) *)
Fixpoint where_string (d : dataid) : wexpr :=
  match d with
  | [] => WTrue
  | [(k, v)] => WEq k v
  | (k, v) :: r => WAnd (WEq k v) (where_string r)
  end.

(* direct reading of a data ID: every key has that value *)
Definition eq_col (r : row) (k : nat) (v : Z) : bool := match col r k with Some x => x =? v | None => false end.
Definition dataid_pred (d : dataid) (r : row) : bool := forallb (fun kv => eq_col r (fst kv) (snd kv)) d.
Definition kw_pred (kw : dataid) (r : row) : bool := where_sel (where_of (merge [] kw)) r.
Definition where_pred (d : dataid) (r : row) : bool := where_sel (where_string d) r.
(* what Query.where(data_id, **kwargs) selects *)
Definition constraint_pred (d kw : dataid) (r : row) : bool := where_sel (where_of (merge d kw)) r.
