(* Executable checkers for the correspondence run (tie K) of C12, second part:
   * pairs in COMPACT form: the operand groups a, b are indices into a table of the distinct operand groups of the run
     (Cases/C12/tables.v, a two-level list, 64 groups per chunk; `required_of` of each is computed once by the model);
     the observed a|b and a&b are bit masks over the universe's element order (bit k = k-th element), decoded here into
     the name list in universe order and compared as LISTS with the model's result (the harness reports an
     implementation result that is not in universe order as an oracle failure before encoding it).
     Same comparison as GroupCheck.chk_pair (| & <= == hash isdisjoint), without parsing four name lists and without
     re-computing the two `required` tuples for every pair.
   * the GENERATED algorithms (Gen/GroupGen.v) against the implementation: constructor (+ data_coordinate_keys),
     n-ary union / intersection, comparisons. *)
From Coq Require Import String List Bool Arith NArith.
From V Require Import Model.Universe Model.Group Model.GroupX Model.GroupCheck Gen.GroupGen.
Import ListNotations.
Open Scope list_scope.

Definition table := list (list (list string)).       (* chunks of 64 groups (names) *)

Definition lk (t : table) (i : N) : list string :=
  nth (N.to_nat (N.modulo i 64)) (nth (N.to_nat (N.div i 64)) t []) [].

Definition required_table (u : universe) (t : table) : table := map (map (required_of u)) t.

Fixpoint unmask (u : universe) (m : N) : list string :=
  match u with
  | [] => []
  | e :: r => if N.odd m then ename e :: unmask r (N.div2 m) else unmask r (N.div2 m)
  end.

(* (i, j, mask of a|b, mask of a&b, [a<=b; a==b; hash a == hash b; a.isdisjoint(b)]) *)
Definition chk_pair_ix (u : universe) (t tr : table) (c : N * N * N * N * list bool) : bool :=
  let '(i, j, mu, mi, bs) := c in
  let na := lk t i in
  let nb := lk t j in
  match closure u (na ++ nb), closure u (filter (fun d => memb d nb) na) with
  | GOk un, GOk it =>
    list_eqb un (unmask u mu) && list_eqb it (unmask u mi)
    && bools_eqb bs [forallb (fun d => memb d nb) na; list_eqb na nb;
                     list_eqb (lk tr i) (lk tr j); forallb (fun d => negb (memb d nb)) na]
  | _, _ => false
  end.

Definition chk_pair_t (c : (universe * table * table) * (N * N * N * N * list bool)) : bool :=
  let '((u, t, tr), c') := c in chk_pair_ix u t tr c'.

(* ---- generated algorithms vs implementation ---- *)
(* observed group as in GroupCheck.gobs; the seventh list is data_coordinate_keys *)
Definition chk_gen_group (c : universe * list string * gobs) : bool :=
  let '(u, i, o) := c in
  match gen_new u i true, o with
  | GOk (g, dck), Some (ls, lk) =>
    lists_eqb ls [gnames g; grequired g; gimplied g; gelements g; ggovernors g; gskypix g; dck]
    && match lk, glookup g with Some a, GOk b => list_eqb a b | None, GOutOfFuel => true | _, _ => false end
  | GKeyError, None => true
  | _, _ => false
  end.

(* a.union(b, c, ...) / a.intersection(b, c, ...) on groups the implementation built (`_conform=False` on their names),
   and the comparisons of a with the first of the others:
   (universe, names of a, names of the others, (names of the union, names of the intersection),
    [a == b; a <= b; a.issubset(b); a.isdisjoint(b); hash(a) == hash(b)]) *)
Definition chk_nary (c : universe * list string * list (list string) * (list string * list string) * list bool) : bool :=
  let '(u, na, nos, (nu, ni), bs) := c in
  match gen_group u na false, fold_right (fun n acc => match gen_group u n false, acc with
                                                     | GOk g, Some l => Some (g :: l) | _, _ => None end) (Some []) nos with
  | GOk a, Some others =>
    match gen_union u a others, gen_intersection u a others with
    | GOk gu, GOk gi =>
      list_eqb (gnames gu) nu && list_eqb (gnames gi) ni
      && match others with
         | b :: _ => bools_eqb bs [gen_eq a b; gen_le a b; gen_issubset a b; gen_isdisjoint a b;
                                   list_eqb (gen_hash a) (gen_hash b)]
         | [] => true
         end
    | _, _ => false
    end
  | _, _ => false
  end.
