(* Executable checkers for the correspondence run (tie K) of C12, second part:
   * pairs in COMPACT form (a case is seven machine integers; Coq parses primitive-integer literals natively, 8x faster
     than four lists of names): the operand groups a, b are indices into a table of the distinct operand groups of the
     run (Cases/C12/tables.v, a two-level list, 64 groups per chunk; `required_of` of each is computed once by the
     model); the observed a|b and a&b are bit masks over the universe's element order (bit k of `lo` = element k,
     bit k of `hi` = element 60+k), decoded here into the name list in universe order and compared as LISTS with the
     model's result (the harness reports an implementation result that is not in universe order as an oracle failure
     before encoding it).  Same comparison as GroupCheck.chk_pair (| & <= == hash isdisjoint).
     Primitive integers are used ONLY here (test data transport), never in a model or a theorem.
   (The checkers for the GENERATED algorithms are in Model/GroupXGenCheck.v, so that this file does not depend on
   Gen/GroupGen.v and the pair comparison still runs when the translator fails.) *)
From Coq Require Import String List Bool Arith ZArith Uint63.
From V Require Import Model.Universe Model.Group Model.GroupCheck.
Import ListNotations.
Open Scope list_scope.

Definition table := list (list (list string)).       (* chunks of 64 groups (names) *)

Definition i2n (i : int) : nat := Z.to_nat (Uint63.to_Z i).

Definition lk (t : table) (i : int) : list string :=
  nth (i2n (PrimInt63.land i 63%uint63)) (nth (i2n (PrimInt63.lsr i 6%uint63)) t []) [].

Definition required_table (u : universe) (t : table) : table := map (map (required_of u)) t.

Definition bit0 (m : int) : bool := PrimInt63.eqb (PrimInt63.land m 1%uint63) 1%uint63.

Fixpoint unmask1 (u : universe) (m : int) : list string :=
  match u with
  | [] => []
  | e :: r => if bit0 m then ename e :: unmask1 r (PrimInt63.lsr m 1%uint63) else unmask1 r (PrimInt63.lsr m 1%uint63)
  end.

Definition unmask (u : universe) (lo hi : int) : list string := unmask1 (firstn 60 u) lo ++ unmask1 (skipn 60 u) hi.

Definition bit (b : int) (k : int) : bool := bit0 (PrimInt63.lsr b k).

(* (i, j, mask of a|b (lo, hi), mask of a&b (lo, hi), bits: 0 a<=b, 1 a==b, 2 hash a == hash b, 3 a.isdisjoint(b)) *)
Definition pcase := (int * int * int * int * int * int * int)%type.

Definition chk_pair_ix (u : universe) (t tr : table) (c : pcase) : bool :=
  let '(i, j, ulo, uhi, ilo, ihi, b) := c in
  let na := lk t i in
  let nb := lk t j in
  match closure u (na ++ nb), closure u (filter (fun d => memb d nb) na) with
  | GOk un, GOk it =>
    list_eqb un (unmask u ulo uhi) && list_eqb it (unmask u ilo ihi)
    && bools_eqb [bit b 0%uint63; bit b 1%uint63; bit b 2%uint63; bit b 3%uint63]
                 [forallb (fun d => memb d nb) na; list_eqb na nb;
                  list_eqb (lk tr i) (lk tr j); forallb (fun d => negb (memb d nb)) na]
  | _, _ => false
  end.

Definition mk63 (T : universe * table * table) (i j ulo uhi ilo ihi b : int) : (universe * table * table) * pcase :=
  (T, (i, j, ulo, uhi, ilo, ihi, b)).
Arguments mk63 T (i j ulo uhi ilo ihi b)%uint63.

Definition chk_pair_t (c : (universe * table * table) * pcase) : bool :=
  let '((u, t, tr), c') := c in chk_pair_ix u t tr c'.

