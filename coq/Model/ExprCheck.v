(* C05 correspondence checkers (evaluated with vm_compute on the implementation's recorded observations).

   A case is (rows, key columns, expression, observed):
     rows      the candidate set: one association list column -> value per row (absent column = NULL), built by the
               harness from the table contents dumped from SQLite;
     key cols  the columns of the requested dimensions (the result is projected on them and de-duplicated);
     observed  None when the implementation raised InvalidQueryError, Some keys otherwise.
   chk_case    : the faithful model (conv -> Predicate -> SQL -> SQLite semantics) returns exactly the observed keys;
   chk_case_old: the same with the pre-d6d8862 strided-range test (used by the search when the tie breaks);
   chk_doc     : on a well-typed expression the SQL path and the documented meaning keep the same rows (the theorem
                 compile_correct, re-evaluated on the concrete case - a cross-check of the harness's typing, not a proof). *)
From Coq Require Import ZArith List Bool String.
From V Require Import Base.Tri Model.Pred Model.Expr Model.SqlExpr.
Import ListNotations.
Open Scope Z_scope.

Definition row := list (col * value).
Fixpoint assoc (c : col) (r : row) : nv :=
  match r with [] => None | (k, v) :: t => if N.eqb k c then Some v else assoc c t end.
Definition env_of (r : row) : env := fun c => assoc c r.

Definition value_eqb (x y : value) : bool :=
  match x, y with
  | VInt a, VInt b => a =? b
  | VReal a p, VReal b q => (a =? b) && Pos.eqb p q
  | VStr a, VStr b => String.eqb a b
  | VTime a, VTime b => a =? b
  | VSpan a b, VSpan c d => (a =? c) && (b =? d)
  | VBool a, VBool b => Bool.eqb a b
  | _, _ => false
  end.
Definition nv_eqb (x y : nv) : bool :=
  match x, y with None, None => true | Some a, Some b => value_eqb a b | _, _ => false end.
Fixpoint key_eqb (a b : list nv) : bool :=
  match a, b with
  | [], [] => true
  | x :: r, y :: s => nv_eqb x y && key_eqb r s
  | _, _ => false
  end.
Definition key_in (k : list nv) (ks : list (list nv)) : bool := existsb (key_eqb k) ks.
Definition keys_subset (a b : list (list nv)) : bool := forallb (fun k => key_in k b) a.
Definition keys_same (a b : list (list nv)) : bool := keys_subset a b && keys_subset b a.

Definition key_of (kc : list col) (r : row) : list nv := map (fun c => assoc c r) kc.

Definition run_sql (q : sql) (kc : list col) (rows : list row) : list (list nv) :=
  map (key_of kc) (select env_of q rows).

Definition case := (list row * list col * expr * option (list (list nv)))%type.

Definition chk_with (comp : expr -> option sql) (c : case) : bool :=
  let '(rows, kc, e, obs) := c in
  match comp e, obs with
  | None, None => true
  | Some q, Some ks => keys_same (run_sql q kc rows) ks
  | _, _ => false
  end.
Definition chk_case := chk_with compile.
Definition chk_case_old := chk_with compile_old.

Definition well_typed (e : expr) : bool := match typeof e with Some DBool => true | _ => false end.

Definition chk_doc (c : case) : bool :=
  let '(rows, kc, e, obs) := c in
  if well_typed e && forallb (fun r => env_ok (env_of r) e && bounds_ok (env_of r) e) rows then
    match compile e with
    | Some q => forallb (fun r => Bool.eqb (keeps (env_of r) q) (tri_is_true (deval (env_of r) e))) rows
    | None => false
    end
  else true.

Definition chk_both (c : case) : bool := chk_case c && chk_doc c.

(* what the documented meaning selects (used to replay findings) *)
Definition run_doc (e : expr) (kc : list col) (rows : list row) : list (list nv) :=
  map (key_of kc) (filter (fun r => tri_is_true (deval (env_of r) e)) rows).

(* constraint summary: (expression, observed PredicateConstraintsSummary.constraint_data_id as (key column, value) pairs);
   the dict keeps the FIRST value recorded for a key *)
Definition key_cols : list col := [0; 1; 10; 12; 13; 14; 30; 42]%N.
Definition iskey (c : col) : bool := existsb (N.eqb c) key_cols.
Fixpoint first_of (c : col) (l : list (col * value)) : option value :=
  match l with [] => None | (k, v) :: r => if N.eqb k c then Some v else first_of c r end.
Definition chk_summary_with (inv_eq : bool) (c : expr * list (col * value)) : bool :=
  let '(e, obs) := c in
  let s := where_summary_g inv_eq iskey e in
  forallb (fun kv => nv_eqb (first_of (fst kv) s) (Some (snd kv))) obs
  && forallb (fun kv => existsb (fun o => N.eqb (fst o) (fst kv)) obs) s.
Definition chk_summary := chk_summary_with false.
