(* C05 model, part 2: what the implementation does with a where-expression.

     conv     : queries/_expression_strings.py _ConversionVisitor -- expression -> Predicate, built ONLY through
                Predicate.from_bool / compare / is_null / in_container / in_range / from_bool_expression and
                logical_and / logical_or / logical_not, with the type checks of the pydantic validators
                (Comparison._validate_column_types, InContainer._validate, InRange._validate, BinaryExpression /
                UnaryExpression._validate_types) -> None where the implementation raises InvalidQueryError;
     number   : the leaves of that construction, numbered in creation order, so that the boolean structure is a C15
                `form` over atoms and Predicate.operands is C15's (regenerated) py_build of it;
     leaf_sql : direct_query_driver/_sql_column_visitor.py SqlColumnVisitor.visit_comparison / visit_is_null /
                visit_in_container / visit_in_range / visit_boolean_wrapper and the column-expression visitors;
     cnf_sql  : apply_logical_and / apply_logical_or / apply_logical_not over Predicate.operands;
     seval    : a small SQL expression language with SQLite's semantics (NULL propagation, Kleene AND/OR/NOT,
                BETWEEN, IN, truncated integer %, real /, IS NULL; the timespan operators are the regenerated
                column expressions of C11, Gen/TimespanGen.v).
   leaf_sql_old is the strided-range test as it was before repair d6d8862 (member % step = start % step with Python's
   floored start % step), kept to prove that reverting the repair breaks the property.

   No proofs in this file. *)
From Coq Require Import ZArith List Bool String.
From V Require Import Base.Tri Gen.TimespanGen Model.Pred Gen.PredGen Model.Expr.
Import ListNotations.
Open Scope Z_scope.

(* ------------------------------------------------------------------ the implementation's column types *)
Definition numeric (t : ty) : bool := match t with TyInt | TyReal => true | _ => false end.

Fixpoint ctype (e : expr) : option ty :=
  match e with
  | ELit v => match v with VBool _ => None | _ => Some (ty_of v) end
  | ECol _ t => match t with TyBool => None | _ => Some t end     (* boolean columns become Predicates *)
  | EBegin a | EEnd a => match ctype a with Some TySpan => Some TyTime | _ => None end
  | ENeg a => match ctype a with Some t => if numeric t then Some t else None | None => None end
  | EArith o a b =>
      match ctype a, ctype b with
      | Some ta, Some tb =>
          if ty_eqb ta tb && numeric ta && (match o with OMod => ty_eqb ta TyInt | _ => true end) then Some ta else None
      | _, _ => None
      end
  | _ => None
  end.

(* ------------------------------------------------------------------ Predicate leaves and the formula built from them *)
Inductive leaf :=
  | LCmp (o : cop) (a b : expr)
  | LIsNull (a : expr)
  | LInList (a : expr) (vs : list value)
  | LInRange (a : expr) (start stop_incl step : Z)     (* Predicate.in_range(a, start, stop_incl + 1, step) *)
  | LBool (c : col)
  | LOverlaps (a b : expr).

Inductive bform :=
  | BLeaf (l : leaf) | BConst (b : bool) | BNot (f : bform) | BAnd (f g : bform) | BOr (f g : bform).

Definition cmp_ok (o : cop) (ta tb : ty) : bool :=
  ty_eqb ta tb && negb (ty_eqb ta TySpan) && (cop_is_eq o || ordered ta).

(* operand of `= NULL`: a column expression, or a bare boolean column (_get_boolean_column_reference) *)
Definition null_operand (a : expr) : bool :=
  match ctype a with Some _ => true | None => match a with ECol _ TyBool => true | _ => false end end.

Definition conv_item (a : expr) (ta : ty) (it : item) : option bform :=
  match it with
  | ILit v => if cmp_ok CEq ta (ty_of v) && negb (ty_eqb (ty_of v) TyBool) then Some (BLeaf (LCmp CEq a (ELit v))) else None
  | ICol c t => if cmp_ok CEq ta t && negb (ty_eqb t TyBool) then Some (BLeaf (LCmp CEq a (ECol c t))) else None
  | IRange s e st =>
      if ty_eqb ta TyInt && (1 <=? stride_of st) && (s <=? e + 1) then Some (BLeaf (LInRange a s e (stride_of st))) else None
  | ISeq vs =>
      if negb (ty_eqb ta TySpan) && forallb (fun v => ty_eqb (ty_of v) ta) vs then Some (BLeaf (LInList a vs)) else None
  | INull => Some (BLeaf (LIsNull a))
  end.

(* Predicate.from_bool(False).logical_or(p1, p2, ...) *)
Fixpoint conv_items (a : expr) (ta : ty) (its : list item) (acc : bform) : option bform :=
  match its with
  | [] => Some acc
  | it :: r => match conv_item a ta it with Some p => conv_items a ta r (BOr acc p) | None => None end
  end.

Fixpoint conv (e : expr) : option bform :=
  match e with
  | ECol c TyBool => Some (BLeaf (LBool c))
  | ECmp o a b =>
      if is_ENull b then
        if null_operand a then
          match o with CEq => Some (BLeaf (LIsNull a)) | CNe => Some (BNot (BLeaf (LIsNull a))) | _ => None end
        else None
      else if is_ENull a then
        if null_operand b then
          match o with CEq => Some (BLeaf (LIsNull b)) | CNe => Some (BNot (BLeaf (LIsNull b))) | _ => None end
        else None
      else
        match ctype a, ctype b with
        | Some ta, Some tb => if cmp_ok o ta tb then Some (BLeaf (LCmp o a b)) else None
        | _, _ => None
        end
  | EOverlaps a b =>
      match ctype a, ctype b with
      | Some TySpan, Some TySpan | Some TySpan, Some TyTime | Some TyTime, Some TySpan => Some (BLeaf (LOverlaps a b))
      | _, _ => None
      end
  | EIn a its ng =>
      match ctype a with
      | Some ta =>
          match conv_items a ta its (BConst false) with
          | Some f => Some (if ng then BNot f else f)
          | None => None
          end
      | None => None
      end
  | ENot a => match conv a with Some f => Some (BNot f) | None => None end
  | EAnd a b => match conv a, conv b with Some f, Some g => Some (BAnd f g) | _, _ => None end
  | EOr a b => match conv a, conv b with Some f, Some g => Some (BOr f g) | _, _ => None end
  | _ => None
  end.

(* leaves in creation order; the boolean skeleton as a C15 formula over their indices *)
Fixpoint number (f : bform) (tbl : list leaf) : form * list leaf :=
  match f with
  | BLeaf l => (FAtom (N.of_nat (List.length tbl)), tbl ++ [l])
  | BConst b => (FConst b, tbl)
  | BNot g => let '(g', t) := number g tbl in (FNot g', t)
  | BAnd g h => let '(g', t1) := number g tbl in let '(h', t2) := number h t1 in (FAnd false g' h', t2)
  | BOr g h => let '(g', t1) := number g tbl in let '(h', t2) := number h t1 in (FOr g' h', t2)
  end.

(* ------------------------------------------------------------------ SQL expressions *)
Inductive sql :=
  | SVal (x : nv)
  | SCol (c : col)
  | SLower (s : sql) | SUpper (s : sql)
  | SNeg (s : sql)
  | SArith (o : aop) (a b : sql)
  | SCmp (o : cop) (a b : sql)
  | SIsNull (a : sql)
  | SBetween (x lo hi : sql)
  | SIn (x : sql) (l : list sql)
  | SOverlaps (a b : sql)
  | SContainsT (a t : sql)
  | STrue | SFalse
  | SAnd (l : list sql) | SOr (l : list sql) | SNot (a : sql).

Definition sts_of (x : nv) : sts := match x with Some (VSpan b e) => (Some b, Some e) | _ => (None, None) end.
Definition sv_of (x : nv) : sv := match x with Some (VTime z) => Some z | _ => None end.

Fixpoint seval (rho : env) (s : sql) : nv :=
  match s with
  | SVal x => x
  | SCol c => rho c
  (* _CompoundTimespanDatabaseRepresentation.lower / upper: COALESCE(column, 0) -- a NULL timespan has bounds 0 *)
  | SLower a => match seval rho a with Some (VSpan b _) => Some (VTime b) | None => Some (VTime 0) | _ => None end
  | SUpper a => match seval rho a with Some (VSpan _ e) => Some (VTime e) | None => Some (VTime 0) | _ => None end
  | SNeg a => neg (seval rho a)
  | SArith o a b => arith o (seval rho a) (seval rho b)
  | SCmp o a b => nv_of_tri (cmp3 o (seval rho a) (seval rho b))
  | SIsNull a => Some (VBool (is_null (seval rho a)))
  | SBetween x lo hi =>
      let v := seval rho x in nv_of_tri (tri_and (cmp3 CGe v (seval rho lo)) (cmp3 CLe v (seval rho hi)))
  | SIn x l =>
      let v := seval rho x in nv_of_tri (fold_right (fun y acc => tri_or (cmp3 CEq v (seval rho y)) acc) FF l)
  | SOverlaps a b => nv_of_tri (sql_overlaps (sts_of (seval rho a)) (sts_of (seval rho b)))
  | SContainsT a t => nv_of_tri (sql_contains_t (sts_of (seval rho a)) (sv_of (seval rho t)))
  | STrue => Some (VBool true)
  | SFalse => Some (VBool false)
  | SAnd l => nv_of_tri (fold_right (fun y acc => tri_and (tri_of_nv (seval rho y)) acc) TT l)
  | SOr l => nv_of_tri (fold_right (fun y acc => tri_or (tri_of_nv (seval rho y)) acc) FF l)
  | SNot a => nv_of_tri (tri_not (tri_of_nv (seval rho a)))
  end.

(* column expressions (visit_literal / visit_*_reference / visit_unary_expression / visit_binary_expression) *)
Fixpoint sc (e : expr) : sql :=
  match e with
  | ELit v => SVal (Some v)
  | ECol c _ => SCol c
  | EBegin a => SLower (sc a)
  | EEnd a => SUpper (sc a)
  | ENeg a => SNeg (sc a)
  | EArith o a b => SArith o (sc a) (sc b)
  | _ => SVal None
  end.

Definition zlit (z : Z) : sql := SVal (Some (VInt z)).

(* visit_in_range as it is now *)
Definition range_sql (m : sql) (start stop_incl step : Z) : sql :=
  if start =? stop_incl then SCmp CEq m (zlit start)
  else
    let target := SBetween m (zlit start) (zlit stop_incl) in
    if step =? 1 then target
    else SAnd [target; SCmp CEq (SArith OMod (SArith OSub m (zlit start)) (zlit step)) (zlit 0)].

(* ... and before d6d8862: `start % step` is evaluated in Python (floored) *)
Definition range_sql_old (m : sql) (start stop_incl step : Z) : sql :=
  if start =? stop_incl then SCmp CEq m (zlit start)
  else
    let target := SBetween m (zlit start) (zlit stop_incl) in
    if step =? 1 then target
    else SAnd [target; SCmp CEq (SArith OMod m (zlit step)) (zlit (start mod step))].

Section Leaf.
  Variable rng : sql -> Z -> Z -> Z -> sql.
  Definition leaf_sql_g (l : leaf) : sql :=
    match l with
    | LCmp o a b => SCmp o (sc a) (sc b)
    | LIsNull a => SIsNull (sc a)
    | LInList a vs => SIn (sc a) (map (fun v => SVal (Some v)) vs)
    | LInRange a s e st => rng (sc a) s e st
    | LBool c => SCol c
    | LOverlaps a b =>
        match ctype a, ctype b with
        | Some TySpan, Some TyTime => SContainsT (sc a) (sc b)
        | Some TyTime, Some TySpan => SContainsT (sc b) (sc a)
        | _, _ => SOverlaps (sc a) (sc b)
        end
    end.

  Definition dflt_leaf : leaf := LIsNull ENull.
  Definition lit_sql (tbl : list leaf) (l : lit) : sql :=
    match l with
    | Pos a => leaf_sql_g (nth (N.to_nat a) tbl dflt_leaf)
    | Neg a => SNot (leaf_sql_g (nth (N.to_nat a) tbl dflt_leaf))
    end.
  Definition or_sql (ls : list sql) : sql := match ls with [] => SFalse | [x] => x | _ => SOr ls end.
  Definition and_sql (ls : list sql) : sql := match ls with [] => STrue | [x] => x | _ => SAnd ls end.
  Definition cnf_sql (tbl : list leaf) (p : cnf) : sql := and_sql (map (fun g => or_sql (map (lit_sql tbl) g)) p).

  (* the whole path: expression -> Predicate (operands = py_build of the numbered formula, C15) -> SQL *)
  Definition compile_g (e : expr) : option sql :=
    match conv e with
    | Some f => let '(fm, tbl) := number f [] in Some (cnf_sql tbl (py_build fm))
    | None => None
    end.
End Leaf.

Definition leaf_sql := leaf_sql_g range_sql.
Definition compile := compile_g range_sql.
Definition compile_old := compile_g range_sql_old.

(* ------------------------------------------------------------------ constraint summary *)
(* queries/predicate_constraints_summary.py _DataIdExtractionVisitor: the data-ID values "identical in all result rows",
   i.e. `dimension = literal` leaves that are not OR'd with anything (a one-leaf group of Predicate.operands), either
   positive `==` or an inverted `!=`.  DirectQueryDriver._resolve_dataset_search uses them to drop the collections of a
   dataset search whose summary lacks the governor value.  iskey = the column is a dimension key (fields are ignored).
   inv_eq = true is the unsound variant that also accepts an inverted `==` (seeded change C05a). *)
Definition opt_list {A} (x : option A) : list A := match x with Some a => [a] | None => [] end.
Definition eq_constraint (inv_eq : bool) (iskey : col -> bool) (inverted : bool) (l : leaf) : option (col * value) :=
  match l with
  | LCmp o a b =>
      let is_eq := if inverted then (match o with CNe => true | CEq => inv_eq | _ => false end)
                   else (match o with CEq => true | _ => false end) in
      if is_eq then
        match a, b with
        | ECol c _, ELit v => if iskey c then Some (c, v) else None
        | ELit v, ECol c _ => if iskey c then Some (c, v) else None
        | _, _ => None
        end
      else None
  | _ => None
  end.
Definition summary_g (inv_eq : bool) (iskey : col -> bool) (tbl : list leaf) (p : cnf) : list (col * value) :=
  flat_map (fun g => match g with
                     | [Pos a] => opt_list (eq_constraint inv_eq iskey false (nth (N.to_nat a) tbl dflt_leaf))
                     | [Neg a] => opt_list (eq_constraint inv_eq iskey true (nth (N.to_nat a) tbl dflt_leaf))
                     | _ => []
                     end) p.
Definition summary := summary_g false.
Definition summary_bad := summary_g true.
Definition where_summary_g (inv_eq : bool) (iskey : col -> bool) (e : expr) : list (col * value) :=
  match conv e with
  | Some f => let '(fm, tbl) := number f [] in summary_g inv_eq iskey tbl (py_build fm)
  | None => []
  end.
Definition where_summary := where_summary_g false.

(* WHERE keeps a row iff the expression is true *)
Definition keeps (rho : env) (q : sql) : bool := tri_is_true (tri_of_nv (seval rho q)).
Definition select {R} (envof : R -> env) (q : sql) (rows : list R) : list R := filter (fun r => keeps (envof r) q) rows.
