(* C17 -- the Butler-level path through the datastore file cache, as coded:
     Butler.put / Butler.get / Butler.pruneDatasets(purge, unstore) on a FileDatastore whose root is NOT local, two
     clients (two Butler objects, two DatastoreCacheManager objects) sharing ONE cache directory.

   registry + datastore records   b_recs   : dataset -> the files of its artifacts [(cache name, recorded file size)];
                                             one file for an ordinary dataset, one per component for a disassembled
                                             composite (`FileDatastore.put` -> `_write_in_memory_to_artifact` per
                                             component; cache name = 4 * dataset + component index, as
                                             `_construct_cache_path`: "<id>_<component><ext>")
   the remote object store        b_remote : cache name -> the stored file, identified by its size (in this model the
                                             CONTENT of a file is identified by its size; the harness gives different
                                             contents of one name different sizes)
   the cache                      b_w      : Model/Cache.v's world (directory, manager A, manager B, clock)

   put    (Butler.put -> FileDatastore.put -> Formatter.write_locally_then_move): refused when the dataset is already in
          the registry; per file: copy to the remote store, THEN `move_to_cache` (expiry first; when the name is already
          registered the new file is NOT stored -- Model/Cache.v `mstep (Move ..)`); then the records are written.
   get    (FileDatastore.get -> `_prepare_for_direct_get`: no datastore records => FileNotFoundError BEFORE any look at
          the cache; then per file `Formatter.read_from_possibly_cached_local_file`: `find_in_cache` (looks only at the
          directory), a hit is read after `_check_resource_size` against the RECORDED size (mismatch =>
          FileIntegrityError); a miss downloads the remote file and `move_to_cache`s it after the read).
   remove (pruneDatasets(purge=True, unstore=True): `FileDatastore.trash` calls `remove_from_cache` of the ACTING
          client's manager -- only the entries that manager's registry knows --, `emptyTrash` deletes the remote files,
          the registry forgets the dataset). *)
From Coq Require Import ZArith NArith List Bool.
From V Require Import Model.Cache.
Import ListNotations.
Open Scope Z_scope.

Record bstate := mkB { b_recs : list (N * list (N * Z)); b_remote : list (N * Z); b_w : world }.
Definition empty_b : bstate := mkB [] [] empty_world.

Inductive bop :=
| BPut (who : bool) (d : N) (files : list (N * Z))   (* files: (component index < 4, size = content) *)
| BGet (who : bool) (d : N)
| BRemove (who : bool) (d : N)
| BTick (dt : Z)
| BExtDelete (k : N)                                 (* another process deletes one cache file *)
| BWipe.                                             (* another process empties the cache directory *)

Inductive bres := BOk | BRefused | BNotFound | BIntegrity | BContent (l : list (N * Z)).

Definition ckey (d c : N) : N := (4 * d + c)%N.
Definition client (who : bool) (o : mop) : wop := if who then OpB o else OpA o.

Section Butler.
Variables (age_fix : bool) (ca cb : cfg).

(* one call of the acting client's cache manager; a second passes before every call (so that no two cache files ever
   carry the same ctime: the order in which `_sort_cache` lists files of equal ctime is the order of a directory walk,
   which no model predicts; the harness advances its virtual clock in the same way) *)
Definition cstep (w : world) (who : bool) (o : mop) : world * mres :=
  wstep age_fix ca cb (fst (wstep age_fix ca cb w (Tick 1))) (client who o).

(* FileDatastore.put, one file after the other *)
Fixpoint put_files (who : bool) (d : N) (files : list (N * Z)) (rm : list (N * Z)) (w : world) : list (N * Z) * world :=
  match files with
  | [] => (rm, w)
  | (c, sz) :: r => put_files who d r (set_key (ckey d c) sz rm) (fst (cstep w who (Move (ckey d c) sz)))
  end.

(* FileDatastore.get, one recorded file after the other; None = the read failed with that result *)
Fixpoint get_files (who : bool) (recs : list (N * Z)) (rm : list (N * Z)) (w : world) : world * (list (N * Z) + bres) :=
  match recs with
  | [] => (w, inl [])
  | (k, rsz) :: r =>
      let '(w1, res) := cstep w who (Find k) in
      match res with
      | RFound sz =>
          if sz =? rsz
          then let '(w2, rest) := get_files who r rm w1 in
               (w2, match rest with inl l => inl ((k, sz) :: l) | inr e => inr e end)
          else (w1, inr BIntegrity)
      | _ =>
          match lookup k rm with
          | None => (w1, inr BNotFound)
          | Some sz =>
              let w2 := fst (cstep w1 who (Move k sz)) in
              let '(w3, rest) := get_files who r rm w2 in
              (w3, match rest with inl l => inl ((k, sz) :: l) | inr e => inr e end)
          end
      end
  end.

Definition bstep (s : bstate) (o : bop) : bstate * bres :=
  match o with
  | BPut who d files =>
      match lookup d (b_recs s) with
      | Some _ => (s, BRefused)
      | None =>
          let '(rm, w) := put_files who d files (b_remote s) (b_w s) in
          (mkB ((d, map (fun f => (ckey d (fst f), snd f)) files) :: b_recs s) rm w, BOk)
      end
  | BGet who d =>
      match lookup d (b_recs s) with
      | None => (s, BNotFound)
      | Some recs =>
          let '(w, r) := get_files who recs (b_remote s) (b_w s) in
          (mkB (b_recs s) (b_remote s) w, match r with inl l => BContent l | inr e => e end)
      end
  | BRemove who d =>
      match lookup d (b_recs s) with
      | None => (s, BNotFound)
      | Some recs =>
          let w := fst (wstep age_fix ca cb (b_w s) (client who (Remove [d]))) in
          (mkB (del_key d (b_recs s)) (fold_left (fun rm f => del_key (fst f) rm) recs (b_remote s)) w, BOk)
      end
  | BTick dt => (mkB (b_recs s) (b_remote s) (fst (wstep age_fix ca cb (b_w s) (Tick dt))), BOk)
  | BExtDelete k => (mkB (b_recs s) (b_remote s) (fst (wstep age_fix ca cb (b_w s) (ExtDelete k))), BOk)
  | BWipe => (mkB (b_recs s) (b_remote s) (mkWorld [] (w_a (b_w s)) (w_b (b_w s)) (w_now (b_w s))), BOk)
  end.

Fixpoint brun (s : bstate) (h : list bop) : bstate * list bres :=
  match h with
  | [] => (s, [])
  | o :: r => let '(s1, a) := bstep s o in let '(s2, l) := brun s1 r in (s2, a :: l)
  end.
End Butler.

Definition cfg_off : cfg := mkCfg MDisabled 0.
