(* C08 -- crash model of the order of effects of put / ingest / transfer / prune / unstore / removeRuns / emptyTrash
   (direct_butler/_direct_butler.py, datastores/fileDatastore.py, registry/bridge/monolithic.py, _formatter.py).

   Durable state = committed database rows + file map.  An operation is a PLAN: the list of atomic steps it performs,
   in the order the code performs them.  A crash after k steps = the first k steps of the plan, followed by `recover`
   (SQLite rolls the uncommitted transaction back: the overlay is dropped; files stay as they are).

   Faithful to the code that exists, quirks included:
   * the artifact is written under a TEMPORARY name in the destination directory and renamed (FormatterV2.
     write_locally_then_move / lsst.resources transfer_from), BEFORE dataset_location / file_datastore_records rows are
     inserted, all inside the one transaction opened by Butler.put / ingest / transfer_from;
   * removal = one transaction that moves dataset_location rows to dataset_location_trash (and deletes registry rows),
     then emptyTrash: delete files, then DELETE file_datastore_records and DELETE dataset_location_trash in one
     transaction (since /repo e615ec5; `plan_empty_two_commits` is the earlier order);  emptyTrash only sees trash rows
     that still have a file_datastore_records row (inner join in MonolithicDatastoreRegistryBridge.emptyTrash).
   No proofs in this file. *)
From Coq Require Import NArith List Bool.
Import ListNotations.
Open Scope N_scope.

(* ---------------------------------------------------------------- small list-sets over N *)
Fixpoint mem (x : N) (l : list N) : bool :=
  match l with [] => false | y :: r => if x =? y then true else mem x r end.
Definition add (x : N) (l : list N) : list N := if mem x l then l else x :: l.
Fixpoint rem (x : N) (l : list N) : list N :=
  match l with [] => [] | y :: r => if x =? y then rem x r else y :: rem x r end.
Definition addl (xs l : list N) : list N := fold_right add l xs.
Definition reml (xs l : list N) : list N := filter (fun y => negb (mem y xs)) l.
Definition inter (xs l : list N) : list N := filter (fun y => mem y l) xs.
Fixpoint nodupb (l : list N) : bool :=
  match l with [] => true | x :: r => negb (mem x r) && nodupb r end.

(* ---------------------------------------------------------------- files *)
Inductive fname := Final (d : N) | Tmp (d : N) | Ext (d : N).
Inductive fcont := Partial | Complete (v : N).

Definition fname_eqb (a b : fname) : bool :=
  match a, b with
  | Final x, Final y => x =? y
  | Tmp x, Tmp y => x =? y
  | Ext x, Ext y => x =? y
  | _, _ => false
  end.

Definition fsmap := list (fname * fcont).
Fixpoint fget (f : fname) (m : fsmap) : option fcont :=
  match m with [] => None | (g, c) :: r => if fname_eqb f g then Some c else fget f r end.
Fixpoint fdel (f : fname) (m : fsmap) : fsmap :=
  match m with [] => [] | (g, c) :: r => if fname_eqb f g then fdel f r else (g, c) :: fdel f r end.
Definition fset (f : fname) (c : fcont) (m : fsmap) : fsmap := (f, c) :: fdel f m.

(* ---------------------------------------------------------------- database *)
Record db := mkDb {
  d_runs : list N;     (* collection rows of RUN collections *)
  d_ds : list N;       (* dataset (+ tags) rows: dataset ids *)
  d_loc : list N;      (* dataset_location *)
  d_trash : list N;    (* dataset_location_trash *)
  d_recs : list N      (* file_datastore_records (path = the final name of the id) *)
}.

(* world convention shared with the harness: ids 0..3 live in run 0, ids >= 4 in run 1 *)
Definition run_of (d : N) : N := if d <? 4 then 0 else 1.

Inductive stmt :=
| InsDataset (l : list N)
| InsLocation (l : list N)
| InsRecords (l : list N)
| DelLocation (l : list N)
| InsTrash (l : list N)
| DelDataset (l : list N)
| DelRun (r : N)               (* DELETE FROM collection: cascades to the run's dataset rows *)
| DelRecords (l : list N)
| DelTrash (l : list N).

Definition apply_stmt (q : stmt) (b : db) : db :=
  match q with
  | InsDataset l => mkDb (d_runs b) (addl l (d_ds b)) (d_loc b) (d_trash b) (d_recs b)
  | InsLocation l => mkDb (d_runs b) (d_ds b) (addl l (d_loc b)) (d_trash b) (d_recs b)
  | InsRecords l => mkDb (d_runs b) (d_ds b) (d_loc b) (d_trash b) (addl l (d_recs b))
  | DelLocation l => mkDb (d_runs b) (d_ds b) (reml l (d_loc b)) (d_trash b) (d_recs b)
  | InsTrash l => mkDb (d_runs b) (d_ds b) (d_loc b) (addl l (d_trash b)) (d_recs b)
  | DelDataset l => mkDb (d_runs b) (reml l (d_ds b)) (d_loc b) (d_trash b) (d_recs b)
  | DelRun r => mkDb (rem r (d_runs b)) (filter (fun d => negb (run_of d =? r)) (d_ds b)) (d_loc b) (d_trash b) (d_recs b)
  | DelRecords l => mkDb (d_runs b) (d_ds b) (d_loc b) (d_trash b) (reml l (d_recs b))
  | DelTrash l => mkDb (d_runs b) (d_ds b) (d_loc b) (reml l (d_trash b)) (d_recs b)
  end.

(* ---------------------------------------------------------------- state and steps *)
Record state := mkSt {
  cdb : db;              (* committed rows (durable) *)
  ovl : option db;       (* rows as seen inside the open transaction, if one is open *)
  fs : fsmap             (* the file system (durable) *)
}.

Inductive step :=
| SqlBegin
| SqlStmt (q : stmt)
| SqlCommit
| FsWriteTmp (f : fname) (c : fcont)     (* bytes reach the file: first half (Partial), then all (Complete) *)
| FsRename (src dst : fname)
| FsDelete (f : fname).

Definition do_step (s : state) (t : step) : state :=
  match t with
  | SqlBegin => match ovl s with None => mkSt (cdb s) (Some (cdb s)) (fs s) | Some _ => s end
  | SqlStmt q =>
      match ovl s with
      | Some o => mkSt (cdb s) (Some (apply_stmt q o)) (fs s)
      | None => mkSt (apply_stmt q (cdb s)) None (fs s)          (* autocommit *)
      end
  | SqlCommit => match ovl s with Some o => mkSt o None (fs s) | None => s end
  | FsWriteTmp f c => mkSt (cdb s) (ovl s) (fset f c (fs s))
  | FsRename a b =>
      match fget a (fs s) with
      | Some c => mkSt (cdb s) (ovl s) (fset b c (fdel a (fs s)))
      | None => s
      end
  | FsDelete f => mkSt (cdb s) (ovl s) (fdel f (fs s))            (* a missing file is tolerated *)
  end.

Definition run_steps (s : state) (p : list step) : state := fold_left do_step p s.
Definition recover (s : state) : state := mkSt (cdb s) None (fs s).
Definition crash (s : state) (p : list step) (k : nat) : state := recover (run_steps s (firstn k p)).

(* ---------------------------------------------------------------- operations and their plans *)
Inductive op :=
| Put (d v : N)
| IngestCopy (d : N)
| IngestMove (d : N)
| Transfer (l : list N)                (* from the source repository, whose dataset d holds 200 + d *)
| Prune (l ord : list N)               (* pruneDatasets(purge, unstore, disassociate) *)
| Unstore (l ord : list N)             (* pruneDatasets(unstore only) *)
| Trash (l : list N)                   (* Datastore.trash: the first half of an unstore, the trash is not emptied *)
| RemoveRuns (r : N) (ord : list N)    (* removeRuns([r], unstore=True) *)
| EmptyTrash (ord : list N).
(* `ord`: the order in which emptyTrash meets the trash rows is whatever the SQL engine returns; the op carries it
   (ids listed in ord first, in that order, then the others) so that every order is a member of the quantified domain *)

Definition order_by (ord rows : list N) : list N := inter ord rows ++ reml ord rows.

(* temporary names are fresh random names: a leftover of an earlier crash is never reused *)
Definition next_tmp (m : fsmap) : N :=
  fold_right (fun e acc => match fst e with Tmp t => N.max acc (t + 1) | _ => acc end) 0 m.

Definition write_artifact (t d v : N) : list step :=
  [FsWriteTmp (Tmp t) Partial; FsWriteTmp (Tmp t) (Complete v); FsRename (Tmp t) (Final d)].

Fixpoint write_all (t : N) (value : N -> N) (l : list N) : list step :=
  match l with
  | [] => []
  | d :: r => write_artifact t d (value d) ++ write_all (t + 1) value r
  end.

(* emptyTrash as it is written (after /repo e615ec5): only trash rows that still have records are seen (inner join); the
   artifacts are deleted first, then the records rows AND the trash rows are deleted in ONE transaction *)
Definition plan_empty (b : db) (ord : list N) : list step :=
  let rows := order_by ord (inter (d_trash b) (d_recs b)) in
  match rows with
  | [] => []
  | _ => map (fun d => FsDelete (Final d)) rows
         ++ [SqlBegin; SqlStmt (DelRecords rows); SqlStmt (DelTrash rows); SqlCommit]
  end.

(* the variant before e615ec5: two separately committed deletes (kept only to show what the repair bought) *)
Definition plan_empty_two_commits (b : db) (ord : list N) : list step :=
  let rows := order_by ord (inter (d_trash b) (d_recs b)) in
  match rows with
  | [] => []
  | _ => map (fun d => FsDelete (Final d)) rows
         ++ [SqlBegin; SqlStmt (DelRecords rows); SqlCommit; SqlBegin; SqlStmt (DelTrash rows); SqlCommit]
  end.

Definition src_value (d : N) : N := 200 + d.

Definition insert_ok (b : db) (l : list N) : bool :=
  nodupb l && forallb (fun d => mem (run_of d) (d_runs b) && negb (mem d (d_ds b))) l.

Definition plan_body (s : state) (o : op) : list step * option db :=
  (* the steps of the first (registry) phase and, for removals, the committed rows after it *)
  let b := cdb s in
  match o with
  | Put d v =>
      if insert_ok b [d] then
        ([SqlBegin; SqlStmt (InsDataset [d])] ++ write_artifact (next_tmp (fs s)) d v
          ++ [SqlStmt (InsLocation [d]); SqlStmt (InsRecords [d]); SqlCommit], None)
      else ([], None)
  | IngestCopy d =>
      match fget (Ext d) (fs s) with
      | Some (Complete v) =>
          if insert_ok b [d] then
            ([SqlBegin; SqlStmt (InsDataset [d])] ++ write_artifact (next_tmp (fs s)) d v
              ++ [SqlStmt (InsLocation [d]); SqlStmt (InsRecords [d]); SqlCommit], None)
          else ([], None)
      | _ => ([], None)
      end
  | IngestMove d =>
      match fget (Ext d) (fs s) with
      | Some (Complete v) =>
          if insert_ok b [d] then
            ([SqlBegin; SqlStmt (InsDataset [d]); FsRename (Ext d) (Final d);
              SqlStmt (InsLocation [d]); SqlStmt (InsRecords [d]); SqlCommit], None)
          else ([], None)
      | _ => ([], None)
      end
  | Transfer l =>
      match l with
      | [] => ([], None)
      | _ =>
        if insert_ok b l then
          ([SqlBegin; SqlStmt (InsDataset l)] ++ write_all (next_tmp (fs s)) src_value l
            ++ [SqlStmt (InsLocation l); SqlStmt (InsRecords l); SqlCommit], None)
        else ([], None)
      end
  | Prune l _ =>
      let t := inter l (d_ds b) in
      match t with
      | [] => ([], Some b)
      | _ =>
        let tl := inter t (d_loc b) in
        let q := [SqlStmt (DelLocation tl); SqlStmt (InsTrash tl); SqlStmt (DelDataset t)] in
        ([SqlBegin] ++ q ++ [SqlCommit], Some (fold_left (fun x y => apply_stmt y x) [DelLocation tl; InsTrash tl; DelDataset t] b))
      end
  | Unstore l _ =>
      let tl := inter (inter l (d_ds b)) (d_loc b) in
      match tl with
      | [] => ([], Some b)
      | _ =>
        ([SqlBegin; SqlStmt (DelLocation tl); SqlStmt (InsTrash tl); SqlCommit],
         Some (fold_left (fun x y => apply_stmt y x) [DelLocation tl; InsTrash tl] b))
      end
  | Trash l =>
      let tl := inter (inter l (d_ds b)) (d_loc b) in
      match tl with
      | [] => ([], None)
      | _ => ([SqlBegin; SqlStmt (DelLocation tl); SqlStmt (InsTrash tl); SqlCommit], None)
      end
  | RemoveRuns r _ =>
      if mem r (d_runs b) then
        let t := filter (fun d => run_of d =? r) (d_ds b) in
        let tl := inter t (d_loc b) in
        ([SqlBegin; SqlStmt (DelLocation tl); SqlStmt (InsTrash tl); SqlStmt (DelRun r); SqlCommit],
         Some (fold_left (fun x y => apply_stmt y x) [DelLocation tl; InsTrash tl; DelRun r] b))
      else ([], None)
  | EmptyTrash _ => ([], Some b)
  end.

Definition op_ord (o : op) : list N :=
  match o with Prune _ r | Unstore _ r | RemoveRuns _ r | EmptyTrash r => r | _ => [] end.

Definition plan (s : state) (o : op) : list step :=
  match plan_body s o with
  | (p, Some b') => p ++ plan_empty b' (op_ord o)
  | (p, None) => p
  end.

(* the same with the two-commit emptyTrash *)
Definition plan_two_commits (s : state) (o : op) : list step :=
  match plan_body s o with
  | (p, Some b') => p ++ plan_empty_two_commits b' (op_ord o)
  | (p, None) => p
  end.
Definition run_op_two_commits (s : state) (o : op) : state :=
  recover (run_steps (recover s) (plan_two_commits (recover s) o)).

Definition run_op (s : state) (o : op) : state := recover (run_steps (recover s) (plan (recover s) o)).
Definition run (s : state) (h : list op) : state := fold_left run_op h s.

(* initial repository of the harness world: both runs registered, nothing stored; staging files hold 100 + d *)
Definition ext_files (n : nat) : fsmap := map (fun d => (Ext d, Complete (100 + d))) (map N.of_nat (seq 0 n)).
Definition init : state := mkSt (mkDb [0; 1] [] [] [] []) None (ext_files 6).

(* ---------------------------------------------------------------- what a fresh Butler sees *)
Inductive got := GotValue (v : N) | GotCorrupt | GotMissing | NotStored.

Definition get (s : state) (d : N) : got :=
  if mem d (d_recs (cdb s)) then
    match fget (Final d) (fs s) with
    | Some (Complete v) => GotValue v
    | Some Partial => GotCorrupt
    | None => GotMissing
    end
  else NotStored.

Definition recorded (s : state) (d : N) : bool := mem d (d_ds (cdb s)).
Definition knows (s : state) (d : N) : bool := mem d (d_recs (cdb s)).
Definition artifact (s : state) (d : N) : bool :=
  knows s d && match fget (Final d) (fs s) with Some _ => true | None => false end.

(* the targets of an operation: the ids whose insertion / removal it is about *)
Definition is_target (s : state) (o : op) (d : N) : bool :=
  match o with
  | Put x _ | IngestCopy x | IngestMove x => d =? x
  | Transfer l | Prune l _ | Unstore l _ | Trash l => mem d l
  | RemoveRuns r _ => run_of d =? r
  | EmptyTrash _ => mem d (d_trash (cdb s))
  end.

Definition is_removal (o : op) : bool :=
  match o with Prune _ _ | Unstore _ _ | Trash _ | RemoveRuns _ _ | EmptyTrash _ => true | _ => false end.

Definition is_insert (o : op) : bool :=
  match o with Put _ _ | IngestCopy _ | IngestMove _ | Transfer _ => true | _ => false end.

(* the content an insertion stores for id d *)
Definition new_value (s : state) (o : op) (d : N) : option N :=
  match o with
  | Put _ v => Some v
  | IngestCopy x | IngestMove x => match fget (Ext x) (fs s) with Some (Complete v) => Some v | _ => None end
  | Transfer _ => Some (src_value d)
  | _ => None
  end.

(* ---------------------------------------------------------------- programs and crash histories *)
(* several operations performed one after another by one process (e.g. a loop of Butler.put): the plan of each is computed
   in the state its predecessors left; a crash may hit any step of the concatenation *)
Fixpoint plan_seq (s : state) (os : list op) : list step :=
  match os with
  | [] => []
  | o :: r => plan s o ++ plan_seq (run_steps s (plan s o)) r
  end.

(* a history whose members either complete or die at step k and are recovered by the next open *)
Inductive hop := Done (o : op) | Crashed (o : op) (k : nat).
Definition hop_op (h : hop) : op := match h with Done o | Crashed o _ => o end.
Definition run_hop (s : state) (h : hop) : state :=
  match h with
  | Done o => run_op s o
  | Crashed o k => crash (recover s) (plan (recover s) o) k
  end.
Definition runh (s : state) (hs : list hop) : state := fold_left run_hop hs s.

(* the ids an insertion is about; "fresh": none of them is the id of a deletion that is still pending.  Real dataset ids
   are new UUIDs, so a real insertion is always fresh; the model identifies id, slot and path, hence the explicit guard *)
Definition ins_ids (o : op) : list N :=
  match o with Put d _ | IngestCopy d | IngestMove d => [d] | Transfer l => l | _ => [] end.
Definition fresh_ins (s : state) (o : op) : bool := forallb (fun d => negb (mem d (d_trash (cdb s)))) (ins_ids o).
Fixpoint hist_fresh (s : state) (hs : list hop) : bool :=
  match hs with
  | [] => true
  | h :: r => fresh_ins s (hop_op h) && hist_fresh (run_hop s h) r
  end.

Definition put_of (dv : N * N) : op := Put (fst dv) (snd dv).
