(* C15 -- executable checkers for the correspondence check (tie K), HAND models of both query systems.
   The harness records what the implementation returned; these functions say whether the model agrees.
   *_table : the observable (truth table over all 3^n Kleene assignments)  -> breaks the tie
   *_shape : exact structure (operands / node lists / rebuilt tree)         -> structural drift only *)
From Coq Require Import NArith List Bool.
From V Require Import Base.Tri Model.Pred Model.NormalForm.
Import ListNotations.

Definition tris_eqb : list tri -> list tri -> bool := list_eqb tri_eqb.

(* --- new query system ------------------------------------------------------------------------------ *)
(* formula case: (n atoms, formula, observed table through the real visitor, observed operands) *)
(* the observed operands are present only when small and when the identity flags were observed *)
Definition pcase := (nat * form * list tri * option cnf)%type.
Definition chk_form_table (c : pcase) : bool :=
  let '(n, f, tv, _) := c in tris_eqb (table n (build f)) tv.
Definition chk_form_shape (c : pcase) : bool :=
  let '(_, f, _, ops) := c in match ops with Some o => cnf_eqb (build f) o | None => true end.
Definition chk_form_all (c : pcase) : bool := chk_form_table c && chk_form_shape c.

(* single n-ary operation on observed operands: op 0 = and, 1 = or, 2 = not *)
Definition scase := (nat * N * cnf * list (bool * cnf) * list tri * option cnf)%type.
Definition step_model (op : N) (self : cnf) (args : list (bool * cnf)) : cnf :=
  match op with
  | 0%N => p_and self args
  | 1%N => p_or self (map snd args)
  | _ => p_not self
  end.
Definition chk_step_table (c : scase) : bool :=
  let '(n, op, self, args, tv, _) := c in tris_eqb (table n (step_model op self args)) tv.
Definition chk_step_shape (c : scase) : bool :=
  let '(_, op, self, args, _, res) := c in
  match res with Some r => cnf_eqb (step_model op self args) r | None => true end.
Definition chk_step_all (c : scase) : bool := chk_step_table c && chk_step_shape c.

(* --- legacy query system --------------------------------------------------------------------------- *)
(* (n atoms, form (true = CNF), input tree, observed table of toTree(), observed _nodes, observed toTree()) *)
Definition ncase := (nat * bool * ltree * list tri * list (list ltree) * ltree)%type.
Definition NF_FUEL : nat := 3000.
Definition chk_nf_table (c : ncase) : bool :=
  let '(n, form, t, obs, _, _) := c in
  match from_tree NF_FUEL form t with
  | Some nodes => tris_eqb (ntable n form nodes) obs
                  && match to_tree form nodes with Some t' => tris_eqb (ltable n t') obs | None => false end
  | None => false
  end.
Definition chk_nf_shape (c : ncase) : bool :=
  let '(_, form, t, _, nodes, tree) := c in
  match from_tree NF_FUEL form t with
  | Some ns => list_eqb (list_eqb ltree_eqb) ns nodes
               && match to_tree form ns with Some t' => ltree_eqb t' tree | None => false end
  | None => false
  end.
Definition chk_nf_all (c : ncase) : bool := chk_nf_table c && chk_nf_shape c.
