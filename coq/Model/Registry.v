(* C02 -- executable model of the registry's collection/dataset/tag/summary tables (SQLite backend,
   one dimension group {instrument, detector}).  Faithful to
     registry/sql_registry.py  (registerRun, registerCollection, registerDatasetType, insertDatasets,
                                _importDatasets, associate, disassociate, removeDatasets, removeCollection)
     registry/datasets/byDimensions/_manager.py (insert, import_, _validate_import, associate, disassociate, delete)
     registry/datasets/byDimensions/tables.py   (tags table: PK (dataset_id, collection),
                                UNIQUE (dataset_type, collection, data id), FK dataset ON DELETE CASCADE,
                                FK collection ON DELETE CASCADE)
     registry/datasets/byDimensions/summaries.py (update = ensure rows, never shrunk except by cascade)
     registry/collections/_base.py (register returns the existing record whatever its type; remove)
   Names are small numbers: collection c, dataset type t, data id d, dataset id i (the harness keeps the
   bijection to names and UUIDs).  A data id d is valid when d < NDATA; its governor (instrument) is d / NDET.
   Every failing operation returns the SAME state and an error of the enum `err`.
   No proofs in this file. *)
From Coq Require Import NArith List Bool.
Import ListNotations.
Open Scope N_scope.

Inductive ctype := RUN | TAGGED.
Inductive err := Conflict | MissingCollection | MissingDatasetType | CollectionTypeErr | DataIdErr.
Inductive outcome := Ok | OkNew | Err (e : err).

(* tag row: collection, dataset type, data id, dataset id *)
Record row := Row { r_coll : N; r_type : N; r_data : N; r_id : N }.
(* dataset row: id, dataset type, run *)
Record dsrow := Ds { d_id : N; d_type : N; d_run : N }.
(* reference handed to import / associate / disassociate: id, type, data id *)
Record ref := Ref { f_id : N; f_type : N; f_data : N }.

Record state := St {
  colls : list (N * ctype);
  dtypes : list N;
  datasets : list dsrow;
  tags : list row;
  summ_t : list (N * N);      (* collection_summary_dataset_type: (collection, type) *)
  summ_g : list (N * N)       (* collection_summary_instrument:  (collection, governor) *)
}.

Definition init : state := St [] [] [] [] [] [].

Inductive op :=
| RegisterRun (c : N)
| RegisterTagged (c : N)
| RegisterType (t : N)
| Insert (t c : N) (items : list (N * N))        (* (data id, new dataset id) *)
| Import (c : N) (refs : list ref)
| Associate (c : N) (refs : list ref)
| Disassociate (c : N) (refs : list ref)
| RemoveDatasets (ids : list N)
| RemoveCollection (c : N).

Definition NDATA : N := 4.
Definition NDET : N := 2.
Definition valid_d (d : N) : bool := d <? NDATA.
Definition gov_of (d : N) : N := d / NDET.

(* ---- lookups ---------------------------------------------------------------------------- *)
Fixpoint coll_type_in (l : list (N * ctype)) (c : N) : option ctype :=
  match l with
  | [] => None
  | (c', k) :: r => if c' =? c then Some k else coll_type_in r c
  end.
Definition coll_type (s : state) (c : N) : option ctype := coll_type_in (colls s) c.
Definition memN (x : N) (l : list N) : bool := existsb (N.eqb x) l.
Definition has_type (s : state) (t : N) : bool := memN t (dtypes s).
Fixpoint ds_find (l : list dsrow) (i : N) : option dsrow :=
  match l with
  | [] => None
  | x :: r => if d_id x =? i then Some x else ds_find r i
  end.
Definition alive (s : state) (i : N) : bool := match ds_find (datasets s) i with Some _ => true | None => false end.
Definition run_of (s : state) (i : N) : option N := option_map d_run (ds_find (datasets s) i).

Definition pair_eqb (a b : N * N) : bool := (fst a =? fst b) && (snd a =? snd b).
Definition mem2 (x : N * N) (l : list (N * N)) : bool := existsb (pair_eqb x) l.
Definition add2 (x : N * N) (l : list (N * N)) : list (N * N) := if mem2 x l then l else x :: l.

(* ---- constraints of the tags table -------------------------------------------------------- *)
Definition pk_eq (a b : row) : bool := (r_id a =? r_id b) && (r_coll a =? r_coll b).
Definition uk_eq (a b : row) : bool := (r_coll a =? r_coll b) && (r_type a =? r_type b) && (r_data a =? r_data b).

(* INSERT: refused when the primary key or the unique key is already there *)
Definition tag_insert (tg : list row) (r : row) : option (list row) :=
  if existsb (fun x => pk_eq r x || uk_eq r x) tg then None else Some (r :: tg).
(* INSERT ... ON CONFLICT (primary key) DO UPDATE: the row with the same primary key is replaced; the unique
   key of any OTHER row still refuses *)
Definition tag_upsert (tg : list row) (r : row) : option (list row) :=
  let rest := filter (fun x => negb (pk_eq r x)) tg in
  if existsb (uk_eq r) rest then None else Some (r :: rest).

Fixpoint fold_opt {A B} (f : A -> B -> option A) (a : A) (l : list B) : option A :=
  match l with
  | [] => Some a
  | x :: r => match f a x with None => None | Some a' => fold_opt f a' r end
  end.

Definition ds_insert (ds : list dsrow) (x : dsrow) : option (list dsrow) :=
  match ds_find ds (d_id x) with Some _ => None | None => Some (x :: ds) end.

(* summaries.update: ensure (collection, type) and (collection, governor) rows *)
Definition summ_add_rows (c : N) (rows : list row) (st : list (N * N)) : list (N * N) :=
  fold_left (fun acc r => add2 (c, r_type r) acc) rows st.
Definition summ_add_govs (c : N) (rows : list row) (sg : list (N * N)) : list (N * N) :=
  fold_left (fun acc r => add2 (c, gov_of (r_data r)) acc) rows sg.

(* ---- operations ------------------------------------------------------------------------------ *)
Definition do_register (s : state) (c : N) (k : ctype) : state * outcome :=
  match coll_type s c with
  | Some _ => (s, Ok)      (* existing record returned whatever its type: no error, no change *)
  | None => (St ((c, k) :: colls s) (dtypes s) (datasets s) (tags s) (summ_t s) (summ_g s), OkNew)
  end.

Definition do_register_type (s : state) (t : N) : state * outcome :=
  if has_type s t then (s, Ok)
  else (St (colls s) (t :: dtypes s) (datasets s) (tags s) (summ_t s) (summ_g s), OkNew).

Definition do_insert (s : state) (t c : N) (items : list (N * N)) : state * outcome :=
  if negb (has_type s t) then (s, Err MissingDatasetType) else
  match coll_type s c with
  | None => (s, Err MissingCollection)
  | Some TAGGED => (s, Err CollectionTypeErr)
  | Some RUN =>
    if negb (forallb (fun it => valid_d (fst it)) items) then (s, Err DataIdErr) else
    match items with
    | [] => (s, Ok)
    | _ =>
      let rows := map (fun it => Row c t (fst it) (snd it)) items in
      match fold_opt ds_insert (datasets s) (map (fun it => Ds (snd it) t c) items) with
      | None => (s, Err Conflict)
      | Some ds' =>
        match fold_opt tag_insert (tags s) rows with
        | None => (s, Err Conflict)
        | Some tg' => (St (colls s) (dtypes s) ds' tg' (summ_add_rows c rows (summ_t s)) (summ_add_govs c rows (summ_g s)), Ok)
        end
      end
    end
  end.

Definition ref_row (c : N) (f : ref) : row := Row c (f_type f) (f_data f) (f_id f).

(* _validate_import: the three queries *)
Definition imp_bad_def (s : state) (c : N) (f : ref) : bool :=
  match ds_find (datasets s) (f_id f) with
  | Some x => negb (d_type x =? f_type f) || negb (d_run x =? c)
  | None => false
  end.
Definition imp_bad_dataid (s : state) (f : ref) : bool :=
  existsb (fun x => (r_id x =? f_id f) && (negb (r_type x =? f_type f) || negb (r_data x =? f_data f))) (tags s).
Definition imp_bad_key (s : state) (c : N) (f : ref) : bool :=
  existsb (fun x => (r_type x =? f_type f) && (r_coll x =? c) && (r_data x =? f_data f) && negb (r_id x =? f_id f)) (tags s).

Definition do_import (s : state) (c : N) (refs : list ref) : state * outcome :=
  match refs with
  | [] => (s, Ok)
  | _ =>
    match coll_type s c with
    | None => (s, Err MissingCollection)
    | Some TAGGED => (s, Err CollectionTypeErr)
    | Some RUN =>
      if negb (forallb (fun f => valid_d (f_data f)) refs) then (s, Err DataIdErr) else
      if negb (forallb (fun f => has_type s (f_type f)) refs) then (s, Err MissingDatasetType) else
      let rows := map (ref_row c) refs in
      (* the temporary table carries the same PK and UNIQUE constraints *)
      match fold_opt tag_insert [] rows with
      | None => (s, Err Conflict)
      | Some _ =>
        if existsb (imp_bad_def s c) refs then (s, Err Conflict) else
        if existsb (imp_bad_dataid s) refs then (s, Err Conflict) else
        if existsb (imp_bad_key s c) refs then (s, Err Conflict) else
        let fresh := filter (fun f => negb (alive s (f_id f))) refs in
        match fold_opt ds_insert (datasets s) (map (fun f => Ds (f_id f) (f_type f) c) fresh) with
        | None => (s, Err Conflict)
        | Some ds' =>
          match fold_opt tag_insert (tags s) (map (ref_row c) fresh) with
          | None => (s, Err Conflict)
          | Some tg' => (St (colls s) (dtypes s) ds' tg' (summ_add_rows c rows (summ_t s)) (summ_add_govs c rows (summ_g s)), Ok)
          end
        end
      end
    end
  end.

(* DatasetRef.groupByType: dataset types in order of first occurrence *)
Fixpoint types_in_order (refs : list ref) (seen : list N) : list N :=
  match refs with
  | [] => []
  | f :: r => if memN (f_type f) seen then types_in_order r seen else f_type f :: types_in_order r (f_type f :: seen)
  end.
Definition group (refs : list ref) (t : N) : list ref := filter (fun f => f_type f =? t) refs.

(* one manager.associate call (one dataset type): rows upserted one after another; the dataset foreign key
   refuses ids that are not alive *)
Definition assoc_row (s : state) (c : N) (tg : list row) (f : ref) : option (list row) :=
  if alive s (f_id f) then tag_upsert tg (ref_row c f) else None.

Fixpoint assoc_groups (s : state) (c : N) (k : ctype) (refs : list ref) (ts : list N)
         (acc : list row * list (N * N) * list (N * N)) : (list row * list (N * N) * list (N * N)) + err :=
  match ts with
  | [] => inl acc
  | t :: r =>
    if negb (has_type s t) then inr MissingDatasetType else
    match k with
    | RUN => inr CollectionTypeErr
    | TAGGED =>
      let '(tg, st, sg) := acc in
      let g := group refs t in
      match fold_opt (assoc_row s c) tg g with
      | None => inr Conflict
      | Some tg' => assoc_groups s c k refs r (tg', summ_add_rows c (map (ref_row c) g) st, summ_add_govs c (map (ref_row c) g) sg)
      end
    end
  end.

Definition do_associate (s : state) (c : N) (refs : list ref) : state * outcome :=
  match coll_type s c with
  | None => (s, Err MissingCollection)
  | Some k =>
    match assoc_groups s c k refs (types_in_order refs []) (tags s, summ_t s, summ_g s) with
    | inr e => (s, Err e)
    | inl (tg, st, sg) =>
      match refs with
      | [] => (s, Ok)
      | _ => (St (colls s) (dtypes s) (datasets s) tg st sg, Ok)
      end
    end
  end.

Fixpoint disassoc_groups (s : state) (c : N) (k : ctype) (refs : list ref) (ts : list N) (tg : list row) : list row + err :=
  match ts with
  | [] => inl tg
  | t :: r =>
    if negb (has_type s t) then inr MissingDatasetType else
    match k with
    | RUN => inr CollectionTypeErr
    | TAGGED =>
      let g := group refs t in
      disassoc_groups s c k refs r (filter (fun x => negb ((r_coll x =? c) && existsb (fun f => f_id f =? r_id x) g)) tg)
    end
  end.

Definition do_disassociate (s : state) (c : N) (refs : list ref) : state * outcome :=
  match coll_type s c with
  | None => (s, Err MissingCollection)
  | Some k =>
    match disassoc_groups s c k refs (types_in_order refs []) (tags s) with
    | inr e => (s, Err e)
    | inl tg =>
      match refs with
      | [] => (s, Ok)
      | _ => (St (colls s) (dtypes s) (datasets s) tg (summ_t s) (summ_g s), Ok)
      end
    end
  end.

(* DELETE FROM dataset WHERE id IN (...); tags rows go by ON DELETE CASCADE; unknown ids are ignored *)
Definition do_remove_datasets (s : state) (ids : list N) : state * outcome :=
  match ids with
  | [] => (s, Ok)
  | _ =>
    (St (colls s) (dtypes s)
        (filter (fun x => negb (memN (d_id x) ids)) (datasets s))
        (filter (fun x => negb (memN (r_id x) ids)) (tags s))
        (summ_t s) (summ_g s), Ok)
  end.

(* DELETE FROM collection: cascades to run -> dataset -> tags, to tags (collection FK) and to the summaries *)
Definition do_remove_collection (s : state) (c : N) : state * outcome :=
  match coll_type s c with
  | None => (s, Err MissingCollection)
  | Some _ =>
    let gone := fun i => match ds_find (datasets s) i with Some x => d_run x =? c | None => false end in
    (St (filter (fun p => negb (fst p =? c)) (colls s)) (dtypes s)
        (filter (fun x => negb (d_run x =? c)) (datasets s))
        (filter (fun x => negb ((r_coll x =? c) || gone (r_id x))) (tags s))
        (filter (fun p => negb (fst p =? c)) (summ_t s))
        (filter (fun p => negb (fst p =? c)) (summ_g s)), Ok)
  end.

Definition step (s : state) (o : op) : state * outcome :=
  match o with
  | RegisterRun c => do_register s c RUN
  | RegisterTagged c => do_register s c TAGGED
  | RegisterType t => do_register_type s t
  | Insert t c items => do_insert s t c items
  | Import c refs => do_import s c refs
  | Associate c refs => do_associate s c refs
  | Disassociate c refs => do_disassociate s c refs
  | RemoveDatasets ids => do_remove_datasets s ids
  | RemoveCollection c => do_remove_collection s c
  end.

Definition exec (s : state) (o : op) : state := fst (step s o).
Definition run (h : list op) : state := fold_left exec h init.

(* ---- queries --------------------------------------------------------------------------------- *)
(* contents of collection c for dataset type t: (data id, dataset id) *)
Definition contents (s : state) (c t : N) : list (N * N) :=
  map (fun x => (r_data x, r_id x)) (filter (fun x => (r_coll x =? c) && (r_type x =? t)) (tags s)).
Definition find (s : state) (c t d : N) : option N :=
  match filter (fun x => (r_coll x =? c) && (r_type x =? t) && (r_data x =? d)) (tags s) with
  | [] => None
  | x :: _ => Some (r_id x)
  end.
(* query restricted to governor g, unpruned and with the summary pruning of the query system *)
Definition query_all (s : state) (c t g : N) : list (N * N) :=
  filter (fun p => gov_of (fst p) =? g) (contents s c t).
Definition query_with_summaries (s : state) (c t g : N) : list (N * N) :=
  if mem2 (c, t) (summ_t s) && mem2 (c, g) (summ_g s) then query_all s c t g else [].
